import EraVerif.Proofs.MuxLock

namespace EraVerif.Proofs.Mux
open EraVerif.Model.Mux EraVerif.Gen.MuxConst

/-! ### application slots -/

structure SInv (s : State) : Prop where
  sl : ∀ x k r w, s.slots x = .held k r w →
        (r = true → (s.st k).readHeld = true) ∧ (w = true → (s.st k).writeHeld = true)
  uniq : ∀ x y k r w r' w', s.slots x = .held k r w → s.slots y = .held k r' w' → x ≠ y →
        ¬((r || w) = true ∧ (r' || w') = true)
  valid : ∀ x k r w, s.slots x = .held k r w → k.valid s = true

theorem LInv.toS {s : State} (h : LInv s) : SInv s := ⟨h.sl, h.uniq, h.valid⟩

def hfSame (t t' : StreamSt) : Prop := t'.readHeld = t.readHeld ∧ t'.writeHeld = t.writeHeld

theorem hfSame_refl (t : StreamSt) : hfSame t t := ⟨rfl, rfl⟩

theorem hfSame_ite {t : Key → StreamSt} {k k' : Key} {v : StreamSt} (h : hfSame (t k) v) :
    hfSame (t k') (if k' = k then v else t k') := by
  by_cases hk : k' = k
  · subst hk; simpa using h
  · simp [hk, hfSame_refl]

theorem SInv_of_same {s s' : State} (h1 : s'.slots = s.slots) (h2 : s'.nAcc = s.nAcc) (h3 : s'.nCon = s.nCon)
    (h4 : ∀ k, hfSame (s.st k) (s'.st k)) (hi : SInv s) : SInv s' := by
  obtain ⟨sl, uniq, valid⟩ := hi
  constructor
  · intro x k r w hx
    rw [h1] at hx
    rw [(h4 k).1, (h4 k).2]
    exact sl x k r w hx
  · intro x y k r w r' w' hx hy
    rw [h1] at hx hy
    exact uniq x y k r w r' w' hx hy
  · intro x k r w hx
    rw [h1] at hx
    have := valid x k r w hx
    unfold Key.valid at this ⊢
    rw [h2, h3]; exact this

macro "hfsame" : tactic =>
  `(tactic| (intro k'; red; try simp only [if_true, ↓reduceIte, ite_ite_same];
             first | exact hfSame_refl _ | (refine hfSame_ite ?_; simp_all [hfSame]; done)))

theorem SInv_stepPump {s s' : State}  (hi : SInv s) (h : stepPump s  = some s') : SInv s' := by
  unfold stepPump at h
  leaves h
  all_goals (subst h; refine SInv_of_same (s := s) rfl rfl rfl ?_ hi; hfsame)

theorem SInv_stepRecvOpenStart {s s' : State} {k : Key} (hi : SInv s) (h : stepRecvOpenStart s k = some s') : SInv s' := by
  unfold stepRecvOpenStart at h
  leaves h
  all_goals (subst h; refine SInv_of_same (s := s) rfl rfl rfl ?_ hi; hfsame)

theorem SInv_stepDiscard {s s' : State} {k : Key} (hi : SInv s) (h : stepDiscard s k = some s') : SInv s' := by
  unfold stepDiscard at h
  leaves h
  all_goals (subst h; refine SInv_of_same (s := s) rfl rfl rfl ?_ hi; hfsame)

theorem SInv_stepCloseData {s s' : State} {k : Key} (hi : SInv s) (h : stepCloseData s k = some s') : SInv s' := by
  unfold stepCloseData at h
  leaves h
  all_goals (subst h; refine SInv_of_same (s := s) rfl rfl rfl ?_ hi; hfsame)

theorem SInv_stepCloseFrame {s s' : State} {k : Key} (hi : SInv s) (h : stepCloseFrame s k = some s') : SInv s' := by
  unfold stepCloseFrame at h
  leaves h
  all_goals (subst h; refine SInv_of_same (s := s) rfl rfl rfl ?_ hi; hfsame)

theorem SInv_stepJoinedA {s s' : State} {k : Key} (hi : SInv s) (h : stepJoinedA s k = some s') : SInv s' := by
  unfold stepJoinedA at h
  leaves h
  all_goals (subst h; refine SInv_of_same (s := s) rfl rfl rfl ?_ hi; hfsame)

theorem SInv_stepPush {s s' : State} {k : Key} (hi : SInv s) (h : stepPush s k = some s') : SInv s' := by
  unfold stepPush at h
  leaves h
  all_goals (subst h; refine SInv_of_same (s := s) rfl rfl rfl ?_ hi; hfsame)

theorem SInv_stepPop {s s' : State} {conn : Bool} {cap : Nat} (hi : SInv s) (h : stepPop s conn cap = some s') : SInv s' := by
  unfold stepPop at h
  leaves h
  all_goals (subst h; refine SInv_of_same (s := s) rfl rfl rfl ?_ hi; hfsame)

theorem SInv_stepWTake {s s' : State}  (hi : SInv s) (h : stepWTake s  = some s') : SInv s' := by
  unfold stepWTake at h
  leaves h
  all_goals (subst h; refine SInv_of_same (s := s) rfl rfl rfl ?_ hi; hfsame)

theorem SInv_stepWDo {s s' : State}  (hi : SInv s) (h : stepWDo s  = some s') : SInv s' := by
  unfold stepWDo at h
  leaves h
  all_goals (subst h; refine SInv_of_same (s := s) rfl rfl rfl ?_ hi; hfsame)

theorem SInv_stepWBlock {s s' : State}  (hi : SInv s) (h : stepWBlock s  = some s') : SInv s' := by
  unfold stepWBlock at h
  leaves h
  all_goals (subst h; refine SInv_of_same (s := s) rfl rfl rfl ?_ hi; hfsame)

theorem SInv_stepFlushStep {s s' : State} {k : Key} (hi : SInv s) (h : stepFlushStep s k = some s') : SInv s' := by
  unfold stepFlushStep at h
  leaves h
  all_goals (subst h; refine SInv_of_same (s := s) rfl rfl rfl ?_ hi; hfsame)

theorem SInv_stepCancelWrite {s s' : State} {k : Key} (hi : SInv s) (h : stepCancelWrite s k = some s') : SInv s' := by
  unfold stepCancelWrite StreamSt.endWrite at h
  leaves h
  all_goals (subst h; refine SInv_of_same (s := s) rfl rfl rfl ?_ hi; hfsame)

theorem SInv_stepCancelFlush {s s' : State} {k : Key} (hi : SInv s) (h : stepCancelFlush s k = some s') : SInv s' := by
  unfold stepCancelFlush at h
  leaves h
  all_goals (subst h; refine SInv_of_same (s := s) rfl rfl rfl ?_ hi; hfsame)

theorem SInv_stepDoFlush {s s' : State}  (hi : SInv s) (h : stepDoFlush s  = some s') : SInv s' := by
  unfold stepDoFlush at h
  leaves h
  all_goals (subst h; refine SInv_of_same (s := s) rfl rfl rfl ?_ hi; hfsame)

theorem SInv_stepAppRead {s s' : State} {slot n : Nat} (hi : SInv s) (h : stepAppRead s slot n = some s') : SInv s' := by
  unfold stepAppRead at h
  leaves h
  all_goals (subst h; refine SInv_of_same (s := s) rfl rfl rfl ?_ hi; hfsame)

set_option maxHeartbeats 2000000 in
theorem SInv_stepReadStep {s s' : State} {k : Key} (hi : SInv s) (h : stepReadStep s k = some s') : SInv s' := by
  unfold stepReadStep readFrame at h
  leaves h
  all_goals (subst h; refine SInv_of_same (s := s) rfl rfl rfl ?_ hi; hfsame)

theorem SInv_stepAppWrite {s s' : State} {slot : Nat} {bytes : List Nat} (hi : SInv s) (h : stepAppWrite s slot bytes = some s') : SInv s' := by
  unfold stepAppWrite at h
  leaves h
  all_goals (subst h; refine SInv_of_same (s := s) rfl rfl rfl ?_ hi; hfsame)

theorem SInv_stepWriteStep {s s' : State} {k : Key} (hi : SInv s) (h : stepWriteStep s k = some s') : SInv s' := by
  unfold stepWriteStep StreamSt.endWrite at h
  leaves h
  all_goals (subst h; refine SInv_of_same (s := s) rfl rfl rfl ?_ hi; hfsame)

theorem SInv_stepAppFlush {s s' : State} {slot : Nat} (hi : SInv s) (h : stepAppFlush s slot = some s') : SInv s' := by
  unfold stepAppFlush at h
  leaves h
  all_goals (subst h; refine SInv_of_same (s := s) rfl rfl rfl ?_ hi; hfsame)


/-- hand-over to slot `x`: nobody holds a half of stream `k` at that moment -/
theorem SInv_handover {s : State} {k : Key} {x : Nat} (hi : SInv s) (hv : k.valid s = true)
    (hr : (s.st k).readHeld = false) (hw : (s.st k).writeHeld = false) : SInv (handover s k x) := by
  obtain ⟨sl, uniq, valid⟩ := hi
  have hno : ∀ y r w, s.slots y = .held k r w → r = false ∧ w = false := by
    intro y r w hy
    obtain ⟨a, b⟩ := sl y k r w hy
    constructor
    · cases r with
      | false => rfl
      | true => have := a rfl; rw [hr] at this; cases this
    · cases w with
      | false => rfl
      | true => have := b rfl; rw [hw] at this; cases this
  constructor
  · intro y k' r w hy
    red
    by_cases hyx : y = x
    · subst hyx
      simp only [if_true] at hy
      injection hy with e1 e2 e3
      subst e1 e2 e3
      simp
    · simp only [hyx, if_false] at hy
      by_cases hk : k' = k
      · subst hk
        obtain ⟨a, b⟩ := hno y r w hy
        subst a b
        simp
      · simp only [hk, if_false]
        exact sl y k' r w hy
  · intro y z k' r w r' w' hy hz hne
    red
    by_cases hyx : y = x
    · subst hyx
      have hzx : z ≠ y := fun e => hne e.symm
      simp only [if_true] at hy
      simp only [hzx, if_false] at hz
      injection hy with e1 e2 e3
      subst e1
      obtain ⟨a, b⟩ := hno z r' w' hz
      subst a b
      simp
    · simp only [hyx, if_false] at hy
      by_cases hzx : z = x
      · subst hzx
        simp only [if_true] at hz
        injection hz with e1 e2 e3
        subst e1
        obtain ⟨a, b⟩ := hno y r w hy
        subst a b
        simp
      · simp only [hzx, if_false] at hz
        exact uniq y z k' r w r' w' hy hz hne
  · intro y k' r w hy
    red
    by_cases hyx : y = x
    · subst hyx
      simp only [if_true] at hy
      injection hy with e1 e2 e3
      subst e1
      exact hv
    · simp only [hyx, if_false] at hy
      exact valid y k' r w hy


theorem SInv_stepSendOpen {s s' : State} {k : Key} (hi : LInv s) (h : stepSendOpen s k = some s') : SInv s' := by
  unfold stepSendOpen at h
  have hS := hi.toS
  leaves h
  · subst h; refine SInv_of_same (s := s) rfl rfl rfl ?_ hS; hfsame
  · rename_i hg hc _ slot hm
    have hv : k.valid s = true := by simp_all
    have hcf : k.conn = false := by simpa using hc
    have hrp : (s.st k).rphase = .done := hi.d5 k hcf (Or.inr (Or.inr ⟨slot, hm⟩))
    have hrd : (s.st k).readHeld = false := hi.d2 k (by rw [hrp]; decide)
    have hwr : (s.st k).writeHeld = false := hi.d1 k (by rw [hm]; simp)
    subst h
    apply SInv_handover
    · refine SInv_of_same (s := s) rfl rfl rfl ?_ hS; hfsame
    · red;  exact hv
    · red; simpa using hrd
    · red; simpa using hwr

theorem SInv_stepJoinedC {s s' : State} {k : Key} (hi : LInv s) (h : stepJoinedC s k = some s') : SInv s' := by
  unfold stepJoinedC at h
  leaves h
  rename_i hg _ slot hm
  have hv : k.valid s = true := by simp_all
  have hrp : (s.st k).rphase = .done := by simp_all
  have hrd : (s.st k).readHeld = false := hi.d2 k (by rw [hrp]; decide)
  have hwr : (s.st k).writeHeld = false := hi.d1 k (by rw [hm]; simp)
  subst h
  exact SInv_handover hi.toS hv hrd hwr

theorem SInv_stepAppOpen {s s' : State} {slot : Nat} {conn : Bool} {cap : Nat} (hi : SInv s)
    (h : stepAppOpen s slot conn cap = some s') : SInv s' := by
  unfold stepAppOpen at h
  obtain ⟨sl, uniq, valid⟩ := hi
  leaves h
  subst h
  have hold : ∀ y k r w, (if y = slot then Slot.waiting conn cap else s.slots y) = .held k r w → s.slots y = .held k r w := by
    intro y k r w hy
    by_cases e : y = slot
    · simp [e] at hy
    · simpa [e] using hy
  constructor
  · intro y k r w hy; red; exact sl y k r w (hold y k r w hy)
  · intro y z k r w r' w' hy hz; red; exact uniq y z k r w r' w' (hold _ _ _ _ hy) (hold _ _ _ _ hz)
  · intro y k r w hy; red; exact valid y k r w (hold y k r w hy)


theorem SInv_stepAppDrop {s s' : State} {slot : Nat} {r w : Bool} (hi : SInv s)
    (h : stepAppDrop s slot r w = some s') : SInv s' := by
  unfold stepAppDrop at h
  obtain ⟨sl, uniq, valid⟩ := hi
  split at h
  · rename_i k hr hw hs
    by_cases hg : (r && hr && (s.st k).pendR.isSome || w && hw && ((s.st k).pendW.isSome || (s.st k).pendF.isSome)) = true
    · rw [if_pos hg] at h; cases h
    · rw [if_neg hg] at h
      simp only [Option.some.injEq] at h
      subst h
      have hold : ∀ y k' r1 w1,
          (if y = slot then Slot.held k (hr && !r) (hw && !w) else s.slots y) = .held k' r1 w1 →
          ∃ r0 w0, s.slots y = .held k' r0 w0 ∧ (r1 = true → r0 = true) ∧ (w1 = true → w0 = true) ∧
            (y = slot → k' = k ∧ r1 = (hr && !r) ∧ w1 = (hw && !w) ∧ r0 = hr ∧ w0 = hw) := by
        intro y k' r1 w1 hy
        by_cases e : y = slot
        · subst e
          simp only [if_true] at hy
          injection hy with e1 e2 e3
          subst e1 e2 e3
          exact ⟨hr, hw, hs, by simp; intro a _; exact a, by simp; intro a _; exact a, fun _ => ⟨rfl, rfl, rfl, rfl, rfl⟩⟩
        · simp only [e, if_false] at hy
          exact ⟨r1, w1, hy, id, id, fun e' => absurd e' e⟩
      constructor
      · intro y k' r1 w1 hy
        red
        obtain ⟨r0, w0, h0, hr0, hw0, hsl⟩ := hold y k' r1 w1 hy
        obtain ⟨a, b⟩ := sl y k' r0 w0 h0
        try red
        by_cases hk : k' = k
        · subst hk
          simp only [if_true]
          by_cases e : y = slot
          · obtain ⟨_, e1, e2, e3, e4⟩ := hsl e
            subst e1 e2 e3 e4
            constructor
            · intro h1; simp at h1; simp [h1]; exact a h1.1
            · intro h1; simp at h1; simp [h1]; exact b h1.1
          · have hne : slot ≠ y := fun e' => e e'.symm
            have hu := uniq slot y k' hr hw r0 w0 hs h0 hne
            constructor
            · intro h1
              have : ¬ ((r && hr) = true) := by
                intro h2; simp at h2; apply hu; simp [h2.2, hr0 h1]
              simp [this]; exact a (hr0 h1)
            · intro h1
              have : ¬ ((w && hw) = true) := by
                intro h2; simp at h2; apply hu; simp [h2.2, hw0 h1]
              simp [this]; exact b (hw0 h1)
        · simp only [hk, if_false]
          exact ⟨fun h1 => a (hr0 h1), fun h1 => b (hw0 h1)⟩
      · intro y z k' r1 w1 r2 w2 hy hz hne
        red
        obtain ⟨r0, w0, h0, hr0, hw0, _⟩ := hold y k' r1 w1 hy
        obtain ⟨r0', w0', h0', hr0', hw0', _⟩ := hold z k' r2 w2 hz
        have hu := uniq y z k' r0 w0 r0' w0' h0 h0' hne
        intro hc
        apply hu
        constructor
        · rcases Bool.or_eq_true _ _ ▸ hc.1 with h1 | h1
          · simp [hr0 h1]
          · simp [hw0 h1]
        · rcases Bool.or_eq_true _ _ ▸ hc.2 with h1 | h1
          · simp [hr0' h1]
          · simp [hw0' h1]
      · intro y k' r1 w1 hy
        red
        obtain ⟨r0, w0, h0, _⟩ := hold y k' r1 w1 hy
        have := valid y k' r0 w0 h0
        (try red); exact this
  · cases h


theorem SInv_step {s s' : State} {e : Event} (hi : LInv s) (h : step? s e = some s') : SInv s' := by
  have hS := hi.toS
  cases e <;> simp only [step?] at h
  case wireIn f => cases h; exact SInv_of_same (s := s) rfl rfl rfl (fun k => hfSame_refl _) hS
  case wireEof => cases h; exact SInv_of_same (s := s) rfl rfl rfl (fun k => hfSame_refl _) hS
  case pump => exact SInv_stepPump hS h
  case recvOpenStart k => exact SInv_stepRecvOpenStart hS h
  case discard k => exact SInv_stepDiscard hS h
  case closeData k => exact SInv_stepCloseData hS h
  case closeFrame k => exact SInv_stepCloseFrame hS h
  case joinedA k => exact SInv_stepJoinedA hS h
  case push k => exact SInv_stepPush hS h
  case pop c x => exact SInv_stepPop hS h
  case sendOpen k => exact SInv_stepSendOpen hi h
  case joinedC k => exact SInv_stepJoinedC hi h
  case doFlush => exact SInv_stepDoFlush hS h
  case appOpen a b c => exact SInv_stepAppOpen hS h
  case appRead a b => exact SInv_stepAppRead hS h
  case readStep k => exact SInv_stepReadStep hS h
  case appWrite a b => exact SInv_stepAppWrite hS h
  case writeStep k => exact SInv_stepWriteStep hS h
  case appFlush a => exact SInv_stepAppFlush hS h
  case appDrop a b c => exact SInv_stepAppDrop hS h
  case wtake => exact SInv_stepWTake hS h
  case wdo => exact SInv_stepWDo hS h
  case wblock => exact SInv_stepWBlock hS h
  case txWindow l => cases h; exact SInv_of_same (s := s) rfl rfl rfl (fun k => hfSame_refl _) hS
  case flushStep k => exact SInv_stepFlushStep hS h
  case cancelWrite k => exact SInv_stepCancelWrite hS h
  case cancelFlush k => exact SInv_stepCancelFlush hS h

theorem LInv_step {s s' : State} {e : Event} (hi : LInv s) (h : step? s e = some s') : LInv s' := by
  obtain ⟨d1, d2, pr, pw, d5⟩ := LInvA_step hi h
  obtain ⟨q, qnd⟩ := QInv_step hi.toQ h
  obtain ⟨sl, uniq, valid⟩ := SInv_step hi h
  exact ⟨d1, d2, pr, pw, d5, q, qnd, sl, uniq, valid⟩

theorem LInv_reachable {s : State} (h : Reachable s) : LInv s :=
  reachable_inv (P := LInv) LInv_init (fun _ _ _ hi hs => LInv_step hi hs) h

end EraVerif.Proofs.Mux
