import EraVerif.Model.Consensus
import EraVerif.Proofs.Certs
import EraVerif.Proofs.LayerP

/-!
# From the code-level decision functions (Layer I) to the protocol-level relations (Layer P)

`absTQC` abstracts a code-level `TimeoutQC` (groups of signers with a common `ReplicaTimeout`) to the protocol-level
`TQC` (a signer set and one report per signer) over the validator type `Fin c.n` with weights `c.weights`.
The theorem `implied_refines` (Props/C02d) states that what `ProposalJustification::get_implied_block` computes on a
verified timeout certificate satisfies the relational specification `Implied` of the safety proof.
-/

namespace EraVerif.Refine
open EraVerif.Model EraVerif.Safety

/-- weight function of the committee on `Fin c.n` -/
def wF (c : Committee) (i : Fin c.n) : ℕ := c.weights[i.val]'(by have := i.isLt; simpa [Committee.n] using this)

def refOfVote (v : Vote) : Ref := ⟨v.view.number, v.proposal.number, v.proposal.payload⟩
def refOfQC (q : CommitQC) : Ref := refOfVote q.message

/-- the (first) group of the certificate whose bitmap contains validator `i` -/
def groupOf (q : TimeoutQC) (i : Nat) : Option TVote := (q.map.find? (fun e => e.2.getD i false)).map (·.1)

def repOf (q : TimeoutQC) (i : Nat) : Rep :=
  match groupOf q i with
  | some t => ⟨t.highVote.map refOfVote, t.highQC.map refOfQC⟩
  | none => ⟨none, none⟩

/-- protocol-level view of a code-level timeout certificate -/
def absTQC (c : Committee) (q : TimeoutQC) : TQC (Fin c.n) :=
  { view := q.view.number
    signers := Finset.univ.filter (fun i => (groupOf q i.val).isSome)
    rep := fun i => repOf q i.val }

end EraVerif.Refine
