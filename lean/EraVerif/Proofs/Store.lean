import EraVerif.Model.Store

/-!
# Helper lemmas for C08: invariants of `BlockStore` and of the manager LTS (`Model/Store.lean`)
Core Lean only (no Mathlib).
-/

namespace EraVerif.Proofs.Store
open EraVerif.Model.Store
open EraVerif.Gen.StoreConst

/-! ## Ranges -/

theorem contains_iff (r : Range) (n : Nat) :
    r.contains n = true ↔ ∃ l, r.last = some l ∧ r.first ≤ n ∧ n ≤ l := by
  unfold Range.contains
  cases h : r.last <;> simp

theorem contains_lt_next (r : Range) (n : Nat) (h : r.contains n = true) : n < r.next := by
  obtain ⟨l, hl, _, h2⟩ := (contains_iff r n).mp h
  simp [Range.next, hl]; omega

/-! ## Consecutively numbered lists ending right before `nxt` -/

/-- the blocks of `l` are numbered `nxt - l.length, …, nxt - 1` in this order -/
def Contig (l : List Block) (nxt : Nat) : Prop :=
  ∀ (i : Nat) (h : i < l.length), l[i].num + (l.length - i) = nxt

theorem contig_nil (n : Nat) : Contig [] n := by
  intro i h; simp at h

theorem contig_tail {x : Block} {rest : List Block} {n : Nat} (h : Contig (x :: rest) n) : Contig rest n := by
  intro i hi
  have := h (i + 1) (by simp; omega)
  simp at this
  omega

theorem contig_snoc {l : List Block} {b : Block} (h : Contig l b.num) : Contig (l ++ [b]) (b.num + 1) := by
  intro i hi
  simp at hi
  by_cases hlt : i < l.length
  · have := h i hlt
    simp [List.getElem_append_left hlt]
    omega
  · have : i = l.length := by omega
    subst this
    simp

theorem contig_head_num {x : Block} {rest : List Block} {n : Nat} (h : Contig (x :: rest) n) :
    x.num + (rest.length + 1) = n := by
  have := h 0 (by simp)
  simpa using this

theorem contig_len_le {l : List Block} {n : Nat} (h : Contig l n) : l.length ≤ n := by
  cases l with
  | nil => simp
  | cons x rest => have := contig_head_num h; simp; omega

theorem contig_mem_lt {l : List Block} {n : Nat} (h : Contig l n) {b : Block} (hb : b ∈ l) : b.num < n := by
  obtain ⟨i, hi, rfl⟩ := List.getElem_of_mem hb
  have := h i hi
  omega

theorem contig_suffix {l l' : List Block} {n : Nat} (h : Contig l n) (hs : l' <:+ l) : Contig l' n := by
  obtain ⟨pre, rfl⟩ := hs
  induction pre with
  | nil => simpa using h
  | cons x pre ih => exact ih (contig_tail h)

/-- in a consecutively numbered list a block is determined by its number -/
theorem contig_num_inj {l : List Block} {n : Nat} (h : Contig l n) {a b : Block} (ha : a ∈ l) (hb : b ∈ l)
    (hn : a.num = b.num) : a = b := by
  obtain ⟨i, hi, rfl⟩ := List.getElem_of_mem ha
  obtain ⟨j, hj, rfl⟩ := List.getElem_of_mem hb
  have h1 := h i hi
  have h2 := h j hj
  have : i = j := by omega
  subst this; rfl

/-! ## `BlockStore::block` -/

theorem block_some_iff {s : Store} {n : Nat} (hc : Contig s.cache n') {b : Block} :
    s.block n = some b ↔ b ∈ s.cache ∧ b.num = n := by
  unfold Store.block
  cases hcache : s.cache with
  | nil => simp
  | cons f rest =>
    rw [hcache] at hc
    have hf := contig_head_num hc
    constructor
    · intro h
      by_cases hlt : n < f.num
      · simp [hlt] at h
      · simp only [hlt, if_false] at h
        obtain ⟨hi, hb⟩ := List.getElem?_eq_some_iff.mp h
        have := hc (n - f.num) hi
        refine ⟨?_, ?_⟩
        · rw [← hb]; exact List.getElem_mem hi
        · rw [← hb]; simp at this ⊢; simp at hi; omega
    · rintro ⟨hm, hn⟩
      obtain ⟨i, hi, rfl⟩ := List.getElem_of_mem hm
      have h1 := hc i hi
      simp at h1 hi
      have hge : ¬ n < f.num := by omega
      simp only [hge, if_false]
      have : n - f.num = i := by omega
      rw [this]
      exact List.getElem?_eq_getElem hi

/-! ## `truncate_cache` -/

theorem truncate_suffix (cap pn : Nat) (l : List Block) : truncateCache cap pn l <:+ l := by
  induction l with
  | nil => simp [truncateCache]
  | cons x rest ih =>
    unfold truncateCache
    split
    · exact List.IsSuffix.trans ih (List.suffix_cons x rest)
    · exact List.suffix_refl _

theorem truncate_removed (cap pn : Nat) (l : List Block) {b : Block} (hb : b ∈ l)
    (hn : b ∉ truncateCache cap pn l) : b.num < pn := by
  induction l with
  | nil => simp at hb
  | cons x rest ih =>
    unfold truncateCache at hn
    split at hn
    · rename_i hc
      rcases List.mem_cons.mp hb with rfl | hr
      · exact hc.2
      · exact ih hr hn
    · exact absurd hb hn

/-- after truncation either the cache fits the capacity or its first block is not yet persisted -/
theorem truncate_bound (cap pn : Nat) (l : List Block) :
    (truncateCache cap pn l).length ≤ cap ∨ ∃ x rest, truncateCache cap pn l = x :: rest ∧ pn ≤ x.num := by
  induction l with
  | nil => left; simp [truncateCache]
  | cons x rest ih =>
    unfold truncateCache
    split
    · exact ih
    · rename_i hc
      by_cases hlen : (x :: rest).length > cap
      · right; exact ⟨x, rest, rfl, by omega⟩
      · left; omega

theorem truncate_id_of_bound (cap pn : Nat) (l : List Block)
    (h : l.length ≤ cap ∨ ∃ x rest, l = x :: rest ∧ pn ≤ x.num) : truncateCache cap pn l = l := by
  cases l with
  | nil => simp [truncateCache]
  | cons x rest =>
    unfold truncateCache
    rcases h with h | ⟨x', rest', heq, hle⟩
    · simp at h ⊢; omega
    · injection heq with h1 h2; subst h1; simp; omega

/-! ## The invariant of `BlockStore` -/

structure SInv (cap : Nat) (s : Store) : Prop where
  /-- cache numbers are exactly `[queued.next - len, queued.next)` -/
  contig : Contig s.cache s.queued.next
  /-- an empty `queued` range has an empty cache -/
  lastNone : s.queued.last = none → s.cache = []
  /-- `persisted.next ≤ queued.next` -/
  ord : s.persisted.next ≤ s.queued.next
  /-- `persisted.first ≤ queued.first` -/
  firstOrd : s.persisted.first ≤ s.queued.first
  /-- every available number is in the cache or in the persisted range -/
  readable : ∀ n, s.queued.contains n = true → (∃ b ∈ s.cache, b.num = n) ∨ s.persisted.contains n = true
  /-- the cache exceeds the capacity only by blocks that are not persisted yet -/
  bound : s.cache.length ≤ cap ∨ ∃ x rest, s.cache = x :: rest ∧ s.persisted.next ≤ x.num

theorem sinv_init (cap : Nat) (p : Range) : SInv cap (Store.init p) := by
  refine ⟨contig_nil _, fun _ => rfl, Nat.le_refl _, Nat.le_refl _, ?_, ?_⟩
  · intro n h; right; exact h
  · left; simp [Store.init]

theorem mem_truncate_or {cap pn : Nat} {l : List Block} {b : Block} (hb : b ∈ l) :
    b ∈ truncateCache cap pn l ∨ b.num < pn := by
  by_cases h : b ∈ truncateCache cap pn l
  · exact Or.inl h
  · exact Or.inr (truncate_removed cap pn l hb h)

/-- a number below `persisted.next` that is available is in the persisted range -/
theorem persisted_of_lt {s : Store} (hf : s.persisted.first ≤ s.queued.first) {n : Nat}
    (hq : s.queued.contains n = true) (hlt : n < s.persisted.next) : s.persisted.contains n = true := by
  obtain ⟨l, hl, h1, h2⟩ := (contains_iff _ _).mp hq
  rw [contains_iff]
  cases hp : s.persisted.last with
  | none => simp [Range.next, hp] at hlt; omega
  | some pl => simp [Range.next, hp] at hlt; exact ⟨pl, rfl, by omega, by omega⟩

theorem sinv_tryPush {cap : Nat} {s : Store} (h : SInv cap s) (b : Block) : SInv cap (s.tryPush cap b).1 := by
  unfold Store.tryPush
  split
  · exact h
  · rename_i hne
    have hnum : s.queued.next = b.num := by omega
    have hnext : ({ s.queued with last := some b.num } : Range).next = b.num + 1 := by simp [Range.next]
    have hc1 : Contig (s.cache ++ [b]) (b.num + 1) := contig_snoc (hnum ▸ h.contig)
    have hsuf := truncate_suffix cap s.persisted.next (s.cache ++ [b])
    refine ⟨?_, ?_, ?_, h.firstOrd, ?_, ?_⟩
    · simp only [hnext]; exact contig_suffix hc1 hsuf
    · intro hl; simp at hl
    · simp only [hnext]; have := h.ord; omega
    · intro n hn
      simp only at hn ⊢
      obtain ⟨l, hl, h1, h2⟩ := (contains_iff _ _).mp hn
      simp at hl; subst hl
      replace h1 : s.queued.first ≤ n := h1
      have hmem : (∃ x ∈ s.cache ++ [b], x.num = n) ∨ s.persisted.contains n = true := by
        by_cases hnb : n = b.num
        · left; exact ⟨b, by simp, hnb.symm⟩
        · have hq : s.queued.contains n = true := by
            rw [contains_iff]
            cases hql : s.queued.last with
            | none => simp [Range.next, hql] at hnum; omega
            | some ql => simp [Range.next, hql] at hnum; exact ⟨ql, rfl, h1, by omega⟩
          rcases h.readable n hq with ⟨x, hx, hxn⟩ | hp
          · left; exact ⟨x, by simp [hx], hxn⟩
          · right; exact hp
      rcases hmem with ⟨x, hx, hxn⟩ | hp
      · rcases mem_truncate_or (cap := cap) (pn := s.persisted.next) hx with hin | hlt
        · left; exact ⟨x, hin, hxn⟩
        · right
          rw [contains_iff]
          cases hpl : s.persisted.last with
          | none => simp [Range.next, hpl] at hlt; have := h.firstOrd; omega
          | some pl =>
            simp [Range.next, hpl] at hlt
            have := h.firstOrd
            exact ⟨pl, rfl, by omega, by omega⟩
      · right; exact hp
    · exact truncate_bound cap s.persisted.next (s.cache ++ [b])

theorem tryPush_modified_iff (cap : Nat) (s : Store) (b : Block) :
    (s.tryPush cap b).2 = true ↔ s.queued.next = b.num := by
  unfold Store.tryPush
  split <;> simp_all

theorem tryPush_not_modified (cap : Nat) (s : Store) (b : Block) (h : (s.tryPush cap b).2 = false) :
    (s.tryPush cap b).1 = s := by
  unfold Store.tryPush at *
  split <;> simp_all

theorem tryPush_next (cap : Nat) (s : Store) (b : Block) :
    (s.tryPush cap b).1.queued.next = if s.queued.next = b.num then b.num + 1 else s.queued.next := by
  unfold Store.tryPush
  split <;> simp_all [Range.next]

theorem tryPush_persisted (cap : Nat) (s : Store) (b : Block) : (s.tryPush cap b).1.persisted = s.persisted := by
  unfold Store.tryPush
  split <;> simp

theorem tryPush_cache (cap : Nat) (s : Store) (b : Block) (h : s.queued.next = b.num) :
    (s.tryPush cap b).1.cache = truncateCache cap s.persisted.next (s.cache ++ [b]) := by
  unfold Store.tryPush
  simp [h]

/-- a number below `p.next` and at least `p.first` is in `p` -/
theorem contains_of_bounds {p : Range} {n : Nat} (h1 : p.first ≤ n) (h2 : n < p.next) : p.contains n = true := by
  rw [contains_iff]
  cases hp : p.last with
  | none => simp [Range.next, hp] at h2; omega
  | some pl => simp [Range.next, hp] at h2; exact ⟨pl, rfl, h1, by omega⟩

/-- `queued` after the `first` adjustment of `update_persisted` -/
def bumpFirst (q p : Range) : Range := if q.first < p.first then { q with first := p.first } else q

theorem bumpFirst_last (q p : Range) : (bumpFirst q p).last = q.last := by
  unfold bumpFirst; split <;> rfl

theorem bumpFirst_first (q p : Range) : (bumpFirst q p).first = max q.first p.first := by
  unfold bumpFirst; split
  · simp only; omega
  · omega

theorem bumpFirst_next_some (q p : Range) {l : Nat} (h : q.last = some l) : (bumpFirst q p).next = q.next := by
  unfold bumpFirst; split <;> simp [Range.next, h]

theorem bumpFirst_next_ge (q p : Range) : q.next ≤ (bumpFirst q p).next := by
  unfold bumpFirst; split
  · cases h : q.last <;> simp [Range.next, h]; omega
  · exact Nat.le_refl _

theorem updatePersisted_eq (cap : Nat) (s : Store) (p : Range) :
    s.updatePersisted cap p =
      if p.next < s.persisted.next then none
      else if (bumpFirst s.queued p).next < p.next then some { queued := p, persisted := p, cache := [] }
      else some { queued := bumpFirst s.queued p, persisted := p, cache := truncateCache cap p.next s.cache } := by
  unfold Store.updatePersisted bumpFirst
  by_cases h1 : p.next < s.persisted.next
  · simp [h1]
  · simp only [h1, if_false]
    by_cases h2 : s.queued.first < p.first
    · simp only [h2, if_true]
      split <;> simp_all [truncateCache]
    · simp only [h2, if_false]
      split <;> simp_all [truncateCache]

theorem sinv_updatePersisted {cap : Nat} {s : Store} (h : SInv cap s) {p : Range} {s' : Store}
    (hu : s.updatePersisted cap p = some s') : SInv cap s' := by
  rw [updatePersisted_eq] at hu
  split at hu
  · exact absurd hu (by simp)
  rename_i hnr
  split at hu
  · injection hu with hu; subst hu
    exact sinv_init cap p
  rename_i hreset
  injection hu with hu; subst hu
  have hsuf := truncate_suffix cap p.next s.cache
  refine ⟨?_, ?_, by simp only; omega, ?_, ?_, ?_⟩
  · simp only
    cases hl : s.queued.last with
    | none => rw [h.lastNone hl]; simp [truncateCache]; exact contig_nil _
    | some l => rw [bumpFirst_next_some _ _ hl]; exact contig_suffix h.contig hsuf
  · intro hl
    simp only at hl ⊢
    rw [bumpFirst_last] at hl
    rw [h.lastNone hl]; simp [truncateCache]
  · simp only; rw [bumpFirst_first]; omega
  · intro n hn
    simp only at hn ⊢
    obtain ⟨l, hl, h1, h2⟩ := (contains_iff _ _).mp hn
    rw [bumpFirst_last] at hl
    rw [bumpFirst_first] at h1
    have hq : s.queued.contains n = true := (contains_iff _ _).mpr ⟨l, hl, by omega, h2⟩
    have hp : n < p.next → p.contains n = true := fun hlt => contains_of_bounds (by omega) hlt
    rcases h.readable n hq with ⟨x, hx, hxn⟩ | hold
    · rcases mem_truncate_or (cap := cap) (pn := p.next) hx with hin | hlt
      · left; exact ⟨x, hin, hxn⟩
      · right; exact hp (by omega)
    · right
      have := contains_lt_next _ _ hold
      exact hp (by omega)
  · exact truncate_bound cap p.next s.cache

theorem updatePersisted_none_iff (cap : Nat) (s : Store) (p : Range) :
    s.updatePersisted cap p = none ↔ p.next < s.persisted.next := by
  rw [updatePersisted_eq]
  split
  · simp [*]
  · split <;> simp [*]

/-- `queued.next` never decreases in `update_persisted` -/
theorem updatePersisted_next_ge {cap : Nat} {s s' : Store} {p : Range} (hu : s.updatePersisted cap p = some s') :
    s.queued.next ≤ s'.queued.next := by
  rw [updatePersisted_eq] at hu
  have := bumpFirst_next_ge s.queued p
  split at hu
  · exact absurd hu (by simp)
  split at hu <;> (injection hu with hu; subst hu; simp only; omega)

theorem updatePersisted_persisted {cap : Nat} {s s' : Store} {p : Range} (hu : s.updatePersisted cap p = some s') :
    s'.persisted = p := by
  rw [updatePersisted_eq] at hu
  split at hu
  · exact absurd hu (by simp)
  split at hu <;> (injection hu with hu; subst hu; rfl)

/-- whatever `update_persisted` removes from the cache is below the new `persisted.next` -/
theorem updatePersisted_removed {cap : Nat} {s s' : Store} (h : SInv cap s) {p : Range}
    (hu : s.updatePersisted cap p = some s') {b : Block} (hb : b ∈ s.cache) (hn : b ∉ s'.cache) :
    b.num < s'.persisted.next := by
  rw [updatePersisted_eq] at hu
  split at hu
  · exact absurd hu (by simp)
  split at hu
  · rename_i hreset
    injection hu with hu; subst hu
    have := contig_mem_lt h.contig hb
    have := bumpFirst_next_ge s.queued p
    simp only; omega
  · injection hu with hu; subst hu
    exact truncate_removed cap p.next s.cache hb hn

/-- `update_persisted` only removes blocks: the new cache is a suffix of the old one -/
theorem updatePersisted_suffix {cap : Nat} {s s' : Store} {p : Range} (hu : s.updatePersisted cap p = some s') :
    s'.cache <:+ s.cache := by
  rw [updatePersisted_eq] at hu
  split at hu
  · exact absurd hu (by simp)
  split at hu
  · injection hu with hu; subst hu; exact List.nil_suffix
  · injection hu with hu; subst hu; exact truncate_suffix _ _ _

/-- with an unchanged report `update_persisted` changes nothing (spurious wake-ups of the watcher are harmless) -/
theorem updatePersisted_idem {cap : Nat} {s : Store} (h : SInv cap s) :
    s.updatePersisted cap s.persisted = some s := by
  rw [updatePersisted_eq]
  have hb : bumpFirst s.queued s.persisted = s.queued := by
    unfold bumpFirst; have := h.firstOrd; split
    · omega
    · rfl
  have := h.ord
  simp only [hb, Nat.lt_irrefl, if_false]
  split
  · omega
  · rw [truncate_id_of_bound cap _ _ h.bound]

end EraVerif.Proofs.Store
