import EraVerif.Model.FetchNode
import EraVerif.Proofs.Fetch

/-!
Helper lemmas for the second half of C19 (core Lean only): the composition of the fetch queue with the per-connection
`get_block` tasks and the store (`Model/FetchNode.lean`). Frame lemmas of the queue's events, the inductive invariant
`NInv` of the composition and its preservation by every event, runs (`NRun`) and their projection to runs of the queue.
-/

namespace EraVerif.Proofs.Fetch
open EraVerif.Model.Fetch

/-! ## Frame lemmas for the queue's own events (all but `succeed` / `fail`) -/

/-- Only a hand-over creates a hold (with the next id), nothing else touches the holds. -/
theorem q_step_holds (q q' : State) (e : Event) (o : Option Vis) (he : e.holderOnly = false)
    (h : step? q e = some (q', o)) :
    (∃ p n ch, o = some (.accepted p n q.nextHold) ∧ q'.holds = aput q.holds q.nextHold ⟨p, n, ch⟩)
    ∨ ((∀ p n hid, o ≠ some (.accepted p n hid)) ∧ q'.holds = q.holds) := by
  cases e with
  | succeed _ => simp [Event.holderOnly] at he
  | fail _ => simp [Event.holderOnly] at he
  | spawnReq n => simp only [step?] at h; split at h <;> cases h; exact Or.inr ⟨by simp, rfl⟩
  | cancelReq n => simp only [step?] at h; split at h <;> cases h; exact Or.inr ⟨by simp, rfl⟩
  | startAcc p => simp only [step?] at h; split at h <;> cases h; exact Or.inr ⟨by simp, rfl⟩
  | cancelAcc p => simp only [step?] at h; split at h <;> cases h; exact Or.inr ⟨by simp, rfl⟩
  | announce p f l => simp only [step?] at h; cases h; exact Or.inr ⟨by simp, rfl⟩
  | reqInsert n => simp only [step?] at h; split at h <;> cases h <;> exact Or.inr ⟨by simp, rfl⟩
  | reqDone n => simp only [step?] at h; split at h <;> cases h; exact Or.inr ⟨by simp, rfl⟩
  | reqCancel n => simp only [step?] at h; split at h <;> cases h <;> exact Or.inr ⟨by simp, rfl⟩
  | accSample p => simp only [step?] at h; split at h <;> cases h; exact Or.inr ⟨by simp, rfl⟩
  | accChanged p =>
    simp only [step?] at h; split at h
    · split at h <;> cases h; exact Or.inr ⟨by simp, rfl⟩
    · cases h
  | accAvail p =>
    simp only [step?] at h; split at h
    · split at h <;> cases h; exact Or.inr ⟨by simp, rfl⟩
    · cases h
  | accRemove p =>
    simp only [step?] at h; split at h
    · rename_i n c ha
      split at h
      · rename_i ch hm
        cases h
        exact Or.inl ⟨p, n, ch, rfl, rfl⟩
      · cases h; exact Or.inr ⟨by simp, rfl⟩
    · cases h
  | accAbort p => simp only [step?] at h; split at h <;> cases h <;> exact Or.inr ⟨by simp, rfl⟩

/-- How a request record can come to be what it is after one event of the queue. -/
theorem q_step_reqs (q q' : State) (e : Event) (o : Option Vis) (he : e.holderOnly = false)
    (h : step? q e = some (q', o)) (n : Nat) (r' : Req) (hr' : aget q'.reqs n = some r') :
    (∃ r, aget q.reqs n = some r ∧ r'.cancelled = r.cancelled ∧
        (r'.st = r.st ∨ r'.st = .resolved false ∨ ∃ ch, r'.st = .waiting ch))
    ∨ (e = .spawnReq n ∧ aget q.reqs n = none ∧ r' = ⟨.starting, false⟩)
    ∨ (e = .cancelReq n ∧ ∃ r, aget q.reqs n = some r ∧ r'.st = r.st ∧ r'.cancelled = true) := by
  have same : q'.reqs = q.reqs → (∃ r, aget q.reqs n = some r ∧ r'.cancelled = r.cancelled ∧
        (r'.st = r.st ∨ r'.st = .resolved false ∨ ∃ ch, r'.st = .waiting ch)) := by
    intro hq; rw [hq] at hr'; exact ⟨r', hr', rfl, Or.inl rfl⟩
  -- a request record read through a possible `resolveChan … false`
  have thru : ∀ (ch? : Option Nat) (r1 : Req),
      aget (match ch? with | some old => resolveChan q.reqs old false | none => q.reqs) n = some r1 →
      ∃ r, aget q.reqs n = some r ∧ r1.cancelled = r.cancelled ∧ (r1.st = r.st ∨ r1.st = .resolved false) := by
    intro ch? r1 h1
    cases ch? with
    | none => exact ⟨r1, h1, rfl, Or.inl rfl⟩
    | some old =>
      obtain ⟨r0, hr0, hc, hcase⟩ := aget_resolveChan_some _ _ _ _ _ h1
      refine ⟨r0, hr0, hc, ?_⟩
      rcases hcase with ⟨_, hs⟩ | ⟨_, he⟩
      · exact Or.inr hs
      · exact Or.inl (by rw [he])
  cases e with
  | succeed _ => simp [Event.holderOnly] at he
  | fail _ => simp [Event.holderOnly] at he
  | spawnReq m =>
    simp only [step?] at h; split at h <;> cases h
    rename_i hm
    simp only [aget_aput] at hr'
    by_cases hmn : n = m
    · subst hmn; simp at hr'; exact Or.inr (Or.inl ⟨rfl, hm, hr'.symm⟩)
    · simp [hmn] at hr'; exact Or.inl ⟨r', hr', rfl, Or.inl rfl⟩
  | cancelReq m =>
    simp only [step?] at h; split at h <;> cases h
    rename_i r0 hm
    simp only [aget_aput] at hr'
    by_cases hmn : n = m
    · subst hmn; simp at hr'; subst hr'; exact Or.inr (Or.inr ⟨rfl, r0, hm, rfl, rfl⟩)
    · simp [hmn] at hr'; exact Or.inl ⟨r', hr', rfl, Or.inl rfl⟩
  | startAcc p => simp only [step?] at h; split at h <;> cases h; exact Or.inl (same rfl)
  | cancelAcc p => simp only [step?] at h; split at h <;> cases h; exact Or.inl (same rfl)
  | announce p f l => simp only [step?] at h; cases h; exact Or.inl (same rfl)
  | reqInsert m =>
    have key : ∀ c (r0 : Req), aget q.reqs m = some r0 → r0.cancelled = c → q' = doInsert q m c →
        (∃ r, aget q.reqs n = some r ∧ r'.cancelled = r.cancelled ∧
          (r'.st = r.st ∨ r'.st = .resolved false ∨ ∃ ch, r'.st = .waiting ch)) := by
      intro c r0 hm hc hq
      subst hq
      simp only [doInsert, aget_aput] at hr'
      by_cases hmn : n = m
      · subst hmn; simp at hr'; subst hr'
        exact ⟨r0, hm, hc.symm, Or.inr (Or.inr ⟨_, rfl⟩)⟩
      · simp only [hmn, if_false] at hr'
        obtain ⟨r, a, b, c'⟩ := thru (aget q.map m) r' hr'
        exact ⟨r, a, b, c'.elim Or.inl (fun x => Or.inr (Or.inl x))⟩
    simp only [step?] at h
    split at h
    · rename_i c hm; cases h; exact Or.inl (key c _ hm rfl rfl)
    · rename_i c hm; cases h; exact Or.inl (key c _ hm rfl rfl)
    · cases h
  | reqDone m =>
    simp only [step?] at h; split at h <;> cases h
    simp only [aget_adel] at hr'
    by_cases hmn : n = m
    · simp [hmn] at hr'
    · simp [hmn] at hr'; exact Or.inl ⟨r', hr', rfl, Or.inl rfl⟩
  | reqCancel m =>
    have key : q' = doCancel q m →
        (∃ r, aget q.reqs n = some r ∧ r'.cancelled = r.cancelled ∧
          (r'.st = r.st ∨ r'.st = .resolved false ∨ ∃ ch, r'.st = .waiting ch)) := by
      intro hq
      subst hq
      simp only [doCancel, aget_adel] at hr'
      by_cases hmn : n = m
      · simp [hmn] at hr'
      · simp only [hmn, if_false] at hr'
        obtain ⟨r, a, b, c'⟩ := thru (aget q.map m) r' hr'
        exact ⟨r, a, b, c'.elim Or.inl (fun x => Or.inr (Or.inl x))⟩
    simp only [step?] at h
    split at h
    · cases h; exact Or.inl (key rfl)
    · cases h; exact Or.inl (key rfl)
    · cases h
  | accSample p => simp only [step?] at h; split at h <;> cases h; exact Or.inl (same rfl)
  | accChanged p =>
    simp only [step?] at h; split at h
    · split at h <;> cases h; exact Or.inl (same rfl)
    · cases h
  | accAvail p =>
    simp only [step?] at h; split at h
    · split at h <;> cases h; exact Or.inl (same rfl)
    · cases h
  | accRemove p =>
    simp only [step?] at h; split at h
    · split at h <;> cases h <;> exact Or.inl (same rfl)
    · cases h
  | accAbort p => simp only [step?] at h; split at h <;> cases h <;> exact Or.inl (same rfl)

/-- A live request stays live across every step of the queue except its own return (`Props.C19.stays_requested`). -/
theorem req_survives (s s' : State) (e : Event) (o : Option Vis) (n : Nat) (r : Req)
    (hs : step? s e = some (s', o)) (hn : aget s.reqs n = some r) :
    (aget s'.reqs n).isSome = true
    ∨ (e = .reqDone n ∧ r.st = .resolved true ∧ o = some (.done n))
    ∨ (e = .reqCancel n ∧ r.cancelled = true ∧ o = some (.cancelled n)) := by
  cases e with
  | spawnReq m => simp only [step?] at hs; split at hs <;> cases hs; left; simp only [aget_aput]; split <;> simp [hn]
  | cancelReq m => simp only [step?] at hs; split at hs <;> cases hs; left; simp only [aget_aput]; split <;> simp [hn]
  | startAcc p => simp only [step?] at hs; split at hs <;> cases hs; left; simp [hn]
  | cancelAcc p => simp only [step?] at hs; split at hs <;> cases hs; left; simp [hn]
  | announce p f l => simp only [step?] at hs; cases hs; left; simp [hn]
  | succeed hid =>
    simp only [step?, doResolve] at hs; split at hs <;> simp at hs
    obtain ⟨rfl, _⟩ := hs; left; simp [aget_resolveChan, hn]
  | fail hid =>
    simp only [step?, doResolve] at hs; split at hs <;> simp at hs
    obtain ⟨rfl, _⟩ := hs; left; simp [aget_resolveChan, hn]
  | reqInsert m =>
    simp only [step?] at hs
    split at hs <;> cases hs <;>
    · left
      simp only [doInsert, aget_aput]
      split
      · rfl
      · split <;> simp [aget_resolveChan, hn]
  | reqDone m =>
    simp only [step?] at hs
    split at hs
    · rename_i c hm
      cases hs
      by_cases hmn : n = m
      · subst hmn; rw [hn] at hm; cases hm; exact Or.inr (Or.inl ⟨rfl, rfl, rfl⟩)
      · left; simp [aget_adel, hmn, hn]
    · cases hs
  | reqCancel m =>
    simp only [step?] at hs
    have key : ∀ (_ : ∃ st, aget s.reqs m = some ⟨st, true⟩), s' = doCancel s m → o = some (.cancelled m) →
        (aget s'.reqs n).isSome = true ∨ (Event.reqCancel m = .reqDone n ∧ r.st = .resolved true ∧ o = some (.done n))
          ∨ (Event.reqCancel m = .reqCancel n ∧ r.cancelled = true ∧ o = some (.cancelled n)) := by
      intro ⟨st, hm⟩ hs' ho
      by_cases hmn : n = m
      · subst hmn; rw [hn] at hm; cases hm; exact Or.inr (Or.inr ⟨rfl, rfl, ho⟩)
      · left; subst hs'
        simp only [doCancel, aget_adel, hmn, if_false]
        split <;> simp [aget_resolveChan, hn]
    split at hs
    · rename_i ch hm; cases hs; exact key ⟨_, hm⟩ rfl rfl
    · rename_i ok hm; cases hs; exact key ⟨_, hm⟩ rfl rfl
    · cases hs
  | accSample p => simp only [step?] at hs; split at hs <;> cases hs; left; simp [hn]
  | accChanged p =>
    simp only [step?] at hs; split at hs
    · split at hs <;> cases hs; left; simp [hn]
    · cases hs
  | accAvail p =>
    simp only [step?] at hs; split at hs
    · split at hs <;> cases hs; left; simp [hn]
    · cases hs
  | accRemove p =>
    simp only [step?] at hs; split at hs
    · split at hs <;> cases hs <;> (left; simp [hn])
    · cases hs
  | accAbort p => simp only [step?] at hs; split at hs <;> cases hs <;> (left; simp [hn])

/-! ## Reachability of the queue, closed under steps -/

/-- `q` is reachable in the queue LTS (`Props.C19.Reach`). -/
def QReach (q : State) : Prop := ∃ h, RunTo h q

theorem QReach.step {q q' : State} {e : Event} {o : Option Vis} (r : QReach q) (h : step? q e = some (q', o)) :
    QReach q' := by
  obtain ⟨hist, run⟩ := r
  exact ⟨_, RunTo.step run h⟩

theorem QReach.inv {q : State} (r : QReach q) : Inv q := by
  obtain ⟨_, run⟩ := r
  exact run.inv

theorem cancelConn_reach (q : State) (p : Nat) (r : QReach q) : QReach (cancelConn q p) := by
  unfold cancelConn
  split
  · rename_i q' o h; exact r.step h
  · exact r

/-- `cancelConn` only sets the `cancelled` flag of one accept call. -/
theorem cancelConn_frame (q : State) (p : Nat) :
    (cancelConn q p).reqs = q.reqs ∧ (cancelConn q p).holds = q.holds ∧ (cancelConn q p).map = q.map ∧
    (cancelConn q p).nextChan = q.nextChan ∧ (cancelConn q p).nextHold = q.nextHold := by
  unfold cancelConn
  split
  · rename_i q' o h
    simp only [step?] at h
    split at h <;> cases h
    simp
  · simp

/-- What `fail h` / `succeed h` do to the queue. -/
theorem resolve_frame (q q1 : State) (hid : Nat) (ok : Bool) (o : Option Vis)
    (h : step? q (if ok then .succeed hid else .fail hid) = some (q1, o)) :
    ∃ hd, aget q.holds hid = some hd ∧ q1.holds = adel q.holds hid ∧ q1.reqs = resolveChan q.reqs hd.chan ok ∧
      q1.map = q.map ∧ q1.nextChan = q.nextChan ∧ q1.nextHold = q.nextHold ∧ o = none := by
  cases ok <;> simp only [step?, doResolve, if_true, Bool.false_eq_true, if_false] at h <;>
  · split at h
    · simp at h
    · rename_i hd hh
      simp at h
      obtain ⟨rfl, rfl⟩ := h
      exact ⟨hd, hh, rfl, rfl, rfl, rfl, rfl, rfl⟩

/-! ## The invariant of the composition -/

structure NInv (s : NState) : Prop where
  /-- the queue is in a reachable state of its own LTS (so every theorem about the queue applies) -/
  qreach : QReach s.q
  /-- every sender handed to a connection is owned by exactly one live `get_block` task, and vice versa -/
  task_hold : ∀ h, (aget s.tasks h).isSome = (aget s.q.holds h).isSome
  /-- completion was signalled only for blocks that are queued -/
  done_queued : ∀ n r, aget s.q.reqs n = some r → r.st = .resolved true → n < s.queuedNext
  /-- a wanted block has a live request or is queued -/
  wanted_cov : ∀ n, n ∈ s.wanted → (aget s.q.reqs n).isSome = true ∨ n < s.queuedNext
  /-- a request whose requester gave up is not wanted any more -/
  cancelled_unwanted : ∀ n r, aget s.q.reqs n = some r → r.cancelled = true → n ∉ s.wanted

theorem ninv_init (start : Nat) : NInv (NState.init start) := by
  constructor
  · exact ⟨[], RunTo.init⟩
  all_goals simp [NState.init, State.init, aget]

/-- The requests woken by the resolution of hold `hid` are requests for the held block. -/
theorem woken_is_held_block (q : State) (hi : Inv q) (hid : Nat) (hd : Hold) (hh : aget q.holds hid = some hd)
    (n : Nat) (r : Req) (hr : aget q.reqs n = some r) (hw : r.st = .waiting hd.chan) : n = hd.num := by
  rcases hi.live n r hd.chan hr hw with hm | ⟨h', hd', hh', hc', hn'⟩
  · exact absurd rfl (hi.disj n hd.chan hid hd hm hh)
  · have := hi.hold_inj h' hid hd' hd hh' hh hc'
    subst this
    rw [hh] at hh'; cases hh'
    exact hn'.symm

theorem ninv_failTask (s s1 : NState) (hid : Nat) (hi : NInv s) (h : failTask s hid = some s1) : NInv s1 := by
  unfold failTask at h
  split at h
  · cases h
  · rename_i hd hh
    split at h
    · cases h
    · rename_i q1 o hs
      cases h
      obtain ⟨hd', hh', e1, e2, e3, e4, e5, _⟩ := resolve_frame s.q q1 hid false o (by simpa using hs)
      rw [hh] at hh'; cases hh'
      obtain ⟨c1, c2, c3, c4, c5⟩ := cancelConn_frame q1 hd.peer
      obtain ⟨i1, i2, i3, i4, i5⟩ := hi
      constructor
      · exact cancelConn_reach _ _ (i1.step hs)
      · intro h'
        simp only [c2, e1, aget_adel]
        by_cases hh : h' = hid <;> simp [hh, i2]
      · intro n r hr hst
        simp only [c1, e2] at hr
        obtain ⟨r0, hr0, _, hcase⟩ := aget_resolveChan_some _ _ _ _ _ hr
        rcases hcase with ⟨_, hs'⟩ | ⟨_, he⟩
        · rw [hs'] at hst; cases hst
        · subst he; exact i3 n r hr0 hst
      · intro n hn
        simp only [c1, e2]
        rcases i4 n hn with a | a
        · left
          cases hq : aget s.q.reqs n with
          | none => simp [hq] at a
          | some r => simp [aget_resolveChan, hq]
        · exact Or.inr a
      · intro n r hr hc
        simp only [c1, e2] at hr
        obtain ⟨r0, hr0, hceq, _⟩ := aget_resolveChan_some _ _ _ _ _ hr
        exact i5 n r0 hr0 (hceq ▸ hc)

theorem mem_updWanted (w : List Nat) (e : Event) (n : Nat) (h : n ∈ updWanted w e) :
    (n ∈ w ∧ e ≠ .cancelReq n) ∨ e = .spawnReq n := by
  cases e <;> simp only [updWanted] at h <;> try (exact Or.inl ⟨h, by simp⟩)
  · rename_i m
    simp at h
    rcases h with rfl | h
    · exact Or.inr rfl
    · exact Or.inl ⟨h, by simp⟩
  · rename_i m
    simp at h
    exact Or.inl ⟨h.1, by simp; exact fun e => h.2 e.symm⟩

theorem ninv_step (s s' : NState) (e : NEvent) (o : Option Vis) (hi : NInv s) (h : nstep? s e = some (s', o)) :
    NInv s' := by
  cases e with
  | q e =>
    simp only [nstep?] at h
    split at h
    · cases h
    · rename_i he
      have he : e.holderOnly = false := by simpa using he
      split at h
      · cases h
      · rename_i q' o' hs
        cases h
        obtain ⟨i1, i2, i3, i4, i5⟩ := hi
        have hqi := i1.inv
        constructor
        · exact i1.step hs
        · -- tasks follow holds
          intro h'
          rcases q_step_holds s.q q' e o he hs with ⟨p, n, ch, ho, hh⟩ | ⟨hno, hh⟩
          · subst ho
            simp only [spawnTask, hh, aget_aput]
            by_cases hx : h' = s.q.nextHold <;> simp [hx, i2]
          · have : spawnTask s.tasks o = s.tasks := by
              unfold spawnTask
              split
              · rename_i p n hid; exact absurd rfl (hno p n hid)
              · rfl
            simp [this, hh, i2]
        · intro n r' hr' hst
          rcases q_step_reqs s.q q' e o he hs n r' hr' with ⟨r, hr, _, hcase⟩ | ⟨_, _, rfl⟩ | ⟨_, r, hr, hse, _⟩
          · rcases hcase with a | a | ⟨ch, a⟩
            · exact i3 n r hr (a ▸ hst)
            · rw [a] at hst; cases hst
            · rw [a] at hst; cases hst
          · cases hst
          · exact i3 n r hr (hse ▸ hst)
        · intro n hn
          rcases mem_updWanted _ _ _ hn with ⟨hw, hne⟩ | hsp
          · rcases i4 n hw with a | a
            · cases hq : aget s.q.reqs n with
              | none => simp [hq] at a
              | some r =>
                rcases req_survives s.q q' e o n r hs hq with b | ⟨_, hst, _⟩ | ⟨_, hc, _⟩
                · exact Or.inl b
                · exact Or.inr (i3 n r hq hst)
                · exact absurd hw (i5 n r hq hc)
            · exact Or.inr a
          · subst hsp
            simp only [step?] at hs
            split at hs <;> cases hs
            left; simp [aget_aput]
        · intro n r' hr' hc hmem
          rcases mem_updWanted _ _ _ hmem with ⟨hw, hne⟩ | hsp
          · rcases q_step_reqs s.q q' e o he hs n r' hr' with ⟨r, hr, hceq, _⟩ | ⟨_, _, rfl⟩ | ⟨hce, _⟩
            · exact i5 n r hr (hceq ▸ hc) hw
            · cases hc
            · exact hne hce
          · subst hsp
            simp only [step?] at hs
            split at hs <;> cases hs
            simp [aget_aput] at hr'
            subst hr'; cases hc
  | resp hid r =>
    simp only [nstep?] at h
    split at h
    · rename_i hd ht hh
      have fl : ∀ x, (failTask s hid).map (·, (none : Option Vis)) = some x → NInv x.1 := by
        intro x hx
        cases hf : failTask s hid with
        | none => simp [hf] at hx
        | some s1 => simp [hf] at hx; subst hx; exact ninv_failTask s s1 hid hi hf
      cases r with
      | err => exact fl _ h
      | empty => exact fl _ h
      | block num valid =>
        simp only at h
        split at h
        · exact fl _ h
        · split at h
          · exact fl _ h
          · cases h
            obtain ⟨i1, i2, i3, i4, i5⟩ := hi
            refine ⟨i1, ?_, i3, i4, i5⟩
            intro h'
            simp only [aget_aput]
            by_cases hx : h' = hid
            · subst hx; simp [hh]
            · simp [hx, i2]
    · cases h
  | abort hid =>
    simp only [nstep?] at h
    split at h
    · cases hf : failTask s hid with
      | none => simp [hf] at h
      | some s1 => simp [hf] at h; obtain ⟨rfl, _⟩ := h; exact ninv_failTask s s1 hid hi hf
    · cases h
  | queue hid =>
    simp only [nstep?] at h
    split at h
    · rename_i hd ht hh
      split at h
      · rename_i hle
        split at h
        · cases h
        · rename_i q1 o1 hs
          cases h
          obtain ⟨hd', hh', e1, e2, e3, e4, e5, _⟩ := resolve_frame s.q q1 hid true o1 (by simpa using hs)
          rw [hh] at hh'; cases hh'
          obtain ⟨i1, i2, i3, i4, i5⟩ := hi
          have hqi := i1.inv
          have hmono : s.queuedNext ≤ tryPush s.queuedNext hd.num := by unfold tryPush; split <;> omega
          have hlt : hd.num < tryPush s.queuedNext hd.num := by unfold tryPush; split <;> omega
          constructor
          · exact i1.step hs
          · intro h'
            simp only [e1, aget_adel]
            by_cases hx : h' = hid <;> simp [hx, i2]
          · intro n r hr hst
            simp only [e2] at hr
            obtain ⟨r0, hr0, _, hcase⟩ := aget_resolveChan_some _ _ _ _ _ hr
            rcases hcase with ⟨hw, _⟩ | ⟨_, he⟩
            · have := woken_is_held_block s.q hqi hid hd hh n r0 hr0 hw
              subst this; exact hlt
            · subst he; exact Nat.lt_of_lt_of_le (i3 n r hr0 hst) hmono
          · intro n hn
            simp only [e2]
            rcases i4 n hn with a | a
            · left
              cases hq : aget s.q.reqs n with
              | none => simp [hq] at a
              | some r => simp [aget_resolveChan, hq]
            · right; exact Nat.lt_of_lt_of_le a hmono
          · intro n r hr hc
            simp only [e2] at hr
            obtain ⟨r0, hr0, hceq, _⟩ := aget_resolveChan_some _ _ _ _ _ hr
            exact i5 n r0 hr0 (hceq ▸ hc)
      · cases h
    · cases h
  | storeAdvance =>
    simp only [nstep?] at h
    cases h
    obtain ⟨i1, i2, i3, i4, i5⟩ := hi
    refine ⟨i1, i2, ?_, ?_, i5⟩
    · intro n r hr hst; have := i3 n r hr hst; simp; omega
    · intro n hn; rcases i4 n hn with a | a
      · exact Or.inl a
      · right; simp; omega

/-! ## Runs of the composition -/

/-- `NRun start s`: the node, started when the store's next block was `start`, has reached `s`. -/
inductive NRun (start : Nat) : NState → Prop
  | init : NRun start (NState.init start)
  | step {s s' : NState} {e : NEvent} {o : Option Vis} : NRun start s → nstep? s e = some (s', o) → NRun start s'

theorem NRun.inv {start : Nat} {s : NState} (r : NRun start s) : NInv s := by
  induction r with
  | init => exact ninv_init start
  | step _ hs ih => exact ninv_step _ _ _ _ ih hs

theorem nrun_exec {start : Nat} {s0 s : NState} (r : NRun start s0) (es : List NEvent)
    (he : nexec? s0 es = some s) : NRun start s := by
  induction es generalizing s0 with
  | nil => simp [nexec?] at he; subst he; exact r
  | cons e es ih =>
    simp only [nexec?] at he
    cases hs : nstep? s0 e with
    | none => simp [hs] at he
    | some x =>
      obtain ⟨s1, o⟩ := x
      simp only [hs] at he
      exact ih (NRun.step r hs) he

/-- The store's frontier never moves back. -/
theorem queuedNext_mono (s s' : NState) (e : NEvent) (o : Option Vis) (h : nstep? s e = some (s', o)) :
    s.queuedNext ≤ s'.queuedNext := by
  have fl : ∀ hid x, (failTask s hid).map (·, (none : Option Vis)) = some x → s.queuedNext ≤ x.1.queuedNext := by
    intro hid x hx
    unfold failTask at hx
    split at hx
    · simp at hx
    · split at hx
      · simp at hx
      · simp at hx; subst hx; simp
  cases e with
  | q e =>
    simp only [nstep?] at h
    split at h
    · cases h
    · split at h <;> cases h; simp
  | resp hid r =>
    simp only [nstep?] at h
    split at h
    · cases r with
      | err => exact fl _ _ h
      | empty => exact fl _ _ h
      | block num valid =>
        simp only at h
        split at h
        · exact fl _ _ h
        · split at h
          · exact fl _ _ h
          · cases h; simp
    · cases h
  | abort hid =>
    simp only [nstep?] at h
    split at h
    · exact fl _ _ h
    · cases h
  | queue hid =>
    simp only [nstep?] at h
    split at h
    · split at h
      · split at h <;> cases h
        simp only [tryPush]; split <;> omega
      · cases h
    · cases h
  | storeAdvance => simp only [nstep?] at h; cases h; simp

end EraVerif.Proofs.Fetch
