import EraVerif.Proofs.Mux

namespace EraVerif.Proofs.Mux
open EraVerif.Model.Mux EraVerif.Gen.MuxConst

/-! ## Part 3a: locks, queues, slots -/

structure LInv (s : State) : Prop where
  d1 : ∀ k, (s.st k).mphase ≠ .waitWrite → (s.st k).writeHeld = false
  d2 : ∀ k, (s.st k).rphase ≠ .waitLock → (s.st k).readHeld = false
  pr : ∀ k, (s.st k).pendR.isSome = true → (s.st k).readHeld = true
  pw : ∀ k, (s.st k).pendW.isSome = true → (s.st k).writeHeld = true
  d5 : ∀ k, k.conn = false →
        ((s.st k).mphase = .wantPush ∨ (s.st k).mphase = .pushed ∨ ∃ x, (s.st k).mphase = .reserved x) →
        (s.st k).rphase = .done
  q : ∀ conn cap id, id ∈ s.qPushed conn cap →
        (s.st ⟨conn, id⟩).mphase = .pushed ∧ capOfId (s.rng conn) id = some cap
  qnd : ∀ conn cap, (s.qPushed conn cap).Nodup
  sl : ∀ x k r w, s.slots x = .held k r w →
        (r = true → (s.st k).readHeld = true) ∧ (w = true → (s.st k).writeHeld = true)
  uniq : ∀ x y k r w r' w', s.slots x = .held k r w → s.slots y = .held k r' w' → x ≠ y →
        ¬((r || w) = true ∧ (r' || w') = true)
  valid : ∀ x k r w, s.slots x = .held k r w → k.valid s = true

theorem LInv_init (cfg : Cfg) (acc con pacc pcon : Caps) : LInv (State.init cfg acc con pacc pcon) := by
  obtain ⟨d, na, nc, e⟩ := init_eq cfg acc con pacc pcon
  rw [e]
  constructor <;> simp [State.start]





/-- the per-stream part of `LInv` -/
structure LInvA (s : State) : Prop where
  d1 : ∀ k, (s.st k).mphase ≠ .waitWrite → (s.st k).writeHeld = false
  d2 : ∀ k, (s.st k).rphase ≠ .waitLock → (s.st k).readHeld = false
  pr : ∀ k, (s.st k).pendR.isSome = true → (s.st k).readHeld = true
  pw : ∀ k, (s.st k).pendW.isSome = true → (s.st k).writeHeld = true
  d5 : ∀ k, k.conn = false →
        ((s.st k).mphase = .wantPush ∨ (s.st k).mphase = .pushed ∨ ∃ x, (s.st k).mphase = .reserved x) →
        (s.st k).rphase = .done

theorem LInv.toA {s : State} (h : LInv s) : LInvA s := ⟨h.d1, h.d2, h.pr, h.pw, h.d5⟩

/-- the phases and the lock flags are the same, and no new read / write is in flight -/
def lkLe (t t' : StreamSt) : Prop :=
  t'.mphase = t.mphase ∧ t'.rphase = t.rphase ∧ t'.readHeld = t.readHeld ∧ t'.writeHeld = t.writeHeld ∧
    (t'.pendR.isSome = true → t.pendR.isSome = true) ∧ (t'.pendW.isSome = true → t.pendW.isSome = true)

theorem lkLe_refl (t : StreamSt) : lkLe t t := ⟨rfl, rfl, rfl, rfl, id, id⟩

theorem lkLe_ite {t : Key → StreamSt} {k k' : Key} {v : StreamSt} (h : lkLe (t k) v) :
    lkLe (t k') (if k' = k then v else t k') := by
  by_cases hk : k' = k
  · subst hk; simpa using h
  · simp [hk, lkLe_refl]

/-- events that leave the phases and the lock flags of every stream alone, and start no new read / write -/
def LockLe (s s' : State) : Prop := ∀ k, lkLe (s.st k) (s'.st k)

theorem LInvA_of_le {s s' : State} (hl : LockLe s s') (hi : LInvA s) : LInvA s' := by
  obtain ⟨d1, d2, pr, pw, d5⟩ := hi
  constructor
  · intro k; obtain ⟨a, b, c, d, e, f⟩ := hl k; rw [a, d]; exact d1 k
  · intro k; obtain ⟨a, b, c, d, e, f⟩ := hl k; rw [b, c]; exact d2 k
  · intro k h; obtain ⟨a, b, c, d, e, f⟩ := hl k; rw [c]; exact pr k (e h)
  · intro k h; obtain ⟨a, b, c, d, e, f⟩ := hl k; rw [d]; exact pw k (f h)
  · intro k; obtain ⟨a, b, c, d, e, f⟩ := hl k; rw [a, b]; exact d5 k

/-- close a `LockLe` goal after the successor state has been substituted -/
macro "lockle" : tactic =>
  `(tactic| (intro k'; red; try simp only [if_true, ↓reduceIte, ite_ite_same];
             first | exact lkLe_refl _ | (refine lkLe_ite ?_; simp_all [lkLe]; done)))

macro "groupA" k:term : tactic =>
  `(tactic| (all_goals (subst_vars; constructor)
             all_goals (intro k'; red; by_cases hk : k' = $k <;> first | (subst hk; simp_all; done) | (simp_all; done) | skip)))

theorem LockLe_stepPump {s s' : State}  (h : stepPump s  = some s') : LockLe s s' := by
  unfold stepPump at h
  leaves h
  all_goals (subst h; lockle)

theorem LockLe_stepDoFlush {s s' : State}  (h : stepDoFlush s  = some s') : LockLe s s' := by
  unfold stepDoFlush at h
  leaves h
  all_goals (subst h; lockle)

theorem LockLe_stepWTake {s s' : State}  (h : stepWTake s  = some s') : LockLe s s' := by
  unfold stepWTake at h
  leaves h
  all_goals (subst h; lockle)

theorem LockLe_stepWDo {s s' : State}  (h : stepWDo s  = some s') : LockLe s s' := by
  unfold stepWDo at h
  leaves h
  all_goals (subst h; lockle)

theorem LockLe_stepWBlock {s s' : State}  (h : stepWBlock s  = some s') : LockLe s s' := by
  unfold stepWBlock at h
  leaves h
  all_goals (subst h; lockle)

theorem LockLe_stepFlushStep {s s' : State} {k : Key} (h : stepFlushStep s k = some s') : LockLe s s' := by
  unfold stepFlushStep at h
  leaves h
  all_goals (subst h; lockle)

theorem LockLe_stepCancelWrite {s s' : State} {k : Key} (h : stepCancelWrite s k = some s') : LockLe s s' := by
  unfold stepCancelWrite StreamSt.endWrite at h
  leaves h
  all_goals (subst h; lockle)

theorem LockLe_stepCancelFlush {s s' : State} {k : Key} (h : stepCancelFlush s k = some s') : LockLe s s' := by
  unfold stepCancelFlush at h
  leaves h
  all_goals (subst h; lockle)

theorem LockLe_stepAppOpen {s s' : State} {slot : Nat} {conn : Bool} {cap : Nat} (h : stepAppOpen s slot conn cap = some s') : LockLe s s' := by
  unfold stepAppOpen at h
  leaves h
  all_goals (subst h; lockle)

theorem LockLe_stepReadStep {s s' : State} {k : Key} (h : stepReadStep s k = some s') : LockLe s s' := by
  unfold stepReadStep readFrame at h
  leaves h
  all_goals (subst h; lockle)

theorem LockLe_stepWriteStep {s s' : State} {k : Key} (h : stepWriteStep s k = some s') : LockLe s s' := by
  unfold stepWriteStep StreamSt.endWrite at h
  leaves h
  all_goals (subst h; lockle)

theorem LockLe_stepAppFlush {s s' : State} {slot : Nat} (h : stepAppFlush s slot = some s') : LockLe s s' := by
  unfold stepAppFlush at h
  leaves h
  all_goals (subst h; rename_i k _ _ _; lockle)

theorem LInvA_stepRecvOpenStart {s s' : State} {k : Key} (hi : LInv s) (h : stepRecvOpenStart s k = some s') : LInvA s' := by
  unfold stepRecvOpenStart at h
  obtain ⟨d1, d2, pr, pw, d5, q, qnd, sl, uniq, valid⟩ := hi
  leaves h
  all_goals (have i1 := d1 k; have i2 := d2 k; have i3 := pr k; have i4 := pw k; have i5 := d5 k; clear q qnd sl uniq valid)
  all_goals (rename_i hg; have hx : (s.st k).rphase = RPhase.waitLock := by simp_all)
  all_goals (simp only [hx] at i5)
  groupA k

theorem LInvA_stepDiscard {s s' : State} {k : Key} (hi : LInv s) (h : stepDiscard s k = some s') : LInvA s' := by
  unfold stepDiscard at h
  obtain ⟨d1, d2, pr, pw, d5, q, qnd, sl, uniq, valid⟩ := hi
  leaves h
  all_goals (have i1 := d1 k; have i2 := d2 k; have i3 := pr k; have i4 := pw k; have i5 := d5 k; clear q qnd sl uniq valid)
  groupA k

theorem LInvA_stepCloseData {s s' : State} {k : Key} (hi : LInv s) (h : stepCloseData s k = some s') : LInvA s' := by
  unfold stepCloseData at h
  obtain ⟨d1, d2, pr, pw, d5, q, qnd, sl, uniq, valid⟩ := hi
  leaves h
  all_goals (have i1 := d1 k; have i2 := d2 k; have i3 := pr k; have i4 := pw k; have i5 := d5 k; clear q qnd sl uniq valid)
  groupA k

theorem LInvA_stepCloseFrame {s s' : State} {k : Key} (hi : LInv s) (h : stepCloseFrame s k = some s') : LInvA s' := by
  unfold stepCloseFrame at h
  obtain ⟨d1, d2, pr, pw, d5, q, qnd, sl, uniq, valid⟩ := hi
  leaves h
  all_goals (have i1 := d1 k; have i2 := d2 k; have i3 := pr k; have i4 := pw k; have i5 := d5 k; clear q qnd sl uniq valid)
  groupA k

theorem LInvA_stepJoinedA {s s' : State} {k : Key} (hi : LInv s) (h : stepJoinedA s k = some s') : LInvA s' := by
  unfold stepJoinedA at h
  obtain ⟨d1, d2, pr, pw, d5, q, qnd, sl, uniq, valid⟩ := hi
  leaves h
  all_goals (have i1 := d1 k; have i2 := d2 k; have i3 := pr k; have i4 := pw k; have i5 := d5 k; clear q qnd sl uniq valid)
  groupA k

theorem LInvA_stepPush {s s' : State} {k : Key} (hi : LInv s) (h : stepPush s k = some s') : LInvA s' := by
  unfold stepPush at h
  obtain ⟨d1, d2, pr, pw, d5, q, qnd, sl, uniq, valid⟩ := hi
  leaves h
  all_goals (have i1 := d1 k; have i2 := d2 k; have i3 := pr k; have i4 := pw k; have i5 := d5 k; clear q qnd sl uniq valid)
  groupA k

theorem LInvA_stepSendOpen {s s' : State} {k : Key} (hi : LInv s) (h : stepSendOpen s k = some s') : LInvA s' := by
  unfold stepSendOpen at h
  obtain ⟨d1, d2, pr, pw, d5, q, qnd, sl, uniq, valid⟩ := hi
  leaves h
  all_goals (have i1 := d1 k; have i2 := d2 k; have i3 := pr k; have i4 := pw k; have i5 := d5 k; clear q qnd sl uniq valid)
  groupA k

theorem LInvA_stepJoinedC {s s' : State} {k : Key} (hi : LInv s) (h : stepJoinedC s k = some s') : LInvA s' := by
  unfold stepJoinedC at h
  obtain ⟨d1, d2, pr, pw, d5, q, qnd, sl, uniq, valid⟩ := hi
  leaves h
  all_goals (have i1 := d1 k; have i2 := d2 k; have i3 := pr k; have i4 := pw k; have i5 := d5 k; clear q qnd sl uniq valid)
  groupA k

set_option maxHeartbeats 1000000 in
theorem LInvA_stepAppDrop {s s' : State} {slot : Nat} {r w : Bool} (hi : LInv s) (h : stepAppDrop s slot r w = some s') : LInvA s' := by
  unfold stepAppDrop at h
  obtain ⟨d1, d2, pr, pw, d5, q, qnd, sl, uniq, valid⟩ := hi
  leaves h
  all_goals (rename_i x k hr hw hs g1 g2 g3; have i1 := d1 k; have i2 := d2 k; have i3 := pr k; have i4 := pw k; have i5 := d5 k; have i6 := sl slot k hr hw hs; clear q qnd sl uniq valid)
  groupA k

theorem LInvA_stepPop {s s' : State} {conn : Bool} {cap : Nat} (hi : LInv s) (h : stepPop s conn cap = some s') : LInvA s' := by
  unfold stepPop at h
  obtain ⟨d1, d2, pr, pw, d5, q, qnd, sl, uniq, valid⟩ := hi
  leaves h
  rename_i slot ws id ids hw hp
  have hq := (q conn cap id (by rw [hp]; simp)).1
  have hd5 : conn = false → (s.st ⟨conn, id⟩).rphase = .done := fun hc => d5 ⟨conn, id⟩ hc (Or.inr (Or.inl hq))
  have hd1 := d1 ⟨conn, id⟩
  clear q qnd sl uniq valid
  groupA (⟨conn, id⟩ : Key)

theorem LInvA_stepAppRead {s s' : State} {slot n : Nat} (hi : LInv s) (h : stepAppRead s slot n = some s') : LInvA s' := by
  unfold stepAppRead at h
  obtain ⟨d1, d2, pr, pw, d5, q, qnd, sl, uniq, valid⟩ := hi
  leaves h
  rename_i k w hs hp
  have := (sl slot k true w hs).1 rfl
  have i1 := d1 k; have i2 := d2 k; have i3 := pr k; have i4 := pw k; have i5 := d5 k
  clear q qnd sl uniq valid
  groupA k

theorem LInvA_stepAppWrite {s s' : State} {slot : Nat} {bytes : List Nat} (hi : LInv s) (h : stepAppWrite s slot bytes = some s') : LInvA s' := by
  unfold stepAppWrite at h
  obtain ⟨d1, d2, pr, pw, d5, q, qnd, sl, uniq, valid⟩ := hi
  leaves h
  rename_i k r hs hp
  have := (sl slot k r true hs).2 rfl
  have i1 := d1 k; have i2 := d2 k; have i3 := pr k; have i4 := pw k; have i5 := d5 k
  clear q qnd sl uniq valid
  groupA k

theorem LInvA_step {s s' : State} {e : Event} (hi : LInv s) (h : step? s e = some s') : LInvA s' := by
  cases e <;> simp only [step?] at h
  case wireIn f => cases h; exact LInvA_of_le (s := s) (fun k => lkLe_refl _) hi.toA
  case wireEof => cases h; exact LInvA_of_le (s := s) (fun k => lkLe_refl _) hi.toA
  case pump => exact LInvA_of_le (LockLe_stepPump h) hi.toA
  case recvOpenStart k => exact LInvA_stepRecvOpenStart hi h
  case discard k => exact LInvA_stepDiscard hi h
  case closeData k => exact LInvA_stepCloseData hi h
  case closeFrame k => exact LInvA_stepCloseFrame hi h
  case joinedA k => exact LInvA_stepJoinedA hi h
  case push k => exact LInvA_stepPush hi h
  case pop c x => exact LInvA_stepPop hi h
  case sendOpen k => exact LInvA_stepSendOpen hi h
  case joinedC k => exact LInvA_stepJoinedC hi h
  case doFlush => exact LInvA_of_le (LockLe_stepDoFlush h) hi.toA
  case appOpen a b c => exact LInvA_of_le (LockLe_stepAppOpen h) hi.toA
  case appRead a b => exact LInvA_stepAppRead hi h
  case readStep k => exact LInvA_of_le (LockLe_stepReadStep h) hi.toA
  case appWrite a b => exact LInvA_stepAppWrite hi h
  case writeStep k => exact LInvA_of_le (LockLe_stepWriteStep h) hi.toA
  case appFlush a => exact LInvA_of_le (LockLe_stepAppFlush h) hi.toA
  case appDrop a b c => exact LInvA_stepAppDrop hi h
  case wtake => exact LInvA_of_le (LockLe_stepWTake h) hi.toA
  case wdo => exact LInvA_of_le (LockLe_stepWDo h) hi.toA
  case wblock => exact LInvA_of_le (LockLe_stepWBlock h) hi.toA
  case txWindow l => cases h; exact LInvA_of_le (s := s) (fun k => lkLe_refl _) hi.toA
  case flushStep k => exact LInvA_of_le (LockLe_stepFlushStep h) hi.toA
  case cancelWrite k => exact LInvA_of_le (LockLe_stepCancelWrite h) hi.toA
  case cancelFlush k => exact LInvA_of_le (LockLe_stepCancelFlush h) hi.toA


/-! ### the queues of pushed streams -/

structure QInv (s : State) : Prop where
  q : ∀ conn cap id, id ∈ s.qPushed conn cap →
        (s.st ⟨conn, id⟩).mphase = .pushed ∧ capOfId (s.rng conn) id = some cap
  qnd : ∀ conn cap, (s.qPushed conn cap).Nodup

theorem LInv.toQ {s : State} (h : LInv s) : QInv s := ⟨h.q, h.qnd⟩

/-- the main-loop phase is unchanged, or the stream was not inside `push` -/
def mpOk (t t' : StreamSt) : Prop := t'.mphase = t.mphase ∨ t.mphase ≠ .pushed

theorem mpOk_refl (t : StreamSt) : mpOk t t := Or.inl rfl

theorem mpOk_ite {t : Key → StreamSt} {k k' : Key} {v : StreamSt} (h : mpOk (t k) v) :
    mpOk (t k') (if k' = k then v else t k') := by
  by_cases hk : k' = k
  · subst hk; simpa using h
  · simp [hk, mpOk_refl]

theorem QInv_of_mpOk {s s' : State} (h1 : s'.qPushed = s.qPushed) (h2 : s'.rngAcc = s.rngAcc) (h3 : s'.rngCon = s.rngCon)
    (h4 : ∀ k, mpOk (s.st k) (s'.st k)) (hi : QInv s) : QInv s' := by
  obtain ⟨q, qnd⟩ := hi
  constructor
  · intro conn cap id hm
    rw [h1] at hm
    obtain ⟨a, b⟩ := q conn cap id hm
    refine ⟨?_, ?_⟩
    · rcases h4 ⟨conn, id⟩ with e | e
      · rw [e]; exact a
      · exact absurd a e
    · have : s'.rng conn = s.rng conn := by unfold State.rng; rw [h2, h3]
      rw [this]; exact b
  · intro conn cap; rw [h1]; exact qnd conn cap

macro "mpok" : tactic =>
  `(tactic| (intro k'; red; try simp only [if_true, ↓reduceIte, ite_ite_same];
             first | exact mpOk_refl _ | (refine mpOk_ite ?_; simp_all [mpOk]; done)))

theorem QInv_stepPump {s s' : State}  (hi : QInv s) (h : stepPump s  = some s') : QInv s' := by
  unfold stepPump at h
  leaves h
  all_goals (subst h; refine QInv_of_mpOk (s := s) rfl rfl rfl ?_ hi; mpok)

theorem QInv_stepRecvOpenStart {s s' : State} {k : Key} (hi : QInv s) (h : stepRecvOpenStart s k = some s') : QInv s' := by
  unfold stepRecvOpenStart at h
  leaves h
  all_goals (subst h; refine QInv_of_mpOk (s := s) rfl rfl rfl ?_ hi; mpok)

theorem QInv_stepDiscard {s s' : State} {k : Key} (hi : QInv s) (h : stepDiscard s k = some s') : QInv s' := by
  unfold stepDiscard at h
  leaves h
  all_goals (subst h; refine QInv_of_mpOk (s := s) rfl rfl rfl ?_ hi; mpok)

theorem QInv_stepCloseData {s s' : State} {k : Key} (hi : QInv s) (h : stepCloseData s k = some s') : QInv s' := by
  unfold stepCloseData at h
  leaves h
  all_goals (subst h; refine QInv_of_mpOk (s := s) rfl rfl rfl ?_ hi; mpok)

theorem QInv_stepCloseFrame {s s' : State} {k : Key} (hi : QInv s) (h : stepCloseFrame s k = some s') : QInv s' := by
  unfold stepCloseFrame at h
  leaves h
  all_goals (subst h; refine QInv_of_mpOk (s := s) rfl rfl rfl ?_ hi; mpok)

theorem QInv_stepJoinedA {s s' : State} {k : Key} (hi : QInv s) (h : stepJoinedA s k = some s') : QInv s' := by
  unfold stepJoinedA at h
  leaves h
  all_goals (subst h; refine QInv_of_mpOk (s := s) rfl rfl rfl ?_ hi; mpok)

theorem QInv_stepSendOpen {s s' : State} {k : Key} (hi : QInv s) (h : stepSendOpen s k = some s') : QInv s' := by
  unfold stepSendOpen at h
  leaves h
  all_goals (subst h; refine QInv_of_mpOk (s := s) rfl rfl rfl ?_ hi; mpok)

theorem QInv_stepJoinedC {s s' : State} {k : Key} (hi : QInv s) (h : stepJoinedC s k = some s') : QInv s' := by
  unfold stepJoinedC at h
  leaves h
  all_goals (subst h; refine QInv_of_mpOk (s := s) rfl rfl rfl ?_ hi; mpok)

theorem QInv_stepWTake {s s' : State}  (hi : QInv s) (h : stepWTake s  = some s') : QInv s' := by
  unfold stepWTake at h
  leaves h
  all_goals (subst h; refine QInv_of_mpOk (s := s) rfl rfl rfl ?_ hi; mpok)

theorem QInv_stepWDo {s s' : State}  (hi : QInv s) (h : stepWDo s  = some s') : QInv s' := by
  unfold stepWDo at h
  leaves h
  all_goals (subst h; refine QInv_of_mpOk (s := s) rfl rfl rfl ?_ hi; mpok)

theorem QInv_stepWBlock {s s' : State}  (hi : QInv s) (h : stepWBlock s  = some s') : QInv s' := by
  unfold stepWBlock at h
  leaves h
  all_goals (subst h; refine QInv_of_mpOk (s := s) rfl rfl rfl ?_ hi; mpok)

theorem QInv_stepFlushStep {s s' : State} {k : Key} (hi : QInv s) (h : stepFlushStep s k = some s') : QInv s' := by
  unfold stepFlushStep at h
  leaves h
  all_goals (subst h; refine QInv_of_mpOk (s := s) rfl rfl rfl ?_ hi; mpok)

theorem QInv_stepCancelWrite {s s' : State} {k : Key} (hi : QInv s) (h : stepCancelWrite s k = some s') : QInv s' := by
  unfold stepCancelWrite StreamSt.endWrite at h
  leaves h
  all_goals (subst h; refine QInv_of_mpOk (s := s) rfl rfl rfl ?_ hi; mpok)

theorem QInv_stepCancelFlush {s s' : State} {k : Key} (hi : QInv s) (h : stepCancelFlush s k = some s') : QInv s' := by
  unfold stepCancelFlush at h
  leaves h
  all_goals (subst h; refine QInv_of_mpOk (s := s) rfl rfl rfl ?_ hi; mpok)

theorem QInv_stepDoFlush {s s' : State}  (hi : QInv s) (h : stepDoFlush s  = some s') : QInv s' := by
  unfold stepDoFlush at h
  leaves h
  all_goals (subst h; refine QInv_of_mpOk (s := s) rfl rfl rfl ?_ hi; mpok)

theorem QInv_stepAppOpen {s s' : State} {slot : Nat} {conn : Bool} {cap : Nat} (hi : QInv s) (h : stepAppOpen s slot conn cap = some s') : QInv s' := by
  unfold stepAppOpen at h
  leaves h
  all_goals (subst h; refine QInv_of_mpOk (s := s) rfl rfl rfl ?_ hi; mpok)

theorem QInv_stepAppRead {s s' : State} {slot n : Nat} (hi : QInv s) (h : stepAppRead s slot n = some s') : QInv s' := by
  unfold stepAppRead at h
  leaves h
  all_goals (subst h; refine QInv_of_mpOk (s := s) rfl rfl rfl ?_ hi; mpok)

set_option maxHeartbeats 2000000 in
theorem QInv_stepReadStep {s s' : State} {k : Key} (hi : QInv s) (h : stepReadStep s k = some s') : QInv s' := by
  unfold stepReadStep readFrame at h
  leaves h
  all_goals (subst h; refine QInv_of_mpOk (s := s) rfl rfl rfl ?_ hi; mpok)

theorem QInv_stepAppWrite {s s' : State} {slot : Nat} {bytes : List Nat} (hi : QInv s) (h : stepAppWrite s slot bytes = some s') : QInv s' := by
  unfold stepAppWrite at h
  leaves h
  all_goals (subst h; refine QInv_of_mpOk (s := s) rfl rfl rfl ?_ hi; mpok)

theorem QInv_stepWriteStep {s s' : State} {k : Key} (hi : QInv s) (h : stepWriteStep s k = some s') : QInv s' := by
  unfold stepWriteStep StreamSt.endWrite at h
  leaves h
  all_goals (subst h; refine QInv_of_mpOk (s := s) rfl rfl rfl ?_ hi; mpok)

theorem QInv_stepAppFlush {s s' : State} {slot : Nat} (hi : QInv s) (h : stepAppFlush s slot = some s') : QInv s' := by
  unfold stepAppFlush at h
  leaves h
  all_goals (subst h; refine QInv_of_mpOk (s := s) rfl rfl rfl ?_ hi; mpok)

theorem QInv_stepAppDrop {s s' : State} {slot : Nat} {r w : Bool} (hi : QInv s) (h : stepAppDrop s slot r w = some s') : QInv s' := by
  unfold stepAppDrop at h
  leaves h
  all_goals (subst h; refine QInv_of_mpOk (s := s) rfl rfl rfl ?_ hi; mpok)


theorem QInv_stepPush {s s' : State} {k : Key} (hi : QInv s) (h : stepPush s k = some s') : QInv s' := by
  unfold stepPush at h
  obtain ⟨q, qnd⟩ := hi
  leaves h
  rename_i _ cap hcap hg
  have hmp : (s.st k).mphase = .wantPush := by simp_all
  have hne : ∀ conn cap' id, id ∈ s.qPushed conn cap' → (⟨conn, id⟩ : Key) ≠ k := by
    intro conn cap' id hm he
    have := (q conn cap' id hm).1
    rw [he, hmp] at this; cases this
  subst h
  constructor
  · intro conn cap' id hm
    red
    by_cases hc : conn = k.conn ∧ cap' = cap
    · simp only [hc, and_self, if_true] at hm
      rcases List.mem_append.mp hm with hm | hm
      · obtain ⟨hc1, hc2⟩ := hc
        rw [← hc1, ← hc2] at hm
        have hk := hne conn cap' id hm
        simp only [hk, if_false]
        exact q conn cap' id hm
      · simp only [List.mem_singleton] at hm
        obtain ⟨hc1, hc2⟩ := hc
        subst hm hc1 hc2
        simp [hcap]
    · simp only [hc, if_false] at hm
      have hk := hne conn cap' id hm
      simp only [hk, if_false]
      exact q conn cap' id hm
  · intro conn cap'
    red
    by_cases hc : conn = k.conn ∧ cap' = cap
    · simp only [hc, and_self, if_true]
      refine List.nodup_append.mpr ⟨qnd _ _, by simp, ?_⟩
      intro a ha b hb
      simp only [List.mem_singleton] at hb
      subst hb
      intro he; subst he
      exact hne k.conn cap _ ha rfl
    · simp only [hc, if_false]; exact qnd _ _

theorem QInv_stepPop {s s' : State} {conn : Bool} {cap : Nat} (hi : QInv s) (h : stepPop s conn cap = some s') : QInv s' := by
  unfold stepPop at h
  obtain ⟨q, qnd⟩ := hi
  leaves h
  rename_i slot ws id ids hw hp
  have hnd := qnd conn cap
  rw [hp] at hnd
  have hidq := q conn cap id (by rw [hp]; simp)
  subst h
  constructor
  · intro c x j hm
    red
    by_cases hc : c = conn ∧ x = cap
    · simp only [hc, and_self, if_true] at hm
      obtain ⟨hc1, hc2⟩ := hc
      subst hc1 hc2
      have hj : j ≠ id := by intro e; subst e; exact (List.nodup_cons.mp hnd).1 hm
      have hk : (⟨c, j⟩ : Key) ≠ ⟨c, id⟩ := by intro e; injection e with _ e; exact hj e
      simp only [hk, if_false]
      exact q c x j (by rw [hp]; exact List.mem_cons_of_mem _ hm)
    · simp only [hc, if_false] at hm
      have old := q c x j hm
      have hk : (⟨c, j⟩ : Key) ≠ ⟨conn, id⟩ := by
        intro e; injection e with e1 e2; subst e1 e2
        have := old.2.symm.trans hidq.2
        injection this with this
        exact hc ⟨rfl, this⟩
      simp only [hk, if_false]
      exact old
  · intro c x
    red
    by_cases hc : c = conn ∧ x = cap
    · simp only [hc, and_self, if_true]; exact (List.nodup_cons.mp hnd).2
    · simp only [hc, if_false]; exact qnd _ _

theorem QInv_step {s s' : State} {e : Event} (hi : QInv s) (h : step? s e = some s') : QInv s' := by
  cases e <;> simp only [step?] at h
  case wireIn f => cases h; exact QInv_of_mpOk (s := s) rfl rfl rfl (fun k => mpOk_refl _) hi
  case wireEof => cases h; exact QInv_of_mpOk (s := s) rfl rfl rfl (fun k => mpOk_refl _) hi
  case pump => exact QInv_stepPump hi h
  case recvOpenStart k => exact QInv_stepRecvOpenStart hi h
  case discard k => exact QInv_stepDiscard hi h
  case closeData k => exact QInv_stepCloseData hi h
  case closeFrame k => exact QInv_stepCloseFrame hi h
  case joinedA k => exact QInv_stepJoinedA hi h
  case push k => exact QInv_stepPush hi h
  case pop c x => exact QInv_stepPop hi h
  case sendOpen k => exact QInv_stepSendOpen hi h
  case joinedC k => exact QInv_stepJoinedC hi h
  case doFlush => exact QInv_stepDoFlush hi h
  case appOpen a b c => exact QInv_stepAppOpen hi h
  case appRead a b => exact QInv_stepAppRead hi h
  case readStep k => exact QInv_stepReadStep hi h
  case appWrite a b => exact QInv_stepAppWrite hi h
  case writeStep k => exact QInv_stepWriteStep hi h
  case appFlush a => exact QInv_stepAppFlush hi h
  case appDrop a b c => exact QInv_stepAppDrop hi h
  case wtake => exact QInv_stepWTake hi h
  case wdo => exact QInv_stepWDo hi h
  case wblock => exact QInv_stepWBlock hi h
  case txWindow l => cases h; exact QInv_of_mpOk (s := s) rfl rfl rfl (fun k => mpOk_refl _) hi
  case flushStep k => exact QInv_stepFlushStep hi h
  case cancelWrite k => exact QInv_stepCancelWrite hi h
  case cancelFlush k => exact QInv_stepCancelFlush hi h



end EraVerif.Proofs.Mux
