import EraVerif.Model.Replica
import EraVerif.Proofs.Certs

/-!
Helper lemmas for C05 (`Props/C05.lean`): the representation invariant `Wf` of the replica model
(`Model/Replica.lean`), shape lemmas for the handlers (`onProposal`, `onCommit`, `onTimeout`, `onNewView`,
`startTimeout`) and the per-handler facts the property theorems are assembled from. Core Lean only.
-/

namespace EraVerif.Proofs.ReplicaStep
open EraVerif.Model
open EraVerif.Proofs.Certs

/-! ## association lists -/

theorem alGet_mem {β : Type} {l : List (Nat × β)} {k : Nat} {v : β} (h : alGet l k = some v) : (k, v) ∈ l := by
  unfold alGet at h
  cases hf : l.find? (fun e => e.1 == k) with
  | none => simp [hf] at h
  | some x =>
    simp only [hf, Option.map_some, Option.some.injEq] at h
    have hp := List.find?_some hf
    have hm := List.mem_of_find?_eq_some hf
    simp only [beq_iff_eq] at hp
    obtain ⟨a, b⟩ := x
    simp only at hp h
    subst hp; subst h
    exact hm

theorem mem_alSet {β : Type} {l : List (Nat × β)} {k : Nat} {v : β} {x : Nat × β} (h : x ∈ alSet l k v) :
    x = (k, v) ∨ (x ∈ l ∧ x.1 ≠ k) := by
  unfold alSet at h
  split at h
  · obtain ⟨y, hy, hxy⟩ := List.mem_map.mp h
    by_cases hk : y.1 = k
    · simp only [hk, beq_self_eq_true, if_true] at hxy
      exact Or.inl hxy.symm
    · have : (y.1 == k) = false := by simpa using hk
      simp only [this, Bool.false_eq_true, if_false] at hxy
      subst hxy
      exact Or.inr ⟨hy, hk⟩
  · rename_i hany
    rcases List.mem_append.mp h with h | h
    · refine Or.inr ⟨h, fun hk => hany ?_⟩
      exact List.any_eq_true.mpr ⟨x, h, by simpa using hk⟩
    · exact Or.inl (by simpa using h)

theorem alGet_cons {β : Type} (x : Nat × β) (xs : List (Nat × β)) (k : Nat) :
    alGet (x :: xs) k = if x.1 = k then some x.2 else alGet xs k := by
  unfold alGet
  by_cases h : x.1 = k <;> simp [h]

theorem alGet_map_set {β : Type} (l : List (Nat × β)) (k k' : Nat) (v : β) :
    alGet (l.map (fun e => if e.1 == k then (k, v) else e)) k' =
      if k' = k then (alGet l k).map (fun _ => v) else alGet l k' := by
  induction l with
  | nil => simp [alGet]
  | cons x xs ih =>
    rw [List.map_cons, alGet_cons, ih, alGet_cons, alGet_cons]
    by_cases hx : x.1 = k
    · by_cases hk : k' = k
      · subst hk; simp [hx]
      · have : ¬ k = k' := fun h => hk h.symm
        simp [hx, hk, this]
    · have hxb : (x.1 == k) = false := by simpa using hx
      by_cases hk : k' = k
      · subst hk
        simp [hx, hxb]
      · simp [hxb, hk]

theorem alGet_none_of_not_any {β : Type} (l : List (Nat × β)) (k : Nat) (h : ¬ l.any (fun e => e.1 == k) = true) :
    alGet l k = none := by
  unfold alGet
  simp only [Option.map_eq_none_iff, List.find?_eq_none]
  intro x hx hxk
  exact h (List.any_eq_true.mpr ⟨x, hx, hxk⟩)

theorem alGet_isSome_of_any {β : Type} (l : List (Nat × β)) (k : Nat) (h : l.any (fun e => e.1 == k) = true) :
    ∃ v, alGet l k = some v := by
  unfold alGet
  obtain ⟨x, hx, hxk⟩ := List.any_eq_true.mp h
  cases hf : l.find? (fun e => e.1 == k) with
  | none =>
    rw [List.find?_eq_none] at hf
    exact absurd hxk (hf x hx)
  | some y => exact ⟨y.2, rfl⟩

theorem alGet_alSet {β : Type} (l : List (Nat × β)) (k k' : Nat) (v : β) :
    alGet (alSet l k v) k' = if k' = k then some v else alGet l k' := by
  unfold alSet
  split
  · rename_i hany
    rw [alGet_map_set]
    obtain ⟨w, hw⟩ := alGet_isSome_of_any l k hany
    simp [hw]
  · rename_i hany
    have hn := alGet_none_of_not_any l k hany
    unfold alGet at hn ⊢
    rw [List.find?_append]
    by_cases hk : k' = k
    · subst hk
      simp only [Option.map_eq_none_iff] at hn
      simp [hn]
    · have : ¬ k = k' := fun h => hk h.symm
      simp [hk, this]

theorem mem_alErase {β : Type} {l : List (Nat × β)} {k : Nat} {x : Nat × β} (h : x ∈ alErase l k) : x ∈ l :=
  (List.mem_filter.mp h).1

theorem nextU64_le (v : Nat) : nextU64 v ≤ v + 1 := Nat.mod_le _ _

theorem nextU64_eq (v : Nat) (h : v + 1 < 2 ^ 64) : nextU64 v = v + 1 := Nat.mod_eq_of_lt h


/-! ## certificate views, ordered with `none` below every `some` -/

/-- `none ≤ some`, and `some a ≤ some b ↔ a ≤ b` -/
def OptLe : Option Nat → Option Nat → Prop
  | none, _ => True
  | some _, none => False
  | some a, some b => a ≤ b

theorem optLe_refl (a : Option Nat) : OptLe a a := by cases a <;> simp [OptLe]

theorem optLe_trans {a b c : Option Nat} (h1 : OptLe a b) (h2 : OptLe b c) : OptLe a c := by
  cases a <;> cases b <;> cases c <;> simp_all [OptLe]
  omega

/-- view number of the highest commit certificate held -/
def hcView (r : Replica) : Option Nat := r.highCommitQC.map (·.message.view.number)
/-- view number of the highest timeout certificate held -/
def htView (r : Replica) : Option Nat := r.highTimeoutQC.map (·.view.number)

/-! ## `process_commit_qc` / `process_timeout_qc`: only the two high certificates change, and only upwards -/

/-- `r'` is `r` except for the two high certificates, each of which is either unchanged or replaced by a
verifying certificate of a strictly higher view -/
structure CertUp (cfg : RCfg) (r r' : Replica) : Prop where
  view : r'.view = r.view
  phase : r'.phase = r.phase
  highVote : r'.highVote = r.highVote
  proposals : r'.proposals = r.proposals
  commitViews : r'.commitViews = r.commitViews
  commitQCs : r'.commitQCs = r.commitQCs
  timeoutViews : r'.timeoutViews = r.timeoutViews
  timeoutQCs : r'.timeoutQCs = r.timeoutQCs
  hc : r'.highCommitQC = r.highCommitQC ∨ ∃ q, r'.highCommitQC = some q ∧ q.verify cfg.c = true ∧
        ∀ cur, r.highCommitQC = some cur → cur.message.view.number < q.message.view.number
  ht : r'.highTimeoutQC = r.highTimeoutQC ∨ ∃ q, r'.highTimeoutQC = some q ∧ q.verify cfg.c = true ∧
        ∀ cur, r.highTimeoutQC = some cur → cur.view.number < q.view.number

theorem certUp_refl (cfg : RCfg) (r : Replica) : CertUp cfg r r :=
  ⟨rfl, rfl, rfl, rfl, rfl, rfl, rfl, rfl, Or.inl rfl, Or.inl rfl⟩

theorem certUp_trans {cfg : RCfg} {a b c : Replica} (h1 : CertUp cfg a b) (h2 : CertUp cfg b c) : CertUp cfg a c := by
  refine ⟨h2.view.trans h1.view, h2.phase.trans h1.phase, h2.highVote.trans h1.highVote,
    h2.proposals.trans h1.proposals, h2.commitViews.trans h1.commitViews, h2.commitQCs.trans h1.commitQCs,
    h2.timeoutViews.trans h1.timeoutViews, h2.timeoutQCs.trans h1.timeoutQCs, ?_, ?_⟩
  · rcases h2.hc with h | ⟨q, hq, hv, hlt⟩
    · rw [h]; exact h1.hc
    · refine Or.inr ⟨q, hq, hv, fun cur hcur => ?_⟩
      rcases h1.hc with h | ⟨q1, hq1, _, hlt1⟩
      · exact hlt cur (h ▸ hcur)
      · exact Nat.lt_trans (hlt1 cur hcur) (hlt q1 hq1)
  · rcases h2.ht with h | ⟨q, hq, hv, hlt⟩
    · rw [h]; exact h1.ht
    · refine Or.inr ⟨q, hq, hv, fun cur hcur => ?_⟩
      rcases h1.ht with h | ⟨q1, hq1, _, hlt1⟩
      · exact hlt cur (h ▸ hcur)
      · exact Nat.lt_trans (hlt1 cur hcur) (hlt q1 hq1)

theorem CertUp.hcView_le {cfg : RCfg} {r r' : Replica} (h : CertUp cfg r r') : OptLe (hcView r) (hcView r') := by
  unfold hcView
  rcases h.hc with h | ⟨q, hq, _, hlt⟩
  · rw [h]; exact optLe_refl _
  · rw [hq]
    cases hr : r.highCommitQC with
    | none => simp [OptLe]
    | some cur => simpa [OptLe] using Nat.le_of_lt (hlt cur hr)

theorem CertUp.htView_le {cfg : RCfg} {r r' : Replica} (h : CertUp cfg r r') : OptLe (htView r) (htView r') := by
  unfold htView
  rcases h.ht with h | ⟨q, hq, _, hlt⟩
  · rw [h]; exact optLe_refl _
  · rw [hq]
    cases hr : r.highTimeoutQC with
    | none => simp [OptLe]
    | some cur => simpa [OptLe] using Nat.le_of_lt (hlt cur hr)

/-- effects of the `process_*` functions are block hand-overs only -/
def OnlyQueue (effs : List Effect) : Prop := ∀ x ∈ effs, ∃ n p q, x = Effect.queueBlock n p q

theorem saveBlock_onlyQueue (r : Replica) (e : Env) (q : CommitQC) : OnlyQueue (saveBlock r e q).1 := by
  unfold saveBlock
  split
  · intro x hx; simp at hx
  · split
    · intro x hx; simp at hx
    · split
      · intro x hx
        simp only [List.mem_singleton] at hx
        exact ⟨_, _, _, hx⟩
      · intro x hx; simp at hx

theorem processCommitQC_eq_new (r : Replica) (e : Env) (q : CommitQC)
    (h : ∀ cur, r.highCommitQC = some cur → cur.message.view.number < q.message.view.number) :
    processCommitQC r e q = ({ r with highCommitQC := some q }, (saveBlock { r with highCommitQC := some q } e q).1,
      (saveBlock { r with highCommitQC := some q } e q).2) := by
  unfold processCommitQC
  cases hr : r.highCommitQC with
  | none => simp
  | some cur => simp [h cur hr]

theorem processCommitQC_eq_old (r : Replica) (e : Env) (q cur : CommitQC) (hr : r.highCommitQC = some cur)
    (h : q.message.view.number ≤ cur.message.view.number) : processCommitQC r e q = (r, [], true) := by
  unfold processCommitQC
  have : ¬ cur.message.view.number < q.message.view.number := by omega
  simp [hr, this]

theorem processCommitQC_spec (cfg : RCfg) (r : Replica) (e : Env) (q : CommitQC) (hq : q.verify cfg.c = true) :
    CertUp cfg r (processCommitQC r e q).1 ∧ OnlyQueue (processCommitQC r e q).2.1 ∧
      (processCommitQC r e q).1.highTimeoutQC = r.highTimeoutQC ∧
      ∃ q', (processCommitQC r e q).1.highCommitQC = some q' ∧ q.message.view.number ≤ q'.message.view.number := by
  by_cases h : ∀ cur, r.highCommitQC = some cur → cur.message.view.number < q.message.view.number
  · rw [processCommitQC_eq_new r e q h]
    exact ⟨⟨rfl, rfl, rfl, rfl, rfl, rfl, rfl, rfl, Or.inr ⟨q, rfl, hq, h⟩, Or.inl rfl⟩,
      saveBlock_onlyQueue _ _ _, rfl, q, rfl, Nat.le_refl _⟩
  · have : ∃ cur, r.highCommitQC = some cur ∧ q.message.view.number ≤ cur.message.view.number := by
      apply Classical.byContradiction
      intro hn
      apply h
      intro cur hcur
      apply Classical.byContradiction
      intro hlt
      exact hn ⟨cur, hcur, by omega⟩
    obtain ⟨cur, hcur, hle⟩ := this
    rw [processCommitQC_eq_old r e q cur hcur hle]
    refine ⟨certUp_refl _ _, ?_, rfl, cur, hcur, hle⟩
    intro x hx; simp at hx

theorem lastMaxBy_mem {α : Type} (key : α → Nat) (l : List α) (x : α) (h : lastMaxBy key l = some x) : x ∈ l := by
  cases l with
  | nil => simp [lastMaxBy] at h
  | cons a as =>
    simp only [lastMaxBy, Option.some.injEq] at h
    subst h
    have : ∀ (l : List α) (b : α), l.foldl (fun best y => if key best ≤ key y then y else best) b ∈ b :: l := by
      intro l
      induction l with
      | nil => intro b; simp
      | cons y ys ih =>
        intro b
        rw [List.foldl_cons]
        have h := ih (if key b ≤ key y then y else b)
        rcases List.mem_cons.mp h with h | h
        · rw [h]
          split
          · exact List.mem_cons_of_mem _ List.mem_cons_self
          · exact List.mem_cons_self
        · exact List.mem_cons_of_mem _ (List.mem_cons_of_mem _ h)
    exact this as a

/-- the high certificate of a verifying timeout certificate verifies -/
theorem tqc_highQC_verify (c : Committee) (q : TimeoutQC) (h : q.verify c = true) (hq : CommitQC)
    (hh : q.highQC = some hq) : hq.verify c = true := by
  unfold TimeoutQC.highQC at hh
  have hm := lastMaxBy_mem _ _ _ hh
  obtain ⟨e, he, hee⟩ := List.mem_filterMap.mp hm
  have hv := (((timeoutQC_verify_iff c q).mp h).2.2.1 e he).2.2.2
  simp only [TVote.verify, Bool.and_eq_true] at hv
  have := hv.2
  obtain ⟨m, s⟩ := e
  simp only at hee this
  rw [hee] at this
  exact this

theorem processTimeoutQC_spec (cfg : RCfg) (r : Replica) (e : Env) (q : TimeoutQC) (hq : q.verify cfg.c = true) :
    CertUp cfg r (processTimeoutQC r e q).1 ∧ OnlyQueue (processTimeoutQC r e q).2.1 ∧
      ((processTimeoutQC r e q).2.2 = true →
        ∃ q', (processTimeoutQC r e q).1.highTimeoutQC = some q' ∧ q.view.number ≤ q'.view.number) := by
  unfold processTimeoutQC
  have key : ∀ (p : Replica × List Effect × Bool), CertUp cfg r p.1 → OnlyQueue p.2.1 → p.1.highTimeoutQC = r.highTimeoutQC →
      (CertUp cfg r
        (if (!p.2.2) = true then (p.1, p.2.1, false) else
          (if (match p.1.highTimeoutQC with | none => true | some old => decide (old.view.number < q.view.number)) = true
            then { p.1 with highTimeoutQC := some q } else p.1, p.2.1, true)).1 ∧
      OnlyQueue (if (!p.2.2) = true then (p.1, p.2.1, false) else
          (if (match p.1.highTimeoutQC with | none => true | some old => decide (old.view.number < q.view.number)) = true
            then { p.1 with highTimeoutQC := some q } else p.1, p.2.1, true)).2.1 ∧
      ((if (!p.2.2) = true then (p.1, p.2.1, false) else
          (if (match p.1.highTimeoutQC with | none => true | some old => decide (old.view.number < q.view.number)) = true
            then { p.1 with highTimeoutQC := some q } else p.1, p.2.1, true)).2.2 = true →
        ∃ q', (if (!p.2.2) = true then (p.1, p.2.1, false) else
          (if (match p.1.highTimeoutQC with | none => true | some old => decide (old.view.number < q.view.number)) = true
            then { p.1 with highTimeoutQC := some q } else p.1, p.2.1, true)).1.highTimeoutQC = some q' ∧
            q.view.number ≤ q'.view.number)) := by
    intro p hp hoq hsame
    cases hok : p.2.2 with
    | false => simp [hp, hoq]
    | true =>
      simp only [Bool.not_true, Bool.false_eq_true, if_false]
      cases ht : p.1.highTimeoutQC with
      | none =>
        simp only [if_true]
        refine ⟨certUp_trans hp ⟨rfl, rfl, rfl, rfl, rfl, rfl, rfl, rfl, Or.inl rfl, Or.inr ⟨q, rfl, hq, ?_⟩⟩, hoq,
          fun _ => ⟨q, rfl, Nat.le_refl _⟩⟩
        intro cur hcur; simp [ht] at hcur
      | some old =>
        by_cases hlt : old.view.number < q.view.number
        · simp only [hlt, decide_true, if_true]
          refine ⟨certUp_trans hp ⟨rfl, rfl, rfl, rfl, rfl, rfl, rfl, rfl, Or.inl rfl, Or.inr ⟨q, rfl, hq, ?_⟩⟩, hoq,
            fun _ => ⟨q, rfl, Nat.le_refl _⟩⟩
          intro cur hcur
          simp only [ht, Option.some.injEq] at hcur
          subst hcur; exact hlt
        · simp only [hlt, decide_false, Bool.false_eq_true, if_false]
          exact ⟨hp, hoq, fun _ => ⟨old, ht, by omega⟩⟩
  cases hh : q.highQC with
  | none =>
    exact key (r, [], true) (certUp_refl _ _) (by intro x hx; simp at hx) rfl
  | some hq' =>
    have hv := tqc_highQC_verify cfg.c q hq hq' hh
    obtain ⟨h1, h2, h3, _⟩ := processCommitQC_spec cfg r e hq' hv
    exact key (processCommitQC r e hq') h1 h2 h3


/-- view number of the certificate inside a justification (`j.viewNumber = nextU64 j.certView`) -/
def certView : Just → Nat
  | .commit q => q.message.view.number
  | .timeout q => q.view.number

theorem viewNumber_eq (j : Just) : j.viewNumber = nextU64 (certView j) := by cases j <;> rfl

/-- the replica holds a commit or timeout certificate whose view number + 1 is at least `n` -/
def HeldAtLeast (r : Replica) (n : Nat) : Prop :=
  (∃ q, r.highCommitQC = some q ∧ n ≤ q.message.view.number + 1) ∨
  (∃ q, r.highTimeoutQC = some q ∧ n ≤ q.view.number + 1)

theorem CertUp.held {cfg : RCfg} {r r' : Replica} (h : CertUp cfg r r') {n : Nat} (hh : HeldAtLeast r n) :
    HeldAtLeast r' n := by
  rcases hh with ⟨q, hq, hn⟩ | ⟨q, hq, hn⟩
  · rcases h.hc with h' | ⟨q', hq', _, hlt⟩
    · exact Or.inl ⟨q, h' ▸ hq, hn⟩
    · exact Or.inl ⟨q', hq', by have := hlt q hq; omega⟩
  · rcases h.ht with h' | ⟨q', hq', _, hlt⟩
    · exact Or.inr ⟨q, h' ▸ hq, hn⟩
    · exact Or.inr ⟨q', hq', by have := hlt q hq; omega⟩

theorem processJust_spec (cfg : RCfg) (r : Replica) (e : Env) (j : Just) (hj : j.verify cfg.c = true) :
    CertUp cfg r (processJust r e j).1 ∧ OnlyQueue (processJust r e j).2.1 ∧
      ((processJust r e j).2.2 = true → HeldAtLeast (processJust r e j).1 (certView j + 1)) := by
  cases j with
  | commit q =>
    obtain ⟨h1, h2, _, q', hq', hle⟩ := processCommitQC_spec cfg r e q hj
    exact ⟨h1, h2, fun _ => Or.inl ⟨q', hq', by simpa [certView] using hle⟩⟩
  | timeout q =>
    obtain ⟨h1, h2, h3⟩ := processTimeoutQC_spec cfg r e q hj
    refine ⟨h1, h2, fun hok => ?_⟩
    obtain ⟨q', hq', hle⟩ := h3 hok
    exact Or.inr ⟨q', hq', by simpa [certView] using hle⟩

/-! ## The representation invariant -/

/-- commit-vote caches: every cached partial certificate was assembled by `CommitQC::new` + successful `add`s for
the vote it is stored under, under the view number of that vote; and every signer recorded in a cached certificate
of view `u` has a `commit_views_cache` entry `≥ u` (so a validator whose entry is below `u` is in no certificate of
view `u`: its `add` cannot be a duplicate). -/
structure CCacheOk (c : Committee) (cvs : List (Nat × Nat)) (cqs : List (Nat × List (Vote × CommitQC))) : Prop where
  asm : ∀ u l, (u, l) ∈ cqs → ∀ v qc, (v, qc) ∈ l → CqcAssembled c v qc ∧ v.view.number = u
  bits : ∀ u l, (u, l) ∈ cqs → ∀ v qc, (v, qc) ∈ l → ∀ i : Nat, qc.signers[i]? = some true →
    ∃ w, alGet cvs i = some w ∧ u ≤ w

/-- timeout-vote caches: the same for `timeout_qcs_cache` / `timeout_views_cache`; the cached certificate of view
number `u` was assembled for the view `(this genesis, this epoch, u)`. -/
structure TCacheOk (c : Committee) (tvs : List (Nat × Nat)) (tqs : List (Nat × TimeoutQC)) : Prop where
  asm : ∀ u qc, (u, qc) ∈ tqs → TqcAssembled c { genesis := c.genesis, epoch := c.epoch, number := u } qc
  bits : ∀ u qc, (u, qc) ∈ tqs → ∀ g ∈ qc.map, ∀ i : Nat, g.2[i]? = some true →
    ∃ w, alGet tvs i = some w ∧ u ≤ w

/-- what must hold of a persisted state for a restart from it to be well-formed -/
structure DurableWf (cfg : RCfg) (d : Durable) : Prop where
  hvote : ∀ v, d.highVote = some v → v.verify cfg.c = true
  hcqc : ∀ q, d.highCommitQC = some q → q.verify cfg.c = true
  htqc : ∀ q, d.highTimeoutQC = some q → q.verify cfg.c = true
  held : d.view = 0 ∨ (∃ q, d.highCommitQC = some q ∧ d.view ≤ q.message.view.number + 1) ∨
    (∃ q, d.highTimeoutQC = some q ∧ d.view ≤ q.view.number + 1)

/-- the representation invariant of the replica -/
structure Wf (cfg : RCfg) (r : Replica) : Prop where
  /-- the high vote is for this chain and epoch -/
  hvote : ∀ v, r.highVote = some v → v.verify cfg.c = true
  /-- (a) the stored certificates verify -/
  hcqc : ∀ q, r.highCommitQC = some q → q.verify cfg.c = true
  htqc : ∀ q, r.highTimeoutQC = some q → q.verify cfg.c = true
  /-- (c) the current view is justified by a held certificate -/
  held : r.view = 0 ∨ HeldAtLeast r r.view
  /-- (b) + coherence of the vote caches -/
  ccache : CCacheOk cfg.c r.commitViews r.commitQCs
  tcache : TCacheOk cfg.c r.timeoutViews r.timeoutQCs

theorem ccache_nil (c : Committee) : CCacheOk c [] [] := ⟨by simp, by simp⟩
theorem tcache_nil (c : Committee) : TCacheOk c [] [] := ⟨by simp, by simp⟩

theorem wf_start_some (cfg : RCfg) (d : Durable) (h : DurableWf cfg d) : Wf cfg (Replica.start (some d)) :=
  ⟨h.hvote, h.hcqc, h.htqc, h.held, ccache_nil _, tcache_nil _⟩

theorem wf_start_none (cfg : RCfg) : Wf cfg (Replica.start none) :=
  ⟨by simp [Replica.start, initDurable], by simp [Replica.start, initDurable], by simp [Replica.start, initDurable],
    Or.inl rfl, ccache_nil _, tcache_nil _⟩

theorem Wf.durable {cfg : RCfg} {r : Replica} (h : Wf cfg r) : DurableWf cfg r.durable :=
  ⟨h.hvote, h.hcqc, h.htqc, h.held⟩

/-- certificate updates preserve the certificate part of `Wf` -/
theorem CertUp.hcqc_ok {cfg : RCfg} {r r' : Replica} (h : CertUp cfg r r')
    (h0 : ∀ q, r.highCommitQC = some q → q.verify cfg.c = true) : ∀ q, r'.highCommitQC = some q → q.verify cfg.c = true := by
  intro q hq
  rcases h.hc with h' | ⟨q', hq', hv, _⟩
  · exact h0 q (h' ▸ hq)
  · rw [hq'] at hq; cases hq; exact hv

theorem CertUp.htqc_ok {cfg : RCfg} {r r' : Replica} (h : CertUp cfg r r')
    (h0 : ∀ q, r.highTimeoutQC = some q → q.verify cfg.c = true) : ∀ q, r'.highTimeoutQC = some q → q.verify cfg.c = true := by
  intro q hq
  rcases h.ht with h' | ⟨q', hq', hv, _⟩
  · exact h0 q (h' ▸ hq)
  · rw [hq'] at hq; cases hq; exact hv

/-! ## `get_justification`, `start_new_view` -/

theorem getJustification_congr {r r' : Replica} (h1 : r'.highCommitQC = r.highCommitQC)
    (h2 : r'.highTimeoutQC = r.highTimeoutQC) : getJustification r' = getJustification r := by
  unfold getJustification; rw [h1, h2]

theorem getJustification_ok {r : Replica} {n : Nat} (h : HeldAtLeast r n) : ∃ j, getJustification r = .ok j := by
  unfold getJustification
  rcases h with ⟨q, hq, _⟩ | ⟨q, hq, _⟩
  · rw [hq]
    cases r.highTimeoutQC with
    | none => exact ⟨_, rfl⟩
    | some t => simp only; split <;> exact ⟨_, rfl⟩
  · rw [hq]
    cases r.highCommitQC with
    | none => exact ⟨_, rfl⟩
    | some t => simp only; split <;> exact ⟨_, rfl⟩

/-- the justification is one of the two held certificates, and the commit certificate whenever its view is at least
the timeout certificate's -/
theorem getJustification_spec {r : Replica} {j : Just} (h : getJustification r = .ok j) :
    (∃ q, j = .commit q ∧ r.highCommitQC = some q ∧ ∀ t, r.highTimeoutQC = some t → t.view.number ≤ q.message.view.number) ∨
    (∃ t, j = .timeout t ∧ r.highTimeoutQC = some t ∧ ∀ q, r.highCommitQC = some q → q.message.view.number < t.view.number) := by
  unfold getJustification at h
  cases hc : r.highCommitQC with
  | none =>
    cases ht : r.highTimeoutQC with
    | none => simp [hc, ht] at h
    | some t =>
      simp only [hc, ht, Res.ok.injEq] at h
      exact Or.inr ⟨t, h.symm, rfl, by simp⟩
  | some q =>
    cases ht : r.highTimeoutQC with
    | none =>
      simp only [hc, ht, Res.ok.injEq] at h
      exact Or.inl ⟨q, h.symm, rfl, by simp⟩
    | some t =>
      simp only [hc, ht] at h
      split at h
      · rename_i hge
        simp only [Res.ok.injEq] at h
        exact Or.inl ⟨q, h.symm, rfl, by intro t' ht'; cases ht'; exact hge⟩
      · rename_i hge
        simp only [Res.ok.injEq] at h
        exact Or.inr ⟨t, h.symm, rfl, by intro q' hq'; cases hq'; omega⟩

/-- the state after `start_new_view` -/
def snvState (r : Replica) (view : Nat) : Replica :=
  match r.highCommitQC with
  | some qc => { r with view := view, phase := .prepare,
                        proposals := r.proposals.filter (fun p => p.1 > qc.message.proposal.number) }
  | none => { r with view := view, phase := .prepare }

theorem snvState_fields (r : Replica) (view : Nat) :
    (snvState r view).view = view ∧ (snvState r view).phase = .prepare ∧ (snvState r view).highVote = r.highVote ∧
    (snvState r view).highCommitQC = r.highCommitQC ∧ (snvState r view).highTimeoutQC = r.highTimeoutQC ∧
    (snvState r view).commitViews = r.commitViews ∧ (snvState r view).commitQCs = r.commitQCs ∧
    (snvState r view).timeoutViews = r.timeoutViews ∧ (snvState r view).timeoutQCs = r.timeoutQCs := by
  unfold snvState
  cases r.highCommitQC <;> simp

theorem startNewView_ok (r : Replica) (view : Nat) (j : Just) (h : getJustification r = .ok j) :
    startNewView r view = { r := snvState r view,
                            effs := [.notify j, .persist (snvState r view).durable, .send (.newView j)],
                            out := .accepted } := by
  have h' : getJustification { r with view := view, phase := .prepare } = .ok j := h
  unfold startNewView snvState
  simp only [h']
  cases r.highCommitQC <;> rfl

/-- `start_new_view` from a well-formed certificate state to a view a held certificate justifies -/
theorem wf_snv {cfg : RCfg} {r : Replica} {view : Nat}
    (hvote : ∀ v, r.highVote = some v → v.verify cfg.c = true)
    (hcqc : ∀ q, r.highCommitQC = some q → q.verify cfg.c = true)
    (htqc : ∀ q, r.highTimeoutQC = some q → q.verify cfg.c = true)
    (held : HeldAtLeast r view)
    (cc : CCacheOk cfg.c r.commitViews r.commitQCs) (tc : TCacheOk cfg.c r.timeoutViews r.timeoutQCs) :
    Wf cfg (snvState r view) := by
  obtain ⟨f1, _, f3, f4, f5, f6, f7, f8, f9⟩ := snvState_fields r view
  refine ⟨by rw [f3]; exact hvote, by rw [f4]; exact hcqc, by rw [f5]; exact htqc, Or.inr ?_,
    by rw [f6, f7]; exact cc, by rw [f8, f9]; exact tc⟩
  unfold HeldAtLeast
  rw [f1, f4, f5]
  exact held


/-! ## What an accepted step guarantees (assembled per handler below) -/

theorem OnlyQueue.no_send {effs : List Effect} (h : OnlyQueue effs) (m : Msg) : Effect.send m ∉ effs := by
  intro hm; obtain ⟨_, _, _, hx⟩ := h _ hm; cases hx

theorem OnlyQueue.no_notify {effs : List Effect} (h : OnlyQueue effs) (j : Just) : Effect.notify j ∉ effs := by
  intro hm; obtain ⟨_, _, _, hx⟩ := h _ hm; cases hx

theorem OnlyQueue.no_persist {effs : List Effect} (h : OnlyQueue effs) (d : Durable) : Effect.persist d ∉ effs := by
  intro hm; obtain ⟨_, _, _, hx⟩ := h _ hm; cases hx

/-- the timeout vote a replica in state `r` sends -/
def ownTimeout (cfg : RCfg) (r : Replica) : TVote :=
  { view := { genesis := cfg.c.genesis, epoch := cfg.c.epoch, number := r.view },
    highVote := r.highVote, highQC := r.highCommitQC }

/-- Everything the property theorems say about an accepted step `r → res`. `nowrap` is the hypothesis under which
the view is monotone, `prov j` says where the justification of a view change came from. -/
structure Accepted (cfg : RCfg) (r : Replica) (nowrap : Prop) (prov : Just → Prop) (res : StepRes) : Prop where
  wf : Wf cfg res.r
  hc_mono : OptLe (hcView r) (hcView res.r)
  ht_mono : OptLe (htView r) (htView res.r)
  view_mono : nowrap → r.view ≤ res.r.view
  justified : res.r.view ≠ r.view → ∃ j, j.verify cfg.c = true ∧ j.viewNumber = res.r.view ∧ prov j
  held : res.r.view ≠ r.view → HeldAtLeast res.r res.r.view
  newView : ∀ j, Effect.send (.newView j) ∈ res.effs → getJustification res.r = .ok j
  notify : ∀ j, Effect.notify j ∈ res.effs → getJustification res.r = .ok j
  timeout : ∀ t, Effect.send (.timeout t) ∈ res.effs → t = ownTimeout cfg res.r
  commit : ∀ v, Effect.send (.commit v) ∈ res.effs → res.r.highVote = some v
  proposal : ∀ p j, Effect.send (.proposal p j) ∉ res.effs
  persist : ∀ d, Effect.persist d ∈ res.effs → d = res.r.durable

/-! ## `start_timeout` -/

/-- the state after `start_timeout` -/
def stState (r : Replica) : Replica := { r with phase := .timeout }

theorem startTimeout_eq0 (cfg : RCfg) (r : Replica) (h : r.view = 0) :
    startTimeout cfg r = { r := stState r,
                           effs := [.persist (stState r).durable, .send (.timeout (ownTimeout cfg (stState r)))],
                           out := .accepted } := by
  unfold startTimeout
  have : ¬ ({ r with phase := Phase.timeout } : Replica).view ≠ 0 := by simpa using h
  rw [if_neg this]
  rfl

theorem startTimeout_eq1 (cfg : RCfg) (r : Replica) (j : Just) (h : r.view ≠ 0) (hj : getJustification r = .ok j) :
    startTimeout cfg r = { r := stState r,
                           effs := [.persist (stState r).durable, .send (.newView j),
                                    .send (.timeout (ownTimeout cfg (stState r)))],
                           out := .accepted } := by
  unfold startTimeout
  have h1 : ({ r with phase := Phase.timeout } : Replica).view ≠ 0 := h
  have h2 : getJustification { r with phase := Phase.timeout } = .ok j := hj
  rw [if_pos h1]
  simp only [h2]
  rfl

theorem startTimeout_accepted {cfg : RCfg} {r : Replica} (h : Wf cfg r) :
    (startTimeout cfg r).out = .accepted ∧ Accepted cfg r True (fun _ => False) (startTimeout cfg r) := by
  have hwf : Wf cfg (stState r) := ⟨h.hvote, h.hcqc, h.htqc, h.held, h.ccache, h.tcache⟩
  by_cases hv : r.view = 0
  · rw [startTimeout_eq0 cfg r hv]
    refine ⟨rfl, hwf, optLe_refl _, optLe_refl _, fun _ => Nat.le_refl _, fun hne => absurd rfl hne,
      fun hne => absurd rfl hne, ?_, ?_, ?_, ?_, ?_, ?_⟩
    · intro j hj; simp at hj
    · intro j hj; simp at hj
    · intro t ht
      simpa using ht
    · intro v hv; simp at hv
    · intro p j hp; simp at hp
    · intro d hd
      simpa using hd
  · have hheld : HeldAtLeast r r.view := by
      rcases h.held with h0 | h0
      · exact absurd h0 hv
      · exact h0
    obtain ⟨j, hj⟩ := getJustification_ok hheld
    rw [startTimeout_eq1 cfg r j hv hj]
    refine ⟨rfl, hwf, optLe_refl _, optLe_refl _, fun _ => Nat.le_refl _, fun hne => absurd rfl hne,
      fun hne => absurd rfl hne, ?_, ?_, ?_, ?_, ?_, ?_⟩
    · intro j' hj'
      have : j' = j := by simpa using hj'
      rw [this]; exact hj
    · intro j' hj'; simp at hj'
    · intro t ht
      simpa using ht
    · intro v hv; simp at hv
    · intro p j hp; simp at hp
    · intro d hd
      simpa using hd


/-! ## steps that end in `start_new_view` -/

theorem mem_queue_append {qs l : List Effect} {x : Effect} (h : OnlyQueue qs) (hx : x ∈ qs ++ l)
    (hn : ∀ n p q, x ≠ .queueBlock n p q) : x ∈ l := by
  rcases List.mem_append.mp hx with hx | hx
  · obtain ⟨n, p, q, hq⟩ := h x hx
    exact absurd hq (hn n p q)
  · exact hx

theorem wf_certUp {cfg : RCfg} {r r' : Replica} (h : Wf cfg r) (hu : CertUp cfg r r') : Wf cfg r' := by
  refine ⟨by rw [hu.highVote]; exact h.hvote, hu.hcqc_ok h.hcqc, hu.htqc_ok h.htqc, ?_,
    by rw [hu.commitViews, hu.commitQCs]; exact h.ccache, by rw [hu.timeoutViews, hu.timeoutQCs]; exact h.tcache⟩
  rw [hu.view]
  rcases h.held with h0 | h0
  · exact Or.inl h0
  · exact Or.inr (hu.held h0)

theorem snv_accepted {cfg : RCfg} {r r3 : Replica} {qs : List Effect} {view : Nat} {nowrap : Prop} {prov : Just → Prop}
    (hvote : ∀ v, r3.highVote = some v → v.verify cfg.c = true)
    (hcqc : ∀ q, r3.highCommitQC = some q → q.verify cfg.c = true)
    (htqc : ∀ q, r3.highTimeoutQC = some q → q.verify cfg.c = true)
    (held : HeldAtLeast r3 view)
    (cc : CCacheOk cfg.c r3.commitViews r3.commitQCs) (tc : TCacheOk cfg.c r3.timeoutViews r3.timeoutQCs)
    (hq : OnlyQueue qs) (hc : OptLe (hcView r) (hcView r3)) (ht : OptLe (htView r) (htView r3))
    (hmono : nowrap → r.view ≤ view) (hjust : ∃ j, j.verify cfg.c = true ∧ j.viewNumber = view ∧ prov j) :
    ({ startNewView r3 view with effs := qs ++ (startNewView r3 view).effs } : StepRes).out = .accepted ∧
      Accepted cfg r nowrap prov { startNewView r3 view with effs := qs ++ (startNewView r3 view).effs } := by
  obtain ⟨j, hj⟩ := getJustification_ok held
  obtain ⟨f1, _, _, f4, f5, _⟩ := snvState_fields r3 view
  rw [startNewView_ok r3 view j hj]
  have hwf := wf_snv hvote hcqc htqc held cc tc
  have hheld' : HeldAtLeast (snvState r3 view) (snvState r3 view).view := by
    unfold HeldAtLeast
    rw [f1, f4, f5]
    exact held
  refine ⟨rfl, hwf, ?_, ?_, ?_, ?_, fun _ => hheld', ?_, ?_, ?_, ?_, ?_, ?_⟩
  · show OptLe (hcView r) (hcView (snvState r3 view))
    unfold hcView at hc ⊢; rw [f4]; exact hc
  · show OptLe (htView r) (htView (snvState r3 view))
    unfold htView at ht ⊢; rw [f5]; exact ht
  · intro hn
    show r.view ≤ (snvState r3 view).view
    rw [f1]; exact hmono hn
  · intro _
    show ∃ j, j.verify cfg.c = true ∧ j.viewNumber = (snvState r3 view).view ∧ prov j
    rw [f1]; exact hjust
  · intro j' hj'
    have := mem_queue_append hq hj' (by intro _ _ _ h; cases h)
    have : j' = j := by simpa using this
    rw [this]
    exact (getJustification_congr f4 f5).trans hj
  · intro j' hj'
    have := mem_queue_append hq hj' (by intro _ _ _ h; cases h)
    have : j' = j := by simpa using this
    rw [this]
    exact (getJustification_congr f4 f5).trans hj
  · intro t ht'
    have := mem_queue_append hq ht' (by intro _ _ _ h; cases h)
    simp at this
  · intro v hv
    have := mem_queue_append hq hv (by intro _ _ _ h; cases h)
    simp at this
  · intro p j' hp
    have := mem_queue_append hq hp (by intro _ _ _ h; cases h)
    simp at this
  · intro d hd
    have := mem_queue_append hq hd (by intro _ _ _ h; cases h)
    simpa using this

/-! ## `on_new_view` -/

/-- the part of `on_new_view` after the checks -/
def newViewTail (r : Replica) (e : Env) (j : Just) : StepRes :=
  if !(processJust r e j).2.2 then { r := (processJust r e j).1, effs := (processJust r e j).2.1, out := .blocked }
  else if j.viewNumber > (processJust r e j).1.view then
    { startNewView (processJust r e j).1 j.viewNumber with
      effs := (processJust r e j).2.1 ++ (startNewView (processJust r e j).1 j.viewNumber).effs }
  else { r := (processJust r e j).1, effs := (processJust r e j).2.1, out := .accepted }

/-- the checks of `on_new_view`, in order -/
def NewViewChecks (cfg : RCfg) (r : Replica) (key : Nat) (sigOk : Bool) (j : Just) : Prop :=
  ¬ (j.viewNumber < r.view ∨ (j.viewNumber = r.view ∧ key ≠ cfg.leader r.view)) ∧ key < cfg.c.n ∧ sigOk = true ∧
    j.verify cfg.c = true

theorem onNewView_cases (cfg : RCfg) (r : Replica) (e : Env) (key : Nat) (sigOk : Bool) (j : Just) :
    (¬ NewViewChecks cfg r key sigOk j ∧ ∃ w, onNewView cfg r e key sigOk j = rej r w) ∨
    (NewViewChecks cfg r key sigOk j ∧ onNewView cfg r e key sigOk j = newViewTail r e j) := by
  unfold onNewView NewViewChecks
  by_cases h1 : j.viewNumber < r.view ∨ (j.viewNumber = r.view ∧ key ≠ cfg.leader r.view)
  · exact Or.inl ⟨fun h => h.1 h1, .old, by simp only [h1, if_true]⟩
  · by_cases h2 : key ≥ cfg.c.n
    · exact Or.inl ⟨fun h => by omega, .nonValidator, by simp only [h1, h2, if_true, if_false]⟩
    · cases h3 : sigOk with
      | false => exact Or.inl ⟨fun h => by simp at h, .badSignature, by simp [h1, h2]⟩
      | true =>
        cases h4 : j.verify cfg.c with
        | false => exact Or.inl ⟨fun h => by simp at h, .invalidMessage, by simp [h1, h2]⟩
        | true =>
          refine Or.inr ⟨⟨h1, by omega, rfl, rfl⟩, ?_⟩
          simp only [h1, h2, if_false, Bool.not_true, Bool.false_eq_true]
          rfl


theorem newViewTail_accepted {cfg : RCfg} {r : Replica} {e : Env} {j : Just} (h : Wf cfg r)
    (hj : j.verify cfg.c = true) (hge : r.view ≤ j.viewNumber) :
    ((newViewTail r e j).out = .blocked ∧ OnlyQueue (newViewTail r e j).effs) ∨
      ((newViewTail r e j).out = .accepted ∧ Accepted cfg r True (fun j' => j' = j) (newViewTail r e j)) := by
  obtain ⟨hup, hoq, hheld⟩ := processJust_spec cfg r e j hj
  unfold newViewTail
  cases hok : (processJust r e j).2.2 with
  | false => exact Or.inl ⟨rfl, hoq⟩
  | true =>
    simp only [Bool.not_true, Bool.false_eq_true, if_false]
    have hwf1 := wf_certUp h hup
    by_cases hgt : j.viewNumber > (processJust r e j).1.view
    · rw [if_pos hgt]
      refine Or.inr (snv_accepted hwf1.hvote hwf1.hcqc hwf1.htqc ?_ hwf1.ccache hwf1.tcache hoq hup.hcView_le
        hup.htView_le (fun _ => hge) ⟨j, hj, rfl, rfl⟩)
      have := hheld hok
      have hle := nextU64_le (certView j)
      rw [viewNumber_eq]
      rcases this with ⟨q, hq, hn⟩ | ⟨q, hq, hn⟩
      · exact Or.inl ⟨q, hq, by omega⟩
      · exact Or.inr ⟨q, hq, by omega⟩
    · rw [if_neg hgt]
      refine Or.inr ⟨rfl, hwf1, hup.hcView_le, hup.htView_le, fun _ => Nat.le_of_eq hup.view.symm,
        fun hne => absurd hup.view hne, fun hne => absurd hup.view hne, ?_, ?_, ?_, ?_, ?_, ?_⟩
      · intro j' hj'; exact absurd hj' (hoq.no_send _)
      · intro j' hj'; exact absurd hj' (hoq.no_notify _)
      · intro t ht; exact absurd ht (hoq.no_send _)
      · intro v hv; exact absurd hv (hoq.no_send _)
      · intro p j'; exact hoq.no_send _
      · intro d hd; exact absurd hd (hoq.no_persist _)


/-! ## `on_proposal` -/

/-- the checks of `on_proposal` before the payload is looked at, in order -/
def PropChecks (cfg : RCfg) (r : Replica) (e : Env) (key : Nat) (sigOk : Bool) (j : Just) : Prop :=
  ¬ (j.viewNumber < r.view ∨ (j.viewNumber = r.view ∧ r.phase ≠ .prepare)) ∧ key = cfg.leader j.viewNumber ∧
    sigOk = true ∧ j.verify cfg.c = true ∧ e.queuedFirst ≤ (j.impliedBlock cfg.c).1

/-- the proposal cache after `entry(number).or_default().insert(hash, payload)` -/
def cacheProposal (ps : List (Nat × Payload)) (num : Nat) (p : Payload) : List (Nat × Payload) :=
  if ps.any (fun q => q.1 == num && q.2.id == p.id) then ps else ps ++ [(num, p)]

/-- the hash to vote for and the state with the payload cached; or the reason to reject -/
def propDecide (cfg : RCfg) (r : Replica) (e : Env) (payload : Option Payload) (j : Just) : Except Reject (Nat × Replica) :=
  match (j.impliedBlock cfg.c).2, payload with
  | some _, some _ => .error .reproposalWithPayload
  | some h, none => .ok (h, r)
  | none, none => .error .missingPayload
  | none, some p =>
    if p.size > cfg.maxPayload then .error .oversized
    else if (j.impliedBlock cfg.c).1 ≠ 0 ∧ ¬ ((j.impliedBlock cfg.c).1 - 1 < e.persistedNext) then .error .missingPrevious
    else if !e.payloadOk then .error .invalidPayload
    else .ok (p.id, { r with proposals := cacheProposal r.proposals (j.impliedBlock cfg.c).1 p })

/-- the vote `on_proposal` casts -/
def propVote (cfg : RCfg) (j : Just) (h : Nat) : Vote :=
  { view := j.view, proposal := { number := (j.impliedBlock cfg.c).1, payload := h } }

/-- the state `on_proposal` hands to `process_commit_qc` / `process_timeout_qc` -/
def propR1 (cfg : RCfg) (r0 : Replica) (j : Just) (h : Nat) : Replica :=
  { r0 with view := j.viewNumber, phase := .commit, highVote := some (propVote cfg j h) }

/-- the part of `on_proposal` after all checks -/
def propTail (cfg : RCfg) (r0 : Replica) (e : Env) (j : Just) (h : Nat) : StepRes :=
  if !(processJust (propR1 cfg r0 j h) e j).2.2 then
    { r := (processJust (propR1 cfg r0 j h) e j).1, effs := (processJust (propR1 cfg r0 j h) e j).2.1, out := .blocked }
  else
    { r := (processJust (propR1 cfg r0 j h) e j).1,
      effs := (processJust (propR1 cfg r0 j h) e j).2.1 ++
        [.persist (processJust (propR1 cfg r0 j h) e j).1.durable, .send (.commit (propVote cfg j h))],
      out := .accepted }

theorem onProposal_eq (cfg : RCfg) (r : Replica) (e : Env) (key : Nat) (sigOk : Bool) (payload : Option Payload)
    (j : Just) :
    onProposal cfg r e key sigOk payload j =
      if j.viewNumber < r.view ∨ (j.viewNumber = r.view ∧ r.phase ≠ .prepare) then rej r .old
      else if key ≠ cfg.leader j.viewNumber then rej r .invalidLeader
      else if !sigOk then rej r .badSignature
      else if !(j.verify cfg.c) then rej r .invalidMessage
      else if (j.impliedBlock cfg.c).1 < e.queuedFirst then rej r .pruned
      else match propDecide cfg r e payload j with
        | .error w => rej r w
        | .ok (h, r0) => propTail cfg r0 e j h := rfl

theorem onProposal_cases (cfg : RCfg) (r : Replica) (e : Env) (key : Nat) (sigOk : Bool) (payload : Option Payload)
    (j : Just) :
    (¬ PropChecks cfg r e key sigOk j ∧ ∃ w, onProposal cfg r e key sigOk payload j = rej r w) ∨
    (PropChecks cfg r e key sigOk j ∧
      ((∃ w, propDecide cfg r e payload j = .error w ∧ onProposal cfg r e key sigOk payload j = rej r w) ∨
       (∃ h r0, propDecide cfg r e payload j = .ok (h, r0) ∧
          onProposal cfg r e key sigOk payload j = propTail cfg r0 e j h))) := by
  rw [onProposal_eq]
  unfold PropChecks
  by_cases h1 : j.viewNumber < r.view ∨ (j.viewNumber = r.view ∧ r.phase ≠ .prepare)
  · exact Or.inl ⟨fun h => h.1 h1, .old, by rw [if_pos h1]⟩
  · rw [if_neg h1]
    by_cases h2 : key ≠ cfg.leader j.viewNumber
    · exact Or.inl ⟨fun h => h2 h.2.1, .invalidLeader, by rw [if_pos h2]⟩
    · rw [if_neg h2]
      cases h3 : sigOk with
      | false => exact Or.inl ⟨fun h => by simp at h, .badSignature, by simp⟩
      | true =>
        cases h4 : j.verify cfg.c with
        | false => exact Or.inl ⟨fun h => by simp at h, .invalidMessage, by simp⟩
        | true =>
          simp only [Bool.not_true, Bool.false_eq_true, if_false]
          by_cases h5 : (j.impliedBlock cfg.c).1 < e.queuedFirst
          · exact Or.inl ⟨fun h => by omega, .pruned, by rw [if_pos h5]⟩
          · rw [if_neg h5]
            refine Or.inr ⟨⟨h1, by simpa using h2, trivial, trivial, by omega⟩, ?_⟩
            cases hd : propDecide cfg r e payload j with
            | error w => exact Or.inl ⟨w, rfl, rfl⟩
            | ok x => exact Or.inr ⟨x.1, x.2, rfl, rfl⟩


/-- what `propDecide = ok (h, r0)` means: a re-proposal without payload (vote for the implied hash, state unchanged),
or a fresh proposal whose payload is small enough, whose predecessor is persisted, which verifies, and which is cached
(vote for the payload's hash) -/
theorem propDecide_ok {cfg : RCfg} {r : Replica} {e : Env} {payload : Option Payload} {j : Just} {h : Nat} {r0 : Replica}
    (hd : propDecide cfg r e payload j = .ok (h, r0)) :
    ((j.impliedBlock cfg.c).2 = some h ∧ payload = none ∧ r0 = r) ∨
    ((j.impliedBlock cfg.c).2 = none ∧ ∃ p, payload = some p ∧ p.size ≤ cfg.maxPayload ∧
      ((j.impliedBlock cfg.c).1 = 0 ∨ (j.impliedBlock cfg.c).1 - 1 < e.persistedNext) ∧ e.payloadOk = true ∧ h = p.id ∧
      r0 = { r with proposals := cacheProposal r.proposals (j.impliedBlock cfg.c).1 p }) := by
  unfold propDecide at hd
  split at hd
  · cases hd
  · rename_i h' hib
    simp only [Except.ok.injEq, Prod.mk.injEq] at hd
    exact Or.inl ⟨by rw [hib, hd.1], rfl, hd.2.symm⟩
  · cases hd
  · rename_i p hib
    split at hd
    · cases hd
    · rename_i hsz
      split at hd
      · cases hd
      · rename_i hprev
        split at hd
        · cases hd
        · rename_i hpo
          simp only [Except.ok.injEq, Prod.mk.injEq] at hd
          refine Or.inr ⟨hib, p, rfl, by omega, ?_, by simpa using hpo, hd.1.symm, hd.2.symm⟩
          by_cases h0 : (j.impliedBlock cfg.c).1 = 0
          · exact Or.inl h0
          · refine Or.inr ?_
            apply Classical.byContradiction
            intro hn
            exact hprev ⟨h0, hn⟩

theorem propDecide_rest {cfg : RCfg} {r : Replica} {e : Env} {payload : Option Payload} {j : Just} {h : Nat} {r0 : Replica}
    (hd : propDecide cfg r e payload j = .ok (h, r0)) : r0 = { r with proposals := r0.proposals } := by
  rcases propDecide_ok hd with ⟨_, _, h0⟩ | ⟨_, p, _, _, _, _, _, h0⟩ <;> rw [h0]

theorem just_view_verify {c : Committee} {j : Just} (h : j.verify c = true) : j.view.verify c = true := by
  cases j with
  | commit q =>
    obtain ⟨h1, h2, _⟩ := (commitQC_verify_iff c q).mp h
    exact (view_verify_iff c _).mpr ⟨h1, h2⟩
  | timeout q =>
    obtain ⟨h1, h2, _⟩ := (timeoutQC_verify_iff c q).mp h
    exact (view_verify_iff c _).mpr ⟨h1, h2⟩

theorem just_view_number (j : Just) : j.view.number = j.viewNumber := by cases j <;> rfl

theorem propTail_accepted {cfg : RCfg} {r r0 : Replica} {e : Env} {j : Just} {h : Nat} (hw : Wf cfg r)
    (hr0 : r0 = { r with proposals := r0.proposals }) (hj : j.verify cfg.c = true) (hge : r.view ≤ j.viewNumber) :
    ((propTail cfg r0 e j h).out = .blocked ∧ OnlyQueue (propTail cfg r0 e j h).effs) ∨
      ((propTail cfg r0 e j h).out = .accepted ∧ Accepted cfg r True (fun j' => j' = j) (propTail cfg r0 e j h)) := by
  obtain ⟨hup, hoq, hheld⟩ := processJust_spec cfg (propR1 cfg r0 j h) e j hj
  unfold propTail
  cases hok : (processJust (propR1 cfg r0 j h) e j).2.2 with
  | false => exact Or.inl ⟨rfl, hoq⟩
  | true =>
    simp only [Bool.not_true, Bool.false_eq_true, if_false]
    have e1 : (propR1 cfg r0 j h).highCommitQC = r.highCommitQC := by rw [hr0]; rfl
    have e2 : (propR1 cfg r0 j h).highTimeoutQC = r.highTimeoutQC := by rw [hr0]; rfl
    have e3 : (propR1 cfg r0 j h).commitViews = r.commitViews := by rw [hr0]; rfl
    have e4 : (propR1 cfg r0 j h).commitQCs = r.commitQCs := by rw [hr0]; rfl
    have e5 : (propR1 cfg r0 j h).timeoutViews = r.timeoutViews := by rw [hr0]; rfl
    have e6 : (propR1 cfg r0 j h).timeoutQCs = r.timeoutQCs := by rw [hr0]; rfl
    have e7 : (propR1 cfg r0 j h).view = j.viewNumber := rfl
    have e8 : (propR1 cfg r0 j h).highVote = some (propVote cfg j h) := rfl
    have hheld' : HeldAtLeast (processJust (propR1 cfg r0 j h) e j).1 (processJust (propR1 cfg r0 j h) e j).1.view := by
      rw [hup.view, e7, viewNumber_eq]
      have hle := nextU64_le (certView j)
      rcases hheld hok with ⟨q, hq, hn⟩ | ⟨q, hq, hn⟩
      · exact Or.inl ⟨q, hq, by omega⟩
      · exact Or.inr ⟨q, hq, by omega⟩
    have hwf : Wf cfg (processJust (propR1 cfg r0 j h) e j).1 := by
      refine ⟨?_, hup.hcqc_ok (by rw [e1]; exact hw.hcqc), hup.htqc_ok (by rw [e2]; exact hw.htqc), Or.inr hheld',
        by rw [hup.commitViews, hup.commitQCs, e3, e4]; exact hw.ccache,
        by rw [hup.timeoutViews, hup.timeoutQCs, e5, e6]; exact hw.tcache⟩
      rw [hup.highVote, e8]
      intro v hv
      cases hv
      exact just_view_verify hj
    have hc : OptLe (hcView r) (hcView (processJust (propR1 cfg r0 j h) e j).1) := by
      have := hup.hcView_le
      unfold hcView at this ⊢
      rwa [e1] at this
    have ht : OptLe (htView r) (htView (processJust (propR1 cfg r0 j h) e j).1) := by
      have := hup.htView_le
      unfold htView at this ⊢
      rwa [e2] at this
    refine Or.inr ⟨trivial, hwf, hc, ht, fun _ => ?_, fun _ => ⟨j, hj, ?_, rfl⟩, fun _ => hheld', ?_, ?_, ?_, ?_, ?_, ?_⟩
    · show r.view ≤ (processJust (propR1 cfg r0 j h) e j).1.view
      rw [hup.view, e7]; exact hge
    · show j.viewNumber = (processJust (propR1 cfg r0 j h) e j).1.view
      rw [hup.view, e7]
    · intro j' hj'
      have := mem_queue_append hoq hj' (by intro _ _ _ h; cases h)
      simp at this
    · intro j' hj'
      have := mem_queue_append hoq hj' (by intro _ _ _ h; cases h)
      simp at this
    · intro t ht'
      have := mem_queue_append hoq ht' (by intro _ _ _ h; cases h)
      simp at this
    · intro v hv
      have := mem_queue_append hoq hv (by intro _ _ _ h; cases h)
      have : v = propVote cfg j h := by simpa using this
      show (processJust (propR1 cfg r0 j h) e j).1.highVote = some v
      rw [hup.highVote, e8, this]
    · intro p j' hp
      have := mem_queue_append hoq hp (by intro _ _ _ h; cases h)
      simp at this
    · intro d hd
      have := mem_queue_append hoq hd (by intro _ _ _ h; cases h)
      simpa using this


/-! ## `on_commit` -/

/-- the partial certificate `on_commit` adds the vote to: the cached one for this very vote, else a fresh one -/
def cQc0 (c : Committee) (cqs : List (Nat × List (Vote × CommitQC))) (v : Vote) : CommitQC :=
  ((((alGet cqs v.view.number).getD []).find? (fun x => x.1 = v)).map (·.2)).getD (CommitQC.new c v)

/-- the per-view map with the updated certificate stored under `v` -/
def cByView' (cqs : List (Nat × List (Vote × CommitQC))) (v : Vote) (qc : CommitQC) : List (Vote × CommitQC) :=
  if ((alGet cqs v.view.number).getD []).any (fun x => x.1 = v) then
    ((alGet cqs v.view.number).getD []).map (fun x => if x.1 = v then (v, qc) else x)
  else (alGet cqs v.view.number).getD [] ++ [(v, qc)]

/-- `commit_qcs_cache` after the insert and the pruning of inactive views -/
def cCqs' (cvs : List (Nat × Nat)) (cqs : List (Nat × List (Vote × CommitQC))) (key : Nat) (v : Vote) (qc : CommitQC) :
    List (Nat × List (Vote × CommitQC)) :=
  (alSet cqs v.view.number (cByView' cqs v qc)).filter
    (fun x => (activeViews (alSet cvs key v.view.number)).contains x.1)

/-- the state after a commit vote was stored -/
def commitR1 (r : Replica) (key : Nat) (v : Vote) (qc : CommitQC) : Replica :=
  { r with commitViews := alSet r.commitViews key v.view.number,
           commitQCs := cCqs' r.commitViews r.commitQCs key v qc }

/-- ... and the completed certificate's view was removed from the cache -/
def commitR2 (r : Replica) (key : Nat) (v : Vote) (qc : CommitQC) : Replica :=
  { commitR1 r key v qc with commitQCs := alErase (commitR1 r key v qc).commitQCs v.view.number }

/-- the part of `on_commit` after the checks -/
def commitTail (cfg : RCfg) (r : Replica) (e : Env) (key : Nat) (sigOk : Bool) (v : Vote) : StepRes :=
  match (cQc0 cfg.c r.commitQCs v).add cfg.c { key := some key, sigOk := sigOk } v with
  | .error _ => { r := r, effs := [], out := .panic "could not add message to CommitQC" }
  | .ok qc =>
    if weightOf cfg.c.weights qc.signers < cfg.c.quorum then { r := commitR1 r key v qc, effs := [], out := .accepted }
    else if !(processCommitQC (commitR2 r key v qc) e qc).2.2 then
      { r := (processCommitQC (commitR2 r key v qc) e qc).1, effs := (processCommitQC (commitR2 r key v qc) e qc).2.1,
        out := .blocked }
    else
      { startNewView (processCommitQC (commitR2 r key v qc) e qc).1 (nextU64 v.view.number) with
        effs := (processCommitQC (commitR2 r key v qc) e qc).2.1 ++
          (startNewView (processCommitQC (commitR2 r key v qc) e qc).1 (nextU64 v.view.number)).effs }

theorem onCommit_eq (cfg : RCfg) (r : Replica) (e : Env) (key : Nat) (sigOk : Bool) (v : Vote) :
    onCommit cfg r e key sigOk v =
      if key ≥ cfg.c.n then rej r .nonValidator
      else if v.view.number < r.view then rej r .old
      else if (match alGet r.commitViews key with | some w => decide (w ≥ v.view.number) | none => false) then
        rej r .duplicate
      else if !sigOk then rej r .badSignature
      else if !(v.verify cfg.c) then rej r .invalidMessage
      else commitTail cfg r e key sigOk v := rfl

/-- the checks of `on_commit` / `on_timeout`, in order, for a vote of view number `u` signed by `key`, against the
`*_views_cache` `views` -/
def VoteChecks (cfg : RCfg) (r : Replica) (views : List (Nat × Nat)) (key : Nat) (sigOk : Bool) (u : Nat) (verifies : Bool) :
    Prop :=
  key < cfg.c.n ∧ r.view ≤ u ∧ (∀ w, alGet views key = some w → w < u) ∧ sigOk = true ∧ verifies = true

theorem dupCheck_iff (views : List (Nat × Nat)) (key u : Nat) :
    (match alGet views key with | some w => decide (w ≥ u) | none => false) = true ↔
      ¬ ∀ w, alGet views key = some w → w < u := by
  cases alGet views key with
  | none => simp
  | some w => simp

theorem onCommit_cases (cfg : RCfg) (r : Replica) (e : Env) (key : Nat) (sigOk : Bool) (v : Vote) :
    (¬ VoteChecks cfg r r.commitViews key sigOk v.view.number (v.verify cfg.c) ∧
        ∃ w, onCommit cfg r e key sigOk v = rej r w) ∨
    (VoteChecks cfg r r.commitViews key sigOk v.view.number (v.verify cfg.c) ∧
        onCommit cfg r e key sigOk v = commitTail cfg r e key sigOk v) := by
  rw [onCommit_eq]
  unfold VoteChecks
  by_cases h1 : key ≥ cfg.c.n
  · exact Or.inl ⟨fun h => by omega, .nonValidator, by rw [if_pos h1]⟩
  · rw [if_neg h1]
    by_cases h2 : v.view.number < r.view
    · exact Or.inl ⟨fun h => by omega, .old, by rw [if_pos h2]⟩
    · rw [if_neg h2]
      by_cases h3 : (match alGet r.commitViews key with | some w => decide (w ≥ v.view.number) | none => false) = true
      · exact Or.inl ⟨fun h => (dupCheck_iff _ _ _).mp h3 h.2.2.1, .duplicate, by rw [if_pos h3]⟩
      · rw [if_neg h3]
        have h3' : ∀ w, alGet r.commitViews key = some w → w < v.view.number := by
          apply Classical.byContradiction
          intro hn
          exact h3 ((dupCheck_iff _ _ _).mpr hn)
        cases h4 : sigOk with
        | false => exact Or.inl ⟨fun h => by simp at h, .badSignature, by simp⟩
        | true =>
          cases h5 : v.verify cfg.c with
          | false => exact Or.inl ⟨fun h => by simp at h, .invalidMessage, by simp⟩
          | true => exact Or.inr ⟨⟨by omega, by omega, h3', rfl, rfl⟩, by simp⟩

/-- raising one validator's `*_views_cache` entry keeps every "entry ≥ u'" fact -/
theorem views_mono {views : List (Nat × Nat)} {key u : Nat} (hfresh : ∀ w, alGet views key = some w → w < u)
    {i u' : Nat} (h : ∃ w, alGet views i = some w ∧ u' ≤ w) : ∃ w, alGet (alSet views key u) i = some w ∧ u' ≤ w := by
  obtain ⟨w, hw, hle⟩ := h
  rw [alGet_alSet]
  by_cases hi : i = key
  · subst hi
    have := hfresh w hw
    exact ⟨u, by simp, by omega⟩
  · exact ⟨w, by simp [hi, hw], hle⟩

theorem mem_cByView' {cqs : List (Nat × List (Vote × CommitQC))} {v : Vote} {qc : CommitQC} {x : Vote × CommitQC}
    (h : x ∈ cByView' cqs v qc) : x = (v, qc) ∨ x ∈ (alGet cqs v.view.number).getD [] := by
  unfold cByView' at h
  split at h
  · obtain ⟨y, hy, hxy⟩ := List.mem_map.mp h
    split at hxy
    · exact Or.inl hxy.symm
    · exact Or.inr (hxy ▸ hy)
  · rcases List.mem_append.mp h with h | h
    · exact Or.inr h
    · exact Or.inl (by simpa using h)

theorem mem_getD_alGet {β : Type} {l : List (Nat × List β)} {k : Nat} {x : β} (h : x ∈ (alGet l k).getD []) :
    ∃ m, (k, m) ∈ l ∧ x ∈ m := by
  cases hg : alGet l k with
  | none => simp [hg] at h
  | some m =>
    simp only [hg, Option.getD_some] at h
    exact ⟨m, alGet_mem hg, h⟩

theorem ccache_subset {c : Committee} {cvs : List (Nat × Nat)} {cqs cqs' : List (Nat × List (Vote × CommitQC))}
    (h : CCacheOk c cvs cqs) (hs : ∀ x ∈ cqs', x ∈ cqs) : CCacheOk c cvs cqs' :=
  ⟨fun u l hl => h.asm u l (hs _ hl), fun u l hl => h.bits u l (hs _ hl)⟩

theorem ccache_add {c : Committee} {cvs : List (Nat × Nat)} {cqs : List (Nat × List (Vote × CommitQC))} {key : Nat}
    {v : Vote} {sigOk : Bool} (h : CCacheOk c cvs cqs) (hk : key < c.n)
    (hfresh : ∀ w, alGet cvs key = some w → w < v.view.number) (hs : sigOk = true) (hv : v.verify c = true) :
    ∃ qc, (cQc0 c cqs v).add c { key := some key, sigOk := sigOk } v = .ok qc ∧ CqcAssembled c v qc ∧
      CCacheOk c (alSet cvs key v.view.number) (cCqs' cvs cqs key v qc) := by
  -- the certificate we start from
  have h0 : CqcAssembled c v (cQc0 c cqs v) ∧
      ∀ i : Nat, (cQc0 c cqs v).signers[i]? = some true → ∃ w, alGet cvs i = some w ∧ v.view.number ≤ w := by
    unfold cQc0
    cases hf : ((alGet cqs v.view.number).getD []).find? (fun x => x.1 = v) with
    | none =>
      simp only [Option.map_none, Option.getD_none]
      exact ⟨.new, fun i hi => absurd hi (replicate_false_get _ _)⟩
    | some x =>
      simp only [Option.map_some, Option.getD_some]
      have hx1 : x.1 = v := by simpa using List.find?_some hf
      obtain ⟨m, hm, hxm⟩ := mem_getD_alGet (List.mem_of_find?_eq_some hf)
      have hxm' : (v, x.2) ∈ m := by rw [← hx1]; exact hxm
      exact ⟨(h.asm _ m hm v x.2 hxm').1, h.bits _ m hm v x.2 hxm'⟩
  obtain ⟨hasm0, hbits0⟩ := h0
  obtain ⟨hmsg0, hlen0, _, _⟩ := cqcAssembled_inv hasm0
  have hfree : (cQc0 c cqs v).signers.getD key false = false := by
    rw [getD_false_iff]
    intro hb
    obtain ⟨w, hw, hle⟩ := hbits0 key hb
    have := hfresh w hw
    omega
  have hadd := (cqc_add_ok c (cQc0 c cqs v) { key := some key, sigOk := sigOk } v _).mpr
    ⟨key, rfl, hk, hfree, hs, hmsg0, hv, rfl⟩
  refine ⟨_, hadd, .add hasm0 hadd, ?_⟩
  have hbits_new : ∀ i : Nat, ((cQc0 c cqs v).signers.set key true)[i]? = some true →
      ∃ w, alGet (alSet cvs key v.view.number) i = some w ∧ v.view.number ≤ w := by
    intro i hi
    rcases (set_get _ key i (by omega)).mp hi with rfl | hi
    · exact ⟨v.view.number, by simp [alGet_alSet], Nat.le_refl _⟩
    · exact views_mono hfresh (hbits0 i hi)
  constructor
  · intro u l hl v' qc' hvq
    rcases mem_alSet (List.mem_filter.mp hl).1 with hul | ⟨hul, _⟩
    · cases hul
      rcases mem_cByView' hvq with hx | hx
      · cases hx
        exact ⟨.add hasm0 hadd, rfl⟩
      · obtain ⟨m, hm, hxm⟩ := mem_getD_alGet hx
        exact h.asm _ m hm v' qc' hxm
    · exact h.asm u l hul v' qc' hvq
  · intro u l hl v' qc' hvq i hi
    rcases mem_alSet (List.mem_filter.mp hl).1 with hul | ⟨hul, _⟩
    · cases hul
      rcases mem_cByView' hvq with hx | hx
      · cases hx
        exact hbits_new i hi
      · obtain ⟨m, hm, hxm⟩ := mem_getD_alGet hx
        exact views_mono hfresh (h.bits _ m hm v' qc' hxm i hi)
    · exact views_mono hfresh (h.bits u l hul v' qc' hvq i hi)

/-- a certificate assembled from accepted votes whose weight reaches the quorum verifies -/
theorem cqc_complete_verify {c : Committee} {v : Vote} {qc : CommitQC} (h : CqcAssembled c v qc)
    (hv : v.verify c = true) (hw : c.quorum ≤ weightOf c.weights qc.signers) : qc.verify c = true := by
  obtain ⟨hm, hl, hs, _⟩ := cqcAssembled_inv h
  rw [commitQC_verify_iff, hm]
  have := (view_verify_iff c v.view).mp hv
  refine ⟨this.1, this.2, hl, hw, ?_⟩
  rw [← hm]; exact hs


theorem accepted_of_caches {cfg : RCfg} {r r' : Replica} {nowrap : Prop} {prov : Just → Prop} (hw' : Wf cfg r')
    (h1 : r'.view = r.view) (h2 : r'.highCommitQC = r.highCommitQC) (h3 : r'.highTimeoutQC = r.highTimeoutQC) :
    Accepted cfg r nowrap prov { r := r', effs := [], out := .accepted } := by
  refine ⟨hw', ?_, ?_, fun _ => Nat.le_of_eq h1.symm, fun hne => absurd h1 hne, fun hne => absurd h1 hne,
    ?_, ?_, ?_, ?_, ?_, ?_⟩
  · unfold hcView; rw [show ({ r := r', effs := [], out := .accepted } : StepRes).r.highCommitQC = r.highCommitQC from h2]
    exact optLe_refl _
  · unfold htView; rw [show ({ r := r', effs := [], out := .accepted } : StepRes).r.highTimeoutQC = r.highTimeoutQC from h3]
    exact optLe_refl _
  · intro j hj; simp at hj
  · intro j hj; simp at hj
  · intro t ht; simp at ht
  · intro v hv; simp at hv
  · intro p j hp; simp at hp
  · intro d hd; simp at hd

theorem commitTail_accepted {cfg : RCfg} {r : Replica} {e : Env} {key : Nat} {sigOk : Bool} {v : Vote} (hw : Wf cfg r)
    (hc : VoteChecks cfg r r.commitViews key sigOk v.view.number (v.verify cfg.c)) :
    ((commitTail cfg r e key sigOk v).out = .blocked ∧ OnlyQueue (commitTail cfg r e key sigOk v).effs) ∨
      ((commitTail cfg r e key sigOk v).out = .accepted ∧
        Accepted cfg r (v.view.number + 1 < 2 ^ 64)
          (fun j => ∃ qc, j = .commit qc ∧ qc.message = v ∧ CqcAssembled cfg.c v qc)
          (commitTail cfg r e key sigOk v)) := by
  obtain ⟨hk, hge, hfresh, hs, hv⟩ := hc
  obtain ⟨qc, hadd, hasm, hcc⟩ := ccache_add hw.ccache hk hfresh hs hv
  unfold commitTail
  simp only [hadd]
  by_cases hlt : weightOf cfg.c.weights qc.signers < cfg.c.quorum
  · rw [if_pos hlt]
    have hwf : Wf cfg (commitR1 r key v qc) := ⟨hw.hvote, hw.hcqc, hw.htqc, hw.held, hcc, hw.tcache⟩
    exact Or.inr ⟨rfl, accepted_of_caches hwf rfl rfl rfl⟩
  · rw [if_neg hlt]
    have hver : qc.verify cfg.c = true := cqc_complete_verify hasm hv (by omega)
    have hm : qc.message = v := (cqcAssembled_inv hasm).1
    obtain ⟨hup, hoq, _, q', hq', hle⟩ := processCommitQC_spec cfg (commitR2 r key v qc) e qc hver
    cases hok : (processCommitQC (commitR2 r key v qc) e qc).2.2 with
    | false => exact Or.inl ⟨rfl, hoq⟩
    | true =>
      simp only [Bool.not_true, Bool.false_eq_true, if_false]
      have hcc2 : CCacheOk cfg.c (commitR2 r key v qc).commitViews (commitR2 r key v qc).commitQCs :=
        ccache_subset hcc (fun x hx => mem_alErase hx)
      refine Or.inr (snv_accepted (r := r) ?_ (hup.hcqc_ok hw.hcqc) (hup.htqc_ok hw.htqc) ?_ ?_ ?_ hoq ?_ ?_ ?_ ?_)
      · rw [hup.highVote]; exact hw.hvote
      · refine Or.inl ⟨q', hq', ?_⟩
        have := nextU64_le v.view.number
        rw [hm] at hle
        omega
      · rw [hup.commitViews, hup.commitQCs]; exact hcc2
      · rw [hup.timeoutViews, hup.timeoutQCs]; exact hw.tcache
      · exact hup.hcView_le
      · exact hup.htView_le
      · intro hnw
        rw [nextU64_eq _ hnw]
        omega
      · exact ⟨.commit qc, hver, by simp [Just.viewNumber, hm], qc, rfl, hm, hasm⟩


/-! ## `on_timeout` -/

/-- the partial certificate `on_timeout` adds the vote to -/
def tQc0 (tqs : List (Nat × TimeoutQC)) (t : TVote) : TimeoutQC :=
  (alGet tqs t.view.number).getD (TimeoutQC.new t.view)

/-- `timeout_qcs_cache` after the insert and the pruning of inactive views -/
def tTqs' (tvs : List (Nat × Nat)) (tqs : List (Nat × TimeoutQC)) (key : Nat) (t : TVote) (qc : TimeoutQC) :
    List (Nat × TimeoutQC) :=
  (alSet tqs t.view.number qc).filter (fun x => (activeViews (alSet tvs key t.view.number)).contains x.1)

def timeoutR1 (r : Replica) (key : Nat) (t : TVote) (qc : TimeoutQC) : Replica :=
  { r with timeoutViews := alSet r.timeoutViews key t.view.number,
           timeoutQCs := tTqs' r.timeoutViews r.timeoutQCs key t qc }

def timeoutR2 (r : Replica) (key : Nat) (t : TVote) (qc : TimeoutQC) : Replica :=
  { timeoutR1 r key t qc with timeoutQCs := alErase (timeoutR1 r key t qc).timeoutQCs t.view.number }

/-- the part of `on_timeout` after the checks -/
def timeoutTail (cfg : RCfg) (r : Replica) (e : Env) (key : Nat) (sigOk : Bool) (t : TVote) : StepRes :=
  match (tQc0 r.timeoutQCs t).add cfg.c { key := some key, sigOk := sigOk } t with
  | .error _ => { r := r, effs := [], out := .panic "could not add message to TimeoutQC" }
  | .ok qc =>
    match qc.weight cfg.c with
    | .panic s => { r := r, effs := [], out := .panic s }
    | .ok weight =>
      if weight < cfg.c.quorum then { r := timeoutR1 r key t qc, effs := [], out := .accepted }
      else if !(processTimeoutQC (timeoutR2 r key t qc) e qc).2.2 then
        { r := (processTimeoutQC (timeoutR2 r key t qc) e qc).1, effs := (processTimeoutQC (timeoutR2 r key t qc) e qc).2.1,
          out := .blocked }
      else
        { startNewView (processTimeoutQC (timeoutR2 r key t qc) e qc).1 (nextU64 t.view.number) with
          effs := (processTimeoutQC (timeoutR2 r key t qc) e qc).2.1 ++
            (startNewView (processTimeoutQC (timeoutR2 r key t qc) e qc).1 (nextU64 t.view.number)).effs }

theorem onTimeout_eq (cfg : RCfg) (r : Replica) (e : Env) (key : Nat) (sigOk : Bool) (t : TVote) :
    onTimeout cfg r e key sigOk t =
      if key ≥ cfg.c.n then rej r .nonValidator
      else if t.view.number < r.view then rej r .old
      else if (match alGet r.timeoutViews key with | some w => decide (w ≥ t.view.number) | none => false) then
        rej r .duplicate
      else if !sigOk then rej r .badSignature
      else if !(t.verify cfg.c) then rej r .invalidMessage
      else timeoutTail cfg r e key sigOk t := rfl

theorem onTimeout_cases (cfg : RCfg) (r : Replica) (e : Env) (key : Nat) (sigOk : Bool) (t : TVote) :
    (¬ VoteChecks cfg r r.timeoutViews key sigOk t.view.number (t.verify cfg.c) ∧
        ∃ w, onTimeout cfg r e key sigOk t = rej r w) ∨
    (VoteChecks cfg r r.timeoutViews key sigOk t.view.number (t.verify cfg.c) ∧
        onTimeout cfg r e key sigOk t = timeoutTail cfg r e key sigOk t) := by
  rw [onTimeout_eq]
  unfold VoteChecks
  by_cases h1 : key ≥ cfg.c.n
  · exact Or.inl ⟨fun h => by omega, .nonValidator, by rw [if_pos h1]⟩
  · rw [if_neg h1]
    by_cases h2 : t.view.number < r.view
    · exact Or.inl ⟨fun h => by omega, .old, by rw [if_pos h2]⟩
    · rw [if_neg h2]
      by_cases h3 : (match alGet r.timeoutViews key with | some w => decide (w ≥ t.view.number) | none => false) = true
      · exact Or.inl ⟨fun h => (dupCheck_iff _ _ _).mp h3 h.2.2.1, .duplicate, by rw [if_pos h3]⟩
      · rw [if_neg h3]
        have h3' : ∀ w, alGet r.timeoutViews key = some w → w < t.view.number := by
          apply Classical.byContradiction
          intro hn
          exact h3 ((dupCheck_iff _ _ _).mpr hn)
        cases h4 : sigOk with
        | false => exact Or.inl ⟨fun h => by simp at h, .badSignature, by simp⟩
        | true =>
          cases h5 : t.verify cfg.c with
          | false => exact Or.inl ⟨fun h => by simp at h, .invalidMessage, by simp⟩
          | true => exact Or.inr ⟨⟨by omega, by omega, h3', rfl, rfl⟩, by simp⟩

theorem tcache_subset {c : Committee} {tvs : List (Nat × Nat)} {tqs tqs' : List (Nat × TimeoutQC)}
    (h : TCacheOk c tvs tqs) (hs : ∀ x ∈ tqs', x ∈ tqs) : TCacheOk c tvs tqs' :=
  ⟨fun u q hq => h.asm u q (hs _ hq), fun u q hq => h.bits u q (hs _ hq)⟩

theorem set_get_imp (s : List Bool) (i j : Nat) (h : (s.set i true)[j]? = some true) : j = i ∨ s[j]? = some true := by
  rw [List.getElem?_set] at h
  by_cases hij : i = j
  · exact Or.inl hij.symm
  · simp only [hij, if_false] at h
    exact Or.inr h

/-- every signer bit of the updated map is the new signer's or was set before -/
theorem mapSet_bits {c : Committee} {m : List (TVote × List Bool)} {msg : TVote} {i : Nat} {g : TVote × List Bool}
    (hg : g ∈ mapSet c m msg i) {k : Nat} (hk : g.2[k]? = some true) : k = i ∨ ∃ g0 ∈ m, g0.2[k]? = some true := by
  unfold mapSet at hg
  split at hg
  · obtain ⟨g0, hg0, hgg⟩ := List.mem_map.mp hg
    split at hgg
    · subst hgg
      rcases set_get_imp _ _ _ hk with h | h
      · exact Or.inl h
      · exact Or.inr ⟨g0, hg0, h⟩
    · subst hgg
      exact Or.inr ⟨g0, hg0, hk⟩
  · rcases List.mem_append.mp hg with hg | hg
    · exact Or.inr ⟨g, hg, hk⟩
    · simp only [List.mem_singleton] at hg
      subst hg
      rcases set_get_imp _ _ _ hk with h | h
      · exact Or.inl h
      · exact absurd h (replicate_false_get _ _)

theorem tvote_view_eq {c : Committee} {t : TVote} (h : t.verify c = true) :
    t.view = { genesis := c.genesis, epoch := c.epoch, number := t.view.number } := by
  simp only [TVote.verify, Bool.and_eq_true] at h
  have := (view_verify_iff c t.view).mp h.1.1
  cases hv : t.view with
  | mk g ep n => simp [hv] at this ⊢; exact this

theorem tcache_add {c : Committee} {tvs : List (Nat × Nat)} {tqs : List (Nat × TimeoutQC)} {key : Nat}
    {t : TVote} {sigOk : Bool} (h : TCacheOk c tvs tqs) (hk : key < c.n)
    (hfresh : ∀ w, alGet tvs key = some w → w < t.view.number) (hs : sigOk = true) (hv : t.verify c = true) :
    ∃ qc, (tQc0 tqs t).add c { key := some key, sigOk := sigOk } t = .ok qc ∧ TqcAssembled c t.view qc ∧
      TCacheOk c (alSet tvs key t.view.number) (tTqs' tvs tqs key t qc) := by
  have hview := tvote_view_eq hv
  have h0 : TqcAssembled c t.view (tQc0 tqs t) ∧
      ∀ g ∈ (tQc0 tqs t).map, ∀ i : Nat, g.2[i]? = some true → ∃ w, alGet tvs i = some w ∧ t.view.number ≤ w := by
    unfold tQc0
    cases hf : alGet tqs t.view.number with
    | none =>
      simp only [Option.getD_none]
      exact ⟨.new, fun g hg => by simp [TimeoutQC.new] at hg⟩
    | some q =>
      simp only [Option.getD_some]
      have hm := alGet_mem hf
      exact ⟨by rw [hview]; exact h.asm _ q hm, h.bits _ q hm⟩
  obtain ⟨hasm0, hbits0⟩ := h0
  have hinv0 := tqcAssembled_inv hasm0
  have hfree : ∀ g ∈ (tQc0 tqs t).map, g.2.getD key false = false := by
    intro g hg
    rw [getD_false_iff]
    intro hb
    obtain ⟨w, hw, hle⟩ := hbits0 g hg key hb
    have := hfresh w hw
    omega
  have hadd := (tqc_add_ok c (tQc0 tqs t) { key := some key, sigOk := sigOk } t _).mpr
    ⟨key, rfl, hk, hfree, hs, hinv0.view_eq.symm, hv, rfl⟩
  refine ⟨_, hadd, .add hasm0 hadd, ?_⟩
  constructor
  · intro u q hq
    rcases mem_alSet (List.mem_filter.mp hq).1 with huq | ⟨huq, _⟩
    · cases huq
      rw [← hview]
      exact .add hasm0 hadd
    · exact h.asm u q huq
  · intro u q hq g hg i hi
    rcases mem_alSet (List.mem_filter.mp hq).1 with huq | ⟨huq, _⟩
    · cases huq
      rcases mapSet_bits hg hi with rfl | ⟨g0, hg0, hi0⟩
      · exact ⟨t.view.number, by simp [alGet_alSet], Nat.le_refl _⟩
      · exact views_mono hfresh (hbits0 g0 hg0 i hi0)
    · exact views_mono hfresh (h.bits u q huq g hg i hi)

/-- an assembled timeout certificate never trips the length assertion of `Signers::weight` -/
theorem tqc_assembled_weight {c : Committee} {view : View} {qc : TimeoutQC} (h : TqcAssembled c view qc) :
    qc.weight c = .ok (tqcGroupWeight c qc) :=
  tqcWeight_ok c qc (fun g hg => ((tqcAssembled_inv h).groups g hg).2.1)

/-- a timeout certificate assembled from accepted votes of this chain whose weight reaches the quorum verifies -/
theorem tqc_complete_verify {c : Committee} {view : View} {qc : TimeoutQC} (h : TqcAssembled c view qc)
    (hv : view.verify c = true) (hw : c.quorum ≤ tqcGroupWeight c qc) : qc.verify c = true := by
  obtain ⟨hve, hg, hpw, hs⟩ := tqcAssembled_inv h
  have hlen : ∀ e ∈ qc.map, e.2.length = c.n := fun e he => (hg e he).2.1
  have hd : qc.map.Pairwise (fun a b => Disj a.2 b.2) := hpw.imp (fun h => h.2)
  have := (view_verify_iff c view).mp hv
  rw [timeoutQC_verify_iff, tqcUnion_weight_eq c qc hlen hd, hve]
  exact ⟨this.1, this.2, hg, hd, hw, hs⟩

theorem timeoutTail_accepted {cfg : RCfg} {r : Replica} {e : Env} {key : Nat} {sigOk : Bool} {t : TVote} (hw : Wf cfg r)
    (hc : VoteChecks cfg r r.timeoutViews key sigOk t.view.number (t.verify cfg.c)) :
    ((timeoutTail cfg r e key sigOk t).out = .blocked ∧ OnlyQueue (timeoutTail cfg r e key sigOk t).effs) ∨
      ((timeoutTail cfg r e key sigOk t).out = .accepted ∧
        Accepted cfg r (t.view.number + 1 < 2 ^ 64)
          (fun j => ∃ qc, j = .timeout qc ∧ qc.view = t.view ∧ TqcAssembled cfg.c t.view qc)
          (timeoutTail cfg r e key sigOk t)) := by
  obtain ⟨hk, hge, hfresh, hs, hv⟩ := hc
  obtain ⟨qc, hadd, hasm, htc⟩ := tcache_add hw.tcache hk hfresh hs hv
  unfold timeoutTail
  simp only [hadd, tqc_assembled_weight hasm]
  by_cases hlt : tqcGroupWeight cfg.c qc < cfg.c.quorum
  · rw [if_pos hlt]
    have hwf : Wf cfg (timeoutR1 r key t qc) := ⟨hw.hvote, hw.hcqc, hw.htqc, hw.held, hw.ccache, htc⟩
    exact Or.inr ⟨rfl, accepted_of_caches hwf rfl rfl rfl⟩
  · rw [if_neg hlt]
    have hvv : t.view.verify cfg.c = true := by
      simp only [TVote.verify, Bool.and_eq_true] at hv
      exact hv.1.1
    have hver : qc.verify cfg.c = true := tqc_complete_verify hasm hvv (by omega)
    have hm : qc.view = t.view := (tqcAssembled_inv hasm).view_eq
    obtain ⟨hup, hoq, hheld⟩ := processTimeoutQC_spec cfg (timeoutR2 r key t qc) e qc hver
    cases hok : (processTimeoutQC (timeoutR2 r key t qc) e qc).2.2 with
    | false => exact Or.inl ⟨rfl, hoq⟩
    | true =>
      simp only [Bool.not_true, Bool.false_eq_true, if_false]
      have htc2 : TCacheOk cfg.c (timeoutR2 r key t qc).timeoutViews (timeoutR2 r key t qc).timeoutQCs :=
        tcache_subset htc (fun x hx => mem_alErase hx)
      obtain ⟨q', hq', hle⟩ := hheld hok
      refine Or.inr (snv_accepted (r := r) ?_ (hup.hcqc_ok hw.hcqc) (hup.htqc_ok hw.htqc) ?_ ?_ ?_ hoq ?_ ?_ ?_ ?_)
      · rw [hup.highVote]; exact hw.hvote
      · refine Or.inr ⟨q', hq', ?_⟩
        have := nextU64_le t.view.number
        rw [hm] at hle
        omega
      · rw [hup.commitViews, hup.commitQCs]; exact hw.ccache
      · rw [hup.timeoutViews, hup.timeoutQCs]; exact htc2
      · exact hup.hcView_le
      · exact hup.htView_le
      · intro hnw
        rw [nextU64_eq _ hnw]
        omega
      · exact ⟨.timeout qc, hver, by simp [Just.viewNumber, hm], qc, rfl, hm, hasm⟩


/-! ## The step function -/

/-- the (wrapping) successor of the vote's view does not wrap: only needed for the monotonicity of the view -/
def NoWrap : Input → Prop
  | .msg s =>
    match s.msg with
    | .commit v => v.view.number + 1 < 2 ^ 64
    | .timeout t => t.view.number + 1 < 2 ^ 64
    | _ => True
  | _ => True

/-- where the certificate that justifies a view change came from: carried by the proposal / new-view message, or
completed by the commit / timeout vote (assembled from the votes received for exactly that vote / view) -/
def Provenance (cfg : RCfg) : Input → Just → Prop
  | .msg s, j =>
    match s.msg with
    | .proposal _ j' => j = j'
    | .newView j' => j = j'
    | .commit v => ∃ qc, j = .commit qc ∧ qc.message = v ∧ CqcAssembled cfg.c v qc
    | .timeout t => ∃ qc, j = .timeout qc ∧ qc.view = t.view ∧ TqcAssembled cfg.c t.view qc
  | _, _ => False

theorem startNewView_not_rejected (r : Replica) (view : Nat) (w : Reject) : (startNewView r view).out ≠ .rejected w := by
  unfold startNewView
  dsimp only
  split <;> simp

theorem newViewTail_not_rejected (r : Replica) (e : Env) (j : Just) (w : Reject) :
    (newViewTail r e j).out ≠ .rejected w := by
  unfold newViewTail
  split
  · simp
  · split
    · exact startNewView_not_rejected _ _ w
    · simp

theorem propTail_not_rejected (cfg : RCfg) (r0 : Replica) (e : Env) (j : Just) (h : Nat) (w : Reject) :
    (propTail cfg r0 e j h).out ≠ .rejected w := by
  unfold propTail
  split <;> simp

theorem commitTail_not_rejected (cfg : RCfg) (r : Replica) (e : Env) (key : Nat) (sigOk : Bool) (v : Vote) (w : Reject) :
    (commitTail cfg r e key sigOk v).out ≠ .rejected w := by
  unfold commitTail
  split
  · simp
  · split
    · simp
    · split
      · simp
      · exact startNewView_not_rejected _ _ w

theorem timeoutTail_not_rejected (cfg : RCfg) (r : Replica) (e : Env) (key : Nat) (sigOk : Bool) (t : TVote) (w : Reject) :
    (timeoutTail cfg r e key sigOk t).out ≠ .rejected w := by
  unfold timeoutTail
  split
  · simp
  · split
    · simp
    · split
      · simp
      · split
        · simp
        · exact startNewView_not_rejected _ _ w

theorem startTimeout_not_rejected (cfg : RCfg) (r : Replica) (w : Reject) : (startTimeout cfg r).out ≠ .rejected w := by
  unfold startTimeout
  dsimp only
  split
  · split <;> simp
  · simp

/-- a rejected input leaves the state untouched and has no effects (no hypothesis on the state) -/
theorem step_rejected {cfg : RCfg} {r : Replica} {e : Env} {inp : Input} {w : Reject}
    (h : (step cfg r e inp).out = .rejected w) : (step cfg r e inp).r = r ∧ (step cfg r e inp).effs = [] := by
  cases inp with
  | tick => exact absurd h (startTimeout_not_rejected cfg r w)
  | restart b => simp [step] at h
  | msg s =>
    obtain ⟨m, key, sigOk⟩ := s
    cases m with
    | proposal p j =>
      simp only [step] at h ⊢
      rcases onProposal_cases cfg r e key sigOk p j with ⟨_, w', hw'⟩ | ⟨_, ⟨w', _, hw'⟩ | ⟨h', r0, _, ht⟩⟩
      · rw [hw']; exact ⟨rfl, rfl⟩
      · rw [hw']; exact ⟨rfl, rfl⟩
      · rw [ht] at h; exact absurd h (propTail_not_rejected _ _ _ _ _ w)
    | commit v =>
      simp only [step] at h ⊢
      rcases onCommit_cases cfg r e key sigOk v with ⟨_, w', hw'⟩ | ⟨_, ht⟩
      · rw [hw']; exact ⟨rfl, rfl⟩
      · rw [ht] at h; exact absurd h (commitTail_not_rejected _ _ _ _ _ _ w)
    | timeout t =>
      simp only [step] at h ⊢
      rcases onTimeout_cases cfg r e key sigOk t with ⟨_, w', hw'⟩ | ⟨_, ht⟩
      · rw [hw']; exact ⟨rfl, rfl⟩
      · rw [ht] at h; exact absurd h (timeoutTail_not_rejected _ _ _ _ _ _ w)
    | newView j =>
      simp only [step] at h ⊢
      rcases onNewView_cases cfg r e key sigOk j with ⟨_, w', hw'⟩ | ⟨_, ht⟩
      · rw [hw']; exact ⟨rfl, rfl⟩
      · rw [ht] at h; exact absurd h (newViewTail_not_rejected _ _ _ w)

/-- From a well-formed state every input other than a restart is rejected, or leaves the handler blocked in
`queue_block`, or is accepted with all the guarantees of `Accepted`. In particular it never panics. -/
theorem step_wf {cfg : RCfg} {r : Replica} (hw : Wf cfg r) (e : Env) (inp : Input) (hin : ∀ b, inp ≠ .restart b) :
    (∃ w, (step cfg r e inp).out = .rejected w) ∨
      ((step cfg r e inp).out = .blocked ∧ OnlyQueue (step cfg r e inp).effs) ∨
      ((step cfg r e inp).out = .accepted ∧
        Accepted cfg r (NoWrap inp) (Provenance cfg inp) (step cfg r e inp)) := by
  cases inp with
  | tick =>
    obtain ⟨h1, h2⟩ := startTimeout_accepted (cfg := cfg) hw
    exact Or.inr (Or.inr ⟨h1, h2⟩)
  | restart b => exact absurd rfl (hin b)
  | msg s =>
    obtain ⟨m, key, sigOk⟩ := s
    cases m with
    | proposal p j =>
      simp only [step, NoWrap]
      rcases onProposal_cases cfg r e key sigOk p j with ⟨_, w', hw'⟩ | ⟨hc, ⟨w', _, hw'⟩ | ⟨h', r0, hd, ht⟩⟩
      · exact Or.inl ⟨w', by rw [hw']; rfl⟩
      · exact Or.inl ⟨w', by rw [hw']; rfl⟩
      · rw [ht]
        have hge : r.view ≤ j.viewNumber := by
          have := hc.1
          apply Classical.byContradiction
          intro hn
          exact this (Or.inl (by omega))
        exact Or.inr (propTail_accepted hw (propDecide_rest hd) hc.2.2.2.1 hge)
    | commit v =>
      simp only [step, NoWrap]
      rcases onCommit_cases cfg r e key sigOk v with ⟨_, w', hw'⟩ | ⟨hc, ht⟩
      · exact Or.inl ⟨w', by rw [hw']; rfl⟩
      · rw [ht]; exact Or.inr (commitTail_accepted hw hc)
    | timeout t =>
      simp only [step, NoWrap]
      rcases onTimeout_cases cfg r e key sigOk t with ⟨_, w', hw'⟩ | ⟨hc, ht⟩
      · exact Or.inl ⟨w', by rw [hw']; rfl⟩
      · rw [ht]; exact Or.inr (timeoutTail_accepted hw hc)
    | newView j =>
      simp only [step, NoWrap]
      rcases onNewView_cases cfg r e key sigOk j with ⟨_, w', hw'⟩ | ⟨hc, ht⟩
      · exact Or.inl ⟨w', by rw [hw']; rfl⟩
      · rw [ht]
        have hge : r.view ≤ j.viewNumber := by
          have := hc.1
          apply Classical.byContradiction
          intro hn
          exact this (Or.inl (by omega))
        exact Or.inr (newViewTail_accepted hw hc.2.2.2 hge)


/-! ## The reaction to each input, spelled out (for the conformance theorems) -/

/-- what a step that ends in `start_new_view` returns -/
theorem snv_shape {r3 : Replica} {view : Nat} (qs : List Effect) (held : HeldAtLeast r3 view) :
    ∃ j, getJustification r3 = .ok j ∧
      ({ startNewView r3 view with effs := qs ++ (startNewView r3 view).effs } : StepRes) =
        { r := snvState r3 view,
          effs := qs ++ [.notify j, .persist (snvState r3 view).durable, .send (.newView j)],
          out := .accepted } := by
  obtain ⟨j, hj⟩ := getJustification_ok held
  exact ⟨j, hj, by rw [startNewView_ok r3 view j hj]⟩

/-- `on_commit` after its checks, from a well-formed state: the vote is added to the cached certificate (never a
panic); below the quorum only the caches change; at the quorum the completed certificate verifies, is processed, and
the replica starts view `v.view + 1` -/
theorem commitTail_reaction {cfg : RCfg} {r : Replica} (e : Env) {key : Nat} {sigOk : Bool} {v : Vote} (hw : Wf cfg r)
    (hc : VoteChecks cfg r r.commitViews key sigOk v.view.number (v.verify cfg.c)) :
    ∃ qc, (cQc0 cfg.c r.commitQCs v).add cfg.c { key := some key, sigOk := sigOk } v = .ok qc ∧
      CqcAssembled cfg.c v qc ∧
      (weightOf cfg.c.weights qc.signers < cfg.c.quorum →
        commitTail cfg r e key sigOk v = { r := commitR1 r key v qc, effs := [], out := .accepted }) ∧
      (cfg.c.quorum ≤ weightOf cfg.c.weights qc.signers →
        qc.verify cfg.c = true ∧
        ((processCommitQC (commitR2 r key v qc) e qc).2.2 = false →
          commitTail cfg r e key sigOk v =
            { r := (processCommitQC (commitR2 r key v qc) e qc).1,
              effs := (processCommitQC (commitR2 r key v qc) e qc).2.1, out := .blocked }) ∧
        ((processCommitQC (commitR2 r key v qc) e qc).2.2 = true →
          ∃ j, getJustification (processCommitQC (commitR2 r key v qc) e qc).1 = .ok j ∧
            commitTail cfg r e key sigOk v =
              { r := snvState (processCommitQC (commitR2 r key v qc) e qc).1 (nextU64 v.view.number),
                effs := (processCommitQC (commitR2 r key v qc) e qc).2.1 ++
                  [.notify j,
                   .persist (snvState (processCommitQC (commitR2 r key v qc) e qc).1 (nextU64 v.view.number)).durable,
                   .send (.newView j)],
                out := .accepted })) := by
  obtain ⟨hk, hge, hfresh, hs, hv⟩ := hc
  obtain ⟨qc, hadd, hasm, hcc⟩ := ccache_add hw.ccache hk hfresh hs hv
  refine ⟨qc, hadd, hasm, ?_, ?_⟩
  · intro hlt
    unfold commitTail
    simp only [hadd]
    rw [if_pos hlt]
  · intro hq
    have hlt : ¬ weightOf cfg.c.weights qc.signers < cfg.c.quorum := by omega
    have hver : qc.verify cfg.c = true := cqc_complete_verify hasm hv hq
    have hm : qc.message = v := (cqcAssembled_inv hasm).1
    refine ⟨hver, ?_, ?_⟩
    · intro hok
      unfold commitTail
      simp only [hadd]
      rw [if_neg hlt]
      simp [hok]
    · intro hok
      obtain ⟨_, _, _, q', hq', hle⟩ := processCommitQC_spec cfg (commitR2 r key v qc) e qc hver
      have held : HeldAtLeast (processCommitQC (commitR2 r key v qc) e qc).1 (nextU64 v.view.number) := by
        refine Or.inl ⟨q', hq', ?_⟩
        have := nextU64_le v.view.number
        rw [hm] at hle
        omega
      obtain ⟨j, hj, heq⟩ := snv_shape (processCommitQC (commitR2 r key v qc) e qc).2.1 held
      refine ⟨j, hj, ?_⟩
      unfold commitTail
      simp only [hadd]
      rw [if_neg hlt]
      simp only [hok, Bool.not_true, Bool.false_eq_true, if_false]
      exact heq

/-- the same for `on_timeout`; `Signers::weight`'s assertion does not fire either -/
theorem timeoutTail_reaction {cfg : RCfg} {r : Replica} (e : Env) {key : Nat} {sigOk : Bool} {t : TVote} (hw : Wf cfg r)
    (hc : VoteChecks cfg r r.timeoutViews key sigOk t.view.number (t.verify cfg.c)) :
    ∃ qc, (tQc0 r.timeoutQCs t).add cfg.c { key := some key, sigOk := sigOk } t = .ok qc ∧
      TqcAssembled cfg.c t.view qc ∧ qc.weight cfg.c = .ok (tqcGroupWeight cfg.c qc) ∧
      (tqcGroupWeight cfg.c qc < cfg.c.quorum →
        timeoutTail cfg r e key sigOk t = { r := timeoutR1 r key t qc, effs := [], out := .accepted }) ∧
      (cfg.c.quorum ≤ tqcGroupWeight cfg.c qc →
        qc.verify cfg.c = true ∧
        ((processTimeoutQC (timeoutR2 r key t qc) e qc).2.2 = false →
          timeoutTail cfg r e key sigOk t =
            { r := (processTimeoutQC (timeoutR2 r key t qc) e qc).1,
              effs := (processTimeoutQC (timeoutR2 r key t qc) e qc).2.1, out := .blocked }) ∧
        ((processTimeoutQC (timeoutR2 r key t qc) e qc).2.2 = true →
          ∃ j, getJustification (processTimeoutQC (timeoutR2 r key t qc) e qc).1 = .ok j ∧
            timeoutTail cfg r e key sigOk t =
              { r := snvState (processTimeoutQC (timeoutR2 r key t qc) e qc).1 (nextU64 t.view.number),
                effs := (processTimeoutQC (timeoutR2 r key t qc) e qc).2.1 ++
                  [.notify j,
                   .persist (snvState (processTimeoutQC (timeoutR2 r key t qc) e qc).1 (nextU64 t.view.number)).durable,
                   .send (.newView j)],
                out := .accepted })) := by
  obtain ⟨hk, hge, hfresh, hs, hv⟩ := hc
  obtain ⟨qc, hadd, hasm, htc⟩ := tcache_add hw.tcache hk hfresh hs hv
  have hwt := tqc_assembled_weight hasm
  refine ⟨qc, hadd, hasm, hwt, ?_, ?_⟩
  · intro hlt
    unfold timeoutTail
    simp only [hadd, hwt]
    rw [if_pos hlt]
  · intro hq
    have hlt : ¬ tqcGroupWeight cfg.c qc < cfg.c.quorum := by omega
    have hvv : t.view.verify cfg.c = true := by
      simp only [TVote.verify, Bool.and_eq_true] at hv
      exact hv.1.1
    have hver : qc.verify cfg.c = true := tqc_complete_verify hasm hvv hq
    have hm : qc.view = t.view := (tqcAssembled_inv hasm).view_eq
    refine ⟨hver, ?_, ?_⟩
    · intro hok
      unfold timeoutTail
      simp only [hadd, hwt]
      rw [if_neg hlt]
      simp [hok]
    · intro hok
      obtain ⟨_, _, hheld⟩ := processTimeoutQC_spec cfg (timeoutR2 r key t qc) e qc hver
      obtain ⟨q', hq', hle⟩ := hheld hok
      have held : HeldAtLeast (processTimeoutQC (timeoutR2 r key t qc) e qc).1 (nextU64 t.view.number) := by
        refine Or.inr ⟨q', hq', ?_⟩
        have := nextU64_le t.view.number
        rw [hm] at hle
        omega
      obtain ⟨j, hj, heq⟩ := snv_shape (processTimeoutQC (timeoutR2 r key t qc) e qc).2.1 held
      refine ⟨j, hj, ?_⟩
      unfold timeoutTail
      simp only [hadd, hwt]
      rw [if_neg hlt]
      simp only [hok, Bool.not_true, Bool.false_eq_true, if_false]
      exact heq

/-- `on_new_view` after its checks: the certificate is processed; if it justifies a higher view the replica starts
that view, otherwise only the high certificates may have grown -/
theorem newViewTail_reaction {cfg : RCfg} {r : Replica} (e : Env) {j : Just} (hj : j.verify cfg.c = true) :
    ((processJust r e j).2.2 = false →
      newViewTail r e j = { r := (processJust r e j).1, effs := (processJust r e j).2.1, out := .blocked }) ∧
    ((processJust r e j).2.2 = true →
      (j.viewNumber > r.view →
        ∃ j', getJustification (processJust r e j).1 = .ok j' ∧
          newViewTail r e j =
            { r := snvState (processJust r e j).1 j.viewNumber,
              effs := (processJust r e j).2.1 ++
                [.notify j', .persist (snvState (processJust r e j).1 j.viewNumber).durable, .send (.newView j')],
              out := .accepted }) ∧
      (¬ j.viewNumber > r.view →
        newViewTail r e j = { r := (processJust r e j).1, effs := (processJust r e j).2.1, out := .accepted })) := by
  obtain ⟨hup, _, hheld⟩ := processJust_spec cfg r e j hj
  refine ⟨fun hok => ?_, fun hok => ⟨fun hgt => ?_, fun hgt => ?_⟩⟩
  · unfold newViewTail; simp [hok]
  · have held : HeldAtLeast (processJust r e j).1 j.viewNumber := by
      have hle := nextU64_le (certView j)
      rw [viewNumber_eq]
      rcases hheld hok with ⟨q, hq, hn⟩ | ⟨q, hq, hn⟩
      · exact Or.inl ⟨q, hq, by omega⟩
      · exact Or.inr ⟨q, hq, by omega⟩
    obtain ⟨j', hj', heq⟩ := snv_shape (processJust r e j).2.1 held
    refine ⟨j', hj', ?_⟩
    unfold newViewTail
    have hgt' : j.viewNumber > (processJust r e j).1.view := by rw [hup.view]; exact hgt
    simp only [hok, Bool.not_true, Bool.false_eq_true, if_false]
    rw [if_pos hgt']
    exact heq
  · unfold newViewTail
    have hgt' : ¬ j.viewNumber > (processJust r e j).1.view := by rw [hup.view]; exact hgt
    simp only [hok, Bool.not_true, Bool.false_eq_true, if_false]
    rw [if_neg hgt']

theorem rej_not_accepted (r : Replica) (w : Reject) : (rej r w).out ≠ .accepted := by simp [rej]

theorem onProposal_accepted_shape {cfg : RCfg} {r : Replica} {e : Env} {key : Nat} {sigOk : Bool}
    {p : Option Payload} {j : Just} (h : (onProposal cfg r e key sigOk p j).out = .accepted) :
    PropChecks cfg r e key sigOk j ∧ ∃ hash r0, propDecide cfg r e p j = .ok (hash, r0) ∧
      (processJust (propR1 cfg r0 j hash) e j).2.2 = true ∧
      onProposal cfg r e key sigOk p j =
        { r := (processJust (propR1 cfg r0 j hash) e j).1,
          effs := (processJust (propR1 cfg r0 j hash) e j).2.1 ++
            [.persist (processJust (propR1 cfg r0 j hash) e j).1.durable, .send (.commit (propVote cfg j hash))],
          out := .accepted } := by
  rcases onProposal_cases cfg r e key sigOk p j with ⟨_, w', hw'⟩ | ⟨hc, ⟨w', _, hw'⟩ | ⟨h', r0, hd, ht⟩⟩
  · rw [hw'] at h; exact absurd h (rej_not_accepted _ _)
  · rw [hw'] at h; exact absurd h (rej_not_accepted _ _)
  · refine ⟨hc, h', r0, hd, ?_⟩
    rw [ht] at h ⊢
    unfold propTail at h ⊢
    cases hok : (processJust (propR1 cfg r0 j h') e j).2.2 with
    | false => simp [hok] at h
    | true => simp

/-- an input is rejected exactly when one of the handler's checks fails (no hypothesis on the state) -/
theorem onCommit_rejected_iff (cfg : RCfg) (r : Replica) (e : Env) (key : Nat) (sigOk : Bool) (v : Vote) :
    (∃ w, (onCommit cfg r e key sigOk v).out = .rejected w) ↔
      ¬ VoteChecks cfg r r.commitViews key sigOk v.view.number (v.verify cfg.c) := by
  rcases onCommit_cases cfg r e key sigOk v with ⟨hn, w', hw'⟩ | ⟨hc, ht⟩
  · exact ⟨fun _ => hn, fun _ => ⟨w', by rw [hw']; rfl⟩⟩
  · refine ⟨fun ⟨w, hw⟩ => ?_, fun hn => absurd hc hn⟩
    rw [ht] at hw
    exact absurd hw (commitTail_not_rejected _ _ _ _ _ _ w)

theorem onTimeout_rejected_iff (cfg : RCfg) (r : Replica) (e : Env) (key : Nat) (sigOk : Bool) (t : TVote) :
    (∃ w, (onTimeout cfg r e key sigOk t).out = .rejected w) ↔
      ¬ VoteChecks cfg r r.timeoutViews key sigOk t.view.number (t.verify cfg.c) := by
  rcases onTimeout_cases cfg r e key sigOk t with ⟨hn, w', hw'⟩ | ⟨hc, ht⟩
  · exact ⟨fun _ => hn, fun _ => ⟨w', by rw [hw']; rfl⟩⟩
  · refine ⟨fun ⟨w, hw⟩ => ?_, fun hn => absurd hc hn⟩
    rw [ht] at hw
    exact absurd hw (timeoutTail_not_rejected _ _ _ _ _ _ w)

theorem onNewView_rejected_iff (cfg : RCfg) (r : Replica) (e : Env) (key : Nat) (sigOk : Bool) (j : Just) :
    (∃ w, (onNewView cfg r e key sigOk j).out = .rejected w) ↔ ¬ NewViewChecks cfg r key sigOk j := by
  rcases onNewView_cases cfg r e key sigOk j with ⟨hn, w', hw'⟩ | ⟨hc, ht⟩
  · exact ⟨fun _ => hn, fun _ => ⟨w', by rw [hw']; rfl⟩⟩
  · refine ⟨fun ⟨w, hw⟩ => ?_, fun hn => absurd hc hn⟩
    rw [ht] at hw
    exact absurd hw (newViewTail_not_rejected _ _ _ w)

theorem onProposal_rejected_iff (cfg : RCfg) (r : Replica) (e : Env) (key : Nat) (sigOk : Bool) (p : Option Payload)
    (j : Just) :
    (∃ w, (onProposal cfg r e key sigOk p j).out = .rejected w) ↔
      ¬ (PropChecks cfg r e key sigOk j ∧ ∃ hash r0, propDecide cfg r e p j = .ok (hash, r0)) := by
  rcases onProposal_cases cfg r e key sigOk p j with ⟨hn, w', hw'⟩ | ⟨hc, ⟨w', hd, hw'⟩ | ⟨h', r0, hd, ht⟩⟩
  · exact ⟨fun _ h => hn h.1, fun _ => ⟨w', by rw [hw']; rfl⟩⟩
  · refine ⟨fun _ h => ?_, fun _ => ⟨w', by rw [hw']; rfl⟩⟩
    obtain ⟨_, hash, r0, hd'⟩ := h
    rw [hd] at hd'
    cases hd'
  · refine ⟨fun ⟨w, hw⟩ => ?_, fun hn => absurd ⟨hc, h', r0, hd⟩ hn⟩
    rw [ht] at hw
    exact absurd hw (propTail_not_rejected _ _ _ _ _ w)

end EraVerif.Proofs.ReplicaStep
