import EraVerif.Model.Pool

/-! Helper lemmas for the pool theorems of C12 (core Lean only). -/

namespace EraVerif.Proofs.Pool
open EraVerif.Model.Pool

theorem keys_mapErase (m : List (Key × Val)) (k : Key) :
    (mapErase m k).map Prod.fst = (m.map Prod.fst).filter (fun x => x != k) := by
  induction m with
  | nil => rfl
  | cons e m ih =>
    simp only [mapErase, List.filter_cons, List.map_cons] at *
    by_cases h : e.1 = k <;> simp [h, ih]

theorem filter_ne_of_not_mem (l : List Key) (k : Key) (h : k ∉ l) : l.filter (fun x => x != k) = l := by
  apply List.filter_eq_self.mpr
  intro a ha
  have : a ≠ k := fun e => h (e ▸ ha)
  simp [this]

theorem keys_mapInsert_of_not_mem (m : List (Key × Val)) (k : Key) (v : Val) (h : k ∉ m.map Prod.fst) :
    (mapInsert m k v).map Prod.fst = m.map Prod.fst ++ [k] := by
  simp only [mapInsert, List.map_append, keys_mapErase, filter_ne_of_not_mem _ _ h, List.map_cons, List.map_nil]

theorem mapErase_of_not_mem (m : List (Key × Val)) (k : Key) (h : k ∉ m.map Prod.fst) : mapErase m k = m := by
  apply List.filter_eq_self.mpr
  intro e he
  have : e.1 ≠ k := fun e' => h (e' ▸ List.mem_map_of_mem (f := Prod.fst) he)
  simp [this]

theorem not_mem_filter_ne (l : List Key) (k : Key) : k ∉ l.filter (fun x => x != k) := by
  simp [List.mem_filter]

/-- removing the single occurrence of `k` from a duplicate-free list lowers any filtered count by `[q k]` -/
theorem filter_length_erase (q : Key → Bool) (l : List Key) (k : Key) (hn : l.Nodup) (hk : k ∈ l) :
    ((l.filter (fun x => x != k)).filter q).length + (if q k then 1 else 0) = (l.filter q).length := by
  induction l with
  | nil => cases hk
  | cons a l ih =>
    have hn' := (List.nodup_cons.mp hn)
    by_cases hak : a = k
    · subst hak
      have : (l.filter (fun x => x != a)) = l := filter_ne_of_not_mem l a hn'.1
      simp only [List.filter_cons, bne_self_eq_false, Bool.false_eq_true, if_false, this]
      by_cases hq : q a = true <;> simp [hq]
    · have hk' : k ∈ l := by
        cases hk with
        | head => exact absurd rfl hak
        | tail _ h => exact h
      have := ih hn'.2 hk'
      have hne : (a != k) = true := by simp [hak]
      by_cases hq : q a = true
      · simp only [List.filter_cons, hne, if_true, hq, List.length_cons]; omega
      · simp only [List.filter_cons, hne, if_true, if_neg hq]; exact this

/-- The invariant behind every pool theorem. -/
def Inv (p : Pool) : Prop :=
  p.keys.Nodup ∧ p.extraCount = p.extras ∧ p.extraCount ≤ p.extraLimit

theorem inv_new (allowed : List Key) (limit : Nat) : Inv (Pool.new allowed limit) := by
  simp [Inv, Pool.new, Pool.keys, Pool.extras]

theorem insert_allowed_eq (p : Pool) (k : Key) (v : Val) : (p.insert k v).1.allowed = p.allowed ∧
    (p.insert k v).1.extraLimit = p.extraLimit := by
  unfold Pool.insert; split
  · simp
  · split
    · split <;> simp
    · simp

theorem remove_allowed_eq (p : Pool) (k : Key) : (p.remove k).1.allowed = p.allowed ∧
    (p.remove k).1.extraLimit = p.extraLimit := by
  unfold Pool.remove; split
  · simp
  · simp only []
    split
    · split <;> simp
    · simp

theorem step_allowed_eq (p : Pool) (op : Op) : (p.step op).1.allowed = p.allowed ∧
    (p.step op).1.extraLimit = p.extraLimit := by
  cases op with
  | insert k v => exact insert_allowed_eq p k v
  | remove k => exact remove_allowed_eq p k

theorem extras_append (p : Pool) (k : Key) (cur : List (Key × Val)) (h : cur.map Prod.fst = p.keys ++ [k])
    (c : Nat) : ({ p with extraCount := c, current := cur } : Pool).extras =
      p.extras + (if k ∉ p.allowed then 1 else 0) := by
  simp only [Pool.extras, Pool.keys, h, List.filter_append, List.length_append]
  by_cases hk : k ∈ p.allowed <;> simp [hk]

theorem inv_insert (p : Pool) (k : Key) (v : Val) (h : Inv p) : Inv (p.insert k v).1 := by
  obtain ⟨hn, hc, hl⟩ := h
  unfold Pool.insert
  split
  · exact ⟨hn, hc, hl⟩
  · rename_i hk
    have hkeys := keys_mapInsert_of_not_mem p.current k v hk
    have hnd : (p.keys ++ [k]).Nodup := by
      rw [List.nodup_append]
      refine ⟨hn, by simp, ?_⟩
      intro a ha b hb
      simp at hb; subst hb
      exact fun e => hk (e ▸ ha)
    split
    · rename_i hna
      split
      · exact ⟨hn, hc, hl⟩
      · rename_i hlim
        refine ⟨?_, ?_, ?_⟩
        · simp only [Pool.keys, hkeys]; exact hnd
        · have := extras_append p k (mapInsert p.current k v) hkeys (p.extraCount + 1)
          simp only [this, hna, not_false_eq_true, if_true]; omega
        · simp only; omega
    · rename_i ha
      refine ⟨?_, ?_, ?_⟩
      · simp only [Pool.keys, hkeys]; exact hnd
      · have := extras_append p k (mapInsert p.current k v) hkeys p.extraCount
        have e : ({ p with current := mapInsert p.current k v } : Pool) =
            { p with extraCount := p.extraCount, current := mapInsert p.current k v } := rfl
        rw [e, this]; simp only [ha, if_false]; exact hc
      · exact hl

theorem extras_erase (p : Pool) (k : Key) (hn : p.keys.Nodup) (hk : k ∈ p.keys) (c : Nat) :
    ({ p with extraCount := c, current := mapErase p.current k } : Pool).extras +
      (if k ∉ p.allowed then 1 else 0) = p.extras := by
  have := filter_length_erase (fun k => decide (k ∉ p.allowed)) p.keys k hn hk
  simp only [Pool.extras, Pool.keys, keys_mapErase] at *
  by_cases hka : k ∈ p.allowed <;> simp [hka] at this ⊢ <;> omega

theorem inv_remove (p : Pool) (k : Key) (h : Inv p) : Inv (p.remove k).1 ∧ (p.remove k).2 ≠ .underflow := by
  obtain ⟨hn, hc, hl⟩ := h
  unfold Pool.remove
  split
  · exact ⟨⟨hn, hc, hl⟩, by simp⟩
  · rename_i hk
    have hk : k ∈ p.keys := by simpa using hk
    have hnd : ((mapErase p.current k).map Prod.fst).Nodup := by
      rw [keys_mapErase]; exact hn.sublist (List.filter_sublist)
    simp only []
    split
    · rename_i hna
      have he := extras_erase p k hn hk
      simp only [hna, not_false_eq_true, if_true] at he
      split
      · rename_i h0
        exfalso
        have := he 0
        omega
      · refine ⟨⟨hnd, ?_, ?_⟩, by simp⟩
        · have := he (p.extraCount - 1)
          simp only; omega
        · simp only; omega
    · rename_i ha
      have he := extras_erase p k hn hk p.extraCount
      simp only [ha, if_false] at he
      refine ⟨⟨hnd, ?_, hl⟩, by simp⟩
      have e : ({ p with current := mapErase p.current k } : Pool) =
            { p with extraCount := p.extraCount, current := mapErase p.current k } := rfl
      rw [e]; simp only at he ⊢; omega

theorem inv_step (p : Pool) (op : Op) (h : Inv p) : Inv (p.step op).1 := by
  cases op with
  | insert k v => exact inv_insert p k v h
  | remove k => exact (inv_remove p k h).1

theorem inv_run (p : Pool) (ops : List Op) (h : Inv p) : Inv (p.run ops).1 := by
  induction ops generalizing p with
  | nil => exact h
  | cons op ops ih =>
    simp only [Pool.run]
    exact ih _ (inv_step p op h)

theorem run_allowed_eq (p : Pool) (ops : List Op) : (p.run ops).1.allowed = p.allowed ∧
    (p.run ops).1.extraLimit = p.extraLimit := by
  induction ops generalizing p with
  | nil => exact ⟨rfl, rfl⟩
  | cons op ops ih =>
    simp only [Pool.run]
    have := ih (p.step op).1
    have h2 := step_allowed_eq p op
    exact ⟨this.1.trans h2.1, this.2.trans h2.2⟩

/-- what holds of every pool reachable from `PoolWatch::new(allowed, limit)` -/
theorem reach (allowed : List Key) (limit : Nat) (ops : List Op) :
    Inv ((Pool.new allowed limit).run ops).1 ∧ ((Pool.new allowed limit).run ops).1.allowed = allowed ∧
      ((Pool.new allowed limit).run ops).1.extraLimit = limit :=
  ⟨inv_run _ ops (inv_new _ _), (run_allowed_eq _ ops).1, (run_allowed_eq _ ops).2⟩

/-- no observation of a run from an invariant state is `underflow` -/
theorem run_no_underflow (p : Pool) (ops : List Op) (h : Inv p) : Obs.underflow ∉ (p.run ops).2 := by
  induction ops generalizing p with
  | nil => simp [Pool.run]
  | cons op ops ih =>
    simp only [Pool.run, List.mem_cons, not_or]
    refine ⟨?_, ih _ (inv_step p op h)⟩
    cases op with
    | insert k v =>
      simp only [Pool.step, Pool.insert]
      split
      · simp
      · split
        · split <;> simp
        · simp
    | remove k => exact fun e => (inv_remove p k h).2 e.symm

theorem keys_mapInsert (m : List (Key × Val)) (k : Key) (v : Val) :
    (mapInsert m k v).map Prod.fst = (m.map Prod.fst).filter (fun x => x != k) ++ [k] := by
  simp only [mapInsert, List.map_append, keys_mapErase, List.map_cons, List.map_nil]

/-- under the invariant, a zero quota means every member is in `allowed` -/
theorem members_allowed_of_limit_zero (p : Pool) (h : Inv p) (h0 : p.extraLimit = 0) :
    ∀ k ∈ p.keys, k ∈ p.allowed := by
  obtain ⟨_, hc, hl⟩ := h
  have hz : p.extras = 0 := by omega
  intro k hk
  by_cases hka : k ∈ p.allowed
  · exact hka
  · exfalso
    have : k ∈ p.keys.filter (fun k => k ∉ p.allowed) := by
      simp [List.mem_filter, hk, hka]
    unfold Pool.extras at hz
    have := List.length_pos_of_mem this
    omega

/-- the refinement relation between the pool and the set-with-quota specification -/
def Refines (p : Pool) (s : Spec) : Prop :=
  s.members = p.keys ∧ s.allowed = p.allowed ∧ s.limit = p.extraLimit ∧ Inv p

theorem refines_step (p : Pool) (s : Spec) (op : Op) (h : Refines p s) :
    Refines (p.step op).1 (s.step op).1 ∧ (p.step op).2 = (s.step op).2 := by
  obtain ⟨hm, ha, hl, hi⟩ := h
  have hi' := inv_step p op hi
  obtain ⟨sl, sa, sm⟩ := s
  simp only at hm ha hl
  subst hm ha hl
  have hc : p.extraCount = (p.keys.filter (fun k => k ∉ p.allowed)).length := hi.2.1
  cases op with
  | insert k v =>
    simp only [Pool.step, Spec.step] at hi' ⊢
    unfold Pool.insert at hi' ⊢
    by_cases hk : k ∈ p.keys
    · simp only [hk, if_true]; exact ⟨⟨rfl, rfl, rfl, hi⟩, trivial⟩
    · simp only [hk, if_false] at hi' ⊢
      by_cases hka : k ∈ p.allowed
      · simp only [hka, not_true_eq_false, if_false, false_and] at hi' ⊢
        exact ⟨⟨by simp [Pool.keys, keys_mapInsert], rfl, rfl, hi'⟩, trivial⟩
      · simp only [hka, not_false_eq_true, if_true, true_and] at hi' ⊢
        rw [← hc]
        by_cases hlim : p.extraCount ≥ p.extraLimit
        · simp only [hlim, if_true]; exact ⟨⟨rfl, rfl, rfl, hi⟩, trivial⟩
        · simp only [hlim, if_false] at hi' ⊢
          exact ⟨⟨by simp [Pool.keys, keys_mapInsert], rfl, rfl, hi'⟩, trivial⟩
  | remove k =>
    have hu := (inv_remove p k hi).2
    simp only [Pool.step, Spec.step] at hi' hu ⊢
    unfold Pool.remove at hi' hu ⊢
    by_cases hk : k ∈ p.keys
    · simp only [hk, not_true_eq_false, if_false] at hi' hu ⊢
      by_cases hka : k ∈ p.allowed
      · simp only [hka, not_true_eq_false, if_false] at hi' ⊢
        exact ⟨⟨by simp [Pool.keys, keys_mapErase], rfl, rfl, hi'⟩, trivial⟩
      · simp only [hka, not_false_eq_true, if_true] at hi' hu ⊢
        by_cases h0 : p.extraCount = 0
        · simp [h0] at hu
        · simp only [h0, if_false] at hi' ⊢
          exact ⟨⟨by simp [Pool.keys, keys_mapErase], rfl, rfl, hi'⟩, trivial⟩
    · simp only [hk, not_false_eq_true, if_true]; exact ⟨⟨rfl, rfl, rfl, hi⟩, trivial⟩

theorem refines_run (p : Pool) (s : Spec) (ops : List Op) (h : Refines p s) :
    Refines (p.run ops).1 (s.run ops).1 ∧ (p.run ops).2 = (s.run ops).2 := by
  induction ops generalizing p s with
  | nil => exact ⟨h, rfl⟩
  | cons op ops ih =>
    simp only [Pool.run, Spec.run]
    obtain ⟨h1, h2⟩ := refines_step p s op h
    obtain ⟨h3, h4⟩ := ih _ _ h1
    exact ⟨h3, by rw [h2, h4]⟩

end EraVerif.Proofs.Pool
