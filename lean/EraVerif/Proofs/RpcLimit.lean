import EraVerif.Proofs.Limiter
import EraVerif.Model.RpcLimit

/-!
# Helper lemmas for the per-connection half of C15 (`Model/RpcLimit.lean`)
-/

set_option linter.unusedSimpArgs false

namespace EraVerif.Proofs.RpcLimit
open EraVerif.Model EraVerif.Model.Limiter EraVerif.Proofs.Limiter

/-! ## Limiter facts used by the composition: every request is for one permit -/

@[simp] theorem advance_reserved (s : Limiter.State) (cfg : Cfg) (t : Nat) :
    (s.advance cfg t).reserved = s.reserved := by unfold State.advance; split <;> rfl
@[simp] theorem advance_dropped (s : Limiter.State) (cfg : Cfg) (t : Nat) :
    (s.advance cfg t).dropped = s.dropped := by unfold State.advance; split <;> rfl
@[simp] theorem advance_dlog (s : Limiter.State) (cfg : Cfg) (t : Nat) :
    (s.advance cfg t).dlog = s.dlog := by unfold State.advance; split <;> rfl
@[simp] theorem advance_now (s : Limiter.State) (cfg : Cfg) (t : Nat) :
    (s.advance cfg t).now = s.now := by unfold State.advance; split <;> rfl
@[simp] theorem advance_held (s : Limiter.State) (cfg : Cfg) (t : Nat) :
    (s.advance cfg t).held = s.held := by unfold State.advance; split <;> rfl

/-- All queued requests and all live permits are for exactly one permit. -/
def Unit1 (l : Limiter.State) : Prop := (∀ w ∈ l.queue, w.n = 1) ∧ (∀ p ∈ l.held, p.2 = 1)

def grantN : Res → Nat
  | .granted n => n
  | _ => 0

/-- What `pollQueued` does to the counters. -/
structure PollDelta (s s' : Limiter.State) (r : Res) : Prop where
  reserved : s'.reserved = s.reserved + grantN r
  dropped : s'.dropped = s.dropped
  dlog : s'.dlog = s.dlog
  now : s'.now = s.now
  unit1 : Unit1 s → Unit1 s'
  one : Unit1 s → ∀ n, r = .granted n → n = 1

theorem pollDelta_finish {cfg : Cfg} {s : Limiter.State} {w : Waiter} {rest : List Waiter} {nd : Nat}
    (hq : s.queue = w :: rest) : PollDelta s (finish cfg s w nd).1 (finish cfg s w nd).2 := by
  refine ⟨by simp [finish, grantN], by simp [finish], by simp [finish], by simp [finish], ?_, ?_⟩
  · intro ⟨h1, h2⟩
    refine ⟨?_, ?_⟩
    · intro x hx
      have : x ∈ rest := by simpa [finish, hq] using hx
      exact h1 x (by simp [hq, this])
    · intro p hp
      have : p ∈ s.held ∨ p = (w.id, w.n) := by simpa [finish] using hp
      rcases this with h | h
      · exact h2 p h
      · subst h; exact h1 w (by simp [hq])
  · intro ⟨h1, _⟩ n hn
    have : w.n = n := by simpa [finish] using hn
    rw [← this]; exact h1 w (by simp [hq])

theorem PollDelta.refl' {s : Limiter.State} {r : Res} (hr : ∀ n, r ≠ .granted n) : PollDelta s s r := by
  refine ⟨?_, rfl, rfl, rfl, id, ?_⟩
  · cases r <;> simp [grantN] at *
  · intro _ n hn; exact absurd hn (hr n)

theorem pollDelta_sleepThenFinish {cfg : Cfg} {r : Nat} {s : Limiter.State} {w : Waiter} {rest : List Waiter}
    {nd : Nat} (hq : s.queue = w :: rest) :
    PollDelta s (sleepThenFinish cfg r s w nd).1 (sleepThenFinish cfg r s w nd).2 := by
  unfold sleepThenFinish
  split
  · split
    · exact pollDelta_finish hq
    · exact PollDelta.refl' (by simp)
  · exact pollDelta_finish hq

theorem pollDelta_pollQueued {cfg : Cfg} {r : Nat} {s : Limiter.State} (id : Nat) :
    PollDelta s (pollQueued cfg r s id).1 (pollQueued cfg r s id).2 := by
  unfold pollQueued
  split
  · exact PollDelta.refl' (by simp)
  · next w rest hq =>
    split
    · unfold pollHead
      split
      · exact pollDelta_sleepThenFinish hq
      · split
        · -- the state with `need` recorded differs from `s` only in the head's `need`
          have := pollDelta_sleepThenFinish (cfg := cfg) (r := r)
            (s := { s with queue := { w with need := some (s.ticks + (s.reserved + w.n - s.permits)) } :: rest })
            (w := { w with need := some (s.ticks + (s.reserved + w.n - s.permits)) }) (rest := rest)
            (nd := s.ticks + (s.reserved + w.n - s.permits)) rfl
          refine ⟨this.reserved, this.dropped, this.dlog, this.now, ?_, ?_⟩
          · intro hu
            apply this.unit1
            refine ⟨?_, hu.2⟩
            intro x hx
            have hx' : x = { w with need := some (s.ticks + (s.reserved + w.n - s.permits)) } ∨ x ∈ rest := by
              simpa using hx
            rcases hx' with h | h
            · subst h; exact hu.1 w (by simp [hq])
            · exact hu.1 x (by simp [hq, h])
          · intro hu
            apply this.one
            refine ⟨?_, hu.2⟩
            intro x hx
            have hx' : x = { w with need := some (s.ticks + (s.reserved + w.n - s.permits)) } ∨ x ∈ rest := by
              simpa using hx
            rcases hx' with h | h
            · subst h; exact hu.1 w (by simp [hq])
            · exact hu.1 x (by simp [hq, h])
        · exact PollDelta.refl' (by simp)
    · split <;> exact PollDelta.refl' (by simp)

/-- `acquire i 1` with a positive refresh period. -/
theorem pollDelta_acquire1 {cfg : Cfg} (hr : 0 < cfg.refresh) (hb1 : 1 ≤ cfg.burst) (s : Limiter.State) (i : Nat) :
    PollDelta s (Limiter.step cfg s (.acquire i 1)).1 (Limiter.step cfg s (.acquire i 1)).2 := by
  have h1 : ¬ cfg.burst < 1 := by omega
  have h2 : ¬ cfg.refresh ≤ 0 := by omega
  simp only [Limiter.step, h1, h2, if_false]
  have := pollDelta_pollQueued (cfg := cfg) (r := cfg.refresh.toNat)
    (s := { s with queue := s.queue ++ [⟨i, 1, none⟩], arrivals := s.arrivals ++ [i] }) i
  refine ⟨this.reserved, this.dropped, this.dlog, this.now, ?_, ?_⟩
  · intro hu
    apply this.unit1
    refine ⟨?_, hu.2⟩
    intro x hx
    have hx' : x ∈ s.queue ∨ x = ⟨i, 1, none⟩ := by simpa using hx
    rcases hx' with h | h
    · exact hu.1 x h
    · subst h; rfl
  · intro hu
    apply this.one
    refine ⟨?_, hu.2⟩
    intro x hx
    have hx' : x ∈ s.queue ∨ x = ⟨i, 1, none⟩ := by simpa using hx
    rcases hx' with h | h
    · exact hu.1 x h
    · subst h; rfl

/-- `acquire i 1` when even one permit exceeds the burst: the caller parks, nothing moves. -/
theorem pollDelta_acquire1_over {cfg : Cfg} (hb0 : cfg.burst < 1) (s : Limiter.State) (i : Nat) :
    PollDelta s (Limiter.step cfg s (.acquire i 1)).1 (Limiter.step cfg s (.acquire i 1)).2 := by
  simp only [Limiter.step, hb0, if_true]
  exact ⟨by simp [grantN], rfl, rfl, rfl, id, by intro _ n hn; cases hn⟩

theorem pollDelta_poll {cfg : Cfg} (s : Limiter.State) (i : Nat) :
    PollDelta s (Limiter.step cfg s (.poll i)).1 (Limiter.step cfg s (.poll i)).2 := by
  simp only [Limiter.step]
  split
  · exact PollDelta.refl' (by simp)
  · exact pollDelta_pollQueued i

/-- A successful `drop i` of a one-permit `Permit`. -/
theorem drop_delta {cfg : Cfg} (hr : 0 < cfg.refresh) {s : Limiter.State} {i : Nat} (hu : Unit1 s)
    (h : (Limiter.step cfg s (.drop i)).2 = .dropped) :
    (Limiter.step cfg s (.drop i)).1.reserved + 1 = s.reserved ∧
    (Limiter.step cfg s (.drop i)).1.dropped = s.dropped + 1 ∧
    (Limiter.step cfg s (.drop i)).1.dlog = s.dlog ++ [⟨s.now, i, 1⟩] ∧
    (Limiter.step cfg s (.drop i)).1.now = s.now ∧
    Unit1 (Limiter.step cfg s (.drop i)).1 := by
  simp only [Limiter.step] at *
  split
  · next hf => simp [hf] at h
  · next a n hf =>
    simp only [hf] at h
    have hn : n = 1 := hu.2 (a, n) (List.mem_of_find?_eq_some hf)
    subst hn
    have hr' : ¬ cfg.refresh.toNat = 0 := by omega
    have e1 := advance_reserved s cfg (s.now / cfg.refresh.toNat)
    have e2 := advance_dropped s cfg (s.now / cfg.refresh.toNat)
    have e3 := advance_dlog s cfg (s.now / cfg.refresh.toNat)
    have e4 := advance_now s cfg (s.now / cfg.refresh.toNat)
    have e5 := advance_queue s cfg (s.now / cfg.refresh.toNat)
    unfold dropPermit at *
    simp only [Nat.one_ne_zero, if_false, hr'] at *
    generalize s.advance cfg (s.now / cfg.refresh.toNat) = s1 at *
    by_cases hp : s1.reserved < 1 ∨ s1.permits < 1
    · simp only [hp, if_true] at h; cases h
    · simp only [hp, if_false]
      refine ⟨?_, ?_, ?_, ?_, ?_⟩
      · show s1.reserved - 1 + 1 = s.reserved; omega
      · trivial
      · trivial
      · exact e4
      · refine ⟨?_, ?_⟩
        · intro x hx
          have hx' : x ∈ s1.queue := hx
          rw [e5] at hx'
          exact hu.1 x hx'
        · intro p hp'; exact hu.2 p (List.mem_of_mem_eraseP hp')

/-! ## Counting over the list of streams -/

theorem countP_set_eq {α : Type} (p : α → Bool) (l : List α) (i : Nat) (x y : α) (h : l[i]? = some y) :
    (l.set i x).countP p + (if p y then 1 else 0) = l.countP p + (if p x then 1 else 0) := by
  induction l generalizing i with
  | nil => simp at h
  | cons z zs ih =>
    cases i with
    | zero =>
      simp at h; subst h
      simp [List.countP_cons]; omega
    | succ j =>
      simp at h
      have := ih j h
      simp [List.countP_cons]; omega


/-! ## The composed model: transitions and invariants -/

open EraVerif.Model.RpcLimit (Stream Phase Event Kind isRecvStep isSendStep HEv)
abbrev RState := EraVerif.Model.RpcLimit.State

def isGranted (st : Stream) : Bool := match st.phase with | .granted _ => true | _ => false
def isSentHeld (kind : Kind) (st : Stream) : Bool :=
  match st.phase with | .granted k => (kind == .connect && decide (2 ≤ k)) | _ => false
def isIdle (st : Stream) : Bool := match st.phase with | .idle _ => true | _ => false
def isServing (st : Stream) : Bool := match st.phase with | .serving => true | _ => false
def idleIn (a b : Nat) (st : Stream) : Bool :=
  match st.phase with | .idle e => decide (a ≤ e ∧ e ≤ b) | _ => false
def idleOld (a : Nat) (st : Stream) : Bool :=
  match st.phase with | .idle e => decide (e < a) | _ => false

/-- The limiter's counters did not move. -/
structure LimSame (l l' : Limiter.State) : Prop where
  reserved : l'.reserved = l.reserved
  dropped : l'.dropped = l.dropped
  dlog : l'.dlog = l.dlog

theorem LimSame.rfl' {l : Limiter.State} : LimSame l l := ⟨rfl, rfl, rfl⟩

/-- What one event may do to the phase of the stream it names, with the matching limiter / log deltas. -/
inductive Move (kind : Kind) (i : Nat) (s s' : RState) : Phase → Phase → Prop
  | same (p : Phase) : LimSame s.lim s'.lim → s'.sent = s.sent → s'.handled = s.handled → Move kind i s s' p p
  | toAcquiring : LimSame s.lim s'.lim → s'.sent = s.sent → s'.handled = s.handled →
      Move kind i s s' .closing .acquiring
  | toGranted (p : Phase) : (p = .closing ∨ p = .acquiring) → s'.lim.reserved = s.lim.reserved + 1 →
      s'.lim.dropped = s.lim.dropped → s'.lim.dlog = s.lim.dlog → s'.lim.now = s.lim.now →
      s'.sent = s.sent → s'.handled = s.handled → Move kind i s s' p (.granted 0)
  | exch (k : Nat) : k < 2 → s'.lim = s.lim →
      s'.sent = (if isSendStep kind k then s.sent ++ [⟨s.lim.now, i, 1⟩] else s.sent) →
      s'.handled = s.handled → Move kind i s s' (.granted k) (.granted (k + 1))
  | establish (k : Nat) : 2 ≤ k → s'.lim.reserved + 1 = s.lim.reserved → s'.lim.dropped = s.lim.dropped + 1 →
      s'.lim.dlog = s.lim.dlog ++ [⟨s.lim.now, i, 1⟩] → s'.lim.now = s.lim.now →
      s'.sent = (if isSendStep kind k then s.sent ++ [⟨s.lim.now, i, 1⟩] else s.sent) →
      s'.handled = s.handled → Move kind i s s' (.granted k) (.idle s.lim.now)
  | request (e : Nat) : s'.lim = s.lim → s'.sent = s.sent → s'.handled = s.handled ++ [⟨s.lim.now, i, e⟩] →
      Move kind i s s' (.idle e) .serving
  | finish (p : Phase) : ((∃ e, p = .idle e) ∨ p = .serving) → s'.lim = s.lim → s'.sent = s.sent →
      s'.handled = s.handled → Move kind i s s' p .closing

inductive Trans (cfg : Cfg) (kind : Kind) (s s' : RState) : Prop
  | stutter : StepOK cfg s.lim s'.lim → Unit1 s'.lim → s'.streams = s.streams → LimSame s.lim s'.lim →
      s'.sent = s.sent → s'.handled = s.handled → Trans cfg kind s s'
  | move (i : Nat) (st st' : Stream) : s.streams[i]? = some st → s'.streams = s.streams.set i st' →
      StepOK cfg s.lim s'.lim → Unit1 s'.lim → Move kind i s s' st.phase st'.phase → Trans cfg kind s s'

structure RInv (cfg : Cfg) (kind : Kind) (s : RState) : Prop where
  lim : Inv cfg s.lim
  unit1 : Unit1 s.lim
  res_count : s.lim.reserved = s.streams.countP isGranted
  sent_count : s.sent.length = s.lim.dropped + s.streams.countP (isSentHeld kind)
  idle_le : ∀ st ∈ s.streams, ∀ e, st.phase = .idle e → e ≤ s.lim.now
  handled_le : s.handled.length + s.streams.countP isIdle ≤ s.lim.dropped

theorem rinv_init (cfg : Cfg) (kind : Kind) (n : Nat) : RInv cfg kind (RpcLimit.init cfg n) := by
  refine ⟨inv_init cfg, ⟨by simp [RpcLimit.init, Limiter.init], by simp [RpcLimit.init, Limiter.init]⟩, ?_, ?_, ?_, ?_⟩
  · simp [RpcLimit.init, Limiter.init, List.countP_replicate, isGranted]
  · simp [RpcLimit.init, Limiter.init, List.countP_replicate, isSentHeld]
  · intro st hst e he
    simp [RpcLimit.init, List.mem_replicate] at hst
    rw [hst.2] at he; cases he
  · simp [RpcLimit.init, Limiter.init, List.countP_replicate, isIdle]

/-- Every event is a `Trans`. -/
theorem step_trans {cfg : Cfg} (hb : cfg.burst ≤ USIZE_MAX) (hr : 0 < cfg.refresh) (kind : Kind)
    {s : RState} (hI : RInv cfg kind s) (ev : Event) : Trans cfg kind s (RpcLimit.step cfg kind s ev) := by
  have stay : Trans cfg kind s s :=
    .stutter (StepOK.refl hI.lim) hI.unit1 rfl LimSame.rfl' rfl rfl
  cases ev with
  | startAcquire i =>
    simp only [RpcLimit.step]
    split
    · next st hget =>
      split
      · next hph =>
        have ok := stepOK_step hb (.acquire i 1) hI.lim
        have pd : PollDelta s.lim (Limiter.step cfg s.lim (.acquire i 1)).1 (Limiter.step cfg s.lim (.acquire i 1)).2 := by
          by_cases hb1 : 1 ≤ cfg.burst
          · exact pollDelta_acquire1 hr hb1 s.lim i
          · exact pollDelta_acquire1_over (by omega) s.lim i
        generalize hstep : Limiter.step cfg s.lim (.acquire i 1) = x at ok pd
        obtain ⟨l, r⟩ := x
        cases r with
        | granted n =>
          have hn := pd.one hI.unit1 n rfl
          subst hn
          refine .move i st { st with phase := .granted 0 } hget rfl ok (pd.unit1 hI.unit1) ?_
          rw [hph]
          exact .toGranted _ (.inl rfl) (by simpa [grantN] using pd.reserved) pd.dropped pd.dlog pd.now rfl rfl
        | pending | cancelled | dropped | advanced | noop | panic =>
          refine .move i st { st with phase := .acquiring } hget rfl ok (pd.unit1 hI.unit1) ?_
          rw [hph]
          exact .toAcquiring ⟨by simpa [grantN] using pd.reserved, pd.dropped, pd.dlog⟩ rfl rfl
      · exact stay
    · exact stay
  | pollAcquire i =>
    simp only [RpcLimit.step]
    split
    · next st hget =>
      split
      · next hph =>
        have ok := stepOK_step hb (.poll i) hI.lim
        have pd := pollDelta_poll (cfg := cfg) s.lim i
        generalize hstep : Limiter.step cfg s.lim (.poll i) = x at ok pd
        obtain ⟨l, r⟩ := x
        cases r with
        | granted n =>
          have hn := pd.one hI.unit1 n rfl
          subst hn
          refine .move i st { st with phase := .granted 0 } hget rfl ok (pd.unit1 hI.unit1) ?_
          rw [hph]
          exact .toGranted _ (.inr rfl) (by simpa [grantN] using pd.reserved) pd.dropped pd.dlog pd.now rfl rfl
        | pending | cancelled | dropped | advanced | noop | panic =>
          exact .stutter ok (pd.unit1 hI.unit1) rfl ⟨by simpa [grantN] using pd.reserved, pd.dropped, pd.dlog⟩ rfl rfl
      · exact stay
    · exact stay
  | peerOpen i =>
    simp only [RpcLimit.step]
    split
    · next st hget =>
      exact .move i st { st with peerOpen := true } hget rfl (StepOK.refl hI.lim) hI.unit1
        (.same _ LimSame.rfl' rfl rfl)
    · exact stay
  | exchange i =>
    simp only [RpcLimit.step]
    split
    · next st hget =>
      split
      · next k hph =>
        split
        · exact stay
        · by_cases hk : k < 2
          · simp only [hk, if_true]
            refine .move i st _ hget rfl (StepOK.refl hI.lim) hI.unit1 ?_
            rw [hph]
            have : ({ (if isRecvStep kind k = true then { st with peerOpen := false } else st) with
                phase := Phase.granted (k + 1) } : Stream).phase = .granted (k + 1) := rfl
            rw [this]
            exact .exch k hk rfl rfl rfl
          · simp only [hk, if_false]
            have ok := stepOK_step hb (.drop i) hI.lim
            generalize hstep : Limiter.step cfg s.lim (.drop i) = x at ok
            obtain ⟨l, r⟩ := x
            cases r with
            | dropped =>
              have dd := drop_delta hr hI.unit1 (i := i) (by rw [hstep])
              rw [hstep] at dd
              refine .move i st _ hget rfl ok dd.2.2.2.2 ?_
              rw [hph]
              have : ({ (if isRecvStep kind k = true then { st with peerOpen := false } else st) with
                  phase := Phase.idle s.lim.now } : Stream).phase = .idle s.lim.now := rfl
              rw [this]
              exact .establish k (by omega) dd.1 dd.2.1 dd.2.2.1 dd.2.2.2.1 rfl rfl
            | pending | cancelled | granted | advanced | noop | panic => exact stay
      · exact stay
    · exact stay
  | request i =>
    simp only [RpcLimit.step]
    split
    · next st hget =>
      split
      · next e hph =>
        refine .move i st { st with phase := .serving } hget rfl (StepOK.refl hI.lim) hI.unit1 ?_
        rw [hph]
        exact .request e rfl rfl rfl
      · exact stay
    · exact stay
  | finish i =>
    simp only [RpcLimit.step]
    split
    · next st hget =>
      split
      · next e hph =>
        refine .move i st { st with phase := .closing } hget rfl (StepOK.refl hI.lim) hI.unit1 ?_
        rw [hph]
        exact .finish _ (.inl ⟨e, rfl⟩) rfl rfl rfl
      · next hph =>
        refine .move i st { st with phase := .closing } hget rfl (StepOK.refl hI.lim) hI.unit1 ?_
        rw [hph]
        exact .finish _ (.inr rfl) rfl rfl rfl
      · exact stay
    · exact stay
  | tick d =>
    simp only [RpcLimit.step]
    have ok := stepOK_step hb (.advance d) hI.lim
    refine .stutter ok ?_ rfl ⟨rfl, rfl, rfl⟩ rfl rfl
    exact ⟨hI.unit1.1, hI.unit1.2⟩


theorem countP_le_of_imp {α : Type} (p q : α → Bool) (l : List α) (h : ∀ x, p x = true → q x = true) :
    l.countP p ≤ l.countP q := by
  induction l with
  | nil => simp
  | cons x xs ih =>
    simp only [List.countP_cons]
    by_cases hp : p x = true
    · simp [hp, h x hp]; exact ih
    · have hp' : p x = false := by simpa using hp
      by_cases hq : q x = true
      · simp [hp', hq]; omega
      · have hq' : q x = false := by simpa using hq
        simp [hp', hq']; exact ih

theorem sentHeld_imp_granted (kind : Kind) (st : Stream) : isSentHeld kind st = true → isGranted st = true := by
  unfold isSentHeld isGranted
  cases st.phase <;> simp

/-- The invariant is preserved by every transition. -/
theorem rinv_trans {cfg : Cfg} {kind : Kind} {s s' : RState} (hI : RInv cfg kind s)
    (t : Trans cfg kind s s') : RInv cfg kind s' := by
  cases t with
  | stutter ok u hs hl hsent hh =>
    refine ⟨ok.inv, u, ?_, ?_, ?_, ?_⟩
    · rw [hs, hl.reserved]; exact hI.res_count
    · rw [hs, hsent, hl.dropped]; exact hI.sent_count
    · intro st hst e he
      rw [hs] at hst
      exact Nat.le_trans (hI.idle_le st hst e he) ok.now_le
    · rw [hs, hh, hl.dropped]; exact hI.handled_le
  | move i st st' hget hs ok u mv =>
    have hmem : st ∈ s.streams := List.mem_of_getElem? hget
    have cG := countP_set_eq isGranted s.streams i st' st hget
    have cS := countP_set_eq (isSentHeld kind) s.streams i st' st hget
    have cI := countP_set_eq isIdle s.streams i st' st hget
    have h1 := hI.res_count; have h2 := hI.sent_count; have h4 := hI.handled_le
    have idle_old : ∀ x ∈ s'.streams, x ≠ st' → ∀ e, x.phase = .idle e → e ≤ s'.lim.now := by
      intro x hx hne e he
      rw [hs] at hx
      rcases List.mem_or_eq_of_mem_set hx with h | h
      · exact Nat.le_trans (hI.idle_le x h e he) ok.now_le
      · exact absurd h hne
    have idle_all : (∀ e, st'.phase = .idle e → e ≤ s'.lim.now) →
        ∀ x ∈ s'.streams, ∀ e, x.phase = .idle e → e ≤ s'.lim.now := by
      intro hnew x hx e he
      by_cases hxe : x = st'
      · subst hxe; exact hnew e he
      · exact idle_old x hx hxe e he
    generalize hp : st.phase = p at mv cG cS cI
    generalize hp' : st'.phase = p' at mv cG cS cI
    cases mv with
    | same p hl hsent hh =>
      have e1 : isGranted st' = isGranted st := by simp [isGranted, hp, hp']
      have e2 : isSentHeld kind st' = isSentHeld kind st := by simp [isSentHeld, hp, hp']
      have e3 : isIdle st' = isIdle st := by simp [isIdle, hp, hp']
      rw [e1] at cG; rw [e2] at cS; rw [e3] at cI
      refine ⟨ok.inv, u, ?_, ?_, ?_, ?_⟩
      · rw [hs, hl.reserved]; omega
      · rw [hs, hsent, hl.dropped]; omega
      · apply idle_all
        intro e he
        have : st.phase = .idle e := by rw [hp, ← hp']; exact he
        exact Nat.le_trans (hI.idle_le st hmem e this) ok.now_le
      · rw [hs, hh, hl.dropped]; omega
    | toAcquiring hl hsent hh =>
      simp only [isGranted, isSentHeld, isIdle, hp, hp'] at cG cS cI
      refine ⟨ok.inv, u, ?_, ?_, ?_, ?_⟩
      · rw [hs, hl.reserved]; simp at cG; omega
      · rw [hs, hsent, hl.dropped]; simp at cS; omega
      · apply idle_all; intro e he; rw [hp'] at he; cases he
      · rw [hs, hh, hl.dropped]; simp at cI; omega
    | toGranted p hpp hres hd hdl hnow hsent hh =>
      have e1 : isGranted st = false := by rcases hpp with h | h <;> simp [isGranted, hp, h]
      have e2 : isSentHeld kind st = false := by rcases hpp with h | h <;> simp [isSentHeld, hp, h]
      have e3 : isIdle st = false := by rcases hpp with h | h <;> simp [isIdle, hp, h]
      have f1 : isGranted st' = true := by simp [isGranted, hp']
      have f2 : isSentHeld kind st' = false := by simp [isSentHeld, hp']
      have f3 : isIdle st' = false := by simp [isIdle, hp']
      rw [e1, f1] at cG; rw [e2, f2] at cS; rw [e3, f3] at cI
      simp at cG cS cI
      refine ⟨ok.inv, u, ?_, ?_, ?_, ?_⟩
      · rw [hs, hres]; omega
      · rw [hs, hsent, hd]; omega
      · apply idle_all; intro e he; rw [hp'] at he; cases he
      · rw [hs, hh, hd]; omega
    | exch k hk hlim hsent hh =>
      have e1 : isGranted st = true := by simp [isGranted, hp]
      have f1 : isGranted st' = true := by simp [isGranted, hp']
      have e3 : isIdle st = false := by simp [isIdle, hp]
      have f3 : isIdle st' = false := by simp [isIdle, hp']
      rw [e1, f1] at cG; rw [e3, f3] at cI
      simp at cG cI
      refine ⟨ok.inv, u, ?_, ?_, ?_, ?_⟩
      · rw [hs, hlim]; omega
      · rw [hs, hsent, hlim]
        cases kind with
        | connect =>
          have e2 : isSentHeld .connect st = false := by simp [isSentHeld, hp]; omega
          rw [e2] at cS
          by_cases hk1 : k = 1
          · subst hk1
            have f2 : isSentHeld .connect st' = true := by simp [isSentHeld, hp']
            rw [f2] at cS
            simp [isSendStep] at cS ⊢
            omega
          · have f2 : isSentHeld .connect st' = false := by simp [isSentHeld, hp']; omega
            rw [f2] at cS
            have : (isSendStep .connect k) = false := by simp [isSendStep, hk1]
            simp [this] at cS ⊢
            omega
        | accept =>
          have e2 : isSentHeld .accept st = false := by simp [isSentHeld, hp]
          have f2 : isSentHeld .accept st' = false := by simp [isSentHeld, hp']
          rw [e2, f2] at cS
          have : (isSendStep .accept k) = false := by simp [isSendStep]; omega
          simp [this] at cS ⊢
          omega
      · apply idle_all; intro e he; rw [hp'] at he; cases he
      · rw [hs, hh, hlim]; omega
    | establish k hk hres hd hdl hnow hsent hh =>
      have e1 : isGranted st = true := by simp [isGranted, hp]
      have f1 : isGranted st' = false := by simp [isGranted, hp']
      have e3 : isIdle st = false := by simp [isIdle, hp]
      have f3 : isIdle st' = true := by simp [isIdle, hp']
      rw [e1, f1] at cG; rw [e3, f3] at cI
      simp at cG cI
      refine ⟨ok.inv, u, ?_, ?_, ?_, ?_⟩
      · rw [hs]; omega
      · rw [hs, hsent, hd]
        have f2 : isSentHeld kind st' = false := by simp [isSentHeld, hp']
        rw [f2] at cS
        cases kind with
        | connect =>
          have e2 : isSentHeld .connect st = true := by simp [isSentHeld, hp]; omega
          rw [e2] at cS
          have : (isSendStep .connect k) = false := by simp [isSendStep]; omega
          simp [this] at cS ⊢
          omega
        | accept =>
          have e2 : isSentHeld .accept st = false := by simp [isSentHeld, hp]
          rw [e2] at cS
          have : (isSendStep .accept k) = true := by simp [isSendStep]; omega
          simp [this] at cS ⊢
          omega
      · apply idle_all; intro e he; rw [hp'] at he; cases he; omega
      · rw [hs, hh, hd]; omega
    | request e hlim hsent hh =>
      simp only [isGranted, isSentHeld, isIdle, hp, hp'] at cG cS cI
      simp at cG cS cI
      refine ⟨ok.inv, u, ?_, ?_, ?_, ?_⟩
      · rw [hs, hlim]; omega
      · rw [hs, hsent, hlim]; omega
      · apply idle_all; intro e he; rw [hp'] at he; cases he
      · rw [hs, hh, hlim]; simp; omega
    | finish p hpp hlim hsent hh =>
      have e1 : isGranted st = false := by rcases hpp with ⟨e, h⟩ | h <;> simp [isGranted, hp, h]
      have e2 : isSentHeld kind st = false := by rcases hpp with ⟨e, h⟩ | h <;> simp [isSentHeld, hp, h]
      have f1 : isGranted st' = false := by simp [isGranted, hp']
      have f2 : isSentHeld kind st' = false := by simp [isSentHeld, hp']
      have f3 : isIdle st' = false := by simp [isIdle, hp']
      rw [e1, f1] at cG; rw [e2, f2] at cS; rw [f3] at cI
      simp at cG cS cI
      refine ⟨ok.inv, u, ?_, ?_, ?_, ?_⟩
      · rw [hs, hlim]; omega
      · rw [hs, hsent, hlim]; omega
      · apply idle_all; intro e he; rw [hp'] at he; cases he
      · rw [hs, hh, hlim]
        split at cI <;> omega

theorem rinv_run {cfg : Cfg} (hb : cfg.burst ≤ USIZE_MAX) (hr : 0 < cfg.refresh) (kind : Kind)
    (evs : List Event) : ∀ s, RInv cfg kind s → RInv cfg kind (RpcLimit.run cfg kind s evs) := by
  induction evs with
  | nil => intro s h; exact h
  | cons ev evs ih =>
    intro s h
    simp only [RpcLimit.run, List.foldl_cons]
    exact ih _ (rinv_trans h (step_trans hb hr kind h ev))


/-! ## Windows -/

theorem countP_split {α : Type} (p q : α → Bool) (l : List α) :
    l.countP p = l.countP (fun x => p x && q x) + l.countP (fun x => p x && !q x) := by
  induction l with
  | nil => rfl
  | cons x xs ih =>
    simp only [List.countP_cons, ih]
    cases p x <;> cases q x <;> simp <;> omega

def inWin (a b : Nat) (h : HEv) : Bool := decide (a ≤ h.t ∧ h.t ≤ b)
/-- handler invocations at instants in `[a, b]` -/
def hWin (a b : Nat) (l : List HEv) : Nat := l.countP (inWin a b)
/-- … on a stream established inside the window -/
def hNew (a b : Nat) (l : List HEv) : Nat := l.countP (fun h => inWin a b h && decide (a ≤ h.estAt))
/-- … on a stream that was already established (and idle) before the window began -/
def hOld (a b : Nat) (l : List HEv) : Nat := l.countP (fun h => inWin a b h && !decide (a ≤ h.estAt))

theorem hWin_split (a b : Nat) (l : List HEv) : hWin a b l = hNew a b l + hOld a b l :=
  countP_split _ _ l

theorem hNew_snoc (a b : Nat) (l : List HEv) (x : HEv) :
    hNew a b (l ++ [x]) = hNew a b l + (if a ≤ x.t ∧ x.t ≤ b ∧ a ≤ x.estAt then 1 else 0) := by
  simp only [hNew, List.countP_append, List.countP_singleton, inWin]
  by_cases h1 : a ≤ x.t ∧ x.t ≤ b
  · by_cases h2 : a ≤ x.estAt
    · have : a ≤ x.t ∧ x.t ≤ b ∧ a ≤ x.estAt := ⟨h1.1, h1.2, h2⟩
      simp [h1, h2, this]
    · have : ¬ (a ≤ x.t ∧ x.t ≤ b ∧ a ≤ x.estAt) := fun h => h2 h.2.2
      simp [h1, h2, this]
  · have : ¬ (a ≤ x.t ∧ x.t ≤ b ∧ a ≤ x.estAt) := fun h => h1 ⟨h.1, h.2.1⟩
    simp [h1, this]

theorem hOld_snoc (a b : Nat) (l : List HEv) (x : HEv) :
    hOld a b (l ++ [x]) = hOld a b l + (if a ≤ x.t ∧ x.t ≤ b ∧ x.estAt < a then 1 else 0) := by
  simp only [hOld, List.countP_append, List.countP_singleton, inWin]
  by_cases h1 : a ≤ x.t ∧ x.t ≤ b
  · by_cases h2 : a ≤ x.estAt
    · have : ¬ (a ≤ x.t ∧ x.t ≤ b ∧ x.estAt < a) := by omega
      simp [h1, h2, this]
    · have : a ≤ x.t ∧ x.t ≤ b ∧ x.estAt < a := ⟨h1.1, h1.2, by omega⟩
      simp [h1, h2, this]
  · have : ¬ (a ≤ x.t ∧ x.t ≤ b ∧ x.estAt < a) := fun h => h1 ⟨h.1, h.2.1⟩
    simp [h1, this]

structure WInv (cfg : Cfg) (a b : Nat) (s : RState) : Prop where
  qs : QW cfg a b s.lim s.sent.length (wsum a b s.sent)
  qd : QW cfg a b s.lim s.lim.dropped (wsum a b s.lim.dlog)
  hn : hNew a b s.handled + s.streams.countP (idleIn a b) ≤ wsum a b s.lim.dlog
  ho0 : s.lim.now < a → hOld a b s.handled = 0
  ho : hOld a b s.handled + s.streams.countP (idleOld a) ≤ s.streams.length

theorem winv_init (cfg : Cfg) (a b : Nat) (hab : a ≤ b) (n : Nat) : WInv cfg a b (RpcLimit.init cfg n) := by
  have q := QW_init cfg a b hab
  refine ⟨by simpa [RpcLimit.init] using q, by simpa [RpcLimit.init, Limiter.init] using q, ?_, ?_, ?_⟩
  · simp [RpcLimit.init, hNew, List.countP_replicate, idleIn]
  · intro _; simp [RpcLimit.init, hOld]
  · simp [RpcLimit.init, hOld, List.countP_replicate, idleOld]

theorem QW_drops_of_ok {cfg : Cfg} {a b : Nat} (hab : a ≤ b) {l l' : Limiter.State} (ok : StepOK cfg l l')
    (hQ : QW cfg a b l l.dropped (wsum a b l.dlog)) : QW cfg a b l' l'.dropped (wsum a b l'.dlog) := by
  have hgd := ok.inv.gd
  rcases ok.d with ⟨hl, hc⟩ | ⟨id, n, hl, hc, hn⟩
  · have := QW_step (k := 0) hab ok.inv ok.now_le ok.E_le hQ (.inl rfl) (by omega) (by omega)
    rw [hl, hc]; simpa using this
  · have := QW_step (k := n) hab ok.inv ok.now_le ok.E_le hQ (.inr hn) (by omega) (by omega)
    rw [hl, hc, wsum_append, wsum_single]; exact this

theorem qs_next {cfg : Cfg} {a b : Nat} (hab : a ≤ b) {l l' : Limiter.State} (ok : StepOK cfg l l')
    {sent sent' : List Ev} {i : Nat} (hQ : QW cfg a b l sent.length (wsum a b sent))
    (hsent : sent' = sent ∨ (sent' = sent ++ [⟨l.now, i, 1⟩] ∧ l'.now = l.now))
    (lo' : l'.dropped ≤ sent'.length) (hi' : sent'.length ≤ l'.granted) :
    QW cfg a b l' sent'.length (wsum a b sent') := by
  rcases hsent with h | ⟨h, hn⟩
  · subst h
    have := QW_step (k := 0) hab ok.inv ok.now_le ok.E_le hQ (.inl rfl) (by omega) (by omega)
    simpa using this
  · subst h
    have := QW_step (k := 1) hab ok.inv ok.now_le ok.E_le hQ (.inr hn)
      (by simpa using lo') (by simpa using hi')
    rw [wsum_append, wsum_single]
    simpa using this

theorem sent_le_granted {cfg : Cfg} {kind : Kind} {s : RState} (hI : RInv cfg kind s) :
    s.lim.dropped ≤ s.sent.length ∧ s.sent.length ≤ s.lim.granted := by
  have h1 := hI.sent_count
  have h2 := hI.res_count
  have h3 := hI.lim.gd
  have h4 := countP_le_of_imp (isSentHeld kind) isGranted s.streams (sentHeld_imp_granted kind)
  omega

theorem winv_trans {cfg : Cfg} {kind : Kind} {a b : Nat} (hab : a ≤ b) {s s' : RState}
    (hI : RInv cfg kind s) (hI' : RInv cfg kind s') (hW : WInv cfg a b s) (t : Trans cfg kind s s') :
    WInv cfg a b s' := by
  have hsg := sent_le_granted hI'
  cases t with
  | stutter ok u hs hl hsent hh =>
    refine ⟨?_, QW_drops_of_ok hab ok hW.qd, ?_, ?_, ?_⟩
    · exact qs_next (i := 0) hab ok hW.qs (.inl hsent) hsg.1 hsg.2
    · rw [hh, hs, hl.dlog]; exact hW.hn
    · intro h; rw [hh]; exact hW.ho0 (by have := ok.now_le; omega)
    · rw [hh, hs]; exact hW.ho
  | move i st st' hget hs ok u mv =>
    have hmem : st ∈ s.streams := List.mem_of_getElem? hget
    have cN := countP_set_eq (idleIn a b) s.streams i st' st hget
    have cO := countP_set_eq (idleOld a) s.streams i st' st hget
    have hlen : s'.streams.length = s.streams.length := by rw [hs, List.length_set]
    have hn := hW.hn; have ho := hW.ho
    have hnow := ok.now_le
    generalize hp : st.phase = p at mv cN cO
    generalize hp' : st'.phase = p' at mv cN cO
    have qd := QW_drops_of_ok hab ok hW.qd
    cases mv with
    | same p hl hsent hh =>
      have e1 : idleIn a b st' = idleIn a b st := by simp [idleIn, hp, hp']
      have e2 : idleOld a st' = idleOld a st := by simp [idleOld, hp, hp']
      rw [e1] at cN; rw [e2] at cO
      refine ⟨qs_next (i := 0) hab ok hW.qs (.inl hsent) hsg.1 hsg.2, qd, ?_, ?_, ?_⟩
      · rw [hh, hs, hl.dlog]; omega
      · intro h; rw [hh]; exact hW.ho0 (by omega)
      · rw [hh, hlen, hs]; omega
    | toAcquiring hl hsent hh =>
      simp [idleIn, idleOld, hp, hp'] at cN cO
      refine ⟨qs_next (i := 0) hab ok hW.qs (.inl hsent) hsg.1 hsg.2, qd, ?_, ?_, ?_⟩
      · rw [hh, hs, hl.dlog]; omega
      · intro h; rw [hh]; exact hW.ho0 (by omega)
      · rw [hh, hlen, hs]; omega
    | toGranted p hpp hres hd hdl hnw hsent hh =>
      have e1 : idleIn a b st = false := by rcases hpp with h | h <;> simp [idleIn, hp, h]
      have e2 : idleOld a st = false := by rcases hpp with h | h <;> simp [idleOld, hp, h]
      rw [e1] at cN; rw [e2] at cO
      simp [idleIn, idleOld, hp'] at cN cO
      refine ⟨qs_next (i := 0) hab ok hW.qs (.inl hsent) hsg.1 hsg.2, qd, ?_, ?_, ?_⟩
      · rw [hh, hs, hdl]; omega
      · intro h; rw [hh]; exact hW.ho0 (by omega)
      · rw [hh, hlen, hs]; omega
    | exch k hk hlim hsent hh =>
      simp [idleIn, idleOld, hp, hp'] at cN cO
      refine ⟨?_, qd, ?_, ?_, ?_⟩
      · apply qs_next (i := i) hab ok hW.qs _ hsg.1 hsg.2
        rw [hsent]
        split
        · exact .inr ⟨rfl, by rw [hlim]⟩
        · exact .inl rfl
      · rw [hh, hs, hlim]; omega
      · intro h; rw [hh]; exact hW.ho0 (by omega)
      · rw [hh, hlen, hs]; omega
    | establish k hk hres hd hdl hnw hsent hh =>
      simp [idleIn, idleOld, hp, hp'] at cN cO
      refine ⟨?_, qd, ?_, ?_, ?_⟩
      · apply qs_next (i := i) hab ok hW.qs _ hsg.1 hsg.2
        rw [hsent]
        split
        · exact .inr ⟨rfl, hnw⟩
        · exact .inl rfl
      · rw [hh, hs, hdl, wsum_append, wsum_single]
        show hNew a b s.handled + List.countP (idleIn a b) (s.streams.set i st') ≤
          wsum a b s.lim.dlog + if a ≤ s.lim.now ∧ s.lim.now ≤ b then 1 else 0
        rw [cN]; omega
      · intro h; rw [hh]; exact hW.ho0 (by omega)
      · rw [hh, hlen, hs]
        by_cases hlt : s.lim.now < a
        · have h0 := hW.ho0 hlt
          have := List.countP_le_length (p := idleOld a) (l := s.streams.set i st')
          rw [List.length_set] at this
          omega
        · rw [cO]; simp only [hlt, if_false]; omega
    | request e hlim hsent hh =>
      have hele : e ≤ s.lim.now := hI.idle_le st hmem e hp
      simp [idleIn, idleOld, hp, hp'] at cN cO
      refine ⟨qs_next (i := 0) hab ok hW.qs (.inl hsent) hsg.1 hsg.2, qd, ?_, ?_, ?_⟩
      · rw [hh, hs, hlim, hNew_snoc]
        show hNew a b s.handled + (if a ≤ s.lim.now ∧ s.lim.now ≤ b ∧ a ≤ e then 1 else 0) +
          List.countP (idleIn a b) (s.streams.set i st') ≤ wsum a b s.lim.dlog
        by_cases hc : a ≤ s.lim.now ∧ s.lim.now ≤ b ∧ a ≤ e
        · have : a ≤ e ∧ e ≤ b := by omega
          simp only [hc, this, and_self, if_true] at cN ⊢
          omega
        · simp only [hc, if_false]
          split at cN <;> omega
      · intro h
        rw [hlim] at h
        rw [hh, hOld_snoc]
        have : ¬ (a ≤ s.lim.now ∧ s.lim.now ≤ b ∧ e < a) := by omega
        simp only [this, if_false]
        have := hW.ho0 h
        omega
      · rw [hh, hlen, hs, hOld_snoc]
        show hOld a b s.handled + (if a ≤ s.lim.now ∧ s.lim.now ≤ b ∧ e < a then 1 else 0) +
          List.countP (idleOld a) (s.streams.set i st') ≤ s.streams.length
        by_cases hc : a ≤ s.lim.now ∧ s.lim.now ≤ b ∧ e < a
        · have : e < a := hc.2.2
          simp only [hc, this, and_self, if_true] at cO ⊢
          omega
        · simp only [hc, if_false]
          split at cO <;> omega
    | finish p hpp hlim hsent hh =>
      have f1 : idleIn a b st' = false := by simp [idleIn, hp']
      have f2 : idleOld a st' = false := by simp [idleOld, hp']
      rw [f1] at cN; rw [f2] at cO
      simp only [Bool.false_eq_true, if_false, Nat.add_zero] at cN cO
      refine ⟨qs_next (i := 0) hab ok hW.qs (.inl hsent) hsg.1 hsg.2, qd, ?_, ?_, ?_⟩
      · rw [hh, hs, hlim]; split at cN <;> omega
      · intro h; rw [hh]; exact hW.ho0 (by omega)
      · rw [hh, hlen, hs]; split at cO <;> omega

theorem winv_run {cfg : Cfg} (hb : cfg.burst ≤ USIZE_MAX) (hr : 0 < cfg.refresh) (kind : Kind) {a b : Nat}
    (hab : a ≤ b) (evs : List Event) :
    ∀ s, RInv cfg kind s → WInv cfg a b s → WInv cfg a b (RpcLimit.run cfg kind s evs) := by
  induction evs with
  | nil => intro s _ h; exact h
  | cons ev evs ih =>
    intro s hI hW
    simp only [RpcLimit.run, List.foldl_cons]
    have t := step_trans hb hr kind hI ev
    have hI' := rinv_trans hI t
    exact ih _ hI' (winv_trans hab hI hI' hW t)

theorem trans_length {cfg : Cfg} {kind : Kind} {s s' : RState} (t : Trans cfg kind s s') :
    s'.streams.length = s.streams.length := by
  cases t with
  | stutter _ _ hs => rw [hs]
  | move i st st' _ hs => rw [hs, List.length_set]

theorem streams_length_run {cfg : Cfg} (hb : cfg.burst ≤ USIZE_MAX) (hr : 0 < cfg.refresh) (kind : Kind)
    (evs : List Event) :
    ∀ s, RInv cfg kind s → (RpcLimit.run cfg kind s evs).streams.length = s.streams.length := by
  induction evs with
  | nil => intro s _; rfl
  | cons ev evs ih =>
    intro s hI
    simp only [RpcLimit.run, List.foldl_cons]
    have t := step_trans hb hr kind hI ev
    have := ih _ (rinv_trans hI t)
    simp only [RpcLimit.run] at this
    rw [this, trans_length t]

/-- Every state reachable on a fresh connection with `n` reusable streams satisfies the invariant. -/
theorem rinv_reach (cfg : Cfg) (hb : cfg.burst ≤ USIZE_MAX) (hr : 0 < cfg.refresh) (kind : Kind) (n : Nat)
    (evs : List Event) : RInv cfg kind (RpcLimit.run cfg kind (RpcLimit.init cfg n) evs) :=
  rinv_run hb hr kind evs _ (rinv_init cfg kind n)

/-- … and the window invariants for every window `[a, a+T]`. -/
theorem winv_reach (cfg : Cfg) (hb : cfg.burst ≤ USIZE_MAX) (hr : 0 < cfg.refresh) (kind : Kind) (n : Nat)
    (evs : List Event) (a T : Nat) : WInv cfg a (a + T) (RpcLimit.run cfg kind (RpcLimit.init cfg n) evs) :=
  winv_run hb hr kind (Nat.le_add_right a T) evs _ (rinv_init cfg kind n)
    (winv_init cfg a (a + T) (Nat.le_add_right a T) n)

end EraVerif.Proofs.RpcLimit
