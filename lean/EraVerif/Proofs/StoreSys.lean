import EraVerif.Proofs.Store

/-!
# Helper lemmas for C08: the inductive invariant of the manager LTS (`Model/Store.lean`, `step?`)
Core Lean only (no Mathlib).
-/

namespace EraVerif.Proofs.Store
open EraVerif.Model.Store
open EraVerif.Gen.StoreConst

/-! ## The storage pipeline: hand-offs that are not durable yet -/

/-- processing the hand-offs `l` in order, starting with head `bound`, never meets a gap
(`in_memory::Engine::queue_next_block`: a block below the head is ignored, the head is stored, anything above
is an error) -/
def chainOk : Nat → List Nat → Prop
  | _, [] => True
  | bound, h :: t => h ≤ bound ∧ chainOk (max bound (h + 1)) t

/-- the head after processing `l` -/
def endBound : Nat → List Nat → Nat
  | bound, [] => bound
  | bound, h :: t => endBound (max bound (h + 1)) t

theorem le_endBound (bound : Nat) (l : List Nat) : bound ≤ endBound bound l := by
  induction l generalizing bound with
  | nil => simp [endBound]
  | cons h t ih => have := ih (max bound (h + 1)); simp [endBound]; omega

theorem endBound_mono {b1 b2 : Nat} (h : b1 ≤ b2) (l : List Nat) : endBound b1 l ≤ endBound b2 l := by
  induction l generalizing b1 b2 with
  | nil => simpa [endBound]
  | cons x t ih => simp only [endBound]; exact ih (by omega)

theorem chainOk_mono {b1 b2 : Nat} (h : b1 ≤ b2) {l : List Nat} (hc : chainOk b1 l) : chainOk b2 l := by
  induction l generalizing b1 b2 with
  | nil => trivial
  | cons x t ih => exact ⟨by have := hc.1; omega, ih (by omega) hc.2⟩

theorem chainOk_snoc {bound : Nat} {l : List Nat} {n : Nat} :
    chainOk bound (l ++ [n]) ↔ chainOk bound l ∧ n ≤ endBound bound l := by
  induction l generalizing bound with
  | nil => simp [chainOk, endBound]
  | cons x t ih => simp only [List.cons_append, chainOk, endBound, ih]; exact and_assoc.symm

theorem endBound_snoc (bound : Nat) (l : List Nat) (n : Nat) :
    endBound bound (l ++ [n]) = max (endBound bound l) (n + 1) := by
  induction l generalizing bound with
  | nil => simp [endBound]
  | cons x t ih => simp only [List.cons_append, endBound, ih]

theorem chainOk_prefix {bound : Nat} {l : List Nat} {n : Nat} (h : chainOk bound (l ++ [n])) : chainOk bound l :=
  (chainOk_snoc.mp h).1

/-- numbers of the hand-offs the storage has accepted or is being offered, oldest first -/
def pipe (s : Sys) : List Nat := (s.env.inbox ++ s.taskBusy.toList).map (·.num)

/-! ## Storage contract -/

/-- every block of the reported range is readable -/
def DiskCovers (p : Range) (disk : List Block) : Prop :=
  ∀ n, p.contains n = true → (diskLookup disk n).isSome = true

theorem diskLookup_num {disk : List Block} {n : Nat} {b : Block} (h : diskLookup disk n = some b) : b.num = n := by
  unfold diskLookup at h
  have := List.find?_some h
  simpa using this

theorem publishHonest_spec {old p : Range} {disk : List Block} (h : publishHonest old p disk = true) :
    old.next ≤ p.next ∧ DiskCovers p disk := by
  unfold publishHonest at h
  simp only [Bool.and_eq_true, decide_eq_true_eq] at h
  refine ⟨h.1, ?_⟩
  intro n hn
  obtain ⟨l, hl, h1, h2⟩ := (contains_iff _ _).mp hn
  have h3 := h.2
  simp only [hl, List.all_eq_true, List.mem_range] at h3
  have := h3 (n - p.first) (by omega)
  have e : p.first + (n - p.first) = n := by omega
  rwa [e] at this

/-! ## The invariant -/

def lastNum (l : List Block) : Nat :=
  match l.getLast? with
  | none => 0
  | some b => b.num + 1

structure Inv (s : Sys) : Prop where
  store : SInv CACHE_CAPACITY s.store
  /-- everything that waits for, or passed, `try_push` passed the verification of `queue_block` -/
  parkedVerified : ∀ r ∈ s.parked, verify s.cfg r.block = .ok
  acceptedVerified : ∀ b ∈ s.accepted, verify s.cfg b = .ok
  /-- the cache is the tail of what `try_push` appended -/
  cacheSuffix : s.store.cache <:+ s.accepted
  /-- numbers are accepted in strictly increasing order -/
  acceptedInc : s.accepted.Pairwise (fun a b => a.num < b.num)
  acceptedLt : ∀ b ∈ s.accepted, b.num < s.store.queued.next
  /-- hand-offs are accepted blocks, strictly increasing, and `queue_next` is one past the last hand-off -/
  handedAccepted : ∀ b ∈ s.handed, b ∈ s.accepted
  handedInc : s.handed.Pairwise (fun a b => a.num < b.num)
  taskNextEq : s.taskNext = lastNum s.handed
  busyLast : ∀ b, s.taskBusy = some b → s.handed.getLast? = some b
  /-- while the storage keeps the interface contract … -/
  copyLags : s.envBroken = false → s.store.persisted.next ≤ s.env.persisted.next
  diskCovers : s.envBroken = false → DiskCovers s.env.persisted s.env.disk
  pipeOk : s.envBroken = false → chainOk s.env.persisted.next (pipe s)
  pipeEnd : s.envBroken = false → s.dead = false → s.taskNext ≤ endBound s.env.persisted.next (pipe s)
  noGap : s.envBroken = false → s.gapSeen = false

theorem lastNum_snoc (l : List Block) (b : Block) : lastNum (l ++ [b]) = b.num + 1 := by
  simp [lastNum]

theorem lt_lastNum_of_inc {l : List Block} (h : l.Pairwise (fun a b => a.num < b.num)) {b : Block} (hb : b ∈ l) :
    b.num < lastNum l := by
  cases hl : l.getLast? with
  | none => rw [List.getLast?_eq_none_iff] at hl; subst hl; simp at hb
  | some x =>
    obtain ⟨ys, rfl⟩ := List.getLast?_eq_some_iff.mp hl
    rw [lastNum_snoc]
    rcases List.mem_append.mp hb with h1 | h1
    · have := (List.pairwise_append.mp h).2.2 b h1 x (by simp)
      omega
    · simp at h1; subst h1; omega

/-- a freshly (re)started node -/
theorem inv_fresh (cfg : Config) (env : Env) (fin : List (Nat × Bool)) (gap : Bool) (inc : Nat) (broken : Bool)
    (hb : broken = false → DiskCovers env.persisted env.disk) (hg : broken = false → gap = false)
    (hin : env.inbox = []) :
    Inv { cfg := cfg, store := Store.init env.persisted, env := env, finished := fin, gapSeen := gap,
          incarnation := inc, envBroken := broken } := by
  refine ⟨sinv_init _ _, ?_, ?_, ?_, ?_, ?_, ?_, ?_, ?_, ?_, ?_, hb, ?_, ?_, hg⟩ <;>
    simp [Store.init, lastNum, pipe, hin, chainOk, endBound]

theorem inv_init (cfg : Config) (env : Env) : Inv (Sys.init cfg env) := by
  unfold Sys.init
  refine inv_fresh cfg { env with inbox := [] } [] false 0 _ ?_ ?_ ?_
  · intro h
    simp only [Bool.not_eq_false'] at h
    exact (publishHonest_spec h).2
  · intro _; rfl
  · rfl

/-! ## Preservation, event by event -/

theorem inv_park {s : Sys} (h : Inv s) (r : Req) (hv : verify s.cfg r.block = .ok) :
    Inv { s with parked := s.parked ++ [r] } :=
  ⟨h.store, by
      intro x hx
      rcases List.mem_append.mp hx with hx | hx
      · exact h.parkedVerified _ hx
      · simp at hx; subst hx; exact hv,
    h.acceptedVerified, h.cacheSuffix, h.acceptedInc, h.acceptedLt, h.handedAccepted, h.handedInc,
    h.taskNextEq, h.busyLast, h.copyLags, h.diskCovers, h.pipeOk, h.pipeEnd, h.noGap⟩

theorem inv_finish {s : Sys} (h : Inv s) (x : Nat × Bool) : Inv { s with finished := s.finished ++ [x] } :=
  ⟨h.store, h.parkedVerified, h.acceptedVerified, h.cacheSuffix, h.acceptedInc, h.acceptedLt, h.handedAccepted,
    h.handedInc, h.taskNextEq, h.busyLast, h.copyLags, h.diskCovers, h.pipeOk, h.pipeEnd, h.noGap⟩

theorem inv_unpark {s : Sys} (h : Inv s) (i : Nat) : Inv { s with parked := s.parked.eraseIdx i } :=
  ⟨h.store, fun r hr => h.parkedVerified r (List.mem_of_mem_eraseIdx hr),
    h.acceptedVerified, h.cacheSuffix, h.acceptedInc, h.acceptedLt, h.handedAccepted, h.handedInc,
    h.taskNextEq, h.busyLast, h.copyLags, h.diskCovers, h.pipeOk, h.pipeEnd, h.noGap⟩

theorem inv_afterQueue {s : Sys} (h : Inv s) (r : Req) : Inv (afterQueue s r) := by
  unfold afterQueue
  split
  · exact ⟨h.store, h.parkedVerified, h.acceptedVerified, h.cacheSuffix, h.acceptedInc, h.acceptedLt,
      h.handedAccepted, h.handedInc, h.taskNextEq, h.busyLast, h.copyLags, h.diskCovers, h.pipeOk, h.pipeEnd, h.noGap⟩
  · exact inv_finish h _

/-- the `try_push` critical section -/
theorem inv_tryPush {s : Sys} (h : Inv s) (b : Block) (hv : verify s.cfg b = .ok) :
    Inv { s with store := (s.store.tryPush CACHE_CAPACITY b).1,
                 accepted := if (s.store.tryPush CACHE_CAPACITY b).2 then s.accepted ++ [b] else s.accepted } := by
  by_cases hm : s.store.queued.next = b.num
  · have hmod : (s.store.tryPush CACHE_CAPACITY b).2 = true := (tryPush_modified_iff _ _ _).mpr hm
    have hnext := tryPush_next CACHE_CAPACITY s.store b
    have hpers := tryPush_persisted CACHE_CAPACITY s.store b
    have hcache := tryPush_cache CACHE_CAPACITY s.store b hm
    simp only [hm, if_true] at hnext
    simp only [hmod, if_true]
    refine ⟨sinv_tryPush h.store b, h.parkedVerified, ?_, ?_, ?_, ?_, ?_, h.handedInc, h.taskNextEq, h.busyLast,
      ?_, h.diskCovers, h.pipeOk, h.pipeEnd, h.noGap⟩
    · intro x hx
      rcases List.mem_append.mp hx with hx | hx
      · exact h.acceptedVerified _ hx
      · simp at hx; subst hx; exact hv
    · simp only [hcache]
      exact List.IsSuffix.trans (truncate_suffix _ _ _)
        (by obtain ⟨pre, hpre⟩ := h.cacheSuffix; exact ⟨pre, by rw [← hpre]; simp⟩)
    · rw [List.pairwise_append]
      refine ⟨h.acceptedInc, by simp, ?_⟩
      intro a ha c hc
      simp at hc; subst hc
      have := h.acceptedLt a ha; omega
    · intro x hx
      simp only [hnext]
      rcases List.mem_append.mp hx with hx | hx
      · have := h.acceptedLt x hx; omega
      · simp at hx; subst hx; omega
    · intro x hx; exact List.mem_append_left _ (h.handedAccepted x hx)
    · intro hb; simp only [hpers]; exact h.copyLags hb
  · have hmod : (s.store.tryPush CACHE_CAPACITY b).2 = false := by
      cases hx : (s.store.tryPush CACHE_CAPACITY b).2
      · rfl
      · exact absurd ((tryPush_modified_iff _ _ _).mp hx) hm
    have hst := tryPush_not_modified _ _ _ hmod
    simp only [hmod, hst]
    exact h

theorem pipe_congr {s s' : Sys} (h1 : s'.env.inbox = s.env.inbox) (h2 : s'.taskBusy = s.taskBusy) :
    pipe s' = pipe s := by
  unfold pipe; rw [h1, h2]

/-- the `update_persisted` critical section, success -/
theorem inv_update {s : Sys} (h : Inv s) {st : Store}
    (hu : s.store.updatePersisted CACHE_CAPACITY s.env.persisted = some st) : Inv { s with store := st } := by
  have hnext := updatePersisted_next_ge hu
  have hpers := updatePersisted_persisted hu
  refine ⟨sinv_updatePersisted h.store hu, h.parkedVerified, h.acceptedVerified, ?_, h.acceptedInc, ?_,
    h.handedAccepted, h.handedInc, h.taskNextEq, h.busyLast, ?_, h.diskCovers, h.pipeOk, h.pipeEnd, h.noGap⟩
  · exact List.IsSuffix.trans (updatePersisted_suffix hu) h.cacheSuffix
  · intro x hx; have := h.acceptedLt x hx; simp only; omega
  · intro _; simp only [hpers]; exact Nat.le_refl _

/-- the runner stops: both background tasks are cancelled -/
theorem inv_die {s : Sys} (h : Inv s) : Inv { s with dead := true, taskBusy := none } := by
  refine ⟨h.store, h.parkedVerified, h.acceptedVerified, h.cacheSuffix, h.acceptedInc, h.acceptedLt,
    h.handedAccepted, h.handedInc, h.taskNextEq, by simp, h.copyLags, h.diskCovers, ?_, by simp, h.noGap⟩
  intro hb
  have := h.pipeOk hb
  unfold pipe at this ⊢
  cases hbusy : s.taskBusy with
  | none => simpa [hbusy] using this
  | some b =>
    simp only [hbusy, Option.toList, List.map_append, List.map_cons, List.map_nil] at this
    simpa using chainOk_prefix this

theorem inv_taskTake {s : Sys} (h : Inv s) (hd : s.dead = false) (hbusy : s.taskBusy = none) {b : Block}
    (hb : s.taskBlock = some b) :
    Inv { s with taskNext := b.num + 1, taskBusy := some b, handed := s.handed ++ [b] } := by
  unfold Sys.taskBlock at hb
  obtain ⟨hmem, hnum⟩ := (block_some_iff h.store.contig).mp hb
  have hacc : b ∈ s.accepted := h.cacheSuffix.subset hmem
  have hge : lastNum s.handed ≤ b.num := by rw [← h.taskNextEq]; omega
  refine ⟨h.store, h.parkedVerified, h.acceptedVerified, h.cacheSuffix, h.acceptedInc, h.acceptedLt, ?_, ?_, ?_, ?_,
    h.copyLags, h.diskCovers, ?_, ?_, h.noGap⟩
  · intro x hx
    rcases List.mem_append.mp hx with hx | hx
    · exact h.handedAccepted x hx
    · simp at hx; subst hx; exact hacc
  · rw [List.pairwise_append]
    refine ⟨h.handedInc, by simp, ?_⟩
    intro a ha c hc
    simp at hc; subst hc
    have := lt_lastNum_of_inc h.handedInc ha; omega
  · simp only [lastNum_snoc]
  · intro x hx; simp at hx; subst hx; simp
  · intro hbr
    have h1 := h.pipeOk hbr
    have h2 := h.pipeEnd hbr hd
    have h3 := h.copyLags hbr
    unfold pipe at h1 h2 ⊢
    simp only [hbusy, Option.toList, List.append_nil] at h1 h2
    simp only [Option.toList, List.map_append, List.map_cons, List.map_nil]
    rw [chainOk_snoc]
    refine ⟨h1, ?_⟩
    have := le_endBound s.env.persisted.next (s.env.inbox.map (·.num))
    omega
  · intro hbr _
    unfold pipe
    simp only [Option.toList, List.map_append, List.map_cons, List.map_nil]
    rw [endBound_snoc]; omega

theorem inv_taskReturn_ok {s : Sys} (h : Inv s) {b : Block} (hbusy : s.taskBusy = some b) :
    Inv { s with taskBusy := none,
                 env := { s.env with credits := s.env.credits - 1, inbox := s.env.inbox ++ [b] } } := by
  have hp : pipe ({ s with taskBusy := none, env := { s.env with credits := s.env.credits - 1, inbox := s.env.inbox ++ [b] } } : Sys) = pipe s := by
    unfold pipe; simp [hbusy]
  exact ⟨h.store, h.parkedVerified, h.acceptedVerified, h.cacheSuffix, h.acceptedInc, h.acceptedLt,
    h.handedAccepted, h.handedInc, h.taskNextEq, by simp, h.copyLags, h.diskCovers,
    fun hb => by rw [hp]; exact h.pipeOk hb, fun hb hd => by rw [hp]; exact h.pipeEnd hb hd, h.noGap⟩

theorem inv_taskReturn_fail {s : Sys} (h : Inv s) :
    Inv { s with dead := true, taskBusy := none, env := { s.env with failNext := false } } := by
  have := inv_die h
  exact ⟨this.store, this.parkedVerified, this.acceptedVerified, this.cacheSuffix, this.acceptedInc, this.acceptedLt,
    this.handedAccepted, this.handedInc, this.taskNextEq, this.busyLast, this.copyLags, this.diskCovers,
    this.pipeOk, by simp, this.noGap⟩

theorem diskLookup_cons (b : Block) (disk : List Block) (n : Nat) :
    diskLookup (b :: disk) n = if b.num = n then some b else diskLookup disk n := by
  unfold diskLookup
  by_cases h : b.num = n <;> simp [h]

theorem inv_env {s s' : Sys} (h : Inv s) {a : EnvAct} (hs : envStep s a = some s') : Inv s' := by
  cases a with
  | credit k =>
    simp only [envStep] at hs; injection hs with hs; subst hs
    exact ⟨h.store, h.parkedVerified, h.acceptedVerified, h.cacheSuffix, h.acceptedInc, h.acceptedLt,
      h.handedAccepted, h.handedInc, h.taskNextEq, h.busyLast, h.copyLags, h.diskCovers, h.pipeOk, h.pipeEnd, h.noGap⟩
  | failNext =>
    simp only [envStep] at hs; injection hs with hs; subst hs
    exact ⟨h.store, h.parkedVerified, h.acceptedVerified, h.cacheSuffix, h.acceptedInc, h.acceptedLt,
      h.handedAccepted, h.handedInc, h.taskNextEq, h.busyLast, h.copyLags, h.diskCovers, h.pipeOk, h.pipeEnd, h.noGap⟩
  | complete =>
    simp only [envStep] at hs
    cases hin : s.env.inbox with
    | nil => simp [hin] at hs
    | cons b rest =>
      simp only [hin] at hs
      have hpipe : pipe s = b.num :: (rest ++ s.taskBusy.toList).map (·.num) := by
        unfold pipe; simp [hin]
      by_cases h1 : b.num < s.env.persisted.next
      · simp only [h1, if_true] at hs; injection hs with hs; subst hs
        have hmax : max s.env.persisted.next (b.num + 1) = s.env.persisted.next := by omega
        refine ⟨h.store, h.parkedVerified, h.acceptedVerified, h.cacheSuffix, h.acceptedInc, h.acceptedLt,
          h.handedAccepted, h.handedInc, h.taskNextEq, h.busyLast, h.copyLags, h.diskCovers, ?_, ?_, h.noGap⟩
        · intro hb
          have := h.pipeOk hb
          rw [hpipe] at this
          have := this.2
          rw [hmax] at this
          exact this
        · intro hb hd
          have := h.pipeEnd hb hd
          rw [hpipe] at this
          simp only [endBound, hmax] at this
          exact this
      · simp only [h1, if_false] at hs
        by_cases h2 : b.num = s.env.persisted.next
        · simp only [h2, if_true] at hs; injection hs with hs; subst hs
          have hnext : ({ s.env.persisted with last := some s.env.persisted.next } : Range).next
              = s.env.persisted.next + 1 := by simp [Range.next]
          have hmax : max s.env.persisted.next (b.num + 1) = s.env.persisted.next + 1 := by omega
          refine ⟨h.store, h.parkedVerified, h.acceptedVerified, h.cacheSuffix, h.acceptedInc, h.acceptedLt,
            h.handedAccepted, h.handedInc, h.taskNextEq, h.busyLast, ?_, ?_, ?_, ?_, h.noGap⟩
          · intro hb; have := h.copyLags hb; simp only [hnext]; omega
          · intro hb n hn
            simp only at hn ⊢
            obtain ⟨l, hl, h3, h4⟩ := (contains_iff _ _).mp hn
            simp at hl; subst hl
            replace h3 : s.env.persisted.first ≤ n := h3
            rw [diskLookup_cons]
            by_cases h5 : b.num = n
            · simp [h5]
            · simp only [h5, if_false]
              exact h.diskCovers hb n (contains_of_bounds h3 (by omega))
          · intro hb
            have := h.pipeOk hb
            rw [hpipe] at this
            have := this.2
            rw [hmax] at this
            show chainOk ({ s.env.persisted with last := some s.env.persisted.next } : Range).next
              ((rest ++ s.taskBusy.toList).map (·.num))
            rw [hnext]; exact this
          · intro hb hd
            have := h.pipeEnd hb hd
            rw [hpipe] at this
            simp only [endBound, hmax] at this
            show s.taskNext ≤ endBound ({ s.env.persisted with last := some s.env.persisted.next } : Range).next
              ((rest ++ s.taskBusy.toList).map (·.num))
            rw [hnext]; exact this
        · simp only [h2, if_false] at hs; injection hs with hs; subst hs
          have hbroken : s.envBroken = true := by
            cases hb : s.envBroken
            · have := h.pipeOk hb
              rw [hpipe] at this
              have := this.1; omega
            · rfl
          refine ⟨h.store, h.parkedVerified, h.acceptedVerified, h.cacheSuffix, h.acceptedInc, h.acceptedLt,
            h.handedAccepted, h.handedInc, h.taskNextEq, h.busyLast, ?_, ?_, ?_, ?_, ?_⟩ <;>
            (intro hb; simp only [hbroken] at hb; exact absurd hb (by simp))
  | publish p add =>
    simp only [envStep] at hs; injection hs with hs; subst hs
    have key : ∀ hb : (s.envBroken || !(publishHonest s.env.persisted p
        ((add ++ s.env.disk).filter (fun b => decide (p.first ≤ b.num))))) = false,
        s.envBroken = false ∧ s.env.persisted.next ≤ p.next ∧
          DiskCovers p ((add ++ s.env.disk).filter (fun b => decide (p.first ≤ b.num))) := by
      intro hb
      simp only [Bool.or_eq_false_iff, Bool.not_eq_false'] at hb
      exact ⟨hb.1, publishHonest_spec hb.2⟩
    refine ⟨h.store, h.parkedVerified, h.acceptedVerified, h.cacheSuffix, h.acceptedInc, h.acceptedLt,
      h.handedAccepted, h.handedInc, h.taskNextEq, h.busyLast, ?_, ?_, ?_, ?_, ?_⟩
    · intro hb; obtain ⟨h1, h2, _⟩ := key hb; have := h.copyLags h1; simp only; omega
    · intro hb; exact (key hb).2.2
    · intro hb; obtain ⟨h1, h2, _⟩ := key hb
      exact chainOk_mono h2 (h.pipeOk h1)
    · intro hb hd; obtain ⟨h1, h2, _⟩ := key hb
      have := h.pipeEnd h1 hd
      have := endBound_mono h2 (pipe s)
      show s.taskNext ≤ endBound p.next (pipe s)
      omega
    · intro hb; exact h.noGap (key hb).1

theorem inv_step {s s' : Sys} {e : Event} (h : Inv s) (hs : step? s e = some s') : Inv s' := by
  cases e with
  | submit r =>
    simp only [step?] at hs
    split at hs <;> (injection hs with hs; subst hs)
    · exact inv_park h r (by assumption)
    · exact inv_finish h _
  | peer want r =>
    simp only [step?] at hs
    split at hs
    · injection hs with hs; subst hs; exact inv_finish h _
    · split at hs <;> (injection hs with hs; subst hs)
      · exact inv_park h r (by assumption)
      · exact inv_finish h _
  | push i =>
    simp only [step?] at hs
    split at hs
    · exact absurd hs (by simp)
    · rename_i r hr
      split at hs
      · exact absurd hs (by simp)
      · injection hs with hs; subst hs
        have hv := h.parkedVerified r (List.mem_of_getElem? hr)
        exact inv_afterQueue (inv_unpark (inv_tryPush h r.block hv) i) r
  | cancel i =>
    simp only [step?] at hs
    split at hs
    · exact absurd hs (by simp)
    · injection hs with hs; subst hs; exact inv_unpark h i
  | persistedSeen i =>
    simp only [step?] at hs
    split at hs
    · exact absurd hs (by simp)
    · split at hs
      · injection hs with hs; subst hs
        exact inv_finish (s := { s with awaiting := s.awaiting.eraseIdx i })
          ⟨h.store, h.parkedVerified, h.acceptedVerified, h.cacheSuffix, h.acceptedInc, h.acceptedLt,
            h.handedAccepted, h.handedInc, h.taskNextEq, h.busyLast, h.copyLags, h.diskCovers, h.pipeOk,
            h.pipeEnd, h.noGap⟩ _
      · exact absurd hs (by simp)
  | watcher =>
    simp only [step?] at hs
    split at hs
    · exact absurd hs (by simp)
    · split at hs
      · injection hs with hs; subst hs; exact inv_die h
      · rename_i st hst
        injection hs with hs; subst hs; exact inv_update h hst
  | taskTake =>
    simp only [step?] at hs
    split at hs
    · exact absurd hs (by simp)
    · rename_i hd
      split at hs
      · exact absurd hs (by simp)
      · rename_i hbusy
        split at hs
        · exact absurd hs (by simp)
        · rename_i b hb
          injection hs with hs; subst hs
          exact inv_taskTake h (by simpa using hd) hbusy hb
  | taskReturn =>
    simp only [step?] at hs
    split at hs
    · exact absurd hs (by simp)
    · split at hs
      · exact absurd hs (by simp)
      · rename_i b hbusy
        split at hs
        · injection hs with hs; subst hs; exact inv_taskReturn_fail h
        · split at hs
          · exact absurd hs (by simp)
          · injection hs with hs; subst hs; exact inv_taskReturn_ok h hbusy
  | env a => exact inv_env h hs
  | restart =>
    simp only [step?] at hs
    split at hs
    · injection hs with hs; subst hs
      exact inv_fresh s.cfg { s.env with inbox := [], failNext := false } s.finished s.gapSeen (s.incarnation + 1)
        s.envBroken h.diskCovers h.noGap rfl
    · exact absurd hs (by simp)

theorem afterQueue_store (s : Sys) (r : Req) : (afterQueue s r).store = s.store := by
  unfold afterQueue; split <;> rfl
theorem afterQueue_accepted (s : Sys) (r : Req) : (afterQueue s r).accepted = s.accepted := by
  unfold afterQueue; split <;> rfl
theorem afterQueue_handed (s : Sys) (r : Req) : (afterQueue s r).handed = s.handed := by
  unfold afterQueue; split <;> rfl

theorem envStep_store {s s' : Sys} {a : EnvAct} (hs : envStep s a = some s') :
    s'.store = s.store ∧ s'.accepted = s.accepted ∧ s'.handed = s.handed ∧ s'.taskNext = s.taskNext := by
  cases a with
  | credit k => simp only [envStep] at hs; injection hs with hs; subst hs; exact ⟨rfl, rfl, rfl, rfl⟩
  | failNext => simp only [envStep] at hs; injection hs with hs; subst hs; exact ⟨rfl, rfl, rfl, rfl⟩
  | complete =>
    simp only [envStep] at hs
    split at hs
    · exact absurd hs (by simp)
    · split at hs
      · injection hs with hs; subst hs; exact ⟨rfl, rfl, rfl, rfl⟩
      · split at hs <;> (injection hs with hs; subst hs; exact ⟨rfl, rfl, rfl, rfl⟩)
  | publish p add => simp only [envStep] at hs; injection hs with hs; subst hs; exact ⟨rfl, rfl, rfl, rfl⟩

/-- How one event other than a restart can change the store: not at all, by one `try_push` of a verified parked
block, or by one successful `update_persisted` with the storage's current report. -/
theorem store_step_cases {s s' : Sys} {e : Event} (h : Inv s) (hs : step? s e = some s') (hne : e ≠ .restart) :
    (s'.store = s.store ∧ s'.accepted = s.accepted) ∨
    (∃ b, verify s.cfg b = .ok ∧ b.num ≤ s.store.queued.next ∧ s'.store = (s.store.tryPush CACHE_CAPACITY b).1 ∧
      s'.accepted = (if (s.store.tryPush CACHE_CAPACITY b).2 then s.accepted ++ [b] else s.accepted)) ∨
    (s.store.updatePersisted CACHE_CAPACITY s.env.persisted = some s'.store ∧ s'.accepted = s.accepted) := by
  cases e with
  | submit r =>
    simp only [step?] at hs
    split at hs <;> (injection hs with hs; subst hs; exact Or.inl ⟨rfl, rfl⟩)
  | peer want r =>
    simp only [step?] at hs
    split at hs
    · injection hs with hs; subst hs; exact Or.inl ⟨rfl, rfl⟩
    · split at hs <;> (injection hs with hs; subst hs; exact Or.inl ⟨rfl, rfl⟩)
  | push i =>
    simp only [step?] at hs
    split at hs
    · exact absurd hs (by simp)
    · rename_i r hr
      split at hs
      · exact absurd hs (by simp)
      · rename_i hle
        injection hs with hs; subst hs
        exact Or.inr (Or.inl ⟨r.block, h.parkedVerified r (List.mem_of_getElem? hr), by omega,
          by rw [afterQueue_store], by rw [afterQueue_accepted]⟩)
  | cancel i =>
    simp only [step?] at hs
    split at hs
    · exact absurd hs (by simp)
    · injection hs with hs; subst hs; exact Or.inl ⟨rfl, rfl⟩
  | persistedSeen i =>
    simp only [step?] at hs
    split at hs
    · exact absurd hs (by simp)
    · split at hs
      · injection hs with hs; subst hs; exact Or.inl ⟨rfl, rfl⟩
      · exact absurd hs (by simp)
  | watcher =>
    simp only [step?] at hs
    split at hs
    · exact absurd hs (by simp)
    · split at hs
      · injection hs with hs; subst hs; exact Or.inl ⟨rfl, rfl⟩
      · rename_i st hst
        injection hs with hs; subst hs; exact Or.inr (Or.inr ⟨hst, rfl⟩)
  | taskTake =>
    simp only [step?] at hs
    split at hs
    · exact absurd hs (by simp)
    · split at hs
      · exact absurd hs (by simp)
      · split at hs
        · exact absurd hs (by simp)
        · injection hs with hs; subst hs; exact Or.inl ⟨rfl, rfl⟩
  | taskReturn =>
    simp only [step?] at hs
    split at hs
    · exact absurd hs (by simp)
    · split at hs
      · exact absurd hs (by simp)
      · split at hs
        · injection hs with hs; subst hs; exact Or.inl ⟨rfl, rfl⟩
        · split at hs
          · exact absurd hs (by simp)
          · injection hs with hs; subst hs; exact Or.inl ⟨rfl, rfl⟩
  | env a => have := envStep_store hs; exact Or.inl ⟨this.1, this.2.1⟩
  | restart => exact absurd rfl hne

/-- How one event other than a restart can change the hand-off log: not at all, or the hand-off task appends the
block it read from the cache at `max(queue_next, persisted.next)`. -/
theorem handed_step_cases {s s' : Sys} {e : Event} (hs : step? s e = some s') (hne : e ≠ .restart) :
    (s'.handed = s.handed ∧ s'.taskNext = s.taskNext) ∨
    (e = .taskTake ∧ s.dead = false ∧ s.taskBusy = none ∧
      ∃ b, s.store.block (max s.taskNext s.store.persisted.next) = some b ∧ s'.handed = s.handed ++ [b] ∧
        s'.taskNext = b.num + 1 ∧ s'.store = s.store) := by
  cases e with
  | submit r =>
    simp only [step?] at hs
    split at hs <;> (injection hs with hs; subst hs; exact Or.inl ⟨rfl, rfl⟩)
  | peer want r =>
    simp only [step?] at hs
    split at hs
    · injection hs with hs; subst hs; exact Or.inl ⟨rfl, rfl⟩
    · split at hs <;> (injection hs with hs; subst hs; exact Or.inl ⟨rfl, rfl⟩)
  | push i =>
    simp only [step?] at hs
    split at hs
    · exact absurd hs (by simp)
    · split at hs
      · exact absurd hs (by simp)
      · injection hs with hs; subst hs
        left; unfold afterQueue; split <;> exact ⟨rfl, rfl⟩
  | cancel i =>
    simp only [step?] at hs
    split at hs
    · exact absurd hs (by simp)
    · injection hs with hs; subst hs; exact Or.inl ⟨rfl, rfl⟩
  | persistedSeen i =>
    simp only [step?] at hs
    split at hs
    · exact absurd hs (by simp)
    · split at hs
      · injection hs with hs; subst hs; exact Or.inl ⟨rfl, rfl⟩
      · exact absurd hs (by simp)
  | watcher =>
    simp only [step?] at hs
    split at hs
    · exact absurd hs (by simp)
    · split at hs <;> (injection hs with hs; subst hs; exact Or.inl ⟨rfl, rfl⟩)
  | taskTake =>
    simp only [step?] at hs
    split at hs
    · exact absurd hs (by simp)
    · rename_i hd
      split at hs
      · exact absurd hs (by simp)
      · rename_i hbusy
        split at hs
        · exact absurd hs (by simp)
        · rename_i b hb
          injection hs with hs; subst hs
          exact Or.inr ⟨rfl, by simpa using hd, hbusy, b, hb, rfl, rfl, rfl⟩
  | taskReturn =>
    simp only [step?] at hs
    split at hs
    · exact absurd hs (by simp)
    · split at hs
      · exact absurd hs (by simp)
      · split at hs
        · injection hs with hs; subst hs; exact Or.inl ⟨rfl, rfl⟩
        · split at hs
          · exact absurd hs (by simp)
          · injection hs with hs; subst hs; exact Or.inl ⟨rfl, rfl⟩
  | env a => have := envStep_store hs; exact Or.inl ⟨this.2.2.1, this.2.2.2⟩
  | restart => exact absurd rfl hne

/-- states reachable from a freshly started node by any event list -/
def Reachable (s : Sys) : Prop := ∃ cfg env evs, run (Sys.init cfg env) evs = some s

theorem inv_run {s s' : Sys} {evs : List Event} (h : Inv s) (hr : run s evs = some s') : Inv s' := by
  induction evs generalizing s with
  | nil => simp only [run] at hr; injection hr with hr; subst hr; exact h
  | cons e es ih =>
    simp only [run] at hr
    split at hr
    · exact absurd hr (by simp)
    · rename_i s1 h1; exact ih (inv_step h h1) hr

theorem inv_reachable {s : Sys} (h : Reachable s) : Inv s := by
  obtain ⟨cfg, env, evs, hr⟩ := h
  exact inv_run (inv_init cfg env) hr

theorem reachable_step {s s' : Sys} {e : Event} (h : Reachable s) (hs : step? s e = some s') : Reachable s' := by
  obtain ⟨cfg, env, evs, hr⟩ := h
  refine ⟨cfg, env, evs ++ [e], ?_⟩
  have : ∀ (s0 : Sys) (l : List Event), run s0 l = some s → run s0 (l ++ [e]) = some s' := by
    intro s0 l
    induction l generalizing s0 with
    | nil => intro h0; simp only [run] at h0; injection h0 with h0; subst h0; simp [run, hs]
    | cons x xs ih =>
      intro h0
      simp only [run, List.cons_append] at h0 ⊢
      cases h1 : step? s0 x with
      | none => simp [h1] at h0
      | some s1 => simp only [h1] at h0 ⊢; exact ih s1 h0
  exact this _ _ hr

/-- what the `push` event does to the store and to the log of appended blocks -/
theorem push_effect {s s' : Sys} {i : Nat} (hs : step? s (.push i) = some s') :
    ∃ r, s.parked[i]? = some r ∧ r.block.num ≤ s.store.queued.next ∧
      s'.store = (s.store.tryPush CACHE_CAPACITY r.block).1 ∧
      s'.accepted = (if (s.store.tryPush CACHE_CAPACITY r.block).2 then s.accepted ++ [r.block] else s.accepted) ∧
      s'.handed = s.handed := by
  simp only [step?] at hs
  split at hs
  · exact absurd hs (by simp)
  · rename_i r hr
    split at hs
    · exact absurd hs (by simp)
    · rename_i hle
      injection hs with hs; subst hs
      exact ⟨r, hr, by omega, by rw [afterQueue_store], by rw [afterQueue_accepted], by rw [afterQueue_handed]⟩


theorem pairwise_lt_inj {l : List Block} (h : l.Pairwise (fun a b => a.num < b.num)) {a b : Block}
    (ha : a ∈ l) (hb : b ∈ l) (hn : a.num = b.num) : a = b := by
  induction l with
  | nil => simp at ha
  | cons x xs ih =>
    rw [List.pairwise_cons] at h
    rcases List.mem_cons.mp ha with rfl | ha' <;> rcases List.mem_cons.mp hb with rfl | hb'
    · rfl
    · have := h.1 b hb'; omega
    · have := h.1 a ha'; omega
    · exact ih h.2 ha' hb'


end EraVerif.Proofs.Store
