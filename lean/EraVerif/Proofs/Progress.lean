import EraVerif.Model.Replica
import EraVerif.Proofs.Certs
import EraVerif.Proofs.ReplicaStep

/-!
Helper lemmas for C06 (`Props/C06.lean`, progress): when exactly a handler ends up waiting in `queue_block`
(`Blocks`), what `process_commit_qc` hands to the store (`Hands`), how the weight of a certificate under assembly
grows with every accepted vote, and the delivery of a whole list of votes (`run`). Core Lean only; everything is built
on the step lemmas of `Proofs/ReplicaStep.lean`.
-/

namespace EraVerif.Proofs.Progress
open EraVerif.Model
open EraVerif.Proofs.Certs
open EraVerif.Proofs.ReplicaStep

/-! ## `save_block` / `process_commit_qc`: when it waits for the store, what it hands over -/

/-- the proposal cache holds the payload the certificate certifies -/
def Cached (ps : List (Nat × Payload)) (q : CommitQC) : Prop :=
  ∃ p ∈ ps, p.1 = q.message.proposal.number ∧ p.2.id = q.message.proposal.payload

/-- the certificate is of a strictly higher view than the commit certificate held (or none is held) -/
def Newer (r : Replica) (q : CommitQC) : Prop :=
  ∀ cur, r.highCommitQC = some cur → cur.message.view.number < q.message.view.number

/-- processing `q` in state `r` ends up waiting in `queue_block`: `q` is newer than the certificate held, its
payload is in the proposal cache, and the store has not reached the block yet -/
def Blocks (r : Replica) (e : Env) (q : CommitQC) : Prop :=
  Newer r q ∧ Cached r.proposals q ∧ e.storeNext < q.message.proposal.number

/-- processing `q` in state `r` hands the certified block to the store: `q` is newer, its payload is cached, and the
store is exactly at that block (queue ends just before it, and it is not persisted yet) -/
def Hands (r : Replica) (e : Env) (q : CommitQC) : Prop :=
  Newer r q ∧ Cached r.proposals q ∧ q.message.proposal.number = e.storeNext ∧
    e.persistedNext ≤ q.message.proposal.number

theorem find_cached_none_iff (ps : List (Nat × Payload)) (q : CommitQC) :
    ps.find? (fun p => p.1 == q.message.proposal.number && p.2.id == q.message.proposal.payload) = none ↔
      ¬ Cached ps q := by
  rw [List.find?_eq_none]
  unfold Cached
  constructor
  · intro h ⟨p, hp, h1, h2⟩
    exact h p hp (by simp [h1, h2])
  · intro h p hp hpp
    simp only [Bool.and_eq_true, beq_iff_eq] at hpp
    exact h ⟨p, hp, hpp.1, hpp.2⟩

theorem saveBlock_not_cached (r : Replica) (e : Env) (q : CommitQC) (h : ¬ Cached r.proposals q) :
    saveBlock r e q = ([], true) := by
  unfold saveBlock
  rw [(find_cached_none_iff _ _).mpr h]

theorem saveBlock_cached (r : Replica) (e : Env) (q : CommitQC) (h : Cached r.proposals q) :
    saveBlock r e q =
      if q.message.proposal.number > e.storeNext then ([], false)
      else if q.message.proposal.number = e.storeNext ∧ e.persistedNext ≤ q.message.proposal.number then
        ([.queueBlock q.message.proposal.number q.message.proposal.payload q], true)
      else ([], true) := by
  unfold saveBlock
  cases hf : r.proposals.find? (fun p => p.1 == q.message.proposal.number && p.2.id == q.message.proposal.payload) with
  | none => exact absurd h ((find_cached_none_iff _ _).mp hf)
  | some x => rfl

theorem not_newer_iff (r : Replica) (q : CommitQC) :
    ¬ Newer r q ↔ ∃ cur, r.highCommitQC = some cur ∧ q.message.view.number ≤ cur.message.view.number := by
  unfold Newer
  constructor
  · intro h
    apply Classical.byContradiction
    intro hn
    apply h
    intro cur hcur
    apply Classical.byContradiction
    intro hlt
    exact hn ⟨cur, hcur, by omega⟩
  · intro ⟨cur, hcur, hle⟩ h
    have := h cur hcur
    omega

/-- `process_commit_qc` waits for the store exactly when `Blocks` -/
theorem processCommitQC_blocked_iff (r : Replica) (e : Env) (q : CommitQC) :
    (processCommitQC r e q).2.2 = false ↔ Blocks r e q := by
  unfold Blocks
  by_cases hn : Newer r q
  · rw [processCommitQC_eq_new r e q hn]
    show (saveBlock { r with highCommitQC := some q } e q).2 = false ↔ _
    by_cases hc : Cached r.proposals q
    · rw [saveBlock_cached { r with highCommitQC := some q } e q hc]
      by_cases hgt : q.message.proposal.number > e.storeNext
      · rw [if_pos hgt]
        exact ⟨fun _ => ⟨hn, hc, hgt⟩, fun _ => rfl⟩
      · rw [if_neg hgt]
        constructor
        · intro h; split at h <;> cases h
        · intro ⟨_, _, h⟩; omega
    · rw [saveBlock_not_cached { r with highCommitQC := some q } e q hc]
      exact ⟨fun h => (by cases h), fun ⟨_, h, _⟩ => absurd h hc⟩
  · obtain ⟨cur, hcur, hle⟩ := (not_newer_iff r q).mp hn
    rw [processCommitQC_eq_old r e q cur hcur hle]
    exact ⟨fun h => (by cases h), fun ⟨h, _⟩ => absurd h hn⟩

/-- what `process_commit_qc` hands to the store: the certified block if `Hands`, else nothing -/
theorem processCommitQC_effs (r : Replica) (e : Env) (q : CommitQC) :
    (Hands r e q → (processCommitQC r e q).2.1 =
        [.queueBlock q.message.proposal.number q.message.proposal.payload q]) ∧
    (¬ Hands r e q → (processCommitQC r e q).2.1 = []) := by
  unfold Hands
  by_cases hn : Newer r q
  · rw [processCommitQC_eq_new r e q hn]
    show (_ → (saveBlock { r with highCommitQC := some q } e q).1 = _) ∧
      (_ → (saveBlock { r with highCommitQC := some q } e q).1 = _)
    by_cases hc : Cached r.proposals q
    · rw [saveBlock_cached { r with highCommitQC := some q } e q hc]
      constructor
      · intro ⟨_, _, h1, h2⟩
        have : ¬ q.message.proposal.number > e.storeNext := by omega
        rw [if_neg this, if_pos ⟨h1, h2⟩]
      · intro hnh
        by_cases hgt : q.message.proposal.number > e.storeNext
        · rw [if_pos hgt]
        · rw [if_neg hgt]
          have : ¬ (q.message.proposal.number = e.storeNext ∧ e.persistedNext ≤ q.message.proposal.number) :=
            fun h => hnh ⟨hn, hc, h.1, h.2⟩
          rw [if_neg this]
    · rw [saveBlock_not_cached { r with highCommitQC := some q } e q hc]
      exact ⟨fun ⟨_, h, _⟩ => absurd h hc, fun _ => rfl⟩
  · obtain ⟨cur, hcur, hle⟩ := (not_newer_iff r q).mp hn
    rw [processCommitQC_eq_old r e q cur hcur hle]
    exact ⟨fun ⟨h, _⟩ => absurd h hn, fun _ => rfl⟩

/-- the commit certificate held after `process_commit_qc`: the new one if it is newer, else the old one -/
theorem processCommitQC_high (r : Replica) (e : Env) (q : CommitQC) :
    (Newer r q → (processCommitQC r e q).1.highCommitQC = some q) ∧
    (¬ Newer r q → (processCommitQC r e q).1 = r) := by
  constructor
  · intro hn
    rw [processCommitQC_eq_new r e q hn]
  · intro hn
    obtain ⟨cur, hcur, hle⟩ := (not_newer_iff r q).mp hn
    rw [processCommitQC_eq_old r e q cur hcur hle]

/-- `Blocks` / `Hands` only look at the commit certificate held and at the proposal cache -/
theorem blocks_congr {r r' : Replica} (e : Env) (q : CommitQC) (h1 : r'.highCommitQC = r.highCommitQC)
    (h2 : r'.proposals = r.proposals) : Blocks r' e q ↔ Blocks r e q := by
  unfold Blocks Newer; rw [h1, h2]

theorem hands_congr {r r' : Replica} (e : Env) (q : CommitQC) (h1 : r'.highCommitQC = r.highCommitQC)
    (h2 : r'.proposals = r.proposals) : Hands r' e q ↔ Hands r e q := by
  unfold Hands Newer; rw [h1, h2]

/-- the commit certificate a justification makes the replica process: the certificate itself, or the high commit
certificate of the timeout certificate -/
def carriedQC : Just → Option CommitQC
  | .commit q => some q
  | .timeout t => t.highQC

theorem processTimeoutQC_blocked_iff (r : Replica) (e : Env) (t : TimeoutQC) :
    (processTimeoutQC r e t).2.2 = false ↔ ∃ q, t.highQC = some q ∧ Blocks r e q := by
  unfold processTimeoutQC
  cases hh : t.highQC with
  | none => simp
  | some hq =>
    simp only [Option.some.injEq, exists_eq_left']
    rw [← processCommitQC_blocked_iff]
    cases hok : (processCommitQC r e hq).2.2 <;> simp

/-- `process_commit_qc` / `process_timeout_qc` on a justification wait for the store exactly when the carried commit
certificate `Blocks` -/
theorem processJust_blocked_iff (r : Replica) (e : Env) (j : Just) :
    (processJust r e j).2.2 = false ↔ ∃ q, carriedQC j = some q ∧ Blocks r e q := by
  cases j with
  | commit q =>
    show (processCommitQC r e q).2.2 = false ↔ _
    rw [processCommitQC_blocked_iff]
    simp [carriedQC]
  | timeout t => exact processTimeoutQC_blocked_iff r e t

theorem processJust_ok_of_noBlock {r : Replica} {e : Env} {j : Just}
    (h : ∀ q, carriedQC j = some q → ¬ Blocks r e q) : (processJust r e j).2.2 = true := by
  cases hok : (processJust r e j).2.2 with
  | true => rfl
  | false =>
    obtain ⟨q, hq, hb⟩ := (processJust_blocked_iff r e j).mp hok
    exact absurd hb (h q hq)

/-- the justification `get_justification` returns is for a view at least as high as any certificate held -/
theorem getJustification_ge {r : Replica} {j : Just} {n : Nat} (hj : getJustification r = .ok j)
    (hh : HeldAtLeast r n) : n ≤ certView j + 1 := by
  rcases getJustification_spec hj with ⟨q, rfl, hq, hall⟩ | ⟨t, rfl, ht, hall⟩
  · rcases hh with ⟨q', hq', hn⟩ | ⟨t', ht', hn⟩
    · rw [hq] at hq'; cases hq'; exact hn
    · have := hall t' ht'
      simp only [certView]; omega
  · rcases hh with ⟨q', hq', hn⟩ | ⟨t', ht', hn⟩
    · have := hall q' hq'
      simp only [certView]; omega
    · rw [ht] at ht'; cases ht'; exact hn

theorem getJustification_verify {cfg : RCfg} {r : Replica} {j : Just} (hw : Wf cfg r)
    (hj : getJustification r = .ok j) : j.verify cfg.c = true := by
  rcases getJustification_spec hj with ⟨q, rfl, hq, _⟩ | ⟨t, rfl, ht, _⟩
  · exact hw.hcqc q hq
  · exact hw.htqc t ht

theorem stState_idem (r : Replica) : stState (stState r) = stState r := rfl

/-! ## `BlockNumber::next` never returns its argument -/

theorem nextBlock_ne (k : Nat) : nextBlock k ≠ k := by
  unfold nextBlock
  intro h
  by_cases hk : k + 1 < 2 ^ 64
  · rw [Nat.mod_eq_of_lt hk] at h; omega
  · have := Nat.mod_lt (k + 1) (show 0 < 2 ^ 64 by decide)
    omega

/-- a justification that asks for a fresh payload implies the block right after the commit certificate it makes the
replica process -/
theorem fresh_implied_number {c : Committee} {j : Just} {q : CommitQC} (hf : (j.impliedBlock c).2 = none)
    (hq : carriedQC j = some q) : (j.impliedBlock c).1 = nextBlock q.message.proposal.number := by
  cases j with
  | commit q' =>
    simp only [carriedQC, Option.some.injEq] at hq
    subst hq; rfl
  | timeout t =>
    simp only [carriedQC] at hq
    simp only [Just.impliedBlock, hq] at hf ⊢
    cases hv : t.highVote c with
    | none => rfl
    | some v =>
      simp only [hv] at hf ⊢
      split at hf
      · cases hf
      · rename_i hgt; rw [if_neg hgt]

/-! ## every accepted vote adds its signer's weight to the certificate under assembly -/

theorem weightOf_set (ws : List Nat) (s : List Bool) (i : Nat) (hi : i < s.length) (hl : s.length = ws.length)
    (hb : ¬ s[i]? = some true) : weightOf ws (s.set i true) = weightOf ws s + ws.getD i 0 := by
  induction ws generalizing s i with
  | nil => cases s <;> simp at hi hl
  | cons w ws ih =>
    cases s with
    | nil => simp at hi
    | cons b bs =>
      cases i with
      | zero =>
        have hbf : b = false := by
          cases b
          · rfl
          · exact absurd (by simp) hb
        subst hbf
        simp [weightOf]
        omega
      | succ k =>
        simp only [List.set_cons_succ, weightOf, List.getD_cons_succ]
        have := ih bs k (by simpa using hi) (by simpa using hl) (by simpa using hb)
        rw [this]
        omega

theorem cqc_add_weight {c : Committee} {q q' : CommitQC} {i : Nat} {sigOk : Bool} {v : Vote}
    (hl : q.signers.length = c.n) (hadd : q.add c { key := some i, sigOk := sigOk } v = .ok q') :
    weightOf c.weights q'.signers = weightOf c.weights q.signers + c.weights.getD i 0 := by
  obtain ⟨i', hk, hi, hfree, _, _, _, rfl⟩ := (cqc_add_ok _ _ _ _ _).mp hadd
  simp only [Option.some.injEq] at hk
  subst hk
  exact weightOf_set _ _ _ (by omega) hl ((getD_false_iff _ _).mp hfree)

theorem upd_weight (ws : List Nat) (m : List (TVote × List Bool)) (msg : TVote) (i : Nat)
    (hk : m.Pairwise (fun a b => a.1 ≠ b.1)) (hex : ∃ e ∈ m, e.1 = msg)
    (hfree : ∀ e ∈ m, i < e.2.length ∧ e.2.length = ws.length ∧ ¬ e.2[i]? = some true) :
    ((m.map (upd msg i)).map (fun e => weightOf ws e.2)).sum =
      (m.map (fun e => weightOf ws e.2)).sum + ws.getD i 0 := by
  induction m with
  | nil => obtain ⟨e, he, _⟩ := hex; simp at he
  | cons e rest ih =>
    obtain ⟨hk0, hk'⟩ := List.pairwise_cons.mp hk
    obtain ⟨f1, f2, f3⟩ := hfree e List.mem_cons_self
    simp only [List.map_cons, List.sum_cons]
    by_cases he : e.1 = msg
    · have hrest : rest.map (upd msg i) = rest := by
        have : ∀ x ∈ rest, upd msg i x = id x :=
          fun x hx => upd_of_ne _ _ _ (fun hx' => hk0 x hx (he.trans hx'.symm))
        rw [List.map_congr_left this, List.map_id]
      rw [hrest, upd_of_eq _ _ _ he]
      show weightOf ws (e.2.set i true) + _ = _
      rw [weightOf_set ws e.2 i f1 f2 f3]
      omega
    · rw [upd_of_ne _ _ _ he]
      have hex' : ∃ x ∈ rest, x.1 = msg := by
        obtain ⟨x, hx, hxm⟩ := hex
        rcases List.mem_cons.mp hx with rfl | hx
        · exact absurd hxm he
        · exact ⟨x, hx, hxm⟩
      rw [ih hk' hex' (fun x hx => hfree x (List.mem_cons_of_mem _ hx))]
      omega

theorem tqc_add_weight {c : Committee} {view : View} {q q' : TimeoutQC} {i : Nat} {sigOk : Bool} {t : TVote}
    (inv : TqcInv c view q) (hadd : q.add c { key := some i, sigOk := sigOk } t = .ok q') :
    tqcGroupWeight c q' = tqcGroupWeight c q + c.weights.getD i 0 := by
  obtain ⟨i', hk, hi, hfree, _, _, _, rfl⟩ := (tqc_add_ok _ _ _ _ _).mp hadd
  simp only [Option.some.injEq] at hk
  cases hk
  obtain ⟨_, hg, hpw, _⟩ := inv
  unfold tqcGroupWeight
  show ((mapSet c q.map t i).map _).sum = _
  by_cases hex : ∃ e ∈ q.map, e.1 = t
  · rw [mapSet_present c q.map t i hex]
    exact upd_weight c.weights q.map t i (hpw.imp (fun h => h.1)) hex
      (fun e he => ⟨by rw [(hg e he).2.1]; exact hi, (hg e he).2.1, (getD_false_iff _ _).mp (hfree e he)⟩)
  · have hne : ∀ e ∈ q.map, e.1 ≠ t := fun e he h => hex ⟨e, he, h⟩
    rw [mapSet_absent c q.map t i hne]
    simp only [List.map_append, List.sum_append, List.map_cons, List.map_nil, List.sum_cons, List.sum_nil,
      Nat.add_zero]
    rw [weightOf_set c.weights (List.replicate c.n false) i (by simpa using hi) (by simp [Committee.n])
      (replicate_false_get _ _), weightOf_replicate_false]
    omega

/-! ## the vote caches keep the certificate under assembly -/

theorem alGet_filter_key {β : Type} (l : List (Nat × β)) (f : Nat → Bool) (k : Nat) :
    alGet (l.filter (fun x => f x.1)) k = if f k = true then alGet l k else none := by
  induction l with
  | nil => simp [alGet]
  | cons x xs ih =>
    rw [List.filter_cons]
    by_cases hx : f x.1 = true
    · rw [if_pos hx, alGet_cons, alGet_cons, ih]
      by_cases hk : x.1 = k
      · rw [if_pos hk, if_pos hk]
        rw [hk] at hx
        rw [if_pos hx]
      · rw [if_neg hk, if_neg hk]
    · rw [if_neg hx, ih, alGet_cons]
      by_cases hk : x.1 = k
      · rw [hk] at hx
        rw [if_neg hx, if_neg hx]
      · rw [if_neg hk]

theorem active_contains (views : List (Nat × Nat)) (key u : Nat) :
    (activeViews (alSet views key u)).contains u = true := by
  have h : alGet (alSet views key u) key = some u := by rw [alGet_alSet]; simp
  have := alGet_mem h
  simp only [activeViews, List.contains_iff_mem, List.mem_map]
  exact ⟨(key, u), this, rfl⟩

theorem tTqs'_get (tvs : List (Nat × Nat)) (tqs : List (Nat × TimeoutQC)) (key : Nat) (t : TVote) (qc : TimeoutQC) :
    alGet (tTqs' tvs tqs key t qc) t.view.number = some qc := by
  unfold tTqs'
  rw [alGet_filter_key (alSet tqs t.view.number qc)
    (fun u => (activeViews (alSet tvs key t.view.number)).contains u) t.view.number]
  rw [if_pos (active_contains _ _ _), alGet_alSet]
  simp

theorem find_map_repl (l : List (Vote × CommitQC)) (v : Vote) (qc : CommitQC)
    (h : l.any (fun x => x.1 = v) = true) :
    (l.map (fun x => if x.1 = v then (v, qc) else x)).find? (fun x => x.1 = v) = some (v, qc) := by
  induction l with
  | nil => simp at h
  | cons x xs ih =>
    rw [List.map_cons, List.find?_cons]
    by_cases hx : x.1 = v
    · simp [hx]
    · have hany : xs.any (fun x => x.1 = v) = true := by
        simpa [hx] using h
      simp only [hx, if_false, decide_false]
      exact ih hany

theorem find_cByView' (cqs : List (Nat × List (Vote × CommitQC))) (v : Vote) (qc : CommitQC) :
    (cByView' cqs v qc).find? (fun x => x.1 = v) = some (v, qc) := by
  unfold cByView'
  split
  · rename_i hany
    exact find_map_repl _ v qc hany
  · rename_i hany
    rw [List.find?_append]
    have : ((alGet cqs v.view.number).getD []).find? (fun x => decide (x.1 = v)) = none := by
      rw [List.find?_eq_none]
      intro x hx hxv
      exact hany (List.any_eq_true.mpr ⟨x, hx, hxv⟩)
    rw [this]
    simp

theorem cCqs'_get (cvs : List (Nat × Nat)) (cqs : List (Nat × List (Vote × CommitQC))) (key : Nat) (v : Vote)
    (qc : CommitQC) : alGet (cCqs' cvs cqs key v qc) v.view.number = some (cByView' cqs v qc) := by
  unfold cCqs'
  rw [alGet_filter_key (alSet cqs v.view.number (cByView' cqs v qc))
    (fun u => (activeViews (alSet cvs key v.view.number)).contains u) v.view.number]
  rw [if_pos (active_contains _ _ _), alGet_alSet]
  simp

/-- after a commit vote was stored, the certificate under assembly for that vote is the one it was added to -/
theorem cQc0_commitR1 (c : Committee) (r : Replica) (key : Nat) (v : Vote) (qc : CommitQC) :
    cQc0 c (commitR1 r key v qc).commitQCs v = qc := by
  unfold cQc0
  show ((((alGet (cCqs' r.commitViews r.commitQCs key v qc) v.view.number).getD []).find? _).map _).getD _ = qc
  rw [cCqs'_get]
  simp only [Option.getD_some]
  rw [find_cByView']
  rfl

/-- the same for a timeout vote (any vote of the same view) -/
theorem tQc0_timeoutR1 (r : Replica) (key : Nat) (t t' : TVote) (qc : TimeoutQC) (h : t'.view = t.view) :
    tQc0 (timeoutR1 r key t qc).timeoutQCs t' = qc := by
  unfold tQc0
  show (alGet (tTqs' r.timeoutViews r.timeoutQCs key t qc) t'.view.number).getD _ = qc
  rw [h, tTqs'_get]
  rfl

/-- the certificate a timeout vote is added to satisfies the assembly invariant -/
theorem tQc0_inv {cfg : RCfg} {r : Replica} {t : TVote} (hw : Wf cfg r) (hv : t.verify cfg.c = true) :
    TqcInv cfg.c t.view (tQc0 r.timeoutQCs t) := by
  unfold tQc0
  cases hf : alGet r.timeoutQCs t.view.number with
  | none => exact tqcInv_new _ _
  | some q =>
    simp only [Option.getD_some]
    have := hw.tcache.asm _ q (alGet_mem hf)
    rw [← tvote_view_eq hv] at this
    exact tqcAssembled_inv this

/-- the certificate a commit vote is added to has a signer bitmap of committee length -/
theorem cQc0_len {cfg : RCfg} {r : Replica} (v : Vote) (hw : Wf cfg r) :
    (cQc0 cfg.c r.commitQCs v).signers.length = cfg.c.n := by
  unfold cQc0
  cases hf : ((alGet r.commitQCs v.view.number).getD []).find? (fun x => x.1 = v) with
  | none => simp [CommitQC.new]
  | some x =>
    simp only [Option.map_some, Option.getD_some]
    have hx1 : x.1 = v := by simpa using List.find?_some hf
    obtain ⟨m, hm, hxm⟩ := mem_getD_alGet (List.mem_of_find?_eq_some hf)
    have hxm' : (v, x.2) ∈ m := by rw [← hx1]; exact hxm
    exact (cqcAssembled_inv (hw.ccache.asm _ m hm v x.2 hxm').1).2.1

/-! ## `on_proposal`: what the payload checks ask for, and the hash voted for -/

/-- what a proposal must look like to pass `on_proposal`'s payload checks for justification `j` in environment `e`:
a re-proposal carries no payload; a fresh proposal carries a payload that is small enough, verifies, and follows a
block this replica has persisted -/
def PayloadFits (cfg : RCfg) (e : Env) (j : Just) (p : Option Payload) : Prop :=
  (∃ hsh, (j.impliedBlock cfg.c).2 = some hsh ∧ p = none) ∨
  ((j.impliedBlock cfg.c).2 = none ∧ ∃ pl, p = some pl ∧ pl.size ≤ cfg.maxPayload ∧
    ((j.impliedBlock cfg.c).1 = 0 ∨ (j.impliedBlock cfg.c).1 - 1 < e.persistedNext) ∧ e.payloadOk = true)

/-- the block hash a replica votes for on a proposal `(p, j)`: the implied hash of a re-proposal, else the hash of
the payload -/
def votedHash (cfg : RCfg) (j : Just) (p : Option Payload) : Nat :=
  match (j.impliedBlock cfg.c).2, p with
  | some h, _ => h
  | none, some pl => pl.id
  | none, none => 0

theorem cached_cacheProposal {ps : List (Nat × Payload)} {num : Nat} {pl : Payload} {q : CommitQC}
    (h : Cached (cacheProposal ps num pl) q) : Cached ps q ∨ num = q.message.proposal.number := by
  unfold cacheProposal at h
  split at h
  · exact Or.inl h
  · obtain ⟨p, hp, h1, h2⟩ := h
    rcases List.mem_append.mp hp with hp | hp
    · exact Or.inl ⟨p, hp, h1, h2⟩
    · simp only [List.mem_singleton] at hp
      subst hp
      exact Or.inr h1

/-! ## delivering a list of votes -/

/-- deliver a list of inputs in order, each with the environment's answers at that moment; the state after a step is
the handler's resulting state (a rejected input leaves it unchanged) -/
def run (cfg : RCfg) (r : Replica) (l : List (Env × Input)) : Replica :=
  l.foldl (fun r x => (step cfg r x.1 x.2).r) r

theorem run_nil (cfg : RCfg) (r : Replica) : run cfg r [] = r := rfl

theorem run_cons (cfg : RCfg) (r : Replica) (x : Env × Input) (l : List (Env × Input)) :
    run cfg r (x :: l) = run cfg (step cfg r x.1 x.2).r l := rfl

/-- a timeout vote `(environment, signer, vote)` as an input, validly signed -/
def timeoutInput (x : Env × Nat × TVote) : Env × Input := (x.1, .msg ⟨.timeout x.2.2, x.2.1, true⟩)

/-- a commit vote `(environment, signer)` for the vote `v` as an input, validly signed -/
def commitInput (v : Vote) (x : Env × Nat) : Env × Input := (x.1, .msg ⟨.commit v, x.2, true⟩)

/-- the view of this chain and epoch with number `v` -/
def viewOf (cfg : RCfg) (v : Nat) : View := { genesis := cfg.c.genesis, epoch := cfg.c.epoch, number := v }

/-- the timeout certificate under assembly for view number `v` (`TimeoutQC::new` if none is cached) -/
def cachedT (cfg : RCfg) (r : Replica) (v : Nat) : TimeoutQC :=
  (alGet r.timeoutQCs v).getD (TimeoutQC.new (viewOf cfg v))

theorem tQc0_eq_cachedT {cfg : RCfg} (r : Replica) {t : TVote} (hv : t.verify cfg.c = true) :
    tQc0 r.timeoutQCs t = cachedT cfg r t.view.number := by
  unfold tQc0 cachedT viewOf
  rw [← tvote_view_eq hv]

theorem run_old_timeouts (cfg : RCfg) (v : Nat) :
    ∀ (votes : List (Env × Nat × TVote)) (r : Replica), v < r.view → (∀ x ∈ votes, x.2.2.view.number = v) →
      run cfg r (votes.map timeoutInput) = r := by
  intro votes
  induction votes with
  | nil => intro r _ _; rfl
  | cons x rest ih =>
    intro r hlt hall
    rw [List.map_cons, run_cons]
    have hx := hall x List.mem_cons_self
    have hstep : (step cfg r (timeoutInput x).1 (timeoutInput x).2).r = r := by
      show (onTimeout cfg r x.1 x.2.1 true x.2.2).r = r
      rcases onTimeout_cases cfg r x.1 x.2.1 true x.2.2 with ⟨_, w, h⟩ | ⟨hc, _⟩
      · rw [h]; rfl
      · have := hc.2.1; omega
    rw [hstep]
    exact ih r hlt (fun y hy => hall y (List.mem_cons_of_mem _ hy))

theorem run_old_commits (cfg : RCfg) (vt : Vote) :
    ∀ (votes : List (Env × Nat)) (r : Replica), vt.view.number < r.view →
      run cfg r (votes.map (commitInput vt)) = r := by
  intro votes
  induction votes with
  | nil => intro r _; rfl
  | cons x rest ih =>
    intro r hlt
    rw [List.map_cons, run_cons]
    have hstep : (step cfg r (commitInput vt x).1 (commitInput vt x).2).r = r := by
      show (onCommit cfg r x.1 x.2 true vt).r = r
      rcases onCommit_cases cfg r x.1 x.2 true vt with ⟨_, w, h⟩ | ⟨hc, _⟩
      · rw [h]; rfl
      · have := hc.2.1; omega
    rw [hstep]
    exact ih r hlt

/-- delivering timeout votes for view `v` of distinct members that have not voted for `v` or later, in any order:
as soon as the cached weight plus the delivered weight reaches the quorum the replica is in view `v + 1` -/
theorem run_timeouts_aux (cfg : RCfg) (v : Nat) (hnw : v + 1 < 2 ^ 64) :
    ∀ (votes : List (Env × Nat × TVote)) (r : Replica), Wf cfg r → r.view ≤ v →
      (∀ x ∈ votes, x.2.1 < cfg.c.n ∧ x.2.2.view.number = v ∧ x.2.2.verify cfg.c = true) →
      (votes.map (fun x => x.2.1)).Nodup →
      (∀ x ∈ votes, ∀ w, alGet r.timeoutViews x.2.1 = some w → w < v) →
      (∀ x ∈ votes, ∀ p ∈ r.proposals, p.1 ≤ x.1.storeNext) →
      cfg.c.quorum ≤ tqcGroupWeight cfg.c (cachedT cfg r v) +
        (votes.map (fun x => cfg.c.weights.getD x.2.1 0)).sum →
      (votes ≠ [] ∨ tqcGroupWeight cfg.c (cachedT cfg r v) < cfg.c.quorum) →
      (run cfg r (votes.map timeoutInput)).view = v + 1 ∧ (run cfg r (votes.map timeoutInput)).phase = .prepare ∧
        Wf cfg (run cfg r (votes.map timeoutInput)) ∧
        ∃ tq, (run cfg r (votes.map timeoutInput)).highTimeoutQC = some tq ∧ v ≤ tq.view.number := by
  intro votes
  induction votes with
  | nil =>
    intro r _ _ _ _ _ _ hsum hne
    rcases hne with h | h
    · exact absurd rfl h
    · simp at hsum; omega
  | cons x rest ih =>
    intro r hw hle hvalid hnd hfresh hstore hsum _
    obtain ⟨e, key, t⟩ := x
    obtain ⟨hk, htv, hv⟩ := hvalid _ List.mem_cons_self
    simp only at hk htv hv
    have hfr : ∀ w, alGet r.timeoutViews key = some w → w < t.view.number := by
      intro w hw'; rw [htv]; exact hfresh _ List.mem_cons_self w hw'
    have hc : VoteChecks cfg r r.timeoutViews key true t.view.number (t.verify cfg.c) :=
      ⟨hk, by omega, hfr, rfl, hv⟩
    have hstep : step cfg r e (.msg ⟨.timeout t, key, true⟩) = timeoutTail cfg r e key true t := by
      rcases onTimeout_cases cfg r e key true t with ⟨hn, _⟩ | ⟨_, h⟩
      · exact absurd hc hn
      · exact h
    obtain ⟨qc, hadd, hasm, _, hlow, hhigh⟩ := timeoutTail_reaction e hw hc
    have hwt := tqc_add_weight (tQc0_inv hw hv) hadd
    rw [tQc0_eq_cachedT r hv, htv] at hwt
    have hacc := timeoutTail_accepted (e := e) hw hc
    rw [List.map_cons, run_cons]
    show _ ∧ _ ∧ _ ∧ ∃ tq, (run cfg (step cfg r e (.msg ⟨.timeout t, key, true⟩)).r _).highTimeoutQC = _ ∧ _
    show (run cfg (step cfg r e (.msg ⟨.timeout t, key, true⟩)).r _).view = _ ∧
      (run cfg (step cfg r e (.msg ⟨.timeout t, key, true⟩)).r _).phase = _ ∧
      Wf cfg (run cfg (step cfg r e (.msg ⟨.timeout t, key, true⟩)).r _) ∧ _
    rw [hstep]
    simp only [List.map_cons, List.sum_cons] at hsum
    simp only [List.map_cons, List.nodup_cons, List.mem_map, not_exists, not_and] at hnd
    by_cases hlt : tqcGroupWeight cfg.c qc < cfg.c.quorum
    · rw [hlow hlt]
      have hwf1 : Wf cfg (timeoutR1 r key t qc) := by
        rcases hacc with ⟨hb, _⟩ | ⟨_, ha⟩
        · rw [hlow hlt] at hb; cases hb
        · have := ha.wf; rw [hlow hlt] at this; exact this
      have hcached : cachedT cfg (timeoutR1 r key t qc) v = qc := by
        unfold cachedT
        show (alGet (tTqs' r.timeoutViews r.timeoutQCs key t qc) v).getD _ = qc
        rw [← htv, tTqs'_get]; rfl
      apply ih (timeoutR1 r key t qc) hwf1 hle (fun y hy => hvalid y (List.mem_cons_of_mem _ hy)) hnd.2
      · intro y hy w hw'
        have hne : y.2.1 ≠ key := fun h => hnd.1 y hy h
        have : alGet (alSet r.timeoutViews key t.view.number) y.2.1 = some w := hw'
        rw [alGet_alSet, if_neg hne] at this
        exact hfresh y (List.mem_cons_of_mem _ hy) w this
      · exact fun y hy => hstore y (List.mem_cons_of_mem _ hy)
      · rw [hcached]; omega
      · rw [hcached]; exact Or.inr hlt
    · obtain ⟨hver, _, ha⟩ := hhigh (by omega)
      have hok : (processTimeoutQC (timeoutR2 r key t qc) e qc).2.2 = true := by
        cases hok : (processTimeoutQC (timeoutR2 r key t qc) e qc).2.2 with
        | true => rfl
        | false =>
          obtain ⟨q, _, _, ⟨p, hp, hpn, _⟩, hlt'⟩ := (processTimeoutQC_blocked_iff _ e qc).mp hok
          have := hstore _ List.mem_cons_self p hp
          simp only at this
          omega
      obtain ⟨j, _, heq⟩ := ha hok
      rw [heq]
      obtain ⟨f1, f2, _, _, f5, _⟩ :=
        snvState_fields (processTimeoutQC (timeoutR2 r key t qc) e qc).1 (nextU64 t.view.number)
      have hview : (snvState (processTimeoutQC (timeoutR2 r key t qc) e qc).1 (nextU64 t.view.number)).view = v + 1 := by
        rw [f1, htv, nextU64_eq _ hnw]
      rw [run_old_timeouts cfg v rest _ (by rw [hview]; omega)
        (fun y hy => (hvalid y (List.mem_cons_of_mem _ hy)).2.1)]
      have hwf2 : Wf cfg (snvState (processTimeoutQC (timeoutR2 r key t qc) e qc).1 (nextU64 t.view.number)) := by
        rcases hacc with ⟨hb, _⟩ | ⟨_, ha'⟩
        · rw [heq] at hb; cases hb
        · have := ha'.wf; rw [heq] at this; exact this
      obtain ⟨_, _, hheld⟩ := processTimeoutQC_spec cfg (timeoutR2 r key t qc) e qc hver
      obtain ⟨tq, htq, hle'⟩ := hheld hok
      rw [(tqcAssembled_inv hasm).view_eq, htv] at hle'
      exact ⟨hview, f2, hwf2, tq, f5.trans htq, hle'⟩

/-- the same for commit votes for one vote `vt` -/
theorem run_commits_aux (cfg : RCfg) (vt : Vote) (hv : vt.verify cfg.c = true) (hnw : vt.view.number + 1 < 2 ^ 64) :
    ∀ (votes : List (Env × Nat)) (r : Replica), Wf cfg r → r.view ≤ vt.view.number →
      (∀ x ∈ votes, x.2 < cfg.c.n) →
      (votes.map (fun x => x.2)).Nodup →
      (∀ x ∈ votes, ∀ w, alGet r.commitViews x.2 = some w → w < vt.view.number) →
      (∀ x ∈ votes, ∀ p ∈ r.proposals, p.1 ≤ x.1.storeNext) →
      cfg.c.quorum ≤ weightOf cfg.c.weights (cQc0 cfg.c r.commitQCs vt).signers +
        (votes.map (fun x => cfg.c.weights.getD x.2 0)).sum →
      (votes ≠ [] ∨ weightOf cfg.c.weights (cQc0 cfg.c r.commitQCs vt).signers < cfg.c.quorum) →
      (run cfg r (votes.map (commitInput vt))).view = vt.view.number + 1 ∧
        (run cfg r (votes.map (commitInput vt))).phase = .prepare ∧
        Wf cfg (run cfg r (votes.map (commitInput vt))) ∧
        ∃ hc, (run cfg r (votes.map (commitInput vt))).highCommitQC = some hc ∧
          vt.view.number ≤ hc.message.view.number := by
  intro votes
  induction votes with
  | nil =>
    intro r _ _ _ _ _ _ hsum hne
    rcases hne with h | h
    · exact absurd rfl h
    · simp at hsum; omega
  | cons x rest ih =>
    intro r hw hle hvalid hnd hfresh hstore hsum _
    obtain ⟨e, key⟩ := x
    have hk : key < cfg.c.n := hvalid _ List.mem_cons_self
    have hfr : ∀ w, alGet r.commitViews key = some w → w < vt.view.number :=
      fun w hw' => hfresh _ List.mem_cons_self w hw'
    have hc : VoteChecks cfg r r.commitViews key true vt.view.number (vt.verify cfg.c) :=
      ⟨hk, hle, hfr, rfl, hv⟩
    have hstep : step cfg r e (.msg ⟨.commit vt, key, true⟩) = commitTail cfg r e key true vt := by
      rcases onCommit_cases cfg r e key true vt with ⟨hn, _⟩ | ⟨_, h⟩
      · exact absurd hc hn
      · exact h
    obtain ⟨qc, hadd, hasm, hlow, hhigh⟩ := commitTail_reaction e hw hc
    have hwt := cqc_add_weight (cQc0_len vt hw) hadd
    have hacc := commitTail_accepted (e := e) hw hc
    rw [List.map_cons, run_cons]
    show (run cfg (step cfg r e (.msg ⟨.commit vt, key, true⟩)).r _).view = _ ∧
      (run cfg (step cfg r e (.msg ⟨.commit vt, key, true⟩)).r _).phase = _ ∧
      Wf cfg (run cfg (step cfg r e (.msg ⟨.commit vt, key, true⟩)).r _) ∧
      ∃ hc, (run cfg (step cfg r e (.msg ⟨.commit vt, key, true⟩)).r _).highCommitQC = _ ∧ _
    rw [hstep]
    simp only [List.map_cons, List.sum_cons] at hsum
    simp only [List.map_cons, List.nodup_cons, List.mem_map, not_exists, not_and] at hnd
    by_cases hlt : weightOf cfg.c.weights qc.signers < cfg.c.quorum
    · rw [hlow hlt]
      have hwf1 : Wf cfg (commitR1 r key vt qc) := by
        rcases hacc with ⟨hb, _⟩ | ⟨_, ha⟩
        · rw [hlow hlt] at hb; cases hb
        · have := ha.wf; rw [hlow hlt] at this; exact this
      have hcached := cQc0_commitR1 cfg.c r key vt qc
      apply ih (commitR1 r key vt qc) hwf1 hle (fun y hy => hvalid y (List.mem_cons_of_mem _ hy)) hnd.2
      · intro y hy w hw'
        have hne : y.2 ≠ key := fun h => hnd.1 y hy h
        have : alGet (alSet r.commitViews key vt.view.number) y.2 = some w := hw'
        rw [alGet_alSet, if_neg hne] at this
        exact hfresh y (List.mem_cons_of_mem _ hy) w this
      · exact fun y hy => hstore y (List.mem_cons_of_mem _ hy)
      · rw [hcached]; omega
      · rw [hcached]; exact Or.inr hlt
    · obtain ⟨hver, _, ha⟩ := hhigh (by omega)
      have hok : (processCommitQC (commitR2 r key vt qc) e qc).2.2 = true := by
        cases hok : (processCommitQC (commitR2 r key vt qc) e qc).2.2 with
        | true => rfl
        | false =>
          obtain ⟨_, ⟨p, hp, hpn, _⟩, hlt'⟩ := (processCommitQC_blocked_iff _ e qc).mp hok
          have := hstore _ List.mem_cons_self p hp
          simp only at this
          omega
      obtain ⟨j, _, heq⟩ := ha hok
      rw [heq]
      obtain ⟨f1, f2, _, f4, _⟩ :=
        snvState_fields (processCommitQC (commitR2 r key vt qc) e qc).1 (nextU64 vt.view.number)
      have hview : (snvState (processCommitQC (commitR2 r key vt qc) e qc).1 (nextU64 vt.view.number)).view =
          vt.view.number + 1 := by
        rw [f1, nextU64_eq _ hnw]
      rw [run_old_commits cfg vt rest _ (by rw [hview]; omega)]
      have hwf2 : Wf cfg (snvState (processCommitQC (commitR2 r key vt qc) e qc).1 (nextU64 vt.view.number)) := by
        rcases hacc with ⟨hb, _⟩ | ⟨_, ha'⟩
        · rw [heq] at hb; cases hb
        · have := ha'.wf; rw [heq] at this; exact this
      obtain ⟨_, _, _, hc', hhc, hle'⟩ := processCommitQC_spec cfg (commitR2 r key vt qc) e qc hver
      rw [(cqcAssembled_inv hasm).1] at hle'
      exact ⟨hview, f2, hwf2, hc', f4.trans hhc, hle'⟩

/-! ## the handlers only ever shrink the proposal cache, except `on_proposal` with a fresh payload -/

theorem processCommitQC_proposals (r : Replica) (e : Env) (q : CommitQC) :
    (processCommitQC r e q).1.proposals = r.proposals := by
  by_cases hn : Newer r q
  · rw [processCommitQC_eq_new r e q hn]
  · rw [(processCommitQC_high r e q).2 hn]

theorem processTimeoutQC_proposals (r : Replica) (e : Env) (t : TimeoutQC) :
    (processTimeoutQC r e t).1.proposals = r.proposals := by
  unfold processTimeoutQC
  cases hh : t.highQC with
  | none =>
    simp only [Bool.not_true, Bool.false_eq_true, if_false]
    repeat' split
    all_goals rfl
  | some hq =>
    simp only []
    have := processCommitQC_proposals r e hq
    repeat' split
    all_goals exact this

theorem processJust_proposals (r : Replica) (e : Env) (j : Just) :
    (processJust r e j).1.proposals = r.proposals := by
  cases j with
  | commit q => exact processCommitQC_proposals r e q
  | timeout t => exact processTimeoutQC_proposals r e t

theorem startNewView_proposals (r : Replica) (view : Nat) :
    ∀ p ∈ (startNewView r view).r.proposals, p ∈ r.proposals := by
  unfold startNewView
  dsimp only
  split
  · intro p hp; exact hp
  · cases hc : r.highCommitQC with
    | none => intro p hp; exact hp
    | some qc =>
      intro p hp
      exact (List.mem_filter.mp hp).1

/-! ## the store never lags behind the proposal cache, so `queue_block` never waits -/

/-- every cached proposal is for a block the store's queue has reached (`p.1 ≤ queued.next()`) -/
def CacheBelowStore (r : Replica) (s : Nat) : Prop := ∀ p ∈ r.proposals, p.1 ≤ s

theorem not_blocks_of_below {r : Replica} {e : Env} {q : CommitQC} (h : CacheBelowStore r e.storeNext) :
    ¬ Blocks r e q := by
  intro ⟨_, ⟨p, hp, hn, _⟩, hlt⟩
  have := h p hp
  omega

theorem below_of_sub {r r' : Replica} {s : Nat} (h : CacheBelowStore r s) (hs : ∀ p ∈ r'.proposals, p ∈ r.proposals) :
    CacheBelowStore r' s := fun p hp => h p (hs p hp)

theorem startNewView_not_blocked (r : Replica) (view : Nat) : (startNewView r view).out ≠ .blocked := by
  unfold startNewView
  dsimp only
  split <;> simp

theorem propDecide_below {cfg : RCfg} {r : Replica} {e : Env} {p : Option Payload} {j : Just} {h : Nat} {r0 : Replica}
    (hd : propDecide cfg r e p j = .ok (h, r0)) (hinv : CacheBelowStore r e.storeNext)
    (hs : e.persistedNext ≤ e.storeNext) : CacheBelowStore r0 e.storeNext := by
  rcases propDecide_ok hd with ⟨_, _, h0⟩ | ⟨_, pl, _, _, hprev, _, _, h0⟩
  · rw [h0]; exact hinv
  · rw [h0]
    intro x hx
    have hx' : x ∈ cacheProposal r.proposals (j.impliedBlock cfg.c).1 pl := hx
    unfold cacheProposal at hx'
    split at hx'
    · exact hinv x hx'
    · rcases List.mem_append.mp hx' with hx' | hx'
      · exact hinv x hx'
      · simp only [List.mem_singleton] at hx'
        subst hx'
        show (j.impliedBlock cfg.c).1 ≤ _
        rcases hprev with h | h <;> omega

theorem newViewTail_sub (r : Replica) (e : Env) (j : Just) :
    ∀ p ∈ (newViewTail r e j).r.proposals, p ∈ r.proposals := by
  have hpj := processJust_proposals r e j
  unfold newViewTail
  split
  · intro p hp; rw [← hpj]; exact hp
  · split
    · intro p hp; rw [← hpj]; exact startNewView_proposals _ _ p hp
    · intro p hp; rw [← hpj]; exact hp

theorem newViewTail_blocked {r : Replica} {e : Env} {j : Just} (h : (newViewTail r e j).out = .blocked) :
    (processJust r e j).2.2 = false := by
  unfold newViewTail at h
  split at h
  · rename_i hok; simpa using hok
  · split at h
    · exact absurd h (startNewView_not_blocked _ _)
    · cases h

theorem propTail_sub (cfg : RCfg) (r0 : Replica) (e : Env) (j : Just) (h : Nat) :
    (propTail cfg r0 e j h).r.proposals = r0.proposals := by
  have hpj : (processJust (propR1 cfg r0 j h) e j).1.proposals = r0.proposals :=
    processJust_proposals (propR1 cfg r0 j h) e j
  unfold propTail
  split <;> exact hpj

theorem propTail_blocked {cfg : RCfg} {r0 : Replica} {e : Env} {j : Just} {h : Nat}
    (hb : (propTail cfg r0 e j h).out = .blocked) : (processJust (propR1 cfg r0 j h) e j).2.2 = false := by
  unfold propTail at hb
  split at hb
  · rename_i hok; simpa using hok
  · cases hb

theorem commitTail_sub (cfg : RCfg) (r : Replica) (e : Env) (key : Nat) (sigOk : Bool) (v : Vote) :
    ∀ p ∈ (commitTail cfg r e key sigOk v).r.proposals, p ∈ r.proposals := by
  unfold commitTail
  split
  · intro p hp; exact hp
  · rename_i qc _
    have hpc : (processCommitQC (commitR2 r key v qc) e qc).1.proposals = r.proposals :=
      processCommitQC_proposals (commitR2 r key v qc) e qc
    split
    · intro p hp; exact hp
    · split
      · intro p hp; rw [← hpc]; exact hp
      · intro p hp; rw [← hpc]; exact startNewView_proposals _ _ p hp

theorem commitTail_blocked {cfg : RCfg} {r : Replica} {e : Env} {key : Nat} {sigOk : Bool} {v : Vote}
    (hb : (commitTail cfg r e key sigOk v).out = .blocked) :
    ∃ qc, (processCommitQC (commitR2 r key v qc) e qc).2.2 = false := by
  unfold commitTail at hb
  split at hb
  · cases hb
  · rename_i qc _
    split at hb
    · cases hb
    · split at hb
      · rename_i hok; exact ⟨qc, by simpa using hok⟩
      · exact absurd hb (startNewView_not_blocked _ _)

theorem timeoutTail_sub (cfg : RCfg) (r : Replica) (e : Env) (key : Nat) (sigOk : Bool) (t : TVote) :
    ∀ p ∈ (timeoutTail cfg r e key sigOk t).r.proposals, p ∈ r.proposals := by
  unfold timeoutTail
  split
  · intro p hp; exact hp
  · rename_i qc _
    have hpc : (processTimeoutQC (timeoutR2 r key t qc) e qc).1.proposals = r.proposals :=
      processTimeoutQC_proposals (timeoutR2 r key t qc) e qc
    split
    · intro p hp; exact hp
    · split
      · intro p hp; exact hp
      · split
        · intro p hp; rw [← hpc]; exact hp
        · intro p hp; rw [← hpc]; exact startNewView_proposals _ _ p hp

theorem timeoutTail_blocked {cfg : RCfg} {r : Replica} {e : Env} {key : Nat} {sigOk : Bool} {t : TVote}
    (hb : (timeoutTail cfg r e key sigOk t).out = .blocked) :
    ∃ qc, (processTimeoutQC (timeoutR2 r key t qc) e qc).2.2 = false := by
  unfold timeoutTail at hb
  split at hb
  · cases hb
  · rename_i qc _
    split at hb
    · cases hb
    · split at hb
      · cases hb
      · split at hb
        · rename_i hok; exact ⟨qc, by simpa using hok⟩
        · exact absurd hb (startNewView_not_blocked _ _)

theorem startTimeout_proposals (cfg : RCfg) (r : Replica) : (startTimeout cfg r).r.proposals = r.proposals := by
  unfold startTimeout
  dsimp only
  split
  · split <;> rfl
  · rfl

theorem startTimeout_not_blocked (cfg : RCfg) (r : Replica) : (startTimeout cfg r).out ≠ .blocked := by
  unfold startTimeout
  dsimp only
  split
  · split <;> simp
  · simp

/-- **The invariant is preserved** by every step other than a restart, in an environment whose store queue is not
behind what is persisted: the only handler that adds to the proposal cache is `on_proposal` with a fresh payload, and
it does so only after the predecessor is persisted -/
theorem step_cache_below (cfg : RCfg) (r : Replica) (e : Env) (inp : Input) (hin : ∀ b, inp ≠ .restart b)
    (hinv : CacheBelowStore r e.storeNext) (hs : e.persistedNext ≤ e.storeNext) :
    CacheBelowStore (step cfg r e inp).r e.storeNext := by
  cases inp with
  | restart b => exact absurd rfl (hin b)
  | tick =>
    intro p hp
    have : (step cfg r e .tick).r.proposals = r.proposals := startTimeout_proposals cfg r
    rw [this] at hp
    exact hinv p hp
  | msg s =>
    obtain ⟨m, key, sigOk⟩ := s
    cases m with
    | proposal pl j =>
      show CacheBelowStore (onProposal cfg r e key sigOk pl j).r _
      rcases onProposal_cases cfg r e key sigOk pl j with ⟨_, w, h⟩ | ⟨_, ⟨w, _, h⟩ | ⟨h', r0, hd, ht⟩⟩
      · rw [h]; exact hinv
      · rw [h]; exact hinv
      · rw [ht]
        intro p hp
        rw [propTail_sub] at hp
        exact propDecide_below hd hinv hs p hp
    | commit v =>
      show CacheBelowStore (onCommit cfg r e key sigOk v).r _
      rcases onCommit_cases cfg r e key sigOk v with ⟨_, w, h⟩ | ⟨_, ht⟩
      · rw [h]; exact hinv
      · rw [ht]; exact below_of_sub hinv (commitTail_sub cfg r e key sigOk v)
    | timeout t =>
      show CacheBelowStore (onTimeout cfg r e key sigOk t).r _
      rcases onTimeout_cases cfg r e key sigOk t with ⟨_, w, h⟩ | ⟨_, ht⟩
      · rw [h]; exact hinv
      · rw [ht]; exact below_of_sub hinv (timeoutTail_sub cfg r e key sigOk t)
    | newView j =>
      show CacheBelowStore (onNewView cfg r e key sigOk j).r _
      rcases onNewView_cases cfg r e key sigOk j with ⟨_, w, h⟩ | ⟨_, ht⟩
      · rw [h]; exact hinv
      · rw [ht]; exact below_of_sub hinv (newViewTail_sub r e j)

/-- **Under the invariant no handler ever waits in `queue_block`** (any state, well-formed or not) -/
theorem step_not_blocked (cfg : RCfg) (r : Replica) (e : Env) (inp : Input)
    (hinv : CacheBelowStore r e.storeNext) (hs : e.persistedNext ≤ e.storeNext) :
    (step cfg r e inp).out ≠ .blocked := by
  intro hb
  cases inp with
  | restart b => cases hb
  | tick => exact startTimeout_not_blocked cfg r hb
  | msg s =>
    obtain ⟨m, key, sigOk⟩ := s
    cases m with
    | proposal pl j =>
      have hb' : (onProposal cfg r e key sigOk pl j).out = .blocked := hb
      rcases onProposal_cases cfg r e key sigOk pl j with ⟨_, w, h⟩ | ⟨_, ⟨w, _, h⟩ | ⟨h', r0, hd, ht⟩⟩
      · rw [h] at hb'; cases hb'
      · rw [h] at hb'; cases hb'
      · rw [ht] at hb'
        obtain ⟨q, _, hbl⟩ := (processJust_blocked_iff _ e j).mp (propTail_blocked hb')
        have hbelow : CacheBelowStore (propR1 cfg r0 j h') e.storeNext :=
          fun p hp => propDecide_below hd hinv hs p hp
        exact not_blocks_of_below hbelow hbl
    | commit v =>
      have hb' : (onCommit cfg r e key sigOk v).out = .blocked := hb
      rcases onCommit_cases cfg r e key sigOk v with ⟨_, w, h⟩ | ⟨_, ht⟩
      · rw [h] at hb'; cases hb'
      · rw [ht] at hb'
        obtain ⟨qc, hq⟩ := commitTail_blocked hb'
        have hbelow : CacheBelowStore (commitR2 r key v qc) e.storeNext := hinv
        exact not_blocks_of_below hbelow ((processCommitQC_blocked_iff _ e qc).mp hq)
    | timeout t =>
      have hb' : (onTimeout cfg r e key sigOk t).out = .blocked := hb
      rcases onTimeout_cases cfg r e key sigOk t with ⟨_, w, h⟩ | ⟨_, ht⟩
      · rw [h] at hb'; cases hb'
      · rw [ht] at hb'
        obtain ⟨qc, hq⟩ := timeoutTail_blocked hb'
        obtain ⟨q, _, hbl⟩ := (processTimeoutQC_blocked_iff _ e qc).mp hq
        have hbelow : CacheBelowStore (timeoutR2 r key t qc) e.storeNext := hinv
        exact not_blocks_of_below hbelow hbl
    | newView j =>
      have hb' : (onNewView cfg r e key sigOk j).out = .blocked := hb
      rcases onNewView_cases cfg r e key sigOk j with ⟨_, w, h⟩ | ⟨_, ht⟩
      · rw [h] at hb'; cases hb'
      · rw [ht] at hb'
        obtain ⟨q, _, hbl⟩ := (processJust_blocked_iff _ e j).mp (newViewTail_blocked hb')
        exact not_blocks_of_below hinv hbl

end EraVerif.Proofs.Progress
