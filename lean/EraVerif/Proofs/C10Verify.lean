import EraVerif.Model.C10Verify
import EraVerif.Proofs.C10Read

/-! Helper lemmas for C10: certificate verification never reaches an `assert` / index panic. Core Lean only. -/

namespace EraVerif.Proofs.C10Verify
open EraVerif.Model.C10 EraVerif.Model.C10.Verify EraVerif.Proofs.C10Read

theorem viewVerify_not_panic (c : Ctx) (v : View) : (viewVerify c v).isPanic = false := by
  unfold viewVerify
  split
  · rfl
  · split <;> rfl

theorem signersWeight_ok (s : List Bool) (w : List Nat) (h : s.length = w.length) :
    ∃ x, signersWeight s w = .ok x := by
  unfold signersWeight
  simp [h]

theorem indexAll_ok (s : List Bool) (n : Nat) (h : n ≤ s.length) : indexAll s n = .ok () := by
  unfold indexAll; simp [h]

theorem bitOp_ok (f : Bool → Bool → Bool) (a b : List Bool) (h : a.length = b.length) :
    bitOp f a b = .ok (List.zipWith f a b) := by
  unfold bitOp; simp [h]

theorem commitQcVerify_not_panic (c : Ctx) (qc : CommitQC) : (commitQcVerify c qc).isPanic = false := by
  unfold commitQcVerify replicaCommitVerify
  refine bind_not_panic _ _ (viewVerify_not_panic _ _) (fun _ => ?_)
  by_cases hl : qc.signers.length ≠ c.weights.length
  · rw [if_pos hl]; rfl
  · rw [if_neg hl]
    have hl' : qc.signers.length = c.weights.length := by simpa using hl
    obtain ⟨w, hw⟩ := signersWeight_ok _ _ hl'
    rw [hw]
    show (if w < c.quorum then _ else _ : Res Unit).isPanic = false
    split
    · rfl
    · rw [indexAll_ok _ _ (by omega)]
      show (if qc.sigOk = true then _ else _ : Res Unit).isPanic = false
      split <;> rfl

theorem replicaTimeoutVerify_not_panic (c : Ctx) (m : ReplicaTimeout) : (replicaTimeoutVerify c m).isPanic = false := by
  unfold replicaTimeoutVerify
  refine bind_not_panic _ _ (viewVerify_not_panic _ _) (fun _ => ?_)
  refine bind_not_panic _ _ ?_ (fun _ => ?_)
  · cases m.highVote with
    | none => rfl
    | some v => exact viewVerify_not_panic _ _
  · cases m.highQc with
    | none => rfl
    | some qc => exact commitQcVerify_not_panic _ _

/-- the loop never panics when the accumulator has the schedule's length, and on success every `signers` of the
map has that length too (this is what protects `Signers::weight`, `BitVec::and/or` and the index later) -/
theorem timeoutLoop_spec (c : Ctx) (view : View) : ∀ (m : List (ReplicaTimeout × List Bool)) (sum : List Bool),
    (timeoutLoop c view m sum).isPanic = false ∧
    (∀ sum', timeoutLoop c view m sum = .ok sum' → sum'.length = sum.length ∧ ∀ e ∈ m, e.2.length = sum.length) := by
  intro m
  induction m with
  | nil =>
    intro sum
    refine ⟨rfl, ?_⟩
    intro sum' h
    simp [timeoutLoop] at h
    subst h
    exact ⟨rfl, by simp⟩
  | cons e m ih =>
    intro sum
    obtain ⟨msg, signers⟩ := e
    by_cases h1 : msg.view ≠ view
    · have : timeoutLoop c view ((msg, signers) :: m) sum = .err "InconsistentView" := by
        rw [timeoutLoop, if_pos h1]
      rw [this]; exact ⟨rfl, fun _ h => by cases h⟩
    by_cases h2 : signers.length ≠ sum.length
    · have : timeoutLoop c view ((msg, signers) :: m) sum = .err "WrongSignersLength" := by
        rw [timeoutLoop, if_neg h1, if_pos h2]
      rw [this]; exact ⟨rfl, fun _ h => by cases h⟩
    have h2' : signers.length = sum.length := by simpa using h2
    by_cases h3 : (!(signers.any id)) = true
    · have : timeoutLoop c view ((msg, signers) :: m) sum = .err "NoSignersAssigned" := by
        rw [timeoutLoop, if_neg h1, if_neg h2, if_pos h3]
      rw [this]; exact ⟨rfl, fun _ h => by cases h⟩
    by_cases h4 : (List.zipWith (· && ·) sum signers).any id = true
    · have : timeoutLoop c view ((msg, signers) :: m) sum = .err "OverlappingSignatureSet" := by
        rw [timeoutLoop, if_neg h1, if_neg h2, if_neg h3, bitOp_ok _ _ _ h2'.symm]
        show (if (List.zipWith (· && ·) sum signers).any id = true then _ else _) = _
        rw [if_pos h4]
      rw [this]; exact ⟨rfl, fun _ h => by cases h⟩
    have hstep : timeoutLoop c view ((msg, signers) :: m) sum =
        (replicaTimeoutVerify c msg).bind fun _ => timeoutLoop c view m (List.zipWith (· || ·) sum signers) := by
      rw [timeoutLoop, if_neg h1, if_neg h2, if_neg h3, bitOp_ok _ _ _ h2'.symm]
      show (if (List.zipWith (· && ·) sum signers).any id = true then _ else _) = _
      rw [if_neg h4, bitOp_ok _ _ _ h2'.symm]
      rfl
    rw [hstep]
    have hz : (List.zipWith (· || ·) sum signers).length = sum.length := by
      rw [List.length_zipWith]; omega
    obtain ⟨i1, i2⟩ := ih (List.zipWith (· || ·) sum signers)
    constructor
    · exact bind_not_panic _ _ (replicaTimeoutVerify_not_panic _ _) (fun _ => i1)
    · intro sum' h
      cases hv : replicaTimeoutVerify c msg with
      | ok u =>
        rw [hv] at h
        obtain ⟨j1, j2⟩ := i2 sum' h
        refine ⟨by omega, ?_⟩
        intro e he
        rcases List.mem_cons.mp he with rfl | he
        · exact h2'
        · rw [j2 e he, hz]
      | err w => rw [hv] at h; cases h
      | panic s => rw [hv] at h; cases h

theorem indexMap_ok (n : Nat) : ∀ (m : List (ReplicaTimeout × List Bool)), (∀ e ∈ m, e.2.length = n) →
    indexMap n m = .ok () := by
  intro m
  induction m with
  | nil => intro _; rfl
  | cons e m ih =>
    intro h
    obtain ⟨msg, s⟩ := e
    unfold indexMap
    rw [indexAll_ok _ _ (by have := h (msg, s) (List.mem_cons_self); simp at this; omega)]
    exact ih (fun e he => h e (List.mem_cons_of_mem _ he))

theorem timeoutQcVerify_not_panic (c : Ctx) (qc : TimeoutQC) : (timeoutQcVerify c qc).isPanic = false := by
  unfold timeoutQcVerify
  refine bind_not_panic _ _ (viewVerify_not_panic _ _) (fun _ => ?_)
  obtain ⟨l1, l2⟩ := timeoutLoop_spec c qc.view qc.map (List.replicate c.weights.length false)
  cases hl : timeoutLoop c qc.view qc.map (List.replicate c.weights.length false) with
  | err w => rfl
  | panic s => rw [hl] at l1; cases l1
  | ok sum =>
    obtain ⟨m1, m2⟩ := l2 sum hl
    rw [List.length_replicate] at m1 m2
    obtain ⟨w, hw⟩ := signersWeight_ok sum c.weights m1
    show ((signersWeight sum c.weights).bind _).isPanic = false
    rw [hw]
    show (if w < c.quorum then _ else _ : Res Unit).isPanic = false
    split
    · rfl
    · rw [indexMap_ok _ _ m2]
      show (if qc.sigOk = true then _ else _ : Res Unit).isPanic = false
      split <;> rfl

/-- a verified timeout certificate has `signers` of the schedule's length everywhere -/
theorem timeoutQcVerify_lens (c : Ctx) (qc : TimeoutQC) (h : timeoutQcVerify c qc = .ok ()) :
    ∀ e ∈ qc.map, e.2.length = c.weights.length := by
  unfold timeoutQcVerify at h
  cases hv : viewVerify c qc.view with
  | err w => rw [hv] at h; cases h
  | panic s => rw [hv] at h; cases h
  | ok u =>
    rw [hv] at h
    cases hl : timeoutLoop c qc.view qc.map (List.replicate c.weights.length false) with
    | err w => rw [hl] at h; cases h
    | panic s => rw [hl] at h; cases h
    | ok sum =>
      have := ((timeoutLoop_spec c qc.view qc.map _).2 sum hl).2
      rw [List.length_replicate] at this
      exact this

theorem highVoteCounts_not_panic (c : Ctx) : ∀ (m : List (ReplicaTimeout × List Bool)) (acc : List (Header × Nat)),
    (∀ e ∈ m, e.2.length = c.weights.length) → (highVoteCounts c m acc).isPanic = false := by
  intro m
  induction m with
  | nil => intro _ _; rfl
  | cons e m ih =>
    intro acc h
    obtain ⟨msg, signers⟩ := e
    unfold highVoteCounts
    have hm : ∀ e ∈ m, e.2.length = c.weights.length := fun e he => h e (List.mem_cons_of_mem _ he)
    cases msg.highVote with
    | none => exact ih acc hm
    | some v =>
      simp only []
      obtain ⟨w, hw⟩ := signersWeight_ok signers c.weights (by
        have := h (msg, signers) (List.mem_cons_self); simpa using this)
      rw [hw]
      exact ih _ hm

end EraVerif.Proofs.C10Verify
