import EraVerif.Proofs.Epoch

/-!
Helper lemmas for `Props/Epoch.lean`, part (b): invariants of the node model (`Model/Epoch.lean`, `step`) over
every event list whose provider answers agree with one activation table `T`.
-/

namespace EraVerif.Proofs.Epoch
open EraVerif.Model.Epoch

/-- activations strictly increase from one epoch to the next -/
def Mono (T : Nat → Nat) : Prop := ∀ e, T e < T (e + 1)

theorem Mono.le {T : Nat → Nat} (h : Mono T) {a b : Nat} (hab : a ≤ b) : T a ≤ T b := by
  induction hab with
  | refl => exact Nat.le_refl _
  | step _ ih => exact Nat.le_trans ih (Nat.le_of_lt (h _))

theorem Mono.lt {T : Nat → Nat} (h : Mono T) {a b : Nat} (hab : a < b) : T a < T b :=
  Nat.lt_of_lt_of_le (h a) (h.le hab)

theorem Mono.lt_of {T : Nat → Nat} (h : Mono T) {a b : Nat} (hab : T a < T b) : a < b := by
  by_cases hc : a < b
  · exact hc
  · have := h.le (Nat.le_of_not_lt hc); omega

/-- The provider's answers agree with the table: the schedule inserted for an epoch activates at `T epoch`. -/
def EvOk (T : Nat → Nat) (s : Node) : Ev → Prop
  | .runnerInit last act _ => act = T (curOf last)
  | .poll (some (pact, _)) => pact = T (s.cur + 1)
  | _ => True

/-- Prompt teardown: the instance of epoch `e` makes nothing durable once the last block of `e`
(`T (e+1) - 1`) is persisted. -/
def Prompt (T : Nat → Nat) (s : Node) : Ev → Prop
  | .timeout e => s.persistedNext < T (e + 1)
  | .vote e _ _ _ => s.persistedNext < T (e + 1)
  | .newView e _ => s.persistedNext < T (e + 1)
  | _ => True

/-- States reachable from a fresh node by any event list whose answers agree with `T` and whose events
satisfy `P` (`fun _ _ => True` for the code as it is, `Prompt T` for the `_partial` theorems). -/
inductive Reach (T : Nat → Nat) (P : Node → Ev → Prop) : Node → Prop
  | init (static : Option (Nat × Nat)) (next : Nat) (h : ∀ fb c, static = some (fb, c) → fb = T 0) :
      Reach T P (Node.init static next)
  | step {s s' : Node} {ev : Ev} : Reach T P s → EvOk T s ev → P s ev → step s ev = some s' → Reach T P s'

theorem Reach.weaken {T : Nat → Nat} {P : Node → Ev → Prop} {s : Node} (h : Reach T P s) :
    Reach T (fun _ _ => True) s := by
  induction h with
  | init st n h => exact .init st n h
  | step _ hok _ hs ih => exact .step ih hok trivial hs

/-! ### membership in the map operations -/

theorem mem_schedInsert {s : Sched} {e : Nat} {l : Life} {p : Nat × Life} (h : p ∈ schedInsert s e l) :
    p = (e, l) ∨ p ∈ s := by
  induction s with
  | nil => simp [schedInsert] at h; exact Or.inl h
  | cons a t ih =>
    obtain ⟨k, v⟩ := a
    simp only [schedInsert] at h
    split at h
    · rcases List.mem_cons.mp h with h | h
      · exact Or.inl h
      · exact Or.inr h
    · split at h
      · rcases List.mem_cons.mp h with h | h
        · exact Or.inl h
        · exact Or.inr (List.mem_cons_of_mem _ h)
      · rcases List.mem_cons.mp h with h | h
        · exact Or.inr (by rw [h]; simp)
        · rcases ih h with h | h
          · exact Or.inl h
          · exact Or.inr (List.mem_cons_of_mem _ h)

theorem mem_setExp {s : Sched} {e x : Nat} {p : Nat × Life} (h : p ∈ setExp s e x) :
    p ∈ s ∨ (p.1 = e ∧ p.2.exp = some x ∧ ∃ l, (e, l) ∈ s ∧ p.2.act = l.act) := by
  induction s with
  | nil => simp [setExp] at h
  | cons a t ih =>
    obtain ⟨k, v⟩ := a
    simp only [setExp] at h
    split at h
    · rename_i hk
      rcases List.mem_cons.mp h with h | h
      · subst h; exact Or.inr ⟨hk, rfl, v, by simp [hk], rfl⟩
      · exact Or.inl (List.mem_cons_of_mem _ h)
    · rcases List.mem_cons.mp h with h | h
      · exact Or.inl (by rw [h]; simp)
      · rcases ih h with h | ⟨h1, h2, l, hl, h3⟩
        · exact Or.inl (List.mem_cons_of_mem _ h)
        · exact Or.inr ⟨h1, h2, l, List.mem_cons_of_mem _ hl, h3⟩

theorem mem_prune {s : Sched} {head : Nat} {p : Nat × Life} (h : p ∈ prune s head) : p ∈ s := by
  unfold prune at h
  split at h
  · split at h
    · exact List.mem_cons_of_mem _ h
    · exact h
  · exact h

/-- every entry activates at `T epoch`, and a known expiration is the block before `T (epoch+1)` -/
def SchedT (T : Nat → Nat) (s : Sched) : Prop :=
  ∀ p ∈ s, p.2.act = T p.1 ∧ ∀ x, p.2.exp = some x → x + 1 = T (p.1 + 1)

theorem SchedT.insert {T : Nat → Nat} {s : Sched} (h : SchedT T s) (e act com : Nat) (ha : act = T e) :
    SchedT T (schedInsert s e { act := act, exp := none, com := com }) := by
  intro p hp
  rcases mem_schedInsert hp with hp | hp
  · subst hp; exact ⟨ha, by simp⟩
  · exact h p hp

theorem SchedT.poll {T : Nat → Nat} {r r' : Runner} {head : Nat} {pending : Option (Nat × Nat)} {asked : Bool}
    (h : SchedT T r.sched) (hp : ∀ pact pcom, pending = some (pact, pcom) → pact = T (r.cur + 1))
    (hr : runnerPoll r head pending = .ok r' asked) : SchedT T r'.sched := by
  unfold runnerPoll at hr
  split at hr
  · cases hr
  · split at hr
    · split at hr
      · cases hr; exact h
      · rename_i pact pcom
        have hpa := hp pact pcom rfl
        have h1 := h.insert (r.cur + 1) pact pcom hpa
        simp only at hr
        split at hr
        · split at hr
          · cases hr
          · rename_i k
            cases hr
            intro p hp
            rcases mem_setExp (mem_prune hp) with hp | ⟨hk, hx, l, hl, hact⟩
            · exact h1 p hp
            · refine ⟨?_, ?_⟩
              · rw [hact, hk]; exact (h1 (r.cur, l) hl).1
              · intro x hx'; rw [hx] at hx'; cases hx'; rw [hk]; omega
        · cases hr
          intro p hp
          exact h1 p (mem_prune hp)
    · cases hr; exact h

/-! ### invariants that hold for the code as it is -/

structure InvA (T : Nat → Nat) (s : Node) : Prop where
  staticT : ∀ fb c, s.static = some (fb, c) → fb = T 0
  schedT : SchedT T s.sched
  firstT : ∀ e, s.inst e ≠ .absent → s.first e = T e
  runningT : ∀ e v p, s.inst e = .running v p → T e = 0 ∨ T e ≤ s.persistedNext
  slotBk : ∀ st, s.slot = some st → s.lastBackup st.epoch = some st
  bkT : ∀ e st, s.lastBackup e = some st → st.epoch = e ∧ (T e = 0 ∨ T e ≤ s.persistedNext)

theorem mgrNew_schedT {T : Nat → Nat} {static : Option (Nat × Nat)} (h : ∀ fb c, static = some (fb, c) → fb = T 0) :
    SchedT T (mgrNew static) := by
  unfold mgrNew
  split
  · rename_i fb c
    intro p hp
    simp at hp; subst hp
    exact ⟨h fb c rfl, by simp⟩
  · intro p hp; simp at hp

theorem InvA.init {T : Nat → Nat} (static : Option (Nat × Nat)) (next : Nat)
    (h : ∀ fb c, static = some (fb, c) → fb = T 0) : InvA T (Node.init static next) where
  staticT := h
  schedT := mgrNew_schedT h
  firstT := by intro e he; simp [Node.init] at he
  runningT := by intro e v p he; simp [Node.init] at he
  slotBk := by intro st hs; simp [Node.init] at hs
  bkT := by intro e st hs; simp [Node.init] at hs

theorem startReady_iff (f n : Nat) : startReady f n = true ↔ f = 0 ∨ f ≤ n := by
  unfold startReady
  cases f with
  | zero => simp
  | succ p => simp; omega

/-- the state after a durable write of the instance of epoch `e` -/
theorem write_fields (s : Node) (e v : Nat) (p : Phase) (sg : Option Signed) :
    (write s e v p sg).static = s.static ∧ (write s e v p sg).sched = s.sched ∧
    (write s e v p sg).persistedNext = s.persistedNext ∧ (write s e v p sg).first = s.first ∧
    (write s e v p sg).slot = some ⟨e, v, p⟩ ∧
    (write s e v p sg).inst = (fun x => if x = e then .running v p else s.inst x) ∧
    (write s e v p sg).lastBackup = (fun x => if x = e then some ⟨e, v, p⟩ else s.lastBackup x) := by
  simp [write, setInst, backup]

theorem InvA.write {T : Nat → Nat} {s : Node} (hI : InvA T s) {e cv : Nat} {pp : Phase}
    (hrun : s.inst e = .running cv pp) (v : Nat) (p : Phase) (sg : Option Signed) :
    InvA T (write s e v p sg) := by
  obtain ⟨f1, f2, f3, f4, f5, f6, f7⟩ := write_fields s e v p sg
  have hT := hI.runningT e cv pp hrun
  constructor
  · rw [f1]; exact hI.staticT
  · rw [f2]; exact hI.schedT
  · intro x hx; rw [f4]; rw [f6] at hx
    by_cases hxe : x = e
    · subst hxe; exact hI.firstT x (by rw [hrun]; simp)
    · simp [hxe] at hx; exact hI.firstT x hx
  · intro x v' p' hx; rw [f3]; rw [f6] at hx
    by_cases hxe : x = e
    · subst hxe; exact hT
    · simp [hxe] at hx; exact hI.runningT x v' p' hx
  · intro st hs; rw [f5] at hs; cases hs; rw [f7]; simp
  · intro x st hs; rw [f7] at hs; rw [f3]
    by_cases hxe : x = e
    · subst hxe; simp at hs; subst hs; exact ⟨rfl, hT⟩
    · simp [hxe] at hs; exact hI.bkT x st hs

/-- facts about a step that is not a durable write: the durable part only grows in `persistedNext` -/
structure Quiet (s s' : Node) : Prop where
  static : s'.static = s.static
  slot : s'.slot = s.slot
  bk : s'.lastBackup = s.lastBackup
  signed : s'.signed = s.signed
  pers : s.persistedNext ≤ s'.persistedNext

theorem InvA.step {T : Nat → Nat} {s s' : Node} {ev : Ev} (hI : InvA T s) (hok : EvOk T s ev)
    (hs : step s ev = some s') : InvA T s' := by
  cases ev with
  | runnerInit last act com =>
    simp only [Model.Epoch.step] at hs
    split at hs
    · cases hs
    · cases hs
      exact { hI with schedT := hI.schedT.insert _ _ _ hok }
  | poll pending =>
    simp only [Model.Epoch.step] at hs
    split at hs
    · cases hs
    · split at hs
      · rename_i r asked hr
        cases hs
        refine { hI with schedT := SchedT.poll (r := ⟨s.sched, s.cur⟩) hI.schedT ?_ hr }
        intro pact pcom hp; subst hp; exact hok
      · cases hs
  | spawn e =>
    simp only [Model.Epoch.step] at hs
    split at hs
    · rename_i l habs hl
      cases hs
      refine { hI with firstT := ?_, runningT := ?_ }
      · intro x hx
        simp only [setInst] at hx ⊢
        by_cases hxe : x = e
        · subst hxe; simp; exact (hI.schedT _ (get_mem hl)).1
        · simp [hxe] at hx ⊢; exact hI.firstT x hx
      · intro x v p hx
        simp only [setInst] at hx ⊢
        by_cases hxe : x = e
        · simp [hxe] at hx
        · simp [hxe] at hx; exact hI.runningT x v p hx
    · cases hs
  | start e =>
    simp only [Model.Epoch.step] at hs
    split at hs
    · rename_i hw
      split at hs
      · rename_i hready
        cases hs
        have hf := hI.firstT e (by rw [hw]; simp)
        rw [startReady_iff, hf] at hready
        refine { hI with firstT := ?_, runningT := ?_ }
        · intro x hx
          simp only [setInst] at hx ⊢
          by_cases hxe : x = e
          · subst hxe; exact hf
          · simp [hxe] at hx; exact hI.firstT x hx
        · intro x v p hx
          simp only [setInst] at hx ⊢
          by_cases hxe : x = e
          · subst hxe; exact hready
          · simp [hxe] at hx; exact hI.runningT x v p hx
      · cases hs
    · cases hs
  | timeout e =>
    simp only [Model.Epoch.step] at hs
    split at hs
    · rename_i v p hrun
      cases hs; exact hI.write hrun _ _ _
    · cases hs
  | vote e view number tag =>
    simp only [Model.Epoch.step] at hs
    split at hs
    · rename_i cv p hrun
      split at hs
      · cases hs; exact hI.write hrun _ _ _
      · cases hs
    · cases hs
  | newView e view =>
    simp only [Model.Epoch.step] at hs
    split at hs
    · rename_i cv p hrun
      split at hs
      · cases hs; exact hI.write hrun _ _ _
      · cases hs
    · cases hs
  | queue =>
    simp only [Model.Epoch.step] at hs
    cases hs; exact { hI with }
  | persist =>
    simp only [Model.Epoch.step] at hs
    split at hs
    · cases hs
      refine { hI with runningT := ?_, bkT := ?_ }
      · intro x v p hx; have := hI.runningT x v p hx; simp only; omega
      · intro x st hx; have := hI.bkT x st hx; simp only; exact ⟨this.1, by omega⟩
    · cases hs
  | syncPersist =>
    simp only [Model.Epoch.step] at hs
    cases hs
    refine { hI with runningT := ?_, bkT := ?_ }
    · intro x v p hx; have := hI.runningT x v p hx; simp only; omega
    · intro x st hx; have := hI.bkT x st hx; simp only; exact ⟨this.1, by omega⟩
  | teardown e =>
    simp only [Model.Epoch.step] at hs
    split at hs
    · cases hs
    · cases hs
    · split at hs
      · split at hs
        · cases hs
          refine { hI with firstT := ?_, runningT := ?_ }
          · intro x hx
            simp only [setInst] at hx ⊢
            by_cases hxe : x = e
            · subst hxe; rename_i hne1 hne2 _ _ _ _
              exact hI.firstT x (by intro h; exact hne1 h)
            · simp [hxe] at hx; exact hI.firstT x hx
          · intro x v p hx
            simp only [setInst] at hx
            by_cases hxe : x = e
            · simp [hxe] at hx
            · simp [hxe] at hx; exact hI.runningT x v p hx
        · cases hs
      · cases hs
    · cases hs
  | cancel e =>
    simp only [Model.Epoch.step] at hs
    split at hs
    · cases hs
    · rename_i hne
      cases hs
      refine { hI with firstT := ?_, runningT := ?_ }
      · intro x hx
        simp only [setInst] at hx ⊢
        by_cases hxe : x = e
        · subst hxe; exact hI.firstT x (by intro h; exact hne h)
        · simp [hxe] at hx; exact hI.firstT x hx
      · intro x v p hx
        simp only [setInst] at hx
        by_cases hxe : x = e
        · simp [hxe] at hx
        · simp [hxe] at hx; exact hI.runningT x v p hx
  | crash =>
    simp only [Model.Epoch.step] at hs
    cases hs
    refine { hI with schedT := mgrNew_schedT hI.staticT, firstT := ?_, runningT := ?_ }
    · intro x hx; simp at hx
    · intro x v p hx; simp at hx

theorem InvA.reach {T : Nat → Nat} {P : Node → Ev → Prop} {s : Node} (h : Reach T P s) : InvA T s := by
  induction h with
  | init st n h => exact InvA.init st n h
  | step _ hok _ hs ih => exact ih.step hok hs

end EraVerif.Proofs.Epoch
