import EraVerif.Proofs.Epoch

/-!
Helper lemmas for `Props/Epoch.lean`, part (b): invariants of the node model (`Model/Epoch.lean`, `step`) over
every event list whose provider answers agree with one activation table `T`.
-/

namespace EraVerif.Proofs.Epoch
open EraVerif.Model.Epoch

/-- activations strictly increase from one epoch to the next -/
def Mono (T : Nat → Nat) : Prop := ∀ e, T e < T (e + 1)

theorem Mono.le {T : Nat → Nat} (h : Mono T) {a b : Nat} (hab : a ≤ b) : T a ≤ T b := by
  induction hab with
  | refl => exact Nat.le_refl _
  | step _ ih => exact Nat.le_trans ih (Nat.le_of_lt (h _))

theorem Mono.lt {T : Nat → Nat} (h : Mono T) {a b : Nat} (hab : a < b) : T a < T b :=
  Nat.lt_of_lt_of_le (h a) (h.le hab)

theorem Mono.lt_of {T : Nat → Nat} (h : Mono T) {a b : Nat} (hab : T a < T b) : a < b := by
  by_cases hc : a < b
  · exact hc
  · have := h.le (Nat.le_of_not_lt hc); omega

/-- The provider's answers agree with the table: the schedule inserted for an epoch activates at `T epoch`. -/
def EvOk (T : Nat → Nat) (s : Node) : Ev → Prop
  | .runnerInit last act _ => act = T (curOf last)
  | .poll (some (pact, _)) => pact = T (s.cur + 1)
  | _ => True

/-- Prompt teardown: the instance of epoch `e` makes nothing durable once the last block of `e`
(`T (e+1) - 1`) is persisted. -/
def Prompt (T : Nat → Nat) (s : Node) : Ev → Prop
  | .timeout e => s.persistedNext < T (e + 1)
  | .vote e _ _ _ => s.persistedNext < T (e + 1)
  | .newView e _ => s.persistedNext < T (e + 1)
  | _ => True

/-- executable versions of `EvOk` / `Prompt` (for the checked example runs) -/
def evOkB (T : Nat → Nat) (s : Node) : Ev → Bool
  | .runnerInit last act _ => decide (act = T (curOf last))
  | .poll (some (pact, _)) => decide (pact = T (s.cur + 1))
  | _ => true

def promptB (T : Nat → Nat) (s : Node) : Ev → Bool
  | .timeout e => decide (s.persistedNext < T (e + 1))
  | .vote e _ _ _ => decide (s.persistedNext < T (e + 1))
  | .newView e _ => decide (s.persistedNext < T (e + 1))
  | _ => true

theorem evOkB_sound {T : Nat → Nat} {s : Node} {ev : Ev} (h : evOkB T s ev = true) : EvOk T s ev := by
  cases ev with
  | runnerInit last act com => simpa [evOkB, EvOk] using h
  | poll pending =>
    cases pending with
    | none => trivial
    | some pc => obtain ⟨a, b⟩ := pc; simpa [evOkB, EvOk] using h
  | _ => trivial

theorem promptB_sound {T : Nat → Nat} {s : Node} {ev : Ev} (h : promptB T s ev = true) : Prompt T s ev := by
  cases ev with
  | timeout e => simpa [promptB, Prompt] using h
  | vote e v n t => simpa [promptB, Prompt] using h
  | newView e v => simpa [promptB, Prompt] using h
  | _ => trivial

/-- States reachable from a fresh node by any event list whose answers agree with `T` and whose events
satisfy `P` (`fun _ _ => True` for the code as it is, `Prompt T` for the `_partial` theorems). -/
inductive Reach (T : Nat → Nat) (P : Node → Ev → Prop) : Node → Prop
  | init (static : Option (Nat × Nat)) (next : Nat) (h : ∀ fb c, static = some (fb, c) → fb = T 0) :
      Reach T P (Node.init static next)
  | step {s s' : Node} {ev : Ev} : Reach T P s → EvOk T s ev → P s ev → step s ev = some s' → Reach T P s'

theorem Reach.weaken {T : Nat → Nat} {P : Node → Ev → Prop} {s : Node} (h : Reach T P s) :
    Reach T (fun _ _ => True) s := by
  induction h with
  | init st n h => exact .init st n h
  | step _ hok _ hs ih => exact .step ih hok trivial hs

/-! ### membership in the map operations -/

theorem mem_schedInsert {s : Sched} {e : Nat} {l : Life} {p : Nat × Life} (h : p ∈ schedInsert s e l) :
    p = (e, l) ∨ p ∈ s := by
  induction s with
  | nil => simp [schedInsert] at h; exact Or.inl h
  | cons a t ih =>
    obtain ⟨k, v⟩ := a
    simp only [schedInsert] at h
    split at h
    · rcases List.mem_cons.mp h with h | h
      · exact Or.inl h
      · exact Or.inr h
    · split at h
      · rcases List.mem_cons.mp h with h | h
        · exact Or.inl h
        · exact Or.inr (List.mem_cons_of_mem _ h)
      · rcases List.mem_cons.mp h with h | h
        · exact Or.inr (by rw [h]; simp)
        · rcases ih h with h | h
          · exact Or.inl h
          · exact Or.inr (List.mem_cons_of_mem _ h)

theorem mem_setExp {s : Sched} {e x : Nat} {p : Nat × Life} (h : p ∈ setExp s e x) :
    p ∈ s ∨ (p.1 = e ∧ p.2.exp = some x ∧ ∃ l, (e, l) ∈ s ∧ p.2.act = l.act) := by
  induction s with
  | nil => simp [setExp] at h
  | cons a t ih =>
    obtain ⟨k, v⟩ := a
    simp only [setExp] at h
    split at h
    · rename_i hk
      rcases List.mem_cons.mp h with h | h
      · subst h; exact Or.inr ⟨hk, rfl, v, by simp [hk], rfl⟩
      · exact Or.inl (List.mem_cons_of_mem _ h)
    · rcases List.mem_cons.mp h with h | h
      · exact Or.inl (by rw [h]; simp)
      · rcases ih h with h | ⟨h1, h2, l, hl, h3⟩
        · exact Or.inl (List.mem_cons_of_mem _ h)
        · exact Or.inr ⟨h1, h2, l, List.mem_cons_of_mem _ hl, h3⟩

theorem mem_prune {s : Sched} {head : Nat} {p : Nat × Life} (h : p ∈ prune s head) : p ∈ s := by
  unfold prune at h
  split at h
  · split at h
    · exact List.mem_cons_of_mem _ h
    · exact h
  · exact h

/-- every entry activates at `T epoch`, and a known expiration is the block before `T (epoch+1)` -/
def SchedT (T : Nat → Nat) (s : Sched) : Prop :=
  ∀ p ∈ s, p.2.act = T p.1 ∧ ∀ x, p.2.exp = some x → x + 1 = T (p.1 + 1)

theorem SchedT.insert {T : Nat → Nat} {s : Sched} (h : SchedT T s) (e act com : Nat) (ha : act = T e) :
    SchedT T (schedInsert s e { act := act, exp := none, com := com }) := by
  intro p hp
  rcases mem_schedInsert hp with hp | hp
  · subst hp; exact ⟨ha, by simp⟩
  · exact h p hp

theorem SchedT.poll {T : Nat → Nat} {r r' : Runner} {head : Nat} {pending : Option (Nat × Nat)} {asked : Bool}
    (h : SchedT T r.sched) (hp : ∀ pact pcom, pending = some (pact, pcom) → pact = T (r.cur + 1))
    (hr : runnerPoll r head pending = .ok r' asked) : SchedT T r'.sched := by
  unfold runnerPoll at hr
  split at hr
  · cases hr
  · split at hr
    · split at hr
      · cases hr; exact h
      · rename_i pact pcom
        have hpa := hp pact pcom rfl
        have h1 := h.insert (r.cur + 1) pact pcom hpa
        simp only at hr
        split at hr
        · split at hr
          · cases hr
          · rename_i k
            cases hr
            intro p hp
            rcases mem_setExp (mem_prune hp) with hp | ⟨hk, hx, l, hl, hact⟩
            · exact h1 p hp
            · refine ⟨?_, ?_⟩
              · rw [hact, hk]; exact (h1 (r.cur, l) hl).1
              · intro x hx'; rw [hx] at hx'; cases hx'; rw [hk]; omega
        · cases hr
          intro p hp
          exact h1 p (mem_prune hp)
    · cases hr; exact h

/-! ### invariants that hold for the code as it is -/

structure InvA (T : Nat → Nat) (s : Node) : Prop where
  staticT : ∀ fb c, s.static = some (fb, c) → fb = T 0
  schedT : SchedT T s.sched
  firstT : ∀ e, s.inst e ≠ .absent → s.first e = T e
  runningT : ∀ e v p, s.inst e = .running v p → T e = 0 ∨ T e ≤ s.persistedNext
  slotBk : ∀ st, s.slot = some st → s.lastBackup st.epoch = some st
  bkT : ∀ e st, s.lastBackup e = some st → st.epoch = e ∧ (T e = 0 ∨ T e ≤ s.persistedNext)

theorem mgrNew_schedT {T : Nat → Nat} {static : Option (Nat × Nat)} (h : ∀ fb c, static = some (fb, c) → fb = T 0) :
    SchedT T (mgrNew static) := by
  unfold mgrNew
  split
  · rename_i fb c
    intro p hp
    simp at hp; subst hp
    exact ⟨h fb c rfl, by simp⟩
  · intro p hp; simp at hp

theorem InvA.init {T : Nat → Nat} (static : Option (Nat × Nat)) (next : Nat)
    (h : ∀ fb c, static = some (fb, c) → fb = T 0) : InvA T (Node.init static next) where
  staticT := h
  schedT := mgrNew_schedT h
  firstT := by intro e he; simp [Node.init] at he
  runningT := by intro e v p he; simp [Node.init] at he
  slotBk := by intro st hs; simp [Node.init] at hs
  bkT := by intro e st hs; simp [Node.init] at hs

theorem startReady_iff (f n : Nat) : startReady f n = true ↔ f = 0 ∨ f ≤ n := by
  unfold startReady
  cases f with
  | zero => simp
  | succ p => simp; omega

/-- the state after a durable write of the instance of epoch `e` -/
theorem write_fields (s : Node) (e v : Nat) (p : Phase) (sg : Option Signed) :
    (write s e v p sg).static = s.static ∧ (write s e v p sg).sched = s.sched ∧
    (write s e v p sg).persistedNext = s.persistedNext ∧ (write s e v p sg).first = s.first ∧
    (write s e v p sg).slot = some ⟨e, v, p⟩ ∧
    (write s e v p sg).inst = (fun x => if x = e then .running v p else s.inst x) ∧
    (write s e v p sg).lastBackup = (fun x => if x = e then some ⟨e, v, p⟩ else s.lastBackup x) := by
  simp [write, setInst, backup]

theorem InvA.write {T : Nat → Nat} {s : Node} (hI : InvA T s) {e cv : Nat} {pp : Phase}
    (hrun : s.inst e = .running cv pp) (v : Nat) (p : Phase) (sg : Option Signed) :
    InvA T (write s e v p sg) := by
  obtain ⟨f1, f2, f3, f4, f5, f6, f7⟩ := write_fields s e v p sg
  have hT := hI.runningT e cv pp hrun
  constructor
  · rw [f1]; exact hI.staticT
  · rw [f2]; exact hI.schedT
  · intro x hx; rw [f4]; rw [f6] at hx
    by_cases hxe : x = e
    · subst hxe; exact hI.firstT x (by rw [hrun]; simp)
    · simp [hxe] at hx; exact hI.firstT x hx
  · intro x v' p' hx; rw [f3]; rw [f6] at hx
    by_cases hxe : x = e
    · subst hxe; exact hT
    · simp [hxe] at hx; exact hI.runningT x v' p' hx
  · intro st hs; rw [f5] at hs; cases hs; rw [f7]; simp
  · intro x st hs; rw [f7] at hs; rw [f3]
    by_cases hxe : x = e
    · subst hxe; simp at hs; subst hs; exact ⟨rfl, hT⟩
    · simp [hxe] at hs; exact hI.bkT x st hs

theorem InvA.step {T : Nat → Nat} {s s' : Node} {ev : Ev} (hI : InvA T s) (hok : EvOk T s ev)
    (hs : step s ev = some s') : InvA T s' := by
  cases ev with
  | runnerInit last act com =>
    simp only [Model.Epoch.step] at hs
    split at hs
    · cases hs
    · cases hs
      exact { hI with schedT := hI.schedT.insert _ _ _ hok }
  | poll pending =>
    simp only [Model.Epoch.step] at hs
    split at hs
    · cases hs
    · split at hs
      · rename_i r asked hr
        cases hs
        refine { hI with schedT := SchedT.poll (r := ⟨s.sched, s.cur⟩) hI.schedT ?_ hr }
        intro pact pcom hp; subst hp; exact hok
      · cases hs
  | spawn e =>
    simp only [Model.Epoch.step] at hs
    split at hs
    · rename_i l habs hl
      cases hs
      refine { hI with firstT := ?_, runningT := ?_ }
      · intro x hx
        simp only [setInst] at hx ⊢
        by_cases hxe : x = e
        · subst hxe; simp; exact (hI.schedT _ (get_mem hl)).1
        · simp [hxe] at hx ⊢; exact hI.firstT x hx
      · intro x v p hx
        simp only [setInst] at hx ⊢
        by_cases hxe : x = e
        · simp [hxe] at hx
        · simp [hxe] at hx; exact hI.runningT x v p hx
    · cases hs
  | start e =>
    simp only [Model.Epoch.step] at hs
    split at hs
    · rename_i hw
      split at hs
      · rename_i hready
        cases hs
        have hf := hI.firstT e (by rw [hw]; simp)
        rw [startReady_iff, hf] at hready
        refine { hI with firstT := ?_, runningT := ?_ }
        · intro x hx
          simp only [setInst] at hx ⊢
          by_cases hxe : x = e
          · subst hxe; exact hf
          · simp [hxe] at hx; exact hI.firstT x hx
        · intro x v p hx
          simp only [setInst] at hx ⊢
          by_cases hxe : x = e
          · subst hxe; exact hready
          · simp [hxe] at hx; exact hI.runningT x v p hx
      · cases hs
    · cases hs
  | timeout e =>
    simp only [Model.Epoch.step] at hs
    split at hs
    · rename_i v p hrun
      cases hs; exact hI.write hrun _ _ _
    · cases hs
  | vote e view number tag =>
    simp only [Model.Epoch.step] at hs
    split at hs
    · rename_i cv p hrun
      split at hs
      · cases hs; exact hI.write hrun _ _ _
      · cases hs
    · cases hs
  | newView e view =>
    simp only [Model.Epoch.step] at hs
    split at hs
    · rename_i cv p hrun
      split at hs
      · cases hs; exact hI.write hrun _ _ _
      · cases hs
    · cases hs
  | queue =>
    simp only [Model.Epoch.step] at hs
    cases hs; exact { hI with }
  | persist =>
    simp only [Model.Epoch.step] at hs
    split at hs
    · cases hs
      refine { hI with runningT := ?_, bkT := ?_ }
      · intro x v p hx; have := hI.runningT x v p hx; simp only; omega
      · intro x st hx; have := hI.bkT x st hx; simp only; exact ⟨this.1, by omega⟩
    · cases hs
  | syncPersist =>
    simp only [Model.Epoch.step] at hs
    cases hs
    refine { hI with runningT := ?_, bkT := ?_ }
    · intro x v p hx; have := hI.runningT x v p hx; simp only; omega
    · intro x st hx; have := hI.bkT x st hx; simp only; exact ⟨this.1, by omega⟩
  | teardown e =>
    simp only [Model.Epoch.step] at hs
    split at hs
    · cases hs
    · rename_i hne
      split at hs
      · split at hs
        · split at hs
          · cases hs
            refine { hI with firstT := ?_, runningT := ?_ }
            · intro x hx
              simp only [setInst] at hx ⊢
              by_cases hxe : x = e
              · subst hxe; exact hI.firstT x (by intro h; exact hne (Or.inl h))
              · simp [hxe] at hx; exact hI.firstT x hx
            · intro x v p hx
              simp only [setInst] at hx
              by_cases hxe : x = e
              · simp [hxe] at hx
              · simp [hxe] at hx; exact hI.runningT x v p hx
          · cases hs
        · cases hs
      · cases hs
  | cancel e =>
    simp only [Model.Epoch.step] at hs
    split at hs
    · cases hs
    · rename_i hne
      cases hs
      refine { hI with firstT := ?_, runningT := ?_ }
      · intro x hx
        simp only [setInst] at hx ⊢
        by_cases hxe : x = e
        · subst hxe; exact hI.firstT x (by intro h; exact hne h)
        · simp [hxe] at hx; exact hI.firstT x hx
      · intro x v p hx
        simp only [setInst] at hx
        by_cases hxe : x = e
        · simp [hxe] at hx
        · simp [hxe] at hx; exact hI.runningT x v p hx
  | crash =>
    simp only [Model.Epoch.step] at hs
    cases hs
    refine { hI with schedT := mgrNew_schedT hI.staticT, firstT := ?_, runningT := ?_ }
    · intro x hx; simp at hx
    · intro x v p hx; simp at hx

theorem InvA.reach {T : Nat → Nat} {P : Node → Ev → Prop} {s : Node} (h : Reach T P s) : InvA T s := by
  induction h with
  | init st n h => exact InvA.init st n h
  | step _ hok _ hs ih => exact ih.step hok hs

/-! ### invariants that need prompt teardown -/

/-- a vote signed at view `b` is recorded by a durable state `(v, p)`: the state is in a later view, or in the same
view and no longer in `Prepare` -/
def Covered (b v : Nat) (p : Phase) : Prop := b < v ∨ (b = v ∧ p ≠ .prepare)

/-- `a` may be signed after `b`: epochs do not go back; within an epoch views do not go back, and a commit vote is
for a view strictly above everything signed before -/
def Later (a b : Signed) : Prop :=
  b.epoch ≤ a.epoch ∧ (b.epoch = a.epoch → b.view ≤ a.view ∧ (a.kind = .commit → b.view < a.view))

structure InvB (T : Nat → Nat) (s : Node) : Prop where
  a : InvA T s
  keep : ∀ e st, s.lastBackup e = some st → s.persistedNext < T (e + 1) → s.slot = some st
  live : ∀ e v p, s.inst e = .running v p → s.persistedNext < T (e + 1) →
    (∀ st, s.lastBackup e = some st → st.view = v ∧ st.phase = p) ∧ (s.lastBackup e = none → v = 0 ∧ p = .prepare)
  cover : ∀ sg ∈ s.signed, ∃ st, s.lastBackup sg.epoch = some st ∧ Covered sg.view st.view st.phase
  order : s.signed.Pairwise Later

theorem InvB.init {T : Nat → Nat} (static : Option (Nat × Nat)) (next : Nat)
    (h : ∀ fb c, static = some (fb, c) → fb = T 0) : InvB T (Node.init static next) where
  a := InvA.init static next h
  keep := by intro e st hs; simp [Node.init] at hs
  live := by intro e v p he; simp [Node.init] at he
  cover := by intro sg hs; simp [Node.init] at hs
  order := by simp [Node.init]

/-- a step that is not a durable write: the durable part only grows in `persistedNext`; an instance that is running
afterwards was running before, or has just been started from the slot -/
structure Quiet (s s' : Node) : Prop where
  slot : s'.slot = s.slot
  bk : s'.lastBackup = s.lastBackup
  signed : s'.signed = s.signed
  pers : s.persistedNext ≤ s'.persistedNext
  inst : ∀ e v p, s'.inst e = .running v p →
    s.inst e = .running v p ∨ restore s.slot e = .running v p

theorem InvB.quiet {T : Nat → Nat} {s s' : Node} (hI : InvB T s) (ha : InvA T s') (hq : Quiet s s') : InvB T s' := by
  refine ⟨ha, ?_, ?_, ?_, ?_⟩
  · intro e st hb hp
    rw [hq.bk] at hb; rw [hq.slot]
    exact hI.keep e st hb (by have := hq.pers; omega)
  · intro e v p hr hp
    rw [hq.bk]
    have hp' : s.persistedNext < T (e + 1) := by have := hq.pers; omega
    rcases hq.inst e v p hr with h | h
    · exact hI.live e v p h hp'
    · unfold restore at h
      constructor
      · intro st hb
        have hslot := hI.keep e st hb hp'
        have hep := (hI.a.bkT e st hb).1
        simp [stored, hslot, hep] at h
        exact h
      · intro hb
        cases hsl : s.slot with
        | none =>
          simp [stored, hsl, RState.default] at h
          exact ⟨h.1.symm, h.2.symm⟩
        | some st' =>
          have := hI.a.slotBk st' hsl
          simp only [stored, hsl] at h
          by_cases hep : st'.epoch = e
          · rw [hep, hb] at this; cases this
          · simp [hep, RState.default] at h
            exact ⟨h.1.symm, h.2.symm⟩
  · intro sg hs
    rw [hq.signed] at hs; rw [hq.bk]
    exact hI.cover sg hs
  · rw [hq.signed]; exact hI.order

/-- what the three writing handlers have in common -/
structure WriteOk (e cv : Nat) (pp : Phase) (v : Nat) (p : Phase) (sg : Option Signed) : Prop where
  adv : ∀ b, Covered b cv pp → Covered b v p
  sig : ∀ x, sg = some x → x.epoch = e ∧ x.view = v ∧ p ≠ .prepare ∧
    ∀ b, Covered b cv pp → b ≤ v ∧ (x.kind = .commit → b < v)

theorem write_signed (s : Node) (e v : Nat) (p : Phase) (sg : Option Signed) :
    (write s e v p sg).signed = (match sg with | some x => x :: s.signed | none => s.signed) := by
  cases sg <;> rfl

theorem InvB.write {T : Nat → Nat} (hm : Mono T) {s : Node} (hI : InvB T s) {e cv : Nat} {pp : Phase}
    (hrun : s.inst e = .running cv pp) (hP : s.persistedNext < T (e + 1))
    {v : Nat} {p : Phase} {sg : Option Signed} (hw : WriteOk e cv pp v p sg) :
    InvB T (write s e v p sg) := by
  obtain ⟨f1, f2, f3, f4, f5, f6, f7⟩ := write_fields s e v p sg
  have hlive := hI.live e cv pp hrun hP
  -- every earlier signature of epoch `e` is covered by the state the instance is in
  have hold : ∀ b ∈ s.signed, b.epoch = e → Covered b.view cv pp := by
    intro b hb hbe
    obtain ⟨st, hst, hc⟩ := hI.cover b hb
    rw [hbe] at hst
    obtain ⟨h1, h2⟩ := hlive.1 st hst
    rw [h1, h2] at hc; exact hc
  refine ⟨hI.a.write hrun v p sg, ?_, ?_, ?_, ?_⟩
  · intro x st hb hp
    rw [f7] at hb; rw [f3] at hp; rw [f5]
    by_cases hxe : x = e
    · simp [hxe] at hb; rw [hb]
    · simp [hxe] at hb
      exfalso
      have hbx := (hI.a.bkT x st hb).2
      have hre := hI.a.runningT e cv pp hrun
      rcases Nat.lt_or_gt_of_ne hxe with hlt | hgt
      · -- x < e: e is running, so the first block of e (≥ T (x+1)) is persisted
        have h1 : T (x + 1) ≤ T e := hm.le (by omega)
        have h2 : T x < T (x + 1) := hm x
        omega
      · -- e < x: prompt teardown
        have h1 : T (e + 1) ≤ T x := hm.le (by omega)
        have h2 : T e < T (e + 1) := hm e
        omega
  · intro x v' p' hr hp
    rw [f6] at hr; rw [f7]; rw [f3] at hp
    by_cases hxe : x = e
    · simp [hxe] at hr ⊢; exact ⟨hr.1, hr.2⟩
    · simp [hxe] at hr ⊢; exact hI.live x v' p' hr hp
  · intro b hb
    rw [write_signed] at hb; rw [f7]
    have old : ∀ b ∈ s.signed, ∃ st, (if b.epoch = e then some (⟨e, v, p⟩ : RState) else s.lastBackup b.epoch) = some st ∧
        Covered b.view st.view st.phase := by
      intro b hb
      by_cases hbe : b.epoch = e
      · simp only [hbe, if_true]
        exact ⟨_, rfl, hw.adv _ (hold b hb hbe)⟩
      · simp only [hbe, if_false]; exact hI.cover b hb
    cases sg with
    | none => exact old b hb
    | some x =>
      rcases List.mem_cons.mp hb with hb | hb
      · obtain ⟨h1, h2, h3, _⟩ := hw.sig x rfl
        subst hb
        simp only [h1, if_true]
        exact ⟨_, rfl, Or.inr ⟨h2, h3⟩⟩
      · exact old b hb
  · rw [write_signed]
    cases sg with
    | none => exact hI.order
    | some x =>
      obtain ⟨h1, h2, _, h4⟩ := hw.sig x rfl
      refine List.pairwise_cons.mpr ⟨?_, hI.order⟩
      intro b hb
      obtain ⟨st, hst, _⟩ := hI.cover b hb
      have hbx := (hI.a.bkT b.epoch st hst).2
      have hle : b.epoch ≤ e := by
        by_cases hc : b.epoch ≤ e
        · exact hc
        · exfalso
          have h5 : T (e + 1) ≤ T b.epoch := hm.le (by omega)
          have h6 : T e < T (e + 1) := hm e
          omega
      refine ⟨by rw [h1]; exact hle, ?_⟩
      intro hbe
      rw [h1] at hbe
      have := h4 b.view (hold b hb hbe)
      rw [h2]; exact this

theorem proposalFresh_iff (cv : Nat) (p : Phase) (view : Nat) :
    proposalFresh cv p view = true ↔ ¬ view < cv ∧ (view = cv → p = .prepare) := by
  unfold proposalFresh
  cases p <;> simp <;> omega

theorem writeOk_timeout (e cv : Nat) (pp : Phase) :
    WriteOk e cv pp cv .timeout (some { epoch := e, view := cv, kind := .timeout, tag := 0 }) := by
  constructor
  · intro b hb
    rcases hb with hb | hb
    · exact Or.inl hb
    · exact Or.inr ⟨hb.1, by simp⟩
  · intro x hx; cases hx
    refine ⟨rfl, rfl, by simp, ?_⟩
    intro b hb
    refine ⟨?_, by simp⟩
    rcases hb with hb | hb <;> omega

theorem writeOk_vote (e cv : Nat) (pp : Phase) (view tag : Nat) (hf : proposalFresh cv pp view = true) :
    WriteOk e cv pp view .commit (some { epoch := e, view := view, kind := .commit, tag := tag }) := by
  rw [proposalFresh_iff] at hf
  have key : ∀ b, Covered b cv pp → b < view := by
    intro b hb
    rcases hb with hb | ⟨hb1, hb2⟩
    · omega
    · have : view ≠ cv := fun h => hb2 (hf.2 h)
      omega
  constructor
  · intro b hb; exact Or.inl (key b hb)
  · intro x hx; cases hx
    refine ⟨rfl, rfl, by simp, ?_⟩
    intro b hb
    have := key b hb
    exact ⟨by omega, fun _ => this⟩

theorem writeOk_newView (e cv : Nat) (pp : Phase) (view : Nat) (h : cv < view) :
    WriteOk e cv pp view .prepare none := by
  constructor
  · intro b hb
    rcases hb with hb | hb
    · exact Or.inl (by omega)
    · exact Or.inl (by omega)
  · intro x hx; cases hx

theorem InvB.step {T : Nat → Nat} (hm : Mono T) {s s' : Node} {ev : Ev} (hI : InvB T s) (hok : EvOk T s ev)
    (hp : Prompt T s ev) (hs : step s ev = some s') : InvB T s' := by
  have ha := hI.a.step hok hs
  cases ev with
  | runnerInit last act com =>
    simp only [Model.Epoch.step] at hs
    split at hs
    · cases hs
    · cases hs
      exact hI.quiet ha ⟨rfl, rfl, rfl, Nat.le_refl _, fun e v p h => Or.inl h⟩
  | poll pending =>
    simp only [Model.Epoch.step] at hs
    split at hs
    · cases hs
    · split at hs
      · cases hs
        exact hI.quiet ha ⟨rfl, rfl, rfl, Nat.le_refl _, fun e v p h => Or.inl h⟩
      · cases hs
  | spawn e =>
    simp only [Model.Epoch.step] at hs
    split at hs
    · cases hs
      refine hI.quiet ha ⟨rfl, rfl, rfl, Nat.le_refl _, ?_⟩
      intro x v p h
      simp only [setInst] at h
      by_cases hxe : x = e
      · simp [hxe] at h
      · simp [hxe] at h; exact Or.inl h
    · cases hs
  | start e =>
    simp only [Model.Epoch.step] at hs
    split at hs
    · split at hs
      · cases hs
        refine hI.quiet ha ⟨rfl, rfl, rfl, Nat.le_refl _, ?_⟩
        intro x v p h
        simp only [setInst] at h
        by_cases hxe : x = e
        · subst hxe; simp at h; exact Or.inr h
        · simp [hxe] at h; exact Or.inl h
      · cases hs
    · cases hs
  | timeout e =>
    simp only [Model.Epoch.step] at hs
    split at hs
    · rename_i v p hrun
      cases hs; exact hI.write hm hrun hp (writeOk_timeout e v p)
    · cases hs
  | vote e view number tag =>
    simp only [Model.Epoch.step] at hs
    split at hs
    · rename_i cv p hrun
      split at hs
      · rename_i hc
        cases hs
        simp only [Bool.and_eq_true] at hc
        exact hI.write hm hrun hp (writeOk_vote e cv p view tag hc.1)
      · cases hs
    · cases hs
  | newView e view =>
    simp only [Model.Epoch.step] at hs
    split at hs
    · rename_i cv p hrun
      split at hs
      · rename_i hc
        cases hs; exact hI.write hm hrun hp (writeOk_newView e cv p view hc)
      · cases hs
    · cases hs
  | queue =>
    simp only [Model.Epoch.step] at hs
    cases hs
    exact hI.quiet ha ⟨rfl, rfl, rfl, Nat.le_refl _, fun e v p h => Or.inl h⟩
  | persist =>
    simp only [Model.Epoch.step] at hs
    split at hs
    · cases hs
      exact hI.quiet ha ⟨rfl, rfl, rfl, Nat.le_succ _, fun e v p h => Or.inl h⟩
    · cases hs
  | syncPersist =>
    simp only [Model.Epoch.step] at hs
    cases hs
    exact hI.quiet ha ⟨rfl, rfl, rfl, Nat.le_succ _, fun e v p h => Or.inl h⟩
  | teardown e =>
    simp only [Model.Epoch.step] at hs
    split at hs
    · cases hs
    · split at hs
      · split at hs
        · split at hs
          · cases hs
            refine hI.quiet ha ⟨rfl, rfl, rfl, Nat.le_refl _, ?_⟩
            intro x v p h
            simp only [setInst] at h
            by_cases hxe : x = e
            · simp [hxe] at h
            · simp [hxe] at h; exact Or.inl h
          · cases hs
        · cases hs
      · cases hs
  | cancel e =>
    simp only [Model.Epoch.step] at hs
    split at hs
    · cases hs
    · cases hs
      refine hI.quiet ha ⟨rfl, rfl, rfl, Nat.le_refl _, ?_⟩
      intro x v p h
      simp only [setInst] at h
      by_cases hxe : x = e
      · simp [hxe] at h
      · simp [hxe] at h; exact Or.inl h
  | crash =>
    simp only [Model.Epoch.step] at hs
    cases hs
    refine hI.quiet ha ⟨rfl, rfl, rfl, Nat.le_refl _, ?_⟩
    intro x v p h
    simp at h

theorem InvB.reach {T : Nat → Nat} (hm : Mono T) {s : Node} (h : Reach T (Prompt T) s) : InvB T s := by
  induction h with
  | init st n h => exact InvB.init st n h
  | step _ hok hp hs ih => exact ih.step hm hok hp hs

end EraVerif.Proofs.Epoch
