import EraVerif.Proofs.Epoch

/-!
Helper lemmas for `Props/Epoch.lean`, part (b): invariants of the node model (`Model/Epoch.lean`, `step`) over
every event list whose provider answers agree with one activation table `T`.
-/

namespace EraVerif.Proofs.Epoch
open EraVerif.Model.Epoch

/-- activations strictly increase from one epoch to the next -/
def Mono (T : Nat → Nat) : Prop := ∀ e, T e < T (e + 1)

theorem Mono.le {T : Nat → Nat} (h : Mono T) {a b : Nat} (hab : a ≤ b) : T a ≤ T b := by
  induction hab with
  | refl => exact Nat.le_refl _
  | step _ ih => exact Nat.le_trans ih (Nat.le_of_lt (h _))

theorem Mono.lt {T : Nat → Nat} (h : Mono T) {a b : Nat} (hab : a < b) : T a < T b :=
  Nat.lt_of_lt_of_le (h a) (h.le hab)

theorem Mono.lt_of {T : Nat → Nat} (h : Mono T) {a b : Nat} (hab : T a < T b) : a < b := by
  by_cases hc : a < b
  · exact hc
  · have := h.le (Nat.le_of_not_lt hc); omega

/-- The provider's answers agree with the table: the schedule inserted for an epoch activates at `T epoch`. -/
def EvOk (T : Nat → Nat) (s : Node) : Ev → Prop
  | .runnerInit last act _ => act = T (curOf last)
  | .poll (some (pact, _)) => pact = T (s.cur + 1)
  | _ => True

/-- the view-0 bootstrap state of an instance (`run` makes it durable before anything else) -/
def Boot (st : RState) : Prop := st.view = 0 ∧ st.phase = .timeout

/-- What is still assumed of an instance that has been overtaken (an instance of a later epoch made a durable write
during its life — its own epoch is over, its teardown is on the way): a durable write of its in-flight handler lands
only while every later epoch's last backup is still the view-0 bootstrap state. -/
def BenignAt (s : Node) (e : Nat) : Prop :=
  s.overtaken e = true → ∀ x st, e < x → s.lastBackup x = some st → Boot st

def Benign (s : Node) : Ev → Prop
  | .timeout e => BenignAt s e
  | .vote e _ _ _ => BenignAt s e
  | .newView e _ => BenignAt s e
  | _ => True

/-- executable versions (for the checked example runs); `freshB`: the writer has not been overtaken — implies `Benign` -/
def evOkB (T : Nat → Nat) (s : Node) : Ev → Bool
  | .runnerInit last act _ => decide (act = T (curOf last))
  | .poll (some (pact, _)) => decide (pact = T (s.cur + 1))
  | _ => true

def freshB (s : Node) : Ev → Bool
  | .timeout e => !s.overtaken e
  | .vote e _ _ _ => !s.overtaken e
  | .newView e _ => !s.overtaken e
  | _ => true

theorem evOkB_sound {T : Nat → Nat} {s : Node} {ev : Ev} (h : evOkB T s ev = true) : EvOk T s ev := by
  cases ev with
  | runnerInit last act com => simpa [evOkB, EvOk] using h
  | poll pending =>
    cases pending with
    | none => trivial
    | some pc => obtain ⟨a, b⟩ := pc; simpa [evOkB, EvOk] using h
  | _ => trivial

theorem freshB_sound {s : Node} {ev : Ev} (h : freshB s ev = true) : Benign s ev := by
  cases ev with
  | timeout e => intro ho; simp [freshB, ho] at h
  | vote e v n t => intro ho; simp [freshB, ho] at h
  | newView e v => intro ho; simp [freshB, ho] at h
  | _ => trivial

/-- States reachable from a fresh node by any event list whose answers agree with `T` and whose events satisfy `P`
(`fun _ _ => True`: no assumption; `Benign`). `legacy = true`: the `start` rule of before fix a8b4c3e. -/
inductive Reach (T : Nat → Nat) (legacy : Bool) (P : Node → Ev → Prop) : Node → Prop
  | init (static : Option (Nat × Nat)) (next : Nat) (h : ∀ fb c, static = some (fb, c) → fb = T 0) :
      Reach T legacy P (Node.init static next)
  | step {s s' : Node} {ev : Ev} : Reach T legacy P s → EvOk T s ev → P s ev → stepG legacy s ev = some s' →
      Reach T legacy P s'

theorem Reach.weaken {T : Nat → Nat} {legacy : Bool} {P : Node → Ev → Prop} {s : Node} (h : Reach T legacy P s) :
    Reach T legacy (fun _ _ => True) s := by
  induction h with
  | init st n h => exact .init st n h
  | step _ hok _ hs ih => exact .step ih hok trivial hs

/-! ### membership in the map operations -/

theorem mem_schedInsert {s : Sched} {e : Nat} {l : Life} {p : Nat × Life} (h : p ∈ schedInsert s e l) :
    p = (e, l) ∨ p ∈ s := by
  induction s with
  | nil => simp [schedInsert] at h; exact Or.inl h
  | cons a t ih =>
    obtain ⟨k, v⟩ := a
    simp only [schedInsert] at h
    split at h
    · rcases List.mem_cons.mp h with h | h
      · exact Or.inl h
      · exact Or.inr h
    · split at h
      · rcases List.mem_cons.mp h with h | h
        · exact Or.inl h
        · exact Or.inr (List.mem_cons_of_mem _ h)
      · rcases List.mem_cons.mp h with h | h
        · exact Or.inr (by rw [h]; simp)
        · rcases ih h with h | h
          · exact Or.inl h
          · exact Or.inr (List.mem_cons_of_mem _ h)

theorem mem_setExp {s : Sched} {e x : Nat} {p : Nat × Life} (h : p ∈ setExp s e x) :
    p ∈ s ∨ (p.1 = e ∧ p.2.exp = some x ∧ ∃ l, (e, l) ∈ s ∧ p.2.act = l.act) := by
  induction s with
  | nil => simp [setExp] at h
  | cons a t ih =>
    obtain ⟨k, v⟩ := a
    simp only [setExp] at h
    split at h
    · rename_i hk
      rcases List.mem_cons.mp h with h | h
      · subst h; exact Or.inr ⟨hk, rfl, v, by simp [hk], rfl⟩
      · exact Or.inl (List.mem_cons_of_mem _ h)
    · rcases List.mem_cons.mp h with h | h
      · exact Or.inl (by rw [h]; simp)
      · rcases ih h with h | ⟨h1, h2, l, hl, h3⟩
        · exact Or.inl (List.mem_cons_of_mem _ h)
        · exact Or.inr ⟨h1, h2, l, List.mem_cons_of_mem _ hl, h3⟩

theorem mem_prune {s : Sched} {head : Nat} {p : Nat × Life} (h : p ∈ prune s head) : p ∈ s := by
  unfold prune at h
  split at h
  · split at h
    · exact List.mem_cons_of_mem _ h
    · exact h
  · exact h

/-- every entry activates at `T epoch`, and a known expiration is the block before `T (epoch+1)` -/
def SchedT (T : Nat → Nat) (s : Sched) : Prop :=
  ∀ p ∈ s, p.2.act = T p.1 ∧ ∀ x, p.2.exp = some x → x + 1 = T (p.1 + 1)

theorem SchedT.insert {T : Nat → Nat} {s : Sched} (h : SchedT T s) (e act com : Nat) (ha : act = T e) :
    SchedT T (schedInsert s e { act := act, exp := none, com := com }) := by
  intro p hp
  rcases mem_schedInsert hp with hp | hp
  · subst hp; exact ⟨ha, by simp⟩
  · exact h p hp

theorem SchedT.poll {T : Nat → Nat} {r r' : Runner} {head : Nat} {pending : Option (Nat × Nat)} {asked : Bool}
    (h : SchedT T r.sched) (hp : ∀ pact pcom, pending = some (pact, pcom) → pact = T (r.cur + 1))
    (hr : runnerPoll r head pending = .ok r' asked) : SchedT T r'.sched := by
  unfold runnerPoll at hr
  split at hr
  · cases hr
  · split at hr
    · split at hr
      · cases hr; exact h
      · rename_i pact pcom
        have hpa := hp pact pcom rfl
        have h1 := h.insert (r.cur + 1) pact pcom hpa
        simp only at hr
        split at hr
        · split at hr
          · cases hr
          · rename_i k
            cases hr
            intro p hp
            rcases mem_setExp (mem_prune hp) with hp | ⟨hk, hx, l, hl, hact⟩
            · exact h1 p hp
            · refine ⟨?_, ?_⟩
              · rw [hact, hk]; exact (h1 (r.cur, l) hl).1
              · intro x hx'; rw [hx] at hx'; cases hx'; rw [hk]; omega
        · cases hr
          intro p hp
          exact h1 p (mem_prune hp)
    · cases hr; exact h

/-! ### invariants that hold for the code as it is -/

structure InvA (T : Nat → Nat) (s : Node) : Prop where
  staticT : ∀ fb c, s.static = some (fb, c) → fb = T 0
  schedT : SchedT T s.sched
  firstT : ∀ e, s.inst e ≠ .absent → s.first e = T e
  runningT : ∀ e v p, s.inst e = .running v p → T e = 0 ∨ T e ≤ s.persistedNext
  slotBk : ∀ st, s.slot = some st → s.lastBackup st.epoch = some st
  bkT : ∀ e st, s.lastBackup e = some st → st.epoch = e ∧ (T e = 0 ∨ T e ≤ s.persistedNext)

theorem mgrNew_schedT {T : Nat → Nat} {static : Option (Nat × Nat)} (h : ∀ fb c, static = some (fb, c) → fb = T 0) :
    SchedT T (mgrNew static) := by
  unfold mgrNew
  split
  · rename_i fb c
    intro p hp
    simp at hp; subst hp
    exact ⟨h fb c rfl, by simp⟩
  · intro p hp; simp at hp

theorem InvA.init {T : Nat → Nat} (static : Option (Nat × Nat)) (next : Nat)
    (h : ∀ fb c, static = some (fb, c) → fb = T 0) : InvA T (Node.init static next) where
  staticT := h
  schedT := mgrNew_schedT h
  firstT := by intro e he; simp [Node.init] at he
  runningT := by intro e v p he; simp [Node.init] at he
  slotBk := by intro st hs; simp [Node.init] at hs
  bkT := by intro e st hs; simp [Node.init] at hs

theorem startReady_iff (f n : Nat) : startReady f n = true ↔ f = 0 ∨ f ≤ n := by
  unfold startReady
  cases f with
  | zero => simp
  | succ p => simp; omega

/-- the state after a durable write of the instance of epoch `e` -/
theorem write_fields (s : Node) (e v : Nat) (p : Phase) (sg : Option Signed) :
    (write s e v p sg).static = s.static ∧ (write s e v p sg).sched = s.sched ∧
    (write s e v p sg).persistedNext = s.persistedNext ∧ (write s e v p sg).first = s.first ∧
    (write s e v p sg).slot = some ⟨e, v, p⟩ ∧
    (write s e v p sg).inst = (fun x => if x = e then .running v p else s.inst x) ∧
    (write s e v p sg).lastBackup = (fun x => if x = e then some ⟨e, v, p⟩ else s.lastBackup x) ∧
    (write s e v p sg).overtaken = (fun x => if x < e then true else s.overtaken x) := by
  simp [write, setInst, backup]

theorem InvA.write {T : Nat → Nat} {s : Node} (hI : InvA T s) {e cv : Nat} {pp : Phase}
    (hrun : s.inst e = .running cv pp) (v : Nat) (p : Phase) (sg : Option Signed) :
    InvA T (write s e v p sg) := by
  obtain ⟨f1, f2, f3, f4, f5, f6, f7, _⟩ := write_fields s e v p sg
  have hT := hI.runningT e cv pp hrun
  constructor
  · rw [f1]; exact hI.staticT
  · rw [f2]; exact hI.schedT
  · intro x hx; rw [f4]; rw [f6] at hx
    by_cases hxe : x = e
    · subst hxe; exact hI.firstT x (by rw [hrun]; simp)
    · simp [hxe] at hx; exact hI.firstT x hx
  · intro x v' p' hx; rw [f3]; rw [f6] at hx
    by_cases hxe : x = e
    · subst hxe; exact hT
    · simp [hxe] at hx; exact hI.runningT x v' p' hx
  · intro st hs; rw [f5] at hs; cases hs; rw [f7]; simp
  · intro x st hs; rw [f7] at hs; rw [f3]
    by_cases hxe : x = e
    · subst hxe; simp at hs; subst hs; exact ⟨rfl, hT⟩
    · simp [hxe] at hs; exact hI.bkT x st hs

theorem InvA.step {T : Nat → Nat} {legacy : Bool} {s s' : Node} {ev : Ev} (hI : InvA T s) (hok : EvOk T s ev)
    (hs : stepG legacy s ev = some s') : InvA T s' := by
  cases ev with
  | runnerInit last act com =>
    simp only [stepG] at hs
    split at hs
    · cases hs
    · cases hs
      exact { hI with schedT := hI.schedT.insert _ _ _ hok }
  | poll pending =>
    simp only [stepG] at hs
    split at hs
    · cases hs
    · split at hs
      · rename_i r asked hr
        cases hs
        refine { hI with schedT := SchedT.poll (r := ⟨s.sched, s.cur⟩) hI.schedT ?_ hr }
        intro pact pcom hp; subst hp; exact hok
      · cases hs
  | spawn e =>
    simp only [stepG] at hs
    split at hs
    · rename_i l habs hl
      cases hs
      refine { hI with firstT := ?_, runningT := ?_ }
      · intro x hx
        simp only [setInst] at hx ⊢
        by_cases hxe : x = e
        · subst hxe; simp; exact (hI.schedT _ (get_mem hl)).1
        · simp [hxe] at hx ⊢; exact hI.firstT x hx
      · intro x v p hx
        simp only [setInst] at hx ⊢
        by_cases hxe : x = e
        · simp [hxe] at hx
        · simp [hxe] at hx; exact hI.runningT x v p hx
    · cases hs
  | start e =>
    simp only [stepG] at hs
    split at hs
    · rename_i hw
      split at hs
      · rename_i hready
        cases hs
        have hf := hI.firstT e (by rw [hw]; simp)
        rw [startReady_iff, hf] at hready
        refine { hI with firstT := ?_, runningT := ?_ }
        · intro x hx
          simp only [setInst] at hx ⊢
          by_cases hxe : x = e
          · subst hxe; exact hf
          · simp [hxe] at hx; exact hI.firstT x hx
        · intro x v p hx
          simp only [setInst] at hx ⊢
          by_cases hxe : x = e
          · subst hxe; exact hready
          · simp [hxe] at hx; exact hI.runningT x v p hx
      · cases hs
    · cases hs
  | timeout e =>
    simp only [stepG] at hs
    split at hs
    · rename_i v p hrun
      cases hs; exact hI.write hrun _ _ _
    · cases hs
  | vote e view number tag =>
    simp only [stepG] at hs
    split at hs
    · rename_i cv p hrun
      split at hs
      · cases hs; exact hI.write hrun _ _ _
      · cases hs
    · cases hs
  | newView e view =>
    simp only [stepG] at hs
    split at hs
    · rename_i cv p hrun
      split at hs
      · cases hs; exact hI.write hrun _ _ _
      · cases hs
    · cases hs
  | queue =>
    simp only [stepG] at hs
    cases hs; exact { hI with }
  | persist =>
    simp only [stepG] at hs
    split at hs
    · cases hs
      refine { hI with runningT := ?_, bkT := ?_ }
      · intro x v p hx; have := hI.runningT x v p hx; simp only; omega
      · intro x st hx; have := hI.bkT x st hx; simp only; exact ⟨this.1, by omega⟩
    · cases hs
  | syncPersist =>
    simp only [stepG] at hs
    cases hs
    refine { hI with runningT := ?_, bkT := ?_ }
    · intro x v p hx; have := hI.runningT x v p hx; simp only; omega
    · intro x st hx; have := hI.bkT x st hx; simp only; exact ⟨this.1, by omega⟩
  | teardown e =>
    simp only [stepG] at hs
    split at hs
    · cases hs
    · rename_i hne
      split at hs
      · split at hs
        · split at hs
          · cases hs
            refine { hI with firstT := ?_, runningT := ?_ }
            · intro x hx
              simp only [setInst] at hx ⊢
              by_cases hxe : x = e
              · subst hxe; exact hI.firstT x (by intro h; exact hne (Or.inl h))
              · simp [hxe] at hx; exact hI.firstT x hx
            · intro x v p hx
              simp only [setInst] at hx
              by_cases hxe : x = e
              · simp [hxe] at hx
              · simp [hxe] at hx; exact hI.runningT x v p hx
          · cases hs
        · cases hs
      · cases hs
  | cancel e =>
    simp only [stepG] at hs
    split at hs
    · cases hs
    · rename_i hne
      cases hs
      refine { hI with firstT := ?_, runningT := ?_ }
      · intro x hx
        simp only [setInst] at hx ⊢
        by_cases hxe : x = e
        · subst hxe; exact hI.firstT x (by intro h; exact hne h)
        · simp [hxe] at hx; exact hI.firstT x hx
      · intro x v p hx
        simp only [setInst] at hx
        by_cases hxe : x = e
        · simp [hxe] at hx
        · simp [hxe] at hx; exact hI.runningT x v p hx
  | crash =>
    simp only [stepG] at hs
    cases hs
    refine { hI with schedT := mgrNew_schedT hI.staticT, firstT := ?_, runningT := ?_ }
    · intro x hx; simp at hx
    · intro x v p hx; simp at hx

theorem InvA.reach {T : Nat → Nat} {legacy : Bool} {P : Node → Ev → Prop} {s : Node} (h : Reach T legacy P s) :
    InvA T s := by
  induction h with
  | init st n h => exact InvA.init st n h
  | step _ hok _ hs ih => exact ih.step hok hs

/-! ### invariants of the repaired code under `Benign` -/

/-- a vote signed at view `b` is recorded by a durable state `(v, p)`: the state is in a later view, or in the same
view and no longer in `Prepare` -/
def Covered (b v : Nat) (p : Phase) : Prop := b < v ∨ (b = v ∧ p ≠ .prepare)

/-- `a` may be signed after `b`: within an epoch views do not go back, and a commit vote is for a view strictly
above everything signed in the epoch before -/
def Later (a b : Signed) : Prop :=
  b.epoch = a.epoch → b.view ≤ a.view ∧ (a.kind = .commit → b.view < a.view)

structure InvB (T : Nat → Nat) (s : Node) : Prop where
  a : InvA T s
  /-- a running instance below the slot's epoch has been overtaken during its life -/
  ov : ∀ e v p, s.inst e = .running v p → ∀ st, s.slot = some st → e < st.epoch → s.overtaken e = true
  /-- the slot holds the state of the highest epoch that made more than its bootstrap backup -/
  top : ∀ e st, s.lastBackup e = some st → (∃ st', s.slot = some st' ∧ e ≤ st'.epoch) ∨ Boot st
  /-- a running instance is where its epoch's last backup is, or at the default state if that backup is the bootstrap one -/
  live : ∀ e v p, s.inst e = .running v p →
    (∀ st, s.lastBackup e = some st → (st.view = v ∧ st.phase = p) ∨ (Boot st ∧ v = 0 ∧ p = .prepare)) ∧
    (s.lastBackup e = none → v = 0 ∧ p = .prepare)
  cover : ∀ sg ∈ s.signed, ∃ st, s.lastBackup sg.epoch = some st ∧ Covered sg.view st.view st.phase
  order : s.signed.Pairwise Later

theorem InvB.init {T : Nat → Nat} (static : Option (Nat × Nat)) (next : Nat)
    (h : ∀ fb c, static = some (fb, c) → fb = T 0) : InvB T (Node.init static next) where
  a := InvA.init static next h
  ov := by intro e v p he; simp [Node.init] at he
  top := by intro e st hs; simp [Node.init] at hs
  live := by intro e v p he; simp [Node.init] at he
  cover := by intro sg hs; simp [Node.init] at hs
  order := by simp [Node.init]

theorem restore_running {slot : Option RState} {e v : Nat} {p : Phase} (h : restore slot e = .running v p) :
    (∃ b, slot = some b ∧ b.epoch = e ∧ b.view = v ∧ b.phase = p) ∨
    ((∀ b, slot = some b → b.epoch < e) ∧ v = 0 ∧ p = .prepare) := by
  unfold restore at h
  cases hs : slot with
  | none =>
    simp only [stored, hs] at h
    right
    refine ⟨(by intro b hb; cases hb), ?_⟩
    split at h
    · simp [RState.default] at h; exact ⟨h.1.symm, h.2.symm⟩
    · split at h
      · cases h
      · simp [RState.default] at h; exact ⟨h.1.symm, h.2.symm⟩
  | some b =>
    simp only [stored, hs] at h
    split at h
    · rename_i he
      left
      simp at h
      exact ⟨b, rfl, he, h.1, h.2⟩
    · split at h
      · cases h
      · rename_i h1 h2
        right
        simp [RState.default] at h
        refine ⟨?_, h.1.symm, h.2.symm⟩
        intro b' hb'; cases hb'; omega

/-- a step that is not a durable write: the durable part only grows in `persistedNext`; an instance that is running
afterwards was running before (with the same `overtaken` flag), or has just been started from the slot -/
structure Quiet (s s' : Node) : Prop where
  slot : s'.slot = s.slot
  bk : s'.lastBackup = s.lastBackup
  signed : s'.signed = s.signed
  inst : ∀ e v p, s'.inst e = .running v p →
    (s.inst e = .running v p ∧ s'.overtaken e = s.overtaken e) ∨ restore s.slot e = .running v p

theorem InvB.quiet {T : Nat → Nat} {s s' : Node} (hI : InvB T s) (ha : InvA T s') (hq : Quiet s s') : InvB T s' := by
  refine ⟨ha, ?_, ?_, ?_, ?_, ?_⟩
  · intro e v p hr st hs hlt
    rw [hq.slot] at hs
    rcases hq.inst e v p hr with ⟨h, ho⟩ | h
    · rw [ho]; exact hI.ov e v p h st hs hlt
    · exfalso
      rcases restore_running h with ⟨b, hb, hbe, _, _⟩ | ⟨hb, _, _⟩
      · rw [hs] at hb; cases hb; omega
      · have := hb st hs; omega
  · intro e st hb
    rw [hq.bk] at hb; rw [hq.slot]
    exact hI.top e st hb
  · intro e v p hr
    rw [hq.bk]
    rcases hq.inst e v p hr with ⟨h, _⟩ | h
    · exact hI.live e v p h
    · rcases restore_running h with ⟨b, hb, hbe, hv, hp⟩ | ⟨hb, hv, hp⟩
      · have hbk := hI.a.slotBk b hb
        rw [hbe] at hbk
        constructor
        · intro st hst; rw [hbk] at hst; cases hst; exact Or.inl ⟨hv, hp⟩
        · intro hn; rw [hbk] at hn; cases hn
      · constructor
        · intro st hst
          rcases hI.top e st hst with ⟨st', hs', hle⟩ | hboot
          · have := hb st' hs'; omega
          · exact Or.inr ⟨hboot, hv, hp⟩
        · intro _; exact ⟨hv, hp⟩
  · intro sg hs
    rw [hq.signed] at hs; rw [hq.bk]
    exact hI.cover sg hs
  · rw [hq.signed]; exact hI.order

/-- what the three writing handlers have in common, relative to the state `(cv, pp)` that covers what was signed -/
structure WriteOk (e cv : Nat) (pp : Phase) (v : Nat) (p : Phase) (sg : Option Signed) : Prop where
  adv : ∀ b, Covered b cv pp → Covered b v p
  sig : ∀ x, sg = some x → x.epoch = e ∧ x.view = v ∧ p ≠ .prepare ∧
    ∀ b, Covered b cv pp → b ≤ v ∧ (x.kind = .commit → b < v)

/-- the state that covers the signatures of the epoch, given the state `(cv, pp)` the instance is in: the same, or
the bootstrap state if the instance restarted from the default state -/
def Eff (cv : Nat) (pp : Phase) (ecv : Nat) (epp : Phase) : Prop :=
  (ecv = cv ∧ epp = pp) ∨ (ecv = 0 ∧ epp = .timeout ∧ cv = 0 ∧ pp = .prepare)

theorem write_signed (s : Node) (e v : Nat) (p : Phase) (sg : Option Signed) :
    (write s e v p sg).signed = (match sg with | some x => x :: s.signed | none => s.signed) := by
  cases sg <;> rfl

theorem InvB.write {T : Nat → Nat} {s : Node} (hI : InvB T s) {e cv : Nat} {pp : Phase}
    (hrun : s.inst e = .running cv pp) (hP : BenignAt s e)
    {v : Nat} {p : Phase} {sg : Option Signed} (hw : ∀ ecv epp, Eff cv pp ecv epp → WriteOk e ecv epp v p sg) :
    InvB T (write s e v p sg) := by
  obtain ⟨f1, f2, f3, f4, f5, f6, f7, f8⟩ := write_fields s e v p sg
  have hlive := hI.live e cv pp hrun
  -- every earlier signature of epoch `e` is covered by the new state, and ordered before the new signature
  have hold : ∀ b ∈ s.signed, b.epoch = e → ∃ ecv epp, Eff cv pp ecv epp ∧ Covered b.view ecv epp := by
    intro b hb hbe
    obtain ⟨st, hst, hc⟩ := hI.cover b hb
    rw [hbe] at hst
    rcases hlive.1 st hst with ⟨h1, h2⟩ | ⟨⟨h1, h2⟩, h3, h4⟩
    · exact ⟨st.view, st.phase, Or.inl ⟨h1, h2⟩, hc⟩
    · exact ⟨st.view, st.phase, Or.inr ⟨h1, h2, h3, h4⟩, hc⟩
  refine ⟨hI.a.write hrun v p sg, ?_, ?_, ?_, ?_, ?_⟩
  · intro x v' p' hr st hs hlt
    rw [f5] at hs; cases hs
    rw [f8]
    simp only at hlt
    simp [hlt]
  · intro x st hb
    rw [f7] at hb; rw [f5]
    by_cases hxe : x = e
    · left; exact ⟨_, rfl, by simp [hxe]⟩
    · simp [hxe] at hb
      by_cases hlt : x < e
      · left; exact ⟨_, rfl, by simp; omega⟩
      · have hgt : e < x := by omega
        right
        rcases hI.top x st hb with ⟨st', hs', hle⟩ | hboot
        · have hov := hI.ov e cv pp hrun st' hs' (by omega)
          exact hP hov x st hgt hb
        · exact hboot
  · intro x v' p' hr
    rw [f6] at hr; rw [f7]
    by_cases hxe : x = e
    · simp [hxe] at hr ⊢; exact Or.inl ⟨hr.1, hr.2⟩
    · simp [hxe] at hr ⊢; exact hI.live x v' p' hr
  · intro b hb
    rw [write_signed] at hb; rw [f7]
    have old : ∀ b ∈ s.signed, ∃ st, (if b.epoch = e then some (⟨e, v, p⟩ : RState) else s.lastBackup b.epoch) = some st ∧
        Covered b.view st.view st.phase := by
      intro b hb
      by_cases hbe : b.epoch = e
      · simp only [hbe, if_true]
        obtain ⟨ecv, epp, heff, hc⟩ := hold b hb hbe
        exact ⟨_, rfl, (hw ecv epp heff).adv _ hc⟩
      · simp only [hbe, if_false]; exact hI.cover b hb
    cases sg with
    | none => exact old b hb
    | some x =>
      rcases List.mem_cons.mp hb with hb | hb
      · obtain ⟨h1, h2, h3, _⟩ := (hw cv pp (Or.inl ⟨rfl, rfl⟩)).sig x rfl
        subst hb
        simp only [h1, if_true]
        exact ⟨_, rfl, Or.inr ⟨h2, h3⟩⟩
      · exact old b hb
  · rw [write_signed]
    cases sg with
    | none => exact hI.order
    | some x =>
      obtain ⟨h1, h2, _, _⟩ := (hw cv pp (Or.inl ⟨rfl, rfl⟩)).sig x rfl
      refine List.pairwise_cons.mpr ⟨?_, hI.order⟩
      intro b hb hbe
      rw [h1] at hbe
      obtain ⟨ecv, epp, heff, hc⟩ := hold b hb hbe
      have := ((hw ecv epp heff).sig x rfl).2.2.2 b.view hc
      rw [h2]; exact this

theorem proposalFresh_iff (cv : Nat) (p : Phase) (view : Nat) :
    proposalFresh cv p view = true ↔ 1 ≤ view ∧ ¬ view < cv ∧ (view = cv → p = .prepare) := by
  unfold proposalFresh
  cases p <;> simp <;> omega

theorem writeOk_timeout (e cv : Nat) (pp : Phase) (ecv : Nat) (epp : Phase) (h : Eff cv pp ecv epp) :
    WriteOk e ecv epp cv .timeout (some { epoch := e, view := cv, kind := .timeout, tag := 0 }) := by
  have hcv : ecv = cv := by rcases h with h | h <;> omega
  subst hcv
  constructor
  · intro b hb
    rcases hb with hb | hb
    · exact Or.inl hb
    · exact Or.inr ⟨hb.1, by simp⟩
  · intro x hx; cases hx
    refine ⟨rfl, rfl, by simp, ?_⟩
    intro b hb
    refine ⟨?_, by simp⟩
    rcases hb with hb | hb <;> omega

theorem writeOk_vote (e cv : Nat) (pp : Phase) (view tag : Nat) (hf : proposalFresh cv pp view = true)
    (ecv : Nat) (epp : Phase) (h : Eff cv pp ecv epp) :
    WriteOk e ecv epp view .commit (some { epoch := e, view := view, kind := .commit, tag := tag }) := by
  rw [proposalFresh_iff] at hf
  have key : ∀ b, Covered b ecv epp → b < view := by
    intro b hb
    rcases h with ⟨h1, h2⟩ | ⟨h1, _, h3, _⟩
    · subst h1; subst h2
      rcases hb with hb | ⟨hb1, hb2⟩
      · omega
      · have : view ≠ ecv := fun h => hb2 (hf.2.2 h)
        omega
    · rcases hb with hb | ⟨hb1, _⟩ <;> omega
  constructor
  · intro b hb; exact Or.inl (key b hb)
  · intro x hx; cases hx
    refine ⟨rfl, rfl, by simp, ?_⟩
    intro b hb
    have := key b hb
    exact ⟨by omega, fun _ => this⟩

theorem writeOk_newView (e cv : Nat) (pp : Phase) (view : Nat) (hlt : cv < view)
    (ecv : Nat) (epp : Phase) (h : Eff cv pp ecv epp) :
    WriteOk e ecv epp view .prepare none := by
  have hcv : ecv = cv := by rcases h with h | h <;> omega
  subst hcv
  constructor
  · intro b hb
    rcases hb with hb | hb
    · exact Or.inl (by omega)
    · exact Or.inl (by omega)
  · intro x hx; cases hx

theorem InvB.step {T : Nat → Nat} {s s' : Node} {ev : Ev} (hI : InvB T s) (hok : EvOk T s ev)
    (hp : Benign s ev) (hs : step s ev = some s') : InvB T s' := by
  have ha := hI.a.step (legacy := false) hok hs
  cases ev with
  | runnerInit last act com =>
    simp only [Model.Epoch.step, stepG] at hs
    split at hs
    · cases hs
    · cases hs
      exact hI.quiet ha ⟨rfl, rfl, rfl, fun e v p h => Or.inl ⟨h, rfl⟩⟩
  | poll pending =>
    simp only [Model.Epoch.step, stepG] at hs
    split at hs
    · cases hs
    · split at hs
      · cases hs
        exact hI.quiet ha ⟨rfl, rfl, rfl, fun e v p h => Or.inl ⟨h, rfl⟩⟩
      · cases hs
  | spawn e =>
    simp only [Model.Epoch.step, stepG] at hs
    split at hs
    · cases hs
      refine hI.quiet ha ⟨rfl, rfl, rfl, ?_⟩
      intro x v p h
      simp only [setInst] at h
      by_cases hxe : x = e
      · simp [hxe] at h
      · simp [hxe] at h; exact Or.inl ⟨h, by simp [hxe]⟩
    · cases hs
  | start e =>
    simp only [Model.Epoch.step, stepG] at hs
    split at hs
    · split at hs
      · cases hs
        refine hI.quiet ha ⟨rfl, rfl, rfl, ?_⟩
        intro x v p h
        simp only [setInst] at h
        by_cases hxe : x = e
        · subst hxe; simp at h; exact Or.inr h
        · simp [hxe] at h; exact Or.inl ⟨h, rfl⟩
      · cases hs
    · cases hs
  | timeout e =>
    simp only [Model.Epoch.step, stepG] at hs
    split at hs
    · rename_i v p hrun
      cases hs; exact hI.write hrun hp (writeOk_timeout e v p)
    · cases hs
  | vote e view number tag =>
    simp only [Model.Epoch.step, stepG] at hs
    split at hs
    · rename_i cv p hrun
      split at hs
      · rename_i hc
        cases hs
        simp only [Bool.and_eq_true] at hc
        exact hI.write hrun hp (writeOk_vote e cv p view tag hc.1)
      · cases hs
    · cases hs
  | newView e view =>
    simp only [Model.Epoch.step, stepG] at hs
    split at hs
    · rename_i cv p hrun
      split at hs
      · rename_i hc
        cases hs; exact hI.write hrun hp (writeOk_newView e cv p view hc)
      · cases hs
    · cases hs
  | queue =>
    simp only [Model.Epoch.step, stepG] at hs
    cases hs
    exact hI.quiet ha ⟨rfl, rfl, rfl, fun e v p h => Or.inl ⟨h, rfl⟩⟩
  | persist =>
    simp only [Model.Epoch.step, stepG] at hs
    split at hs
    · cases hs
      exact hI.quiet ha ⟨rfl, rfl, rfl, fun e v p h => Or.inl ⟨h, rfl⟩⟩
    · cases hs
  | syncPersist =>
    simp only [Model.Epoch.step, stepG] at hs
    cases hs
    exact hI.quiet ha ⟨rfl, rfl, rfl, fun e v p h => Or.inl ⟨h, rfl⟩⟩
  | teardown e =>
    simp only [Model.Epoch.step, stepG] at hs
    split at hs
    · cases hs
    · split at hs
      · split at hs
        · split at hs
          · cases hs
            refine hI.quiet ha ⟨rfl, rfl, rfl, ?_⟩
            intro x v p h
            simp only [setInst] at h
            by_cases hxe : x = e
            · simp [hxe] at h
            · simp [hxe] at h; exact Or.inl ⟨h, rfl⟩
          · cases hs
        · cases hs
      · cases hs
  | cancel e =>
    simp only [Model.Epoch.step, stepG] at hs
    split at hs
    · cases hs
    · cases hs
      refine hI.quiet ha ⟨rfl, rfl, rfl, ?_⟩
      intro x v p h
      simp only [setInst] at h
      by_cases hxe : x = e
      · simp [hxe] at h
      · simp [hxe] at h; exact Or.inl ⟨h, rfl⟩
  | crash =>
    simp only [Model.Epoch.step, stepG] at hs
    cases hs
    refine hI.quiet ha ⟨rfl, rfl, rfl, ?_⟩
    intro x v p h
    simp at h

theorem InvB.reach {T : Nat → Nat} {s : Node} (h : Reach T false Benign s) : InvB T s := by
  induction h with
  | init st n h => exact InvB.init st n h
  | step _ hok hp hs ih => exact ih.step hok hp hs

/-! ### checked example runs -/

/-- Runs the events with the `start` rule selected by `legacy`, checking `EvOk` and, if `fresh`, that no writer has
been overtaken (which implies `Benign`) on the way. -/
def runChecked (T : Nat → Nat) (legacy fresh : Bool) (s : Node) : List Ev → Option Node
  | [] => some s
  | ev :: evs =>
    if evOkB T s ev && (!fresh || freshB s ev) then
      match stepG legacy s ev with
      | some s' => runChecked T legacy fresh s' evs
      | none => none
    else none

theorem reach_of_runChecked {T : Nat → Nat} {legacy fresh : Bool} {P : Node → Ev → Prop}
    (hP : ∀ s ev, fresh = true → Benign s ev → P s ev) (hP' : fresh = false → ∀ s ev, P s ev)
    {s s' : Node} {evs : List Ev} (hr : Reach T legacy P s) (h : runChecked T legacy fresh s evs = some s') :
    Reach T legacy P s' := by
  induction evs generalizing s with
  | nil => simp only [runChecked, Option.some.injEq] at h; subst h; exact hr
  | cons ev evs ih =>
    simp only [runChecked] at h
    split at h
    · rename_i hc
      simp only [Bool.and_eq_true, Bool.or_eq_true, Bool.not_eq_true'] at hc
      split at h
      · rename_i s1 hs1
        refine ih (Reach.step hr (evOkB_sound hc.1) ?_ hs1) h
        cases hpr : fresh with
        | false => exact hP' hpr _ _
        | true =>
          rcases hc.2 with h2 | h2
          · rw [hpr] at h2; cases h2
          · exact hP _ _ hpr (freshB_sound h2)
      · cases h
    · cases h

/-- epoch length 3: epoch `e` = blocks `3e .. 3e+2` -/
def T3 : Nat → Nat := fun e => 3 * e

theorem T3_mono : Mono T3 := by intro e; simp [T3]

end EraVerif.Proofs.Epoch
