import EraVerif.Model.PeerNet
import EraVerif.Proofs.Handshake
import EraVerif.Proofs.Pool

/-! Helper lemmas for the admission theorems of C12 (core Lean only). -/

namespace EraVerif.Proofs.PeerNet
open EraVerif.Model.Handshake EraVerif.Model.PeerNet
open EraVerif.Model.Pool (Pool Obs mapInsert mapErase)
open EraVerif.Proofs.Pool (Inv)

theorem pool_setPool (n : Node) (a : Net) (b : Dir) (p : Pool) (a' : Net) (b' : Dir) :
    (n.setPool a b p).pool a' b' = if a = a' ∧ b = b' then p else n.pool a' b' := by
  cases a <;> cases b <;> cases a' <;> cases b' <;> simp [Node.setPool, Node.pool]

theorem pool_with_live (n : Node) (l : List Live) (a : Net) (b : Dir) :
    ({ n with live := l } : Node).pool a b = n.pool a b := by
  cases a <;> cases b <;> rfl

theorem cfg_setPool (n : Node) (a : Net) (b : Dir) (p : Pool) : (n.setPool a b p).cfg = n.cfg := by
  cases a <;> cases b <;> rfl

/-- What a step can do: nothing to the pools, or one successful insert after an accepted handshake, or one remove. -/
inductive StepKind (n : Node) (ev : Ev) (n' : Node) : Prop where
  | same (h : n' = n)
  | admitted (net : Net) (dir : Dir) (conn : Nat) (sid : Sid) (peer : Key) (sendOk : Bool) (recv : Option Frame)
      (me K : Key) (p : Pool)
      (hev : ev = .connect net dir conn sid peer sendOk recv)
      (hme : n.me? net = some me)
      (hhs : (handshakeOf n me net dir sid peer sendOk recv).res = .ok K)
      (hins : (n.pool net dir).insert (admitKey dir K peer) conn = (p, .ok))
      (hn : n' = { n.setPool net dir p with
                    live := n.live ++ [{ conn := conn, net := net, dir := dir,
                                         key := (admitKey dir K peer) }] })
  | close (l : Live) (hn : ∃ lv, n' = { n.setPool l.net l.dir ((n.pool l.net l.dir).remove l.key).1 with live := lv })

theorem step_kind (n : Node) (ev : Ev) : StepKind n ev (n.step ev).1 := by
  cases ev with
  | connect net dir conn sid peer sendOk recv =>
    simp only [Node.step]
    cases hme : n.me? net with
    | none => exact .same rfl
    | some me =>
      simp only []
      cases hhs : (handshakeOf n me net dir sid peer sendOk recv).res with
      | err e => exact .same rfl
      | ok K =>
        simp only []
        cases hins : (n.pool net dir).insert (admitKey dir K peer) conn with
        | mk p o =>
          by_cases ho : o = .ok
          · subst ho
            simp only [if_true]
            exact .admitted net dir conn sid peer sendOk recv me K p rfl hme hhs hins rfl
          · simp only [ho, if_false]
            exact .same rfl
  | close conn =>
    simp only [Node.step]
    cases hf : n.live.find? (fun l => l.conn == conn) with
    | none => exact .same rfl
    | some l =>
      simp only []
      refine .close l ⟨n.live.filter (fun x => x.conn != conn), ?_⟩
      split <;> rfl

/-- Pools are configured as the code configures them, and each satisfies the pool invariant. -/
def NodeInv (n : Node) : Prop :=
  (∀ a b, Inv (n.pool a b)) ∧
  n.gIn.allowed = n.cfg.staticIn ∧ n.gIn.extraLimit = n.cfg.dynLimit ∧
  n.gOut.allowed = n.cfg.staticOut ∧ n.gOut.extraLimit = 0 ∧
  n.cIn.allowed = n.cfg.committee ∧ n.cIn.extraLimit = 0 ∧
  n.cOut.allowed = n.cfg.committee ∧ n.cOut.extraLimit = 0

theorem nodeInv_new (cfg : Cfg) : NodeInv (Node.new cfg) := by
  refine ⟨?_, rfl, rfl, rfl, rfl, rfl, rfl, rfl, rfl⟩
  intro a b
  cases a <;> cases b <;> exact EraVerif.Proofs.Pool.inv_new _ _

/-- replacing one pool by a pool with the same configuration that satisfies the invariant keeps `NodeInv` -/
theorem nodeInv_setPool (n : Node) (a : Net) (b : Dir) (p : Pool) (lv : List Live) (h : NodeInv n)
    (hp : Inv p) (ha : p.allowed = (n.pool a b).allowed) (hl : p.extraLimit = (n.pool a b).extraLimit) :
    NodeInv { n.setPool a b p with live := lv } := by
  obtain ⟨hi, h1, h2, h3, h4, h5, h6, h7, h8⟩ := h
  refine ⟨?_, ?_⟩
  · intro a' b'
    rw [pool_with_live, pool_setPool]
    split
    · exact hp
    · exact hi a' b'
  · cases a <;> cases b <;> simp only [Node.setPool, Node.pool] at ha hl ⊢ <;> simp_all

theorem step_cfg (n : Node) (ev : Ev) : (n.step ev).1.cfg = n.cfg := by
  cases step_kind n ev with
  | same h => rw [h]
  | admitted net dir conn sid peer sendOk recv me K p hev hme hhs hins hn => rw [hn]; exact cfg_setPool _ _ _ _
  | close l hn => obtain ⟨lv, hn⟩ := hn; rw [hn]; exact cfg_setPool _ _ _ _

theorem nodeInv_step (n : Node) (ev : Ev) (h : NodeInv n) : NodeInv (n.step ev).1 := by
  cases step_kind n ev with
  | same h' => rw [h']; exact h
  | admitted net dir conn sid peer sendOk recv me K p hev hme hhs hins hn =>
    rw [hn]
    have hp := EraVerif.Proofs.Pool.inv_insert (n.pool net dir)
      (admitKey dir K peer) conn (h.1 net dir)
    have he := EraVerif.Proofs.Pool.insert_allowed_eq (n.pool net dir)
      (admitKey dir K peer) conn
    rw [hins] at hp he
    exact nodeInv_setPool n net dir p _ h hp he.1 he.2
  | close l hn =>
    obtain ⟨lv, hn⟩ := hn
    rw [hn]
    exact nodeInv_setPool n l.net l.dir _ _ h
      (EraVerif.Proofs.Pool.inv_remove _ _ (h.1 _ _)).1
      (EraVerif.Proofs.Pool.remove_allowed_eq _ _).1 (EraVerif.Proofs.Pool.remove_allowed_eq _ _).2

theorem run_cfg (n : Node) (evs : List Ev) : (n.run evs).1.cfg = n.cfg := by
  induction evs generalizing n with
  | nil => rfl
  | cons ev evs ih => simp only [Node.run]; rw [ih, step_cfg]

theorem nodeInv_run (n : Node) (evs : List Ev) (h : NodeInv n) : NodeInv (n.run evs).1 := by
  induction evs generalizing n with
  | nil => exact h
  | cons ev evs ih => simp only [Node.run]; exact ih _ (nodeInv_step n ev h)

/-- The connection event that justifies a pool entry `(K, conn)` of pool `(net, dir)`: a handshake on that very
    connection whose received frame carries this node's genesis, the id of the connection's own session, a valid
    signature by `K`, and — outbound — `K` is the dialled peer. -/
def Authenticates (cfg : Cfg) (net : Net) (dir : Dir) (conn : Nat) (K : Key) (ev : Ev) : Prop :=
  ∃ sid peer f, ev = .connect net dir conn sid peer true (some f) ∧ f.genesis = cfg.genesis ∧
    f.sessionId.msg = sid ∧ f.sessionId.sig = { signer := K, msg := sid } ∧ f.sessionId.key = K ∧
    (dir = .outbound → K = peer)

theorem mem_mapInsert {m : List (Key × Nat)} {k : Key} {v : Nat} {e : Key × Nat}
    (h : e ∈ mapInsert m k v) : e ∈ m ∨ e = (k, v) := by
  simp only [mapInsert, mapErase, List.mem_append, List.mem_filter, List.mem_singleton] at h
  rcases h with h | h
  · exact .inl h.1
  · exact .inr h

theorem mem_mapErase {m : List (Key × Nat)} {k : Key} {e : Key × Nat} (h : e ∈ mapErase m k) : e ∈ m := by
  simp only [mapErase, List.mem_filter] at h; exact h.1

theorem insert_ok_current (p : Pool) (k : Key) (v : Nat) (p' : Pool) (h : p.insert k v = (p', .ok)) :
    p'.current = mapInsert p.current k v := by
  unfold Pool.insert at h
  split at h
  · simp at h
  · split at h
    · split at h
      · simp at h
      · simp only [Prod.mk.injEq, and_true] at h; rw [← h]
    · simp only [Prod.mk.injEq, and_true] at h; rw [← h]

theorem remove_current_sub (p : Pool) (k : Key) : ∀ e ∈ (p.remove k).1.current, e ∈ p.current := by
  intro e he
  unfold Pool.remove at he
  split at he
  · exact he
  · simp only [] at he
    split at he
    · split at he <;> exact mem_mapErase he
    · exact mem_mapErase he

theorem step_entry (n : Node) (ev : Ev) (a : Net) (b : Dir) (K : Key) (c : Nat)
    (h : (K, c) ∈ ((n.step ev).1.pool a b).current) :
    (K, c) ∈ (n.pool a b).current ∨ Authenticates n.cfg a b c K ev := by
  cases step_kind n ev with
  | same h' => rw [h'] at h; exact .inl h
  | admitted net dir conn sid peer sendOk recv me K' p hev hme hhs hins hn =>
    rw [hn, pool_with_live, pool_setPool] at h
    split at h
    · rename_i hab
      obtain ⟨ha, hb⟩ := hab
      subst ha hb
      rw [insert_ok_current _ _ _ _ hins] at h
      rcases mem_mapInsert h with h | h
      · exact .inl h
      · right
        simp only [Prod.mk.injEq] at h
        obtain ⟨hK, hc⟩ := h
        have hacc := (EraVerif.Proofs.Handshake.run_ok_iff _ K').mp hhs
        obtain ⟨hs, f, hr, hg, hm, hv, hk, hp⟩ := hacc
        simp only at hs hr hg hm hp
        have hsig := (EraVerif.Proofs.Handshake.verify_iff _).mp hv
        have hKf : K = f.sessionId.key := by
          cases dir
          · simp only [admitKey] at hK; rw [hK, hk]
          · simp only [admitKey] at hK; rw [hK]; exact (hp rfl).symm
        refine ⟨sid, peer, f, ?_, hg, hm, ?_, hKf.symm, ?_⟩
        · rw [hev, hs, hr, hc]
        · rw [hsig, hKf, hm]
        · intro hd; subst hd; simpa [admitKey] using hK
    · exact .inl h
  | close l hn =>
    obtain ⟨lv, hn⟩ := hn
    rw [hn, pool_with_live, pool_setPool] at h
    split at h
    · rename_i hab
      obtain ⟨ha, hb⟩ := hab
      subst ha hb
      exact .inl (remove_current_sub _ _ _ h)
    · exact .inl h

theorem run_entry (n : Node) (evs : List Ev) (a : Net) (b : Dir) (K : Key) (c : Nat)
    (h : (K, c) ∈ ((n.run evs).1.pool a b).current) :
    (K, c) ∈ (n.pool a b).current ∨ ∃ ev ∈ evs, Authenticates n.cfg a b c K ev := by
  induction evs generalizing n with
  | nil => exact .inl h
  | cons ev evs ih =>
    simp only [Node.run] at h
    rcases ih _ h with h1 | ⟨ev', hm, ha⟩
    · rcases step_entry n ev a b K c h1 with h2 | h2
      · exact .inl h2
      · exact .inr ⟨ev, List.mem_cons_self, h2⟩
    · rw [step_cfg] at ha
      exact .inr ⟨ev', List.mem_cons_of_mem _ hm, ha⟩

end EraVerif.Proofs.PeerNet
