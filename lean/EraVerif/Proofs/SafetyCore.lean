import Mathlib.Algebra.BigOperators.Group.Finset.Basic
import Mathlib.Algebra.Order.BigOperators.Group.Finset
import Mathlib.Data.Fintype.Basic
import Mathlib.Tactic.Linarith

/-!
# Combinatorial core of the ChonkyBFT safety argument (DESIGN Appendix A)

Quorum-intersection lemmas over weighted `Finset`s, the notions `Choosable` / `Cert` / `Safe`, and the two
cases of the key step: a vote justified by a commit certificate (`safe_of_commit_cert`) or by a timeout certificate
(`safe_of_timeout_cert`, all five branches of the implied-block rule) is safe w.r.t. every value still choosable in
any lower view.
-/

namespace EraVerif.Safety

open Finset

variable {ι : Type} [Fintype ι] [DecidableEq ι] (w : ι → ℕ)

def wt (s : Finset ι) : ℕ := ∑ i ∈ s, w i
def total : ℕ := wt w univ
def faulty : ℕ := (total w - 1) / 5
def quorum : ℕ := total w - faulty w
def subq : ℕ := total w - 3 * faulty w

theorem wt_mono {a b : Finset ι} (h : a ⊆ b) : wt w a ≤ wt w b :=
  Finset.sum_le_sum_of_subset h
theorem wt_le_total (a : Finset ι) : wt w a ≤ total w := wt_mono w (subset_univ a)
theorem wt_inter_ge (a b : Finset ι) : wt w a + wt w b ≤ total w + wt w (a ∩ b) := by
  have h1 := Finset.sum_union_inter (s₁ := a) (s₂ := b) (f := w)
  have h2 : wt w (a ∪ b) ≤ total w := wt_le_total w _
  unfold wt at *; omega
theorem wt_sdiff_ge (a b : Finset ι) : wt w a ≤ wt w (a \ b) + wt w b := by
  have : a ⊆ (a \ b) ∪ b := by intro x hx; by_cases hb : x ∈ b <;> simp [hx, hb]
  calc wt w a ≤ wt w ((a \ b) ∪ b) := wt_mono w this
    _ ≤ wt w (a \ b) + wt w b := by
        unfold wt
        have := Finset.sum_union_inter (s₁ := a \ b) (s₂ := b) (f := w)
        omega
theorem quorums_share_correct (byz a b : Finset ι) (hn : 1 ≤ total w)
    (hb : wt w byz ≤ faulty w) (ha : quorum w ≤ wt w a) (hb' : quorum w ≤ wt w b) :
    ∃ i, i ∈ a ∧ i ∈ b ∧ i ∉ byz := by
  by_contra hne
  have hsub : a ∩ b ⊆ byz := by
    intro x hx; by_contra hx'
    exact hne ⟨x, (mem_inter.mp hx).1, (mem_inter.mp hx).2, hx'⟩
  have h1 := wt_inter_ge w a b
  have h2 := wt_mono w hsub
  unfold quorum faulty at *; omega
theorem quorum_has_correct (byz a : Finset ι) (hn : 1 ≤ total w)
    (hb : wt w byz ≤ faulty w) (ha : quorum w ≤ wt w a) : ∃ i, i ∈ a ∧ i ∉ byz := by
  obtain ⟨i, hi, _, hc⟩ := quorums_share_correct w byz a a hn hb ha ha
  exact ⟨i, hi, hc⟩
theorem inter_correct_ge_subq (byz a b : Finset ι)
    (hb : wt w byz ≤ faulty w) (ha : quorum w ≤ wt w a) (hb' : quorum w ≤ wt w b) :
    subq w ≤ wt w ((a ∩ b) \ byz) := by
  have h1 := wt_inter_ge w a b
  have h2 := wt_sdiff_ge w (a ∩ b) byz
  have h3 := wt_le_total w a
  unfold quorum subq faulty at *; omega
theorem others_lt_subq (byz c others : Finset ι) (hn : 1 ≤ total w)
    (hb : wt w byz ≤ faulty w) (hc : quorum w ≤ wt w c)
    (ho : others ⊆ byz ∪ (univ \ c)) : wt w others < subq w := by
  have h1 := wt_mono w ho
  have h2 : wt w (byz ∪ (univ \ c)) ≤ wt w byz + wt w (univ \ c) := by
    unfold wt
    have := Finset.sum_union_inter (s₁ := byz) (s₂ := univ \ c) (f := w)
    omega
  have h3 : wt w (univ \ c) + wt w c = total w := by
    unfold wt total wt
    exact Finset.sum_sdiff (subset_univ c)
  unfold quorum subq faulty at *; omega
theorem subq_pos (hn : 1 ≤ total w) : 0 < subq w := by unfold subq faulty; omega

/-- a block reference: (view, num, hash) -/
structure Ref where
  view : ℕ
  num : ℕ
  hash : ℕ
deriving DecidableEq

structure Rep where
  hv : Option Ref
  hq : Option Ref

structure St (ι : Type) where
  votedAt : ι → ℕ → Option (ℕ × ℕ)
  blocked : ι → ℕ → Prop
  touts   : ι → ℕ → Rep → Prop          -- i sent, in view t, a timeout with this report

variable (byz : Finset ι)

def Choosable (s : St ι) (u k h : ℕ) : Prop :=
  ∃ C : Finset ι, quorum w ≤ wt w C ∧ ∀ i ∈ C, i ∉ byz →
    s.votedAt i u = some (k, h) ∨ (s.votedAt i u = none ∧ ¬ s.blocked i u)
def Cert (s : St ι) (u k h : ℕ) : Prop :=
  ∃ C : Finset ι, quorum w ≤ wt w C ∧ ∀ i ∈ C, i ∉ byz → s.votedAt i u = some (k, h)
def Safe (s : St ι) (u' k' h' : ℕ) : Prop :=
  ∀ u, u < u' → ∀ k h, Choosable w byz s u k h → k ≤ k' ∧ (k' = k → h' = h)
def I1 (s : St ι) : Prop :=
  ∀ i, i ∉ byz → ∀ u' k' h', s.votedAt i u' = some (k', h') → Safe w byz s u' k' h'
/-- I2: a timeout in view t blocks every view ≤ t -/
def I2 (s : St ι) : Prop := ∀ i, i ∉ byz → ∀ t r, s.touts i t r → ∀ u, u ≤ t → s.blocked i u
/-- I4: the reported high vote is the latest vote with view ≤ t -/
def I4 (s : St ι) : Prop := ∀ i, i ∉ byz → ∀ t r, s.touts i t r →
  (r.hv = none → ∀ u, u ≤ t → s.votedAt i u = none) ∧
  (∀ x, r.hv = some x → x.view ≤ t ∧ s.votedAt i x.view = some (x.num, x.hash) ∧
      ∀ u, x.view < u → u ≤ t → s.votedAt i u = none)
/-- I6 on timeouts: a reported vote above `first` comes with a certificate for its parent or higher -/
def I6 (first : ℕ) (s : St ι) : Prop := ∀ i, i ∉ byz → ∀ t r, s.touts i t r →
  ∀ x, r.hv = some x → first < x.num → ∃ q, r.hq = some q ∧ x.num ≤ q.num + 1

/-- A timeout certificate: signers, one report per signer. -/
structure TQC (ι : Type) where
  view : ℕ
  signers : Finset ι
  rep : ι → Rep

def TQC.valid (s : St ι) (q : TQC ι) : Prop :=
  quorum w ≤ wt w q.signers ∧
  (∀ i ∈ q.signers, i ∉ byz → s.touts i q.view (q.rep i)) ∧
  (∀ i ∈ q.signers, ∀ c, (q.rep i).hq = some c → Cert w byz s c.view c.num c.hash)

/-- weight of signers reporting block (k,h) as their high vote -/
def TQC.reporters (q : TQC ι) (k h : ℕ) : Finset ι :=
  q.signers.filter (fun i => ∃ x, (q.rep i).hv = some x ∧ x.num = k ∧ x.hash = h)

/-- relational spec of `high_vote()`: the unique block reported by ≥ subquorum weight -/
def TQC.isHV (q : TQC ι) (k h : ℕ) : Prop :=
  subq w ≤ wt w (q.reporters k h) ∧
  ∀ k' h', subq w ≤ wt w (q.reporters k' h') → k' = k ∧ h' = h
def TQC.noHV (q : TQC ι) : Prop :=
  ¬ ∃ k h, q.isHV w k h
/-- relational spec of `high_qc()`: a reported certificate of maximal view -/
def TQC.isHQ (q : TQC ι) (c : Ref) : Prop :=
  (∃ i ∈ q.signers, (q.rep i).hq = some c) ∧
  ∀ i ∈ q.signers, ∀ c', (q.rep i).hq = some c' → c'.view ≤ c.view
def TQC.noHQ (q : TQC ι) : Prop := ∀ i ∈ q.signers, (q.rep i).hq = none

/-- relational spec of `get_implied_block` on a timeout certificate -/
def Implied (first : ℕ) (q : TQC ι) (k' : ℕ) (oh : Option ℕ) : Prop :=
  (∃ k h, q.isHV w k h ∧ q.noHQ ∧ k' = k ∧ oh = some h) ∨
  (∃ k h c, q.isHV w k h ∧ q.isHQ c ∧ c.num < k ∧ k' = k ∧ oh = some h) ∨
  (∃ k h c, q.isHV w k h ∧ q.isHQ c ∧ k ≤ c.num ∧ k' = c.num + 1 ∧ oh = none) ∨
  (∃ c, q.noHV w ∧ q.isHQ c ∧ k' = c.num + 1 ∧ oh = none) ∨
  (q.noHV w ∧ q.noHQ ∧ k' = first ∧ oh = none)

/-- I8: every correct vote is for a number ≥ first -/
def I8 (first : ℕ) (s : St ι) : Prop := ∀ i, i ∉ byz → ∀ u k h, s.votedAt i u = some (k, h) → first ≤ k

/-- B: complete certificates are ordered by view (from I1). -/
theorem cert_monotone (s : St ι) (hn : 1 ≤ total w) (hb : wt w byz ≤ faulty w)
    (hI : I1 w byz s) {u k h u' k' h' : ℕ} (hc : Cert w byz s u k h) (hc' : Cert w byz s u' k' h')
    (hlt : u < u') : k ≤ k' ∧ (k' = k → h' = h) := by
  obtain ⟨C', hq', hC'⟩ := hc'
  obtain ⟨i, hi, hib⟩ := quorum_has_correct w byz C' hn hb hq'
  have hv := hC' i hi hib
  obtain ⟨C, hq, hC⟩ := hc
  exact hI i hib u' k' h' hv u hlt k h ⟨C, hq, fun j hj hjb => Or.inl (hC j hj hjb)⟩

/-- A: complete certificates of one view agree. -/
theorem cert_unique (s : St ι) (hn : 1 ≤ total w) (hb : wt w byz ≤ faulty w)
    {u k h k' h' : ℕ} (hc : Cert w byz s u k h) (hc' : Cert w byz s u k' h') : k' = k ∧ h' = h := by
  obtain ⟨C, hq, hC⟩ := hc
  obtain ⟨C', hq', hC'⟩ := hc'
  obtain ⟨i, hi, hi', hib⟩ := quorums_share_correct w byz C C' hn hb hq hq'
  have h1 := hC i hi hib
  have h2 := hC' i hi' hib
  rw [h1] at h2
  injection h2 with h2
  have := Prod.mk.inj h2
  exact ⟨this.1.symm, this.2.symm⟩

/-- a choosable value and a complete certificate in the same view agree -/
theorem choosable_cert_same_view (s : St ι) (hn : 1 ≤ total w) (hb : wt w byz ≤ faulty w)
    {u k h k' h' : ℕ} (hch : Choosable w byz s u k h) (hc' : Cert w byz s u k' h') : k' = k ∧ h' = h := by
  obtain ⟨C, hq, hC⟩ := hch
  obtain ⟨C', hq', hC'⟩ := hc'
  obtain ⟨i, hi, hi', hib⟩ := quorums_share_correct w byz C C' hn hb hq hq'
  have h2 := hC' i hi' hib
  rcases hC i hi hib with h1 | ⟨h1, _⟩
  · rw [h1] at h2; injection h2 with h2
    have := Prod.mk.inj h2
    exact ⟨this.1.symm, this.2.symm⟩
  · rw [h1] at h2; exact absurd h2 (by simp)

/-- Case 2 of Appendix A: a vote conforming to the block implied by a valid timeout certificate is safe. -/
theorem safe_of_timeout_cert (first : ℕ) (s : St ι) (hn : 1 ≤ total w) (hb : wt w byz ≤ faulty w)
    (hI1 : I1 w byz s) (hI2 : I2 byz s) (hI4 : I4 byz s) (hI6 : I6 byz first s) (hI8 : I8 byz first s)
    (q : TQC ι) (hv : q.valid w byz s) (k' : ℕ) (oh : Option ℕ) (him : Implied w first q k' oh)
    (h' : ℕ) (hconf : ∀ hh, oh = some hh → h' = hh) :
    Safe w byz s (q.view + 1) k' h' := by
  intro u hu k h hch
  have hut : u ≤ q.view := by omega
  obtain ⟨hqw, htouts, hqcs⟩ := hv
  obtain ⟨C', hC'q, hC'⟩ := hch
  set W := (C' ∩ q.signers) \ byz with hW
  have hWw : subq w ≤ wt w W := inter_correct_ge_subq w byz C' q.signers hb hC'q hqw
  have hWmem : ∀ i ∈ W, i ∈ C' ∧ i ∈ q.signers ∧ i ∉ byz := by
    intro i hi
    exact ⟨(mem_inter.mp (mem_sdiff.mp hi).1).1, (mem_inter.mp (mem_sdiff.mp hi).1).2, (mem_sdiff.mp hi).2⟩
  have hWvoted : ∀ i ∈ W, s.votedAt i u = some (k, h) := by
    intro i hi
    obtain ⟨hiC', hiS, hib⟩ := hWmem i hi
    have hbl := hI2 i hib _ _ (htouts i hiS hib) u hut
    rcases hC' i hiC' hib with h1 | ⟨_, h2⟩
    · exact h1
    · exact absurd hbl h2
  have hWfacts : ∀ i ∈ W, ∃ x, (q.rep i).hv = some x ∧ k ≤ x.num ∧ (x.num = k → x.hash = h) := by
    intro i hi
    obtain ⟨hiC', hiS, hib⟩ := hWmem i hi
    have ht := htouts i hiS hib
    have hvoted := hWvoted i hi
    obtain ⟨h4a, h4b⟩ := hI4 i hib _ _ ht
    cases hrep : (q.rep i).hv with
    | none =>
      have := h4a hrep u hut
      rw [hvoted] at this; exact absurd this (by simp)
    | some x =>
      obtain ⟨hxt, hxv, hxlast⟩ := h4b x hrep
      refine ⟨x, rfl, ?_⟩
      rcases Nat.lt_trichotomy x.view u with hlt | heq | hgt
      · have := hxlast u hlt hut
        rw [hvoted] at this; exact absurd this (by simp)
      · rw [heq, hvoted] at hxv
        injection hxv with hxv
        have := Prod.mk.inj hxv
        exact ⟨by omega, fun _ => this.2.symm⟩
      · exact hI1 i hib x.view x.num x.hash hxv u hgt k h ⟨C', hC'q, hC'⟩
  have hWne : W.Nonempty := by
    by_contra hne
    rw [not_nonempty_iff_eq_empty] at hne
    have : wt w W = 0 := by rw [hne]; simp [wt]
    have := subq_pos w hn
    omega
  have hkfirst : first ≤ k := by
    obtain ⟨i, hi⟩ := hWne
    exact hI8 i (hWmem i hi).2.2 u k h (hWvoted i hi)
  have hHQ : ∀ c, q.isHQ c → (∃ i ∈ W, ∃ x, (q.rep i).hv = some x ∧ k < x.num) → k ≤ c.num := by
    intro c ⟨⟨j, hjS, hjc⟩, hmax⟩ ⟨i, hiW, x, hx, hkx⟩
    obtain ⟨_, hiS, hib⟩ := hWmem i hiW
    have ht := htouts i hiS hib
    obtain ⟨qi, hqi, hqin⟩ := hI6 i hib _ _ ht x hx (by omega)
    have hci := hqcs i hiS qi hqi
    have hcc := hqcs j hjS c hjc
    have hle := hmax i hiS qi hqi
    have hqk : k ≤ qi.num := by omega
    rcases Nat.lt_trichotomy c.view u with hlt | heq | hgt
    · rcases Nat.lt_or_ge qi.view c.view with h1 | h1
      · have := (cert_monotone w byz s hn hb hI1 hci hcc h1).1; omega
      · have hev : qi.view = c.view := by omega
        have := cert_unique w byz s hn hb (u := c.view) hcc (by rw [← hev]; exact hci)
        omega
    · have := choosable_cert_same_view w byz s hn hb (u := u) ⟨C', hC'q, hC'⟩ (by rw [← heq]; exact hcc)
      omega
    · obtain ⟨Cc, hCcq, hCc⟩ := hcc
      obtain ⟨m, hm, hmb⟩ := quorum_has_correct w byz Cc hn hb hCcq
      exact (hI1 m hmb c.view c.num c.hash (hCc m hm hmb) u hgt k h ⟨C', hC'q, hC'⟩).1
  -- if all of W report number k, then (k,h) reaches the subquorum …
  have hreach : (∀ i ∈ W, ∀ x, (q.rep i).hv = some x → x.num = k) → subq w ≤ wt w (q.reporters k h) := by
    intro hall
    apply le_trans hWw
    apply wt_mono
    intro i hi
    obtain ⟨x, hx, _, hxh⟩ := hWfacts i hi
    have hxk := hall i hi x hx
    simp only [TQC.reporters, mem_filter]
    exact ⟨(hWmem i hi).2.1, x, hx, hxk, hxh hxk⟩
  -- … and no other block does
  have hother : (∀ i ∈ W, ∀ x, (q.rep i).hv = some x → x.num = k) →
      ∀ k2 h2, subq w ≤ wt w (q.reporters k2 h2) → k2 = k ∧ h2 = h := by
    intro hall k2 h2 hsub
    by_contra hne
    have hsubset : q.reporters k2 h2 ⊆ byz ∪ (univ \ C') := by
      intro i hi
      simp only [TQC.reporters, mem_filter] at hi
      obtain ⟨hiS, x, hx, hxk, hxh⟩ := hi
      by_contra hnot
      simp only [mem_union, mem_sdiff, mem_univ, true_and, not_or, not_not] at hnot
      have hiW : i ∈ W := by
        simp only [hW, mem_sdiff, mem_inter]; exact ⟨⟨hnot.2, hiS⟩, hnot.1⟩
      obtain ⟨x', hx', _, hxh'⟩ := hWfacts i hiW
      rw [hx] at hx'; injection hx' with hx'; subst hx'
      have hk := hall i hiW x hx
      exact hne ⟨by omega, by rw [← hxh]; exact hxh' hk⟩
    have := others_lt_subq w byz C' _ hn hb hC'q hsubset
    omega
  by_cases hall : ∀ i ∈ W, ∀ x, (q.rep i).hv = some x → x.num = k
  · -- (α)
    have hHVeq : ∀ k2 h2, q.isHV w k2 h2 → k2 = k ∧ h2 = h := fun k2 h2 hhv => hother hall k2 h2 hhv.1
    have hHVex : ¬ q.noHV w := fun hno => hno ⟨k, h, hreach hall, fun k2 h2 hs => hother hall k2 h2 hs⟩
    rcases him with ⟨k2, h2, hhv, _, hk, ho⟩ | ⟨k2, h2, c, hhv, _, _, hk, ho⟩ |
        ⟨k2, h2, c, hhv, _, hle, hk, ho⟩ | ⟨c, hno, _, _, _⟩ | ⟨hno, _, _, _⟩
    · obtain ⟨e1, e2⟩ := hHVeq k2 h2 hhv
      subst e1 e2 hk
      exact ⟨le_refl _, fun _ => hconf _ ho⟩
    · obtain ⟨e1, e2⟩ := hHVeq k2 h2 hhv
      subst e1 e2 hk
      exact ⟨le_refl _, fun _ => hconf _ ho⟩
    · obtain ⟨e1, e2⟩ := hHVeq k2 h2 hhv
      subst e1 e2 hk
      exact ⟨by omega, fun he => by omega⟩
    · exact absurd hno hHVex
    · exact absurd hno hHVex
  · -- (β)
    push Not at hall
    obtain ⟨i, hiW, x, hx, hxne⟩ := hall
    obtain ⟨x', hx', hkx, _⟩ := hWfacts i hiW
    rw [hx] at hx'; injection hx' with hx'; subst hx'
    have hgt : k < x.num := by omega
    have hwit : ∃ i ∈ W, ∃ x, (q.rep i).hv = some x ∧ k < x.num := ⟨i, hiW, x, hx, hgt⟩
    obtain ⟨_, hiS, hib⟩ := hWmem i hiW
    obtain ⟨qi, hqi, _⟩ := hI6 i hib _ _ (htouts i hiS hib) x hx (by omega)
    have hnoHQ : ¬ q.noHQ := fun hnq => by have := hnq i hiS; rw [hqi] at this; exact absurd this (by simp)
    rcases him with ⟨k2, h2, _, hnq, _, _⟩ | ⟨k2, h2, c, _, hq, hlt, rfl, _⟩ |
        ⟨k2, h2, c, _, hq, _, rfl, _⟩ | ⟨c, _, hq, rfl, _⟩ | ⟨_, hnq, _, _⟩
    · exact absurd hnq hnoHQ
    · have := hHQ c hq hwit
      exact ⟨by omega, fun he => by omega⟩
    · have := hHQ c hq hwit
      exact ⟨by omega, fun he => by omega⟩
    · have := hHQ c hq hwit
      exact ⟨by omega, fun he => by omega⟩
    · exact absurd hnq hnoHQ


/-- Case 1 of Appendix A: a vote justified by a commit certificate of view t for block (q,hq)
    is for number q+1 in view t+1, and is safe. -/
theorem safe_of_commit_cert (s : St ι) (hn : 1 ≤ total w) (hb : wt w byz ≤ faulty w)
    (hI : I1 w byz s) (t q hq : ℕ) (hc : Cert w byz s t q hq) (h' : ℕ) :
    Safe w byz s (t + 1) (q + 1) h' := by
  intro u hu k h hch
  obtain ⟨C, hCq, hC⟩ := hc
  obtain ⟨C', hC'q, hC'⟩ := hch
  rcases Nat.lt_or_ge u t with hlt | hge
  · -- t > u : a correct voter of the certificate is safe
    obtain ⟨i, hiC, hib⟩ := quorum_has_correct w byz C hn hb hCq
    have hv := hC i hiC hib
    have := hI i hib t q hq hv u hlt k h ⟨C', hC'q, hC'⟩
    omega
  · -- t = u : the two quorums share a correct member
    have htu : t = u := by omega
    subst htu
    obtain ⟨i, hiC, hiC', hib⟩ := quorums_share_correct w byz C C' hn hb hCq hC'q
    have hv := hC i hiC hib
    rcases hC' i hiC' hib with h1 | ⟨h1, _⟩
    · rw [hv] at h1
      have : q = k := by injection h1 with h1; exact (Prod.mk.inj h1).1
      omega
    · rw [hv] at h1; exact absurd h1 (by simp)

/-- Choosable only shrinks when a correct replica that was not blocked votes. -/
theorem choosable_antitone_vote (s : St ι) (i₀ : ι) (u₀ k₀ h₀ : ℕ)
    (hnv : s.votedAt i₀ u₀ = none) (hnb : ¬ s.blocked i₀ u₀)
    (s' : St ι)
    (hv' : ∀ i u, s'.votedAt i u = if i = i₀ ∧ u = u₀ then some (k₀, h₀) else s.votedAt i u)
    (hb' : ∀ i u, s.blocked i u → s'.blocked i u)
    (u k h : ℕ) (hch : Choosable w byz s' u k h) : Choosable w byz s u k h := by
  obtain ⟨C, hq, hC⟩ := hch
  refine ⟨C, hq, fun i hi hib => ?_⟩
  have := hC i hi hib
  rw [hv'] at this
  by_cases hc : i = i₀ ∧ u = u₀
  · obtain ⟨rfl, rfl⟩ := hc
    right; exact ⟨hnv, hnb⟩
  · simp only [hc, if_false] at this
    rcases this with h1 | ⟨h1, h2⟩
    · left; exact h1
    · right; exact ⟨h1, fun hbl => h2 (hb' i u hbl)⟩


end EraVerif.Safety
