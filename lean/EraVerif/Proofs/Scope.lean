import EraVerif.Model.Scope

/-!
# Invariants of the task-scope guard protocol (helper lemmas for `Props/C17.lean`)

`Inv σ` holds in `init` and is preserved by every enabled event, hence in every state reached by replaying an
accepted log (`Reach`). The heart is the counting invariant that ties the two lower-bound counters to the set of
tasks that still own a guard.
-/

namespace EraVerif.Model.Scope

/-! ## the state update functions -/

@[simp] theorem setTask_task (σ : State) (t : Nat) (x : Task) (i : Nat) :
    (setTask σ t x).task i = if i = t then x else σ.task i := rfl
@[simp] theorem setTask_scope (σ : State) (t : Nat) (x : Task) : (setTask σ t x).scope = σ.scope := rfl
@[simp] theorem setTask_ctx (σ : State) (t : Nat) (x : Task) : (setTask σ t x).ctx = σ.ctx := rfl
@[simp] theorem setTask_inner (σ : State) (t : Nat) (x : Task) : (setTask σ t x).inner = σ.inner := rfl
@[simp] theorem setTask_tids (σ : State) (t : Nat) (x : Task) : (setTask σ t x).tids = σ.tids := rfl
@[simp] theorem setTask_now (σ : State) (t : Nat) (x : Task) : (setTask σ t x).now = σ.now := rfl

@[simp] theorem setScope_scope (σ : State) (s : Nat) (x : Scope) (i : Nat) :
    (setScope σ s x).scope i = if i = s then x else σ.scope i := rfl
@[simp] theorem setScope_task (σ : State) (s : Nat) (x : Scope) : (setScope σ s x).task = σ.task := rfl
@[simp] theorem setScope_ctx (σ : State) (s : Nat) (x : Scope) : (setScope σ s x).ctx = σ.ctx := rfl
@[simp] theorem setScope_inner (σ : State) (s : Nat) (x : Scope) : (setScope σ s x).inner = σ.inner := rfl
@[simp] theorem setScope_tids (σ : State) (s : Nat) (x : Scope) : (setScope σ s x).tids = σ.tids := rfl
@[simp] theorem setScope_now (σ : State) (s : Nat) (x : Scope) : (setScope σ s x).now = σ.now := rfl

@[simp] theorem setCtx_ctx (σ : State) (c : Nat) (x : Ctx) (i : Nat) :
    (setCtx σ c x).ctx i = if i = c then x else σ.ctx i := rfl
@[simp] theorem setCtx_task (σ : State) (c : Nat) (x : Ctx) : (setCtx σ c x).task = σ.task := rfl
@[simp] theorem setCtx_scope (σ : State) (c : Nat) (x : Ctx) : (setCtx σ c x).scope = σ.scope := rfl
@[simp] theorem setCtx_inner (σ : State) (c : Nat) (x : Ctx) : (setCtx σ c x).inner = σ.inner := rfl
@[simp] theorem setCtx_tids (σ : State) (c : Nat) (x : Ctx) : (setCtx σ c x).tids = σ.tids := rfl
@[simp] theorem setCtx_now (σ : State) (c : Nat) (x : Ctx) : (setCtx σ c x).now = σ.now := rfl

@[simp] theorem setInner_inner (σ : State) (t : Nat) (x : Option Nat) (i : Nat) :
    (setInner σ t x).inner i = if i = t then x else σ.inner i := rfl
@[simp] theorem setInner_task (σ : State) (t : Nat) (x : Option Nat) : (setInner σ t x).task = σ.task := rfl
@[simp] theorem setInner_scope (σ : State) (t : Nat) (x : Option Nat) : (setInner σ t x).scope = σ.scope := rfl
@[simp] theorem setInner_ctx (σ : State) (t : Nat) (x : Option Nat) : (setInner σ t x).ctx = σ.ctx := rfl
@[simp] theorem setInner_tids (σ : State) (t : Nat) (x : Option Nat) : (setInner σ t x).tids = σ.tids := rfl
@[simp] theorem setInner_now (σ : State) (t : Nat) (x : Option Nat) : (setInner σ t x).now = σ.now := rfl

@[simp] theorem causeCtx_ctx (σ : State) (c i : Nat) :
    (causeCtx σ c).ctx i = if i = c then { σ.ctx c with cause := true } else σ.ctx i := rfl
@[simp] theorem causeCtx_task (σ : State) (c : Nat) : (causeCtx σ c).task = σ.task := rfl
@[simp] theorem causeCtx_scope (σ : State) (c : Nat) : (causeCtx σ c).scope = σ.scope := rfl
@[simp] theorem causeCtx_inner (σ : State) (c : Nat) : (causeCtx σ c).inner = σ.inner := rfl
@[simp] theorem causeCtx_tids (σ : State) (c : Nat) : (causeCtx σ c).tids = σ.tids := rfl
@[simp] theorem causeCtx_now (σ : State) (c : Nat) : (causeCtx σ c).now = σ.now := rfl

@[simp] theorem phase_beq (a b : Phase) : (a == b) = decide (a = b) := rfl
@[simp] theorem out_beq (a b : Out) : (a == b) = decide (a = b) := rfl
@[simp] theorem sphase_beq (a b : SPhase) : (a == b) = decide (a = b) := rfl

/-! ## who owns which guard -/

/-- task record `x` owns a `CancelGuard` of scope `s` (started as a main task, release not yet announced) -/
def holdsMain (s : Nat) (x : Task) : Bool :=
  x.scope == s && x.main && (x.phase == .running || x.phase == .ended)

/-- task record `x` keeps the `TerminateGuard` of scope `s` alive without owning a `CancelGuard`: it is spawned but
not started (kind unknown), or it runs as a background task -/
def holdsTerm (s : Nat) (x : Task) : Bool :=
  x.scope == s && (x.phase == .pending || (!x.main && (x.phase == .running || x.phase == .ended)))

def mainCount (σ : State) (s : Nat) : Nat := σ.tids.countP fun t => holdsMain s (σ.task t)
def termCount (σ : State) (s : Nat) : Nat := σ.tids.countP fun t => holdsTerm s (σ.task t)

/-- changing the record of one task changes a count by the difference of the predicate on that task -/
theorem countP_update (g : Nat → Task) (c : Nat) (x : Task) (f : Task → Bool) :
    ∀ l : List Nat, l.Nodup →
      l.countP (fun t => f (if t = c then x else g t)) + (if c ∈ l ∧ f (g c) = true then 1 else 0)
        = l.countP (fun t => f (g t)) + (if c ∈ l ∧ f x = true then 1 else 0) := by
  intro l
  induction l with
  | nil => intro _; simp
  | cons a l ih =>
    intro hn
    have hn' := (List.nodup_cons.mp hn)
    have ih' := ih hn'.2
    by_cases hac : a = c
    · subst hac
      have hnot : a ∉ l := hn'.1
      have hsame : l.countP (fun t => f (if t = a then x else g t)) = l.countP (fun t => f (g t)) := by
        apply List.countP_congr
        intro t ht
        have : t ≠ a := fun h => hnot (h ▸ ht)
        simp [this]
      simp only [List.countP_cons, if_true, List.mem_cons, true_or, true_and, hsame]
      by_cases h1 : f (g a) = true <;> by_cases h2 : f x = true <;> simp [h1, h2] <;> omega
    · have hca : c ≠ a := fun h => hac h.symm
      simp only [List.countP_cons, hac, if_false, List.mem_cons, hca, false_or]
      omega

theorem countP_congr_task (l : List Nat) (g g' : Nat → Task) (f : Task → Bool)
    (h : ∀ t ∈ l, f (g' t) = f (g t)) : l.countP (fun t => f (g' t)) = l.countP (fun t => f (g t)) := by
  apply List.countP_congr
  intro t ht
  simp [h t ht]


@[simp] theorem mainCount_setScope (σ : State) (s : Nat) (x : Scope) (s' : Nat) :
    mainCount (setScope σ s x) s' = mainCount σ s' := rfl
@[simp] theorem mainCount_setCtx (σ : State) (c : Nat) (x : Ctx) (s' : Nat) :
    mainCount (setCtx σ c x) s' = mainCount σ s' := rfl
@[simp] theorem mainCount_setInner (σ : State) (c : Nat) (x : Option Nat) (s' : Nat) :
    mainCount (setInner σ c x) s' = mainCount σ s' := rfl
@[simp] theorem mainCount_causeCtx (σ : State) (c : Nat) (s' : Nat) :
    mainCount (causeCtx σ c) s' = mainCount σ s' := rfl
@[simp] theorem termCount_setScope (σ : State) (s : Nat) (x : Scope) (s' : Nat) :
    termCount (setScope σ s x) s' = termCount σ s' := rfl
@[simp] theorem termCount_setCtx (σ : State) (c : Nat) (x : Ctx) (s' : Nat) :
    termCount (setCtx σ c x) s' = termCount σ s' := rfl
@[simp] theorem termCount_setInner (σ : State) (c : Nat) (x : Option Nat) (s' : Nat) :
    termCount (setInner σ c x) s' = termCount σ s' := rfl
@[simp] theorem termCount_causeCtx (σ : State) (c : Nat) (s' : Nat) :
    termCount (causeCtx σ c) s' = termCount σ s' := rfl

theorem mainCount_setTask (σ : State) (c : Nat) (x : Task) (s : Nat) (hn : σ.tids.Nodup) (hc : c ∈ σ.tids) :
    mainCount (setTask σ c x) s + (holdsMain s (σ.task c)).toNat = mainCount σ s + (holdsMain s x).toNat := by
  have := countP_update σ.task c x (holdsMain s) σ.tids hn
  simp only [hc, true_and] at this
  unfold mainCount
  simp only [setTask_task, setTask_tids]
  cases h1 : holdsMain s (σ.task c) <;> cases h2 : holdsMain s x <;> simp [h1, h2] at this ⊢ <;> omega

theorem termCount_setTask (σ : State) (c : Nat) (x : Task) (s : Nat) (hn : σ.tids.Nodup) (hc : c ∈ σ.tids) :
    termCount (setTask σ c x) s + (holdsTerm s (σ.task c)).toNat = termCount σ s + (holdsTerm s x).toNat := by
  have := countP_update σ.task c x (holdsTerm s) σ.tids hn
  simp only [hc, true_and] at this
  unfold termCount
  simp only [setTask_task, setTask_tids]
  cases h1 : holdsTerm s (σ.task c) <;> cases h2 : holdsTerm s x <;> simp [h1, h2] at this ⊢ <;> omega

@[simp] theorem addTask_task (σ : State) (t : Nat) (x : Task) (i : Nat) :
    (addTask σ t x).task i = if i = t then x else σ.task i := rfl
@[simp] theorem addTask_scope (σ : State) (t : Nat) (x : Task) : (addTask σ t x).scope = σ.scope := rfl
@[simp] theorem addTask_ctx (σ : State) (t : Nat) (x : Task) : (addTask σ t x).ctx = σ.ctx := rfl
@[simp] theorem addTask_inner (σ : State) (t : Nat) (x : Task) : (addTask σ t x).inner = σ.inner := rfl
@[simp] theorem addTask_tids (σ : State) (t : Nat) (x : Task) : (addTask σ t x).tids = t :: σ.tids := rfl
@[simp] theorem addTask_now (σ : State) (t : Nat) (x : Task) : (addTask σ t x).now = σ.now := rfl

theorem mainCount_addTask (σ : State) (c : Nat) (x : Task) (s : Nat) (hc : c ∉ σ.tids) :
    mainCount (addTask σ c x) s = (holdsMain s x).toNat + mainCount σ s := by
  unfold mainCount
  simp only [addTask_task, addTask_tids, List.countP_cons, if_true]
  have : σ.tids.countP (fun t => holdsMain s (if t = c then x else σ.task t)) = σ.tids.countP (fun t => holdsMain s (σ.task t)) := by
    apply List.countP_congr
    intro t ht
    have : t ≠ c := fun h => hc (h ▸ ht)
    simp [this]
  rw [this]
  cases holdsMain s x <;> simp <;> omega

theorem termCount_addTask (σ : State) (c : Nat) (x : Task) (s : Nat) (hc : c ∉ σ.tids) :
    termCount (addTask σ c x) s = (holdsTerm s x).toNat + termCount σ s := by
  unfold termCount
  simp only [addTask_task, addTask_tids, List.countP_cons, if_true]
  have : σ.tids.countP (fun t => holdsTerm s (if t = c then x else σ.task t)) = σ.tids.countP (fun t => holdsTerm s (σ.task t)) := by
    apply List.countP_congr
    intro t ht
    have : t ≠ c := fun h => hc (h ▸ ht)
    simp [this]
  rw [this]
  cases holdsTerm s x <;> simp <;> omega

theorem mainCount_pos (σ : State) (s t : Nat) (ht : t ∈ σ.tids) (h : holdsMain s (σ.task t) = true) : 0 < mainCount σ s :=
  List.countP_pos_iff.mpr ⟨t, ht, h⟩

theorem termCount_pos (σ : State) (s t : Nat) (ht : t ∈ σ.tids) (h : holdsTerm s (σ.task t) = true) : 0 < termCount σ s :=
  List.countP_pos_iff.mpr ⟨t, ht, h⟩

/-! ## the structural / counting invariant -/

structure InvA (σ : State) : Prop where
  nodup : σ.tids.Nodup
  mem_iff : ∀ t, t ∈ σ.tids ↔ (σ.task t).phase ≠ .absent
  task_scope : ∀ t, (σ.task t).phase ≠ .absent → (σ.scope (σ.task t).scope).phase ≠ .absent
  mainLow_eq : ∀ s, (σ.scope s).phase ≠ .absent → (σ.scope s).mainLow = (σ.scope s).rgHeld.toNat + mainCount σ s
  termLow_eq : ∀ s, (σ.scope s).phase ≠ .absent → (σ.scope s).termLow = (!(σ.scope s).cgd).toNat + termCount σ s
  closed : ∀ s, (σ.scope s).mainClosed = true → (σ.scope s).mainLow = 0
  cgd_closed : ∀ s, (σ.scope s).cgd = true → (σ.scope s).mainClosed = true
  tgd_term : ∀ s, (σ.scope s).tgd = true → (σ.scope s).termLow = 0 ∧ (σ.scope s).cgd = true
  ret_tgd : ∀ s, (σ.scope s).phase = .returned → (σ.scope s).tgd = true

theorem invA_init : InvA init := by
  constructor <;> simp [init, mainCount, termCount]


/-- a task that is spawned and has not announced its release keeps a counter of its scope positive -/
theorem InvA.active_pos {σ : State} (h : InvA σ) (t : Nat)
    (hp : (σ.task t).phase = .pending ∨ (σ.task t).phase = .running ∨ (σ.task t).phase = .ended) :
    (((σ.task t).main = true ∧ (σ.task t).phase ≠ .pending) → 0 < (σ.scope (σ.task t).scope).mainLow) ∧
    (¬((σ.task t).main = true ∧ (σ.task t).phase ≠ .pending) → 0 < (σ.scope (σ.task t).scope).termLow) := by
  have hpres : (σ.task t).phase ≠ .absent := by rcases hp with h | h | h <;> simp [h]
  have hmem := (h.mem_iff t).mpr hpres
  have hsc := h.task_scope t hpres
  constructor
  · intro ⟨hm, hnp⟩
    have : holdsMain (σ.task t).scope (σ.task t) = true := by
      rcases hp with h | h | h <;> simp_all [holdsMain]
    have := mainCount_pos σ _ t hmem this
    have := h.mainLow_eq _ hsc
    omega
  · intro hn
    have : holdsTerm (σ.task t).scope (σ.task t) = true := by
      rcases hp with h | h | h <;> simp_all [holdsTerm]
    have := termCount_pos σ _ t hmem this
    have := h.termLow_eq _ hsc
    omega

theorem InvA.active_not_tgd {σ : State} (h : InvA σ) (t : Nat)
    (hp : (σ.task t).phase = .pending ∨ (σ.task t).phase = .running ∨ (σ.task t).phase = .ended) :
    (σ.scope (σ.task t).scope).tgd = false := by
  have ⟨h1, h2⟩ := h.active_pos t hp
  cases htg : (σ.scope (σ.task t).scope).tgd with
  | false => rfl
  | true =>
    have ⟨ht0, hc⟩ := h.tgd_term _ htg
    have hcl := h.closed _ (h.cgd_closed _ hc)
    by_cases hm : (σ.task t).main = true ∧ (σ.task t).phase ≠ .pending
    · have := h1 hm; omega
    · have := h2 hm; omega

theorem InvA.active_live {σ : State} (h : InvA σ) (t : Nat)
    (hp : (σ.task t).phase = .pending ∨ (σ.task t).phase = .running ∨ (σ.task t).phase = .ended) :
    (σ.scope (σ.task t).scope).phase = .live := by
  have hpres : (σ.task t).phase ≠ .absent := by rcases hp with h | h | h <;> simp [h]
  have hsc := h.task_scope t hpres
  have hnt := h.active_not_tgd t hp
  cases hph : (σ.scope (σ.task t).scope).phase with
  | absent => exact absurd hph hsc
  | live => rfl
  | returned => have := h.ret_tgd _ hph; simp [hnt] at this


/-- replacing the record of a present task by one that owns the same guards in the same scope -/
theorem invA_setTask_same {σ : State} (h : InvA σ) (t : Nat) (x : Task)
    (hpres : (σ.task t).phase ≠ .absent) (hx : x.phase ≠ .absent) (hsc : x.scope = (σ.task t).scope)
    (hm : ∀ s, holdsMain s x = holdsMain s (σ.task t)) (ht : ∀ s, holdsTerm s x = holdsTerm s (σ.task t)) :
    InvA (setTask σ t x) := by
  have hmem := (h.mem_iff t).mpr hpres
  refine ⟨h.nodup, ?_, ?_, ?_, ?_, h.closed, h.cgd_closed, h.tgd_term, h.ret_tgd⟩
  · intro i
    by_cases hi : i = t
    · subst hi; simp [hmem, hx]
    · simp [hi, h.mem_iff i]
  · intro i
    by_cases hi : i = t
    · subst hi; simp [hsc]; intro _; exact h.task_scope i hpres
    · simp [hi]; exact h.task_scope i
  · intro s hs
    have := mainCount_setTask σ t x s h.nodup hmem
    rw [hm s] at this
    have h2 := h.mainLow_eq s hs
    simp only [setTask_scope] at hs ⊢
    omega
  · intro s hs
    have := termCount_setTask σ t x s h.nodup hmem
    rw [ht s] at this
    have h2 := h.termLow_eq s hs
    simp only [setTask_scope] at hs ⊢
    omega

/-- `InvA` only looks at the tasks, the scopes and the id list -/
theorem invA_of_eq {σ σ' : State} (h : InvA σ) (ht : σ'.task = σ.task) (hs : σ'.scope = σ.scope)
    (hi : σ'.tids = σ.tids) : InvA σ' := by
  have hm : ∀ s, mainCount σ' s = mainCount σ s := by intro s; unfold mainCount; rw [ht, hi]
  have hc : ∀ s, termCount σ' s = termCount σ s := by intro s; unfold termCount; rw [ht, hi]
  refine ⟨hi ▸ h.nodup, ?_, ?_, ?_, ?_, ?_, ?_, ?_, ?_⟩
  · intro t; rw [hi, ht]; exact h.mem_iff t
  · intro t; rw [ht, hs]; exact h.task_scope t
  · intro s; rw [hs, hm]; exact h.mainLow_eq s
  · intro s; rw [hs, hc]; exact h.termLow_eq s
  · intro s; rw [hs]; exact h.closed s
  · intro s; rw [hs]; exact h.cgd_closed s
  · intro s; rw [hs]; exact h.tgd_term s
  · intro s; rw [hs]; exact h.ret_tgd s

/-- replacing the record of an existing scope -/
theorem invA_setScope {σ : State} (h : InvA σ) (s : Nat) (x : Scope)
    (hph : x.phase ≠ .absent)
    (hm : x.mainLow = x.rgHeld.toNat + mainCount σ s)
    (ht : x.termLow = (!x.cgd).toNat + termCount σ s)
    (hcl : x.mainClosed = true → x.mainLow = 0)
    (hcc : x.cgd = true → x.mainClosed = true)
    (htg : x.tgd = true → x.termLow = 0 ∧ x.cgd = true)
    (hrt : x.phase = .returned → x.tgd = true) : InvA (setScope σ s x) := by
  refine ⟨h.nodup, h.mem_iff, ?_, ?_, ?_, ?_, ?_, ?_, ?_⟩
  · intro t hp
    have := h.task_scope t hp
    simp only [setScope_scope, setScope_task] at hp ⊢
    split
    · exact hph
    · exact this
  all_goals
    intro s'
    simp only [setScope_scope, mainCount_setScope, termCount_setScope]
    by_cases hs : s' = s
    · subst hs; simp only [if_true]
      first | exact fun _ => hm | exact fun _ => ht | exact hcl | exact hcc | exact htg | exact hrt
    · simp only [hs, if_false]
      first
        | exact h.mainLow_eq s' | exact h.termLow_eq s' | exact h.closed s' | exact h.cgd_closed s'
        | exact h.tgd_term s' | exact h.ret_tgd s'

theorem holdsMain_other {s s' : Nat} {x : Task} (h : x.scope = s) (hne : s' ≠ s) : holdsMain s' x = false := by
  have : ¬ s = s' := fun hh => hne hh.symm
  simp [holdsMain, h, this]

theorem holdsTerm_other {s s' : Nat} {x : Task} (h : x.scope = s) (hne : s' ≠ s) : holdsTerm s' x = false := by
  have : ¬ s = s' := fun hh => hne hh.symm
  simp [holdsTerm, h, this]

/-- replacing the record of a present task and the record of its scope together -/
theorem invA_setBoth {σ : State} (h : InvA σ) (t : Nat) (x : Task) (s : Nat) (y : Scope)
    (hpres : (σ.task t).phase ≠ .absent) (hx : x.phase ≠ .absent) (hs : (σ.task t).scope = s) (hxs : x.scope = s)
    (hy : y.phase ≠ .absent)
    (hm : y.mainLow + (holdsMain s (σ.task t)).toNat = y.rgHeld.toNat + mainCount σ s + (holdsMain s x).toNat)
    (ht : y.termLow + (holdsTerm s (σ.task t)).toNat = (!y.cgd).toNat + termCount σ s + (holdsTerm s x).toNat)
    (hcl : y.mainClosed = true → y.mainLow = 0)
    (hcc : y.cgd = true → y.mainClosed = true)
    (htg : y.tgd = true → y.termLow = 0 ∧ y.cgd = true)
    (hrt : y.phase = .returned → y.tgd = true) : InvA (setTask (setScope σ s y) t x) := by
  have hmem := (h.mem_iff t).mpr hpres
  refine ⟨h.nodup, ?_, ?_, ?_, ?_, ?_, ?_, ?_, ?_⟩
  · intro i
    by_cases hi : i = t
    · subst hi; simp [hmem, hx]
    · simp [hi, h.mem_iff i]
  · intro i
    by_cases hi : i = t
    · subst hi; simp [hxs, hy]
    · simp only [setTask_task, hi, if_false, setTask_scope, setScope_task, setScope_scope]
      intro hp
      have := h.task_scope i hp
      split
      · exact hy
      · exact this
  · intro s'
    have hc := mainCount_setTask (setScope σ s y) t x s' h.nodup hmem
    simp only [setScope_task, mainCount_setScope] at hc
    simp only [setTask_scope, setScope_scope]
    by_cases hs' : s' = s
    · subst hs'; simp only [if_true]; intro _; omega
    · simp only [hs', if_false]
      rw [holdsMain_other hs hs', holdsMain_other hxs hs'] at hc
      intro hp; have := h.mainLow_eq s' hp; omega
  · intro s'
    have hc := termCount_setTask (setScope σ s y) t x s' h.nodup hmem
    simp only [setScope_task, termCount_setScope] at hc
    simp only [setTask_scope, setScope_scope]
    by_cases hs' : s' = s
    · subst hs'; simp only [if_true]; intro _; omega
    · simp only [hs', if_false]
      rw [holdsTerm_other hs hs', holdsTerm_other hxs hs'] at hc
      intro hp; have := h.termLow_eq s' hp; omega
  all_goals
    intro s'
    simp only [setTask_scope, setScope_scope]
    by_cases hs' : s' = s
    · subst hs'; simp only [if_true]
      first | exact hcl | exact hcc | exact htg | exact hrt
    · simp only [hs', if_false]
      first | exact h.closed s' | exact h.cgd_closed s' | exact h.tgd_term s' | exact h.ret_tgd s'

theorem InvA.not_mem_of_absent {σ : State} (h : InvA σ) {c : Nat} (hc : (σ.task c).phase = .absent) : c ∉ σ.tids := by
  intro hm; exact (h.mem_iff c).mp hm hc

theorem InvA.counts_absent {σ : State} (h : InvA σ) {s : Nat} (hs : (σ.scope s).phase = .absent) :
    mainCount σ s = 0 ∧ termCount σ s = 0 := by
  constructor
  · apply List.countP_eq_zero.mpr
    intro t ht hh
    have hp := (h.mem_iff t).mp ht
    have := h.task_scope t hp
    simp [holdsMain] at hh
    rw [hh.1.1] at this
    exact this hs
  · apply List.countP_eq_zero.mpr
    intro t ht hh
    have hp := (h.mem_iff t).mp ht
    have := h.task_scope t hp
    simp [holdsTerm] at hh
    rw [hh.1] at this
    exact this hs

/-- a new task record together with the record of its scope -/
theorem invA_addBoth {σ : State} (h : InvA σ) (c : Nat) (x : Task) (s : Nat) (y : Scope)
    (habs : (σ.task c).phase = .absent) (hx : x.phase ≠ .absent) (hxs : x.scope = s) (hy : y.phase ≠ .absent)
    (hm : y.mainLow = y.rgHeld.toNat + (holdsMain s x).toNat + mainCount σ s)
    (ht : y.termLow = (!y.cgd).toNat + (holdsTerm s x).toNat + termCount σ s)
    (hcl : y.mainClosed = true → y.mainLow = 0)
    (hcc : y.cgd = true → y.mainClosed = true)
    (htg : y.tgd = true → y.termLow = 0 ∧ y.cgd = true)
    (hrt : y.phase = .returned → y.tgd = true) : InvA (addTask (setScope σ s y) c x) := by
  have hnm := h.not_mem_of_absent habs
  refine ⟨?_, ?_, ?_, ?_, ?_, ?_, ?_, ?_, ?_⟩
  · simp only [addTask_tids, setScope_tids]; exact List.nodup_cons.mpr ⟨hnm, h.nodup⟩
  · intro i
    by_cases hi : i = c
    · subst hi; simp [hx]
    · simp [hi, h.mem_iff i]
  · intro i
    by_cases hi : i = c
    · subst hi; simp [hxs, hy]
    · simp only [addTask_task, hi, if_false, addTask_scope, setScope_task, setScope_scope]
      intro hp
      have := h.task_scope i hp
      split
      · exact hy
      · exact this
  · intro s'
    have hc := mainCount_addTask (setScope σ s y) c x s' hnm
    simp only [mainCount_setScope] at hc
    simp only [addTask_scope, setScope_scope]
    by_cases hs' : s' = s
    · subst hs'; simp only [if_true]; intro _; omega
    · simp only [hs', if_false]
      rw [holdsMain_other hxs hs'] at hc
      intro hp; have := h.mainLow_eq s' hp; simp at hc; omega
  · intro s'
    have hc := termCount_addTask (setScope σ s y) c x s' hnm
    simp only [termCount_setScope] at hc
    simp only [addTask_scope, setScope_scope]
    by_cases hs' : s' = s
    · subst hs'; simp only [if_true]; intro _; omega
    · simp only [hs', if_false]
      rw [holdsTerm_other hxs hs'] at hc
      intro hp; have := h.termLow_eq s' hp; simp at hc; omega
  all_goals
    intro s'
    simp only [addTask_scope, setScope_scope]
    by_cases hs' : s' = s
    · subst hs'; simp only [if_true]
      first | exact hcl | exact hcc | exact htg | exact hrt
    · simp only [hs', if_false]
      first | exact h.closed s' | exact h.cgd_closed s' | exact h.tgd_term s' | exact h.ret_tgd s'

theorem invA_step {σ : State} {e : Event} (h : InvA σ) (hg : enabled σ e = true) : InvA (apply σ e) := by
  cases e with
  | ctxnew c p d =>
    exact ⟨h.nodup, h.mem_iff, h.task_scope, h.mainLow_eq, h.termLow_eq, h.closed, h.cgd_closed, h.tgd_term, h.ret_tgd⟩
  | obs t c => exact h
  | advance d =>
    exact ⟨h.nodup, h.mem_iff, h.task_scope, h.mainLow_eq, h.termLow_eq, h.closed, h.cgd_closed, h.tgd_term, h.ret_tgd⟩
  | endT t o v =>
    simp [enabled] at hg
    obtain ⟨hr, _⟩ := hg
    apply invA_setTask_same h
    · simp [hr]
    · simp
    · rfl
    · intro s; simp [holdsMain, hr]
    · intro s; simp [holdsTerm, hr]
  | tgd s =>
    simp [enabled] at hg
    obtain ⟨⟨hl, hnt⟩, h0⟩ := hg
    have hne : (σ.scope s).phase ≠ .absent := by simp [hl]
    have hte := h.termLow_eq s hne
    have hc : (σ.scope s).cgd = true := by
      cases hcc : (σ.scope s).cgd with
      | true => rfl
      | false => simp [hcc] at hte; omega
    apply invA_setScope h
    · simpa using hne
    · exact h.mainLow_eq s hne
    · exact hte
    · exact h.closed s
    · exact h.cgd_closed s
    · intro _; exact ⟨h0, hc⟩
    · intro hr; simp [hl] at hr
  | rgd s =>
    simp [enabled] at hg
    obtain ⟨⟨hl, hrg⟩, hpos⟩ := hg
    have hne : (σ.scope s).phase ≠ .absent := by simp [hl]
    have hme := h.mainLow_eq s hne
    apply invA_setScope h
    · simpa using hne
    · simp [hrg] at hme ⊢; omega
    · exact h.termLow_eq s hne
    · intro hc; have := h.closed s hc; omega
    · exact h.cgd_closed s
    · exact h.tgd_term s
    · intro hr; simp [hl] at hr
  | cgd s cc =>
    simp [enabled] at hg
    obtain ⟨⟨⟨⟨hl, hnc⟩, hm0⟩, htpos⟩, _⟩ := hg
    have hne : (σ.scope s).phase ≠ .absent := by simp [hl]
    have hme := h.mainLow_eq s hne
    have hte := h.termLow_eq s hne
    apply invA_of_eq (σ := setScope σ s { σ.scope s with cgd := true, mainClosed := true, termLow := (σ.scope s).termLow - 1 })
    · apply invA_setScope h
      · simpa using hne
      · exact hme
      · simp [hnc] at hte ⊢; omega
      · intro _; exact hm0
      · intro _; rfl
      · intro htg; have := h.tgd_term s htg; simp [hnc] at this
      · intro hr; simp [hl] at hr
    · rfl
    · rfl
    · rfl
  | cancel s t cc =>
    simp [enabled] at hg
    have hlive := h.active_live t (Or.inr (Or.inl hg.1.1.1))
    rw [hg.1.2] at hlive
    have hne : (σ.scope s).phase ≠ .absent := by simp [hlive]
    apply invA_of_eq (σ := setScope σ s { σ.scope s with explicit := true })
    · apply invA_setScope h
      · simpa using hne
      · exact h.mainLow_eq s hne
      · exact h.termLow_eq s hne
      · exact h.closed s
      · exact h.cgd_closed s
      · exact h.tgd_term s
      · exact h.ret_tgd s
    · rfl
    · rfl
    · rfl
  | ret s r =>
    simp [enabled] at hg
    obtain ⟨⟨hl, htg⟩, _⟩ := hg
    have hne : (σ.scope s).phase ≠ .absent := by simp [hl]
    apply invA_of_eq (σ := setScope σ s { σ.scope s with phase := .returned, result := some r })
    · apply invA_setScope h
      · simp
      · exact h.mainLow_eq s hne
      · exact h.termLow_eq s hne
      · exact h.closed s
      · exact h.cgd_closed s
      · exact h.tgd_term s
      · intro _; exact htg
    · simp only [apply]; split <;> rfl
    · simp only [apply]; split <;> rfl
    · simp only [apply]; split <;> rfl
  | seterr s t ip st cc =>
    simp [enabled] at hg
    obtain ⟨⟨⟨⟨⟨⟨hen, hsc⟩, _⟩, _⟩, _⟩, _⟩, _⟩ := hg
    have hlive := h.active_live t (Or.inr (Or.inr hen))
    rw [hsc] at hlive
    have hne : (σ.scope s).phase ≠ .absent := by simp [hlive]
    let y : Scope := { σ.scope s with
      slot := if st then (if ip then Slot.panic else Slot.err t (σ.task t).val) else (σ.scope s).slot,
      errLog := (σ.scope s).errLog ++ [(t, ip)] }
    have h1 : InvA (setScope σ s y) := by
      apply invA_setScope h
      · simpa [y] using hne
      · exact h.mainLow_eq s hne
      · exact h.termLow_eq s hne
      · exact h.closed s
      · exact h.cgd_closed s
      · exact h.tgd_term s
      · exact h.ret_tgd s
    have h2 : InvA (if st then causeCtx (setScope σ s y) (σ.scope s).ctx else setScope σ s y) := by
      split
      · exact invA_of_eq h1 rfl rfl rfl
      · exact h1
    have h3 := invA_setTask_same h2 t { σ.task t with reported := true }
      (by split <;> simp [hen]) (by simp [hen]) (by split <;> rfl)
      (by intro s'; split <;> simp [holdsMain]) (by intro s'; split <;> simp [holdsTerm])
    exact h3
  | rel t =>
    simp [enabled] at hg
    obtain ⟨⟨hen, _⟩, hpos⟩ := hg
    have hlive := h.active_live t (Or.inr (Or.inr hen))
    have hne : (σ.scope (σ.task t).scope).phase ≠ .absent := by simp [hlive]
    have hme := h.mainLow_eq _ hne
    have hte := h.termLow_eq _ hne
    simp only [apply]
    apply invA_setBoth h
    · simp [hen]
    · simp
    · rfl
    · rfl
    · split <;> simpa using hne
    · cases hm : (σ.task t).main <;> simp [hm, holdsMain, hen] at hpos ⊢ <;> omega
    · cases hm : (σ.task t).main <;> simp [hm, holdsTerm, hen] at hpos ⊢ <;> omega
    · cases hm : (σ.task t).main <;> simp [hm] at hpos ⊢
      · exact h.closed _
      · intro hc; have := h.closed _ hc; omega
    · split <;> exact h.cgd_closed _
    · cases hm : (σ.task t).main <;> simp [hm] at hpos ⊢
      · intro htg; have := h.tgd_term _ htg; omega
      · exact h.tgd_term _
    · split <;> (intro hr; simp [hlive] at hr)
  | start c m =>
    simp [enabled] at hg
    obtain ⟨⟨hpe, htpos⟩, hk⟩ := hg
    have hlive := h.active_live c (Or.inl hpe)
    have hne : (σ.scope (σ.task c).scope).phase ≠ .absent := by simp [hlive]
    have hme := h.mainLow_eq _ hne
    have hte := h.termLow_eq _ hne
    have hntg := h.active_not_tgd c (Or.inl hpe)
    simp only [apply]
    apply invA_setBoth h
    · simp [hpe]
    · simp
    · rfl
    · rfl
    · split
      · simpa using hne
      · split <;> simpa using hne
    · cases m <;> simp [holdsMain, hpe] at hk ⊢
      · split <;> simpa using hme
      · omega
    · cases m <;> simp [holdsTerm, hpe] at hk ⊢
      · split <;> simpa using hte
      · omega
    · cases m <;> simp at hk ⊢
      · split
        · intro _; rcases hk with hk | hk
          · simp_all
          · exact hk.1
        · exact h.closed _
      · exact hk.2
    · cases m <;> simp at hk ⊢
      · split
        · intro _; rfl
        · exact h.cgd_closed _
      · exact h.cgd_closed _
    · cases m <;> simp [hntg] at hk ⊢
      split <;> simp [hntg]
    · cases m <;> simp at hk ⊢
      · split <;> (intro hr; simp [hlive] at hr)
      · intro hr; simp [hlive] at hr
  | spawn p c r =>
    simp [enabled] at hg
    obtain ⟨⟨hrun, _⟩, habs⟩ := hg
    have hlive := h.active_live p (Or.inr (Or.inl hrun))
    have hne : (σ.scope (σ.task p).scope).phase ≠ .absent := by simp [hlive]
    have hme := h.mainLow_eq _ hne
    have hte := h.termLow_eq _ hne
    have hntg := h.active_not_tgd p (Or.inr (Or.inl hrun))
    simp only [apply]
    apply invA_addBoth h
    · exact habs
    · simp
    · rfl
    · simpa using hne
    · simp [holdsMain]; exact hme
    · simp [holdsTerm]; omega
    · intro hc; exact h.closed _ hc
    · exact h.cgd_closed _
    · intro htg; simp at htg; simp [hntg] at htg
    · intro hr; simp [hlive] at hr
  | make s c p o r =>
    simp [enabled] at hg
    obtain ⟨⟨⟨⟨⟨hsa, _⟩, _⟩, _⟩, hra⟩, _⟩ := hg
    have ⟨hm0, ht0⟩ := h.counts_absent hsa
    let y : Scope := { phase := .live, ctx := c, pctx := p, owner := o, root := r, rgHeld := true, mainLow := 1, termLow := 2 }
    have key : InvA (addTask (setScope σ s y) r { scope := s, parent := none, reqMain := true, phase := .pending }) := by
      apply invA_addBoth h
      · exact hra
      · simp
      · rfl
      · simp [y]
      · simp [holdsMain, hm0, y]
      · simp [holdsTerm, ht0, y]
      · simp [y]
      · simp [y]
      · simp [y]
      · simp [y]
    apply invA_of_eq key
    · simp only [apply]; cases o <;> rfl
    · simp only [apply]; cases o <;> rfl
    · simp only [apply]; cases o <;> rfl



/-! ## the error slot -/

/-- the slot as a function of the sequence of `set_err` calls: a panic anywhere wins, else the first error -/
def slotOf (val : Nat → Nat) (log : List (Nat × Bool)) : Slot :=
  if log.any (fun e => e.2) then .panic
  else match log with
    | [] => .empty
    | (t, _) :: _ => .err t (val t)

theorem slotOf_congr (val val' : Nat → Nat) (log : List (Nat × Bool)) (h : ∀ e ∈ log, val' e.1 = val e.1) :
    slotOf val' log = slotOf val log := by
  unfold slotOf
  split
  · rfl
  · cases log with
    | nil => rfl
    | cons a l => simp [h a (by simp)]

theorem slotOf_append (val : Nat → Nat) (log : List (Nat × Bool)) (t : Nat) (p : Bool) :
    slotOf val (log ++ [(t, p)]) =
      if shouldStore (slotOf val log) p then (if p then Slot.panic else Slot.err t (val t)) else slotOf val log := by
  unfold slotOf
  by_cases hany : log.any (fun e => e.2) = true
  · simp [hany, shouldStore]
  · cases log with
    | nil => cases p <;> simp [shouldStore]
    | cons a l =>
      simp only [Bool.not_eq_true] at hany
      cases p <;> simp [hany, shouldStore]
      obtain ⟨a1, a2⟩ := a
      simp at hany ⊢
      simp [hany]

theorem slotOf_eq_empty (val : Nat → Nat) (log : List (Nat × Bool)) : slotOf val log = .empty ↔ log = [] := by
  unfold slotOf
  constructor
  · intro h
    split at h
    · cases h
    · cases log with
      | nil => rfl
      | cons a l => simp at h
  · intro h; subst h; simp

structure InvB (σ : State) : Prop where
  slot_eq : ∀ s, (σ.scope s).slot = slotOf (fun t => (σ.task t).val) (σ.scope s).errLog
  log_sound : ∀ s t p, (t, p) ∈ (σ.scope s).errLog →
    (σ.task t).scope = s ∧ (σ.task t).reported = true ∧ ((σ.task t).phase = .ended ∨ (σ.task t).phase = .released)
      ∧ (σ.task t).out ≠ .ok ∧ outIsPanic (σ.task t).out = p
  reported_in : ∀ t, (σ.task t).reported = true →
    ((σ.task t).phase = .ended ∨ (σ.task t).phase = .released) ∧ ∃ p, (t, p) ∈ (σ.scope (σ.task t).scope).errLog
  released_reported : ∀ t, (σ.task t).phase = .released → (σ.task t).out ≠ .ok → (σ.task t).reported = true
  log_nodup : ∀ s, ((σ.scope s).errLog.map (fun e => e.1)).Nodup
  absent_log : ∀ s, (σ.scope s).phase = .absent → (σ.scope s).errLog = [] ∧ (σ.scope s).slot = .empty

theorem invB_init : InvB init := by
  constructor <;> simp [init, slotOf]


/-- scopes keep slot and log; task records change only in ways the error bookkeeping does not see -/
theorem invB_compat {σ σ' : State} (h : InvB σ)
    (hs : ∀ s, (σ'.scope s).slot = (σ.scope s).slot ∧ (σ'.scope s).errLog = (σ.scope s).errLog)
    (hp : ∀ s, (σ'.scope s).phase = .absent → (σ.scope s).phase = .absent)
    (ha : ∀ t, (σ'.task t).reported = (σ.task t).reported)
    (hb : ∀ t, (σ.task t).reported = true → (σ'.task t).scope = (σ.task t).scope ∧ (σ'.task t).out = (σ.task t).out
      ∧ (σ'.task t).val = (σ.task t).val ∧ ((σ'.task t).phase = .ended ∨ (σ'.task t).phase = .released))
    (hc : ∀ t, (σ'.task t).phase = .released → (σ'.task t).out = .ok ∨ (σ'.task t).reported = true) : InvB σ' := by
  refine ⟨?_, ?_, ?_, ?_, ?_, ?_⟩
  · intro s
    rw [(hs s).1, (hs s).2, h.slot_eq s]
    apply (slotOf_congr _ _ _ _).symm
    intro e he
    have := h.log_sound s e.1 e.2 he
    exact (hb e.1 this.2.1).2.2.1
  · intro s t p hm
    rw [(hs s).2] at hm
    have := h.log_sound s t p hm
    have hb' := hb t this.2.1
    refine ⟨by rw [hb'.1]; exact this.1, by rw [ha t]; exact this.2.1, hb'.2.2.2, by rw [hb'.2.1]; exact this.2.2.2.1,
      by rw [hb'.2.1]; exact this.2.2.2.2⟩
  · intro t hr
    rw [ha t] at hr
    have hb' := hb t hr
    have := h.reported_in t hr
    refine ⟨hb'.2.2.2, ?_⟩
    rw [hb'.1, (hs _).2]
    exact this.2
  · intro t hrel hout
    rcases hc t hrel with h1 | h1
    · exact absurd h1 hout
    · exact h1
  · intro s; rw [(hs s).2]; exact h.log_nodup s
  · intro s hab
    rw [(hs s).1, (hs s).2]
    exact h.absent_log s (hp s hab)

theorem InvB.not_reported {σ : State} (h : InvB σ) (t : Nat)
    (hp : (σ.task t).phase ≠ .ended ∧ (σ.task t).phase ≠ .released) : (σ.task t).reported = false := by
  cases hr : (σ.task t).reported with
  | false => rfl
  | true =>
    have := (h.reported_in t hr).1
    rcases this with h1 | h1
    · exact absurd h1 hp.1
    · exact absurd h1 hp.2

theorem InvB.released_ok {σ : State} (h : InvB σ) (t : Nat) (hp : (σ.task t).phase = .released) :
    (σ.task t).out = .ok ∨ (σ.task t).reported = true := by
  by_cases ho : (σ.task t).out = .ok
  · exact Or.inl ho
  · exact Or.inr (h.released_reported t hp ho)


theorem invB_step {σ : State} {e : Event} (hA : InvA σ) (h : InvB σ) (hg : enabled σ e = true) : InvB (apply σ e) := by
  -- facts about unchanged tasks used by `invB_compat`
  have hb0 : ∀ t, (σ.task t).reported = true → ((σ.task t).phase = .ended ∨ (σ.task t).phase = .released) :=
    fun t hr => (h.reported_in t hr).1
  cases e with
  | ctxnew c p d => exact invB_compat h (fun s => ⟨rfl, rfl⟩) (fun s hh => hh) (fun t => rfl) (fun t hr => ⟨rfl, rfl, rfl, hb0 t hr⟩) (fun t hr => h.released_ok t hr)
  | obs t c => exact h
  | advance d => exact invB_compat h (fun s => ⟨rfl, rfl⟩) (fun s hh => hh) (fun t => rfl) (fun t hr => ⟨rfl, rfl, rfl, hb0 t hr⟩) (fun t hr => h.released_ok t hr)
  | tgd s =>
    simp [enabled] at hg
    apply invB_compat h
    · intro s'; simp only [apply, setScope_scope]; split <;> simp_all
    · intro s'; simp only [apply, setScope_scope]; split <;> simp_all
    · intro t; rfl
    · intro t hr; exact ⟨rfl, rfl, rfl, hb0 t hr⟩
    · intro t hr; exact h.released_ok t hr
  | rgd s =>
    simp [enabled] at hg
    apply invB_compat h
    · intro s'; simp only [apply, setScope_scope]; split <;> simp_all
    · intro s'; simp only [apply, setScope_scope]; split <;> simp_all
    · intro t; rfl
    · intro t hr; exact ⟨rfl, rfl, rfl, hb0 t hr⟩
    · intro t hr; exact h.released_ok t hr
  | cgd s cc =>
    simp [enabled] at hg
    apply invB_compat h
    · intro s'; simp only [apply, causeCtx_scope, setScope_scope]; split <;> simp_all
    · intro s'; simp only [apply, causeCtx_scope, setScope_scope]; split <;> simp_all
    · intro t; rfl
    · intro t hr; exact ⟨rfl, rfl, rfl, hb0 t hr⟩
    · intro t hr; exact h.released_ok t hr
  | cancel s t cc =>
    simp [enabled] at hg
    have hlive := hA.active_live t (Or.inr (Or.inl hg.1.1.1))
    rw [hg.1.2] at hlive
    apply invB_compat h
    · intro s'; simp only [apply, causeCtx_scope, setScope_scope]; split <;> simp_all
    · intro s'; simp only [apply, causeCtx_scope, setScope_scope]; split <;> simp_all
    · intro t; rfl
    · intro t hr; exact ⟨rfl, rfl, rfl, hb0 t hr⟩
    · intro t hr; exact h.released_ok t hr
  | ret s r =>
    simp [enabled] at hg
    have e1 : (apply σ (.ret s r)).task = σ.task := by simp only [apply]; split <;> rfl
    have e2 : (apply σ (.ret s r)).scope = (setScope σ s { σ.scope s with phase := .returned, result := some r }).scope := by
      simp only [apply]; split <;> rfl
    apply invB_compat h
    · intro s'; rw [e2]; simp only [setScope_scope]; split <;> simp_all
    · intro s'; rw [e2]; simp only [setScope_scope]; split <;> simp_all
    · intro t; rw [e1]
    · intro t hr; rw [e1]; exact ⟨rfl, rfl, rfl, hb0 t hr⟩
    · intro t; rw [e1]; intro hr; exact h.released_ok t hr
  | start c m =>
    simp [enabled] at hg
    have hnr := h.not_reported c (by simp [hg.1.1])
    apply invB_compat h
    · intro s'; simp only [apply, setTask_scope, setScope_scope]; split <;> (try split) <;> (try split) <;> simp_all
    · intro s'; simp only [apply, setTask_scope, setScope_scope]; split <;> (try split) <;> (try split) <;> simp_all
    · intro t; simp only [apply, setTask_task, setScope_task]; split <;> simp_all
    · intro t hr; simp only [apply, setTask_task, setScope_task]
      split
      · simp_all
      · exact ⟨rfl, rfl, rfl, hb0 t hr⟩
    · intro t; simp only [apply, setTask_task, setScope_task]
      split
      · simp
      · intro hr; exact h.released_ok t hr
  | endT t o v =>
    simp [enabled] at hg
    have hnr := h.not_reported t (by simp [hg.1])
    apply invB_compat h
    · intro s'; exact ⟨rfl, rfl⟩
    · intro s' hh; exact hh
    · intro i; simp only [apply, setTask_task]; split <;> simp_all
    · intro i hr; simp only [apply, setTask_task]
      split
      · simp_all
      · exact ⟨rfl, rfl, rfl, hb0 i hr⟩
    · intro i; simp only [apply, setTask_task]
      split
      · simp
      · intro hr; exact h.released_ok i hr
  | rel t =>
    simp [enabled] at hg
    apply invB_compat h
    · intro s'; simp only [apply, setTask_scope, setScope_scope]; split <;> (try split) <;> simp_all
    · intro s'; simp only [apply, setTask_scope, setScope_scope]; split <;> (try split) <;> simp_all
    · intro i; simp only [apply, setTask_task, setScope_task]; split <;> simp_all
    · intro i hr; simp only [apply, setTask_task, setScope_task]
      split
      · simp_all
      · exact ⟨rfl, rfl, rfl, hb0 i hr⟩
    · intro i; simp only [apply, setTask_task, setScope_task]
      split
      · intro _; subst_vars; exact hg.1.2
      · intro hr; exact h.released_ok i hr
  | spawn p c r =>
    simp [enabled] at hg
    have hnr := h.not_reported c (by simp [hg.2])
    apply invB_compat h
    · intro s'; simp only [apply, addTask_scope, setScope_scope]; split <;> simp_all
    · intro s'; simp only [apply, addTask_scope, setScope_scope]; split <;> simp_all
    · intro i; simp only [apply, addTask_task, setScope_task]; split <;> simp_all
    · intro i hr; simp only [apply, addTask_task, setScope_task]
      split
      · simp_all
      · exact ⟨rfl, rfl, rfl, hb0 i hr⟩
    · intro i; simp only [apply, addTask_task, setScope_task]
      split
      · simp
      · intro hr; exact h.released_ok i hr
  | make s c p o r =>
    simp [enabled] at hg
    obtain ⟨⟨⟨⟨⟨hsa, _⟩, _⟩, _⟩, hra⟩, _⟩ := hg
    have hnr := h.not_reported r (by simp [hra])
    have hal := h.absent_log s hsa
    have e1 : (apply σ (.make s c p o r)).task = fun i => if i = r then ({ scope := s, parent := none, reqMain := true, phase := .pending } : Task) else σ.task i := by
      simp only [apply]; cases o <;> rfl
    have e2 : (apply σ (.make s c p o r)).scope = fun i => if i = s then ({ phase := .live, ctx := c, pctx := p, owner := o, root := r, rgHeld := true, mainLow := 1, termLow := 2 } : Scope) else σ.scope i := by
      simp only [apply]; cases o <;> rfl
    apply invB_compat h
    · intro s'; rw [e2]; simp only; split <;> simp_all
    · intro s'; rw [e2]; simp only; split <;> simp_all
    · intro i; rw [e1]; simp only; split <;> simp_all
    · intro i hr; rw [e1]; simp only
      split
      · simp_all
      · exact ⟨rfl, rfl, rfl, hb0 i hr⟩
    · intro i; rw [e1]; simp only
      split
      · simp
      · intro hr; exact h.released_ok i hr
  | seterr s t ip st cc =>
    simp [enabled] at hg
    obtain ⟨⟨⟨⟨⟨⟨hen, hsc⟩, hnr⟩, hout⟩, hip⟩, hst⟩, _⟩ := hg
    have hlive := hA.active_live t (Or.inr (Or.inr hen))
    rw [hsc] at hlive
    have hnotin : ∀ s' p, (t, p) ∉ (σ.scope s').errLog := by
      intro s' p hm
      have := (h.log_sound s' t p hm).2.1
      simp [hnr] at this
    have e1 : (apply σ (.seterr s t ip st cc)).task = fun i => if i = t then { σ.task t with reported := true } else σ.task i := by
      simp only [apply]; split <;> rfl
    have e2 : (apply σ (.seterr s t ip st cc)).scope = fun i => if i = s then
        { σ.scope s with slot := if st then (if ip then Slot.panic else Slot.err t (σ.task t).val) else (σ.scope s).slot,
                         errLog := (σ.scope s).errLog ++ [(t, ip)] } else σ.scope i := by
      simp only [apply]; split <;> rfl
    have hval : ∀ i, ((apply σ (.seterr s t ip st cc)).task i).val = (σ.task i).val := by
      intro i; rw [e1]; simp only; split
      · subst_vars; rfl
      · rfl
    refine ⟨?_, ?_, ?_, ?_, ?_, ?_⟩
    · intro s'
      have hv : (fun i => ((apply σ (.seterr s t ip st cc)).task i).val) = fun i => (σ.task i).val := funext hval
      rw [hv, e2]
      by_cases hs : s' = s
      · subst hs
        simp only [if_true]
        rw [slotOf_append, ← h.slot_eq s', ← hst]
      · simp only [hs, if_false]; exact h.slot_eq s'
    · intro s' t' p hm
      rw [e2] at hm
      rw [e1]
      by_cases hs : s' = s
      · subst hs
        simp only [if_true, List.mem_append, List.mem_singleton, Prod.mk.injEq] at hm
        rcases hm with hm | ⟨rfl, rfl⟩
        · have ht' : t' ≠ t := fun hh => hnotin s' p (hh ▸ hm)
          simp only [ht', if_false]
          exact h.log_sound s' t' p hm
        · simp only [if_true]
          exact ⟨hsc, by simp, Or.inl hen, hout, hip⟩
      · simp only [hs, if_false] at hm
        have ht' : t' ≠ t := fun hh => hnotin s' p (hh ▸ hm)
        simp only [ht', if_false]
        exact h.log_sound s' t' p hm
    · intro i
      rw [e1, e2]
      by_cases hi : i = t
      · subst hi
        simp only [if_true]
        intro _
        refine ⟨Or.inl hen, ip, ?_⟩
        simp [hsc]
      · simp only [hi, if_false]
        intro hr
        have := h.reported_in i hr
        refine ⟨this.1, ?_⟩
        obtain ⟨p, hp⟩ := this.2
        refine ⟨p, ?_⟩
        split
        · rename_i heq
          simp only [List.mem_append]
          left; rw [← heq]; exact hp
        · exact hp
    · intro i
      rw [e1]
      by_cases hi : i = t
      · subst hi; simp [hen]
      · simp only [hi, if_false]; exact h.released_reported i
    · intro s'
      rw [e2]
      by_cases hs : s' = s
      · subst hs
        simp only [if_true, List.map_append, List.map_cons, List.map_nil]
        apply List.nodup_append.mpr
        refine ⟨h.log_nodup s', by simp, ?_⟩
        intro a ha b hb
        simp at hb
        subst hb
        intro hab
        subst hab
        simp only [List.mem_map] at ha
        obtain ⟨⟨a1, a2⟩, hm, rfl⟩ := ha
        exact hnotin s' a2 hm
      · simp only [hs, if_false]; exact h.log_nodup s'
    · intro s'
      rw [e2]
      by_cases hs : s' = s
      · subst hs; simp [hlive]
      · simp only [hs, if_false]; exact h.absent_log s'


/-! ## contexts -/

/-- one of the three local causes of cancellation of a scope's context has happened -/
def Scope.flag (x : Scope) : Prop := x.slot ≠ .empty ∨ x.cgd = true ∨ x.explicit = true

structure InvC (σ : State) : Prop where
  scope_ctx : ∀ s, (σ.scope s).phase ≠ .absent →
    (σ.ctx (σ.scope s).ctx).present = true ∧ (σ.ctx (σ.scope s).ctx).ofScope = some s ∧
    (σ.ctx (σ.scope s).pctx).present = true ∧
    (σ.ctx (σ.scope s).ctx).anc = (σ.scope s).ctx :: (σ.ctx (σ.scope s).pctx).anc
  cause_origin : ∀ c, (σ.ctx c).cause = true →
    ∃ s, (σ.scope s).phase ≠ .absent ∧ (σ.scope s).ctx = c ∧ (σ.scope s).flag
  cause_of : ∀ s, (σ.scope s).phase ≠ .absent → (σ.scope s).flag → (σ.ctx (σ.scope s).ctx).cause = true
  anc_self : ∀ c, (σ.ctx c).present = true → c ∈ (σ.ctx c).anc
  anc_closed : ∀ c a, (σ.ctx c).present = true → a ∈ (σ.ctx c).anc →
    (σ.ctx a).present = true ∧ ∀ b ∈ (σ.ctx a).anc, b ∈ (σ.ctx c).anc

theorem invC_init : InvC init := by
  refine ⟨?_, ?_, ?_, ?_, ?_⟩
  · intro s h; simp [init] at h
  · intro c h; simp [init] at h; split at h <;> simp at h
  · intro s h; simp [init] at h
  · intro c h; simp [init] at h ⊢; split at h <;> simp_all
  · intro c a h ha
    simp [init] at h ha ⊢
    split at h
    · subst_vars; simp at ha; subst ha; simp
    · simp at h

theorem invC_compat {σ σ' : State} (h : InvC σ) (hc : σ'.ctx = σ.ctx)
    (hs : ∀ s, (σ'.scope s).ctx = (σ.scope s).ctx ∧ (σ'.scope s).pctx = (σ.scope s).pctx ∧
      ((σ'.scope s).phase ≠ .absent ↔ (σ.scope s).phase ≠ .absent) ∧ ((σ'.scope s).flag ↔ (σ.scope s).flag)) :
    InvC σ' := by
  refine ⟨?_, ?_, ?_, ?_, ?_⟩
  · intro s hp
    rw [hc, (hs s).1, (hs s).2.1]
    exact h.scope_ctx s ((hs s).2.2.1.mp hp)
  · intro c hcause
    rw [hc] at hcause
    obtain ⟨s, h1, h2, h3⟩ := h.cause_origin c hcause
    exact ⟨s, (hs s).2.2.1.mpr h1, by rw [(hs s).1]; exact h2, (hs s).2.2.2.mpr h3⟩
  · intro s hp hf
    rw [hc, (hs s).1]
    exact h.cause_of s ((hs s).2.2.1.mp hp) ((hs s).2.2.2.mp hf)
  · intro c; rw [hc]; exact h.anc_self c
  · intro c a; rw [hc]; exact h.anc_closed c a

/-- `Ctx::cancel` on the context of scope `s`, which at the same time records one of the three causes -/
theorem invC_cause {σ σ' : State} (h : InvC σ) (s : Nat) (hs0 : (σ.scope s).phase ≠ .absent)
    (hc : σ'.ctx = fun i => if i = (σ.scope s).ctx then { σ.ctx (σ.scope s).ctx with cause := true } else σ.ctx i)
    (hs : ∀ s', (σ'.scope s').ctx = (σ.scope s').ctx ∧ (σ'.scope s').pctx = (σ.scope s').pctx ∧
      ((σ'.scope s').phase ≠ .absent ↔ (σ.scope s').phase ≠ .absent) ∧ (s' ≠ s → ((σ'.scope s').flag ↔ (σ.scope s').flag)))
    (hf : (σ'.scope s).flag) : InvC σ' := by
  have hctx : ∀ i, (σ'.ctx i).present = (σ.ctx i).present ∧ (σ'.ctx i).anc = (σ.ctx i).anc ∧
      (σ'.ctx i).ofScope = (σ.ctx i).ofScope ∧ ((σ.ctx i).cause = true → (σ'.ctx i).cause = true) := by
    intro i; rw [hc]; simp only
    split
    · subst_vars; simp
    · simp
  refine ⟨?_, ?_, ?_, ?_, ?_⟩
  · intro s' hp
    have := h.scope_ctx s' ((hs s').2.2.1.mp hp)
    rw [(hs s').1, (hs s').2.1, (hctx _).1, (hctx _).2.1, (hctx _).2.2.1, (hctx _).1, (hctx _).2.1]
    exact this
  · intro c hcause
    rw [hc] at hcause
    simp only at hcause
    split at hcause
    · rename_i heq
      exact ⟨s, (hs s).2.2.1.mpr hs0, by rw [(hs s).1]; exact heq.symm, hf⟩
    · obtain ⟨s', h1, h2, h3⟩ := h.cause_origin c hcause
      by_cases hss : s' = s
      · subst hss; exact ⟨s', (hs s').2.2.1.mpr h1, by rw [(hs s').1]; exact h2, hf⟩
      · exact ⟨s', (hs s').2.2.1.mpr h1, by rw [(hs s').1]; exact h2, ((hs s').2.2.2 hss).mpr h3⟩
  · intro s' hp hfl
    rw [(hs s').1]
    by_cases hss : s' = s
    · subst hss; rw [hc]; simp
    · apply (hctx _).2.2.2
      exact h.cause_of s' ((hs s').2.2.1.mp hp) (((hs s').2.2.2 hss).mp hfl)
  · intro c hp
    rw [(hctx c).1] at hp; rw [(hctx c).2.1]; exact h.anc_self c hp
  · intro c a hp ha
    rw [(hctx c).1] at hp; rw [(hctx c).2.1] at ha
    have := h.anc_closed c a hp ha
    rw [(hctx a).1, (hctx a).2.1, (hctx c).2.1]
    exact this


/-- a fresh context `c` below `p`, possibly as the context of a fresh scope -/
theorem invC_newctx {σ σ' : State} (h : InvC σ) (c p : Nat) (d : Option Nat) (os : Option Nat)
    (hcabs : (σ.ctx c).present = false) (hpp : (σ.ctx p).present = true)
    (hc : σ'.ctx = fun i => if i = c then { present := true, anc := c :: (σ.ctx p).anc, deadline := d, ofScope := os } else σ.ctx i)
    (hs : ∀ s', σ'.scope s' = σ.scope s' ∨
      ((σ.scope s').phase = .absent ∧ (σ'.scope s').ctx = c ∧ (σ'.scope s').pctx = p ∧ os = some s' ∧ ¬ (σ'.scope s').flag)) :
    InvC σ' := by
  have hcp : p ≠ c := by intro hh; subst hh; simp [hpp] at hcabs
  have hold : ∀ i, (σ.ctx i).present = true → σ'.ctx i = σ.ctx i := by
    intro i hi; rw [hc]; simp only
    split
    · subst_vars; simp [hi] at hcabs
    · rfl
  have hnew : σ'.ctx c = { present := true, anc := c :: (σ.ctx p).anc, deadline := d, ofScope := os } := by
    rw [hc]; simp
  refine ⟨?_, ?_, ?_, ?_, ?_⟩
  · intro s' hp
    rcases hs s' with he | ⟨_, h2, h3, h4, _⟩
    · rw [he] at hp ⊢
      have := h.scope_ctx s' hp
      rw [hold _ this.1, hold _ this.2.2.1]
      exact this
    · rw [h2, h3, hnew, hold p hpp]
      exact ⟨rfl, h4, hpp, rfl⟩
  · intro c' hcause
    by_cases hcc : c' = c
    · subst hcc; rw [hnew] at hcause; simp at hcause
    · rw [hc] at hcause; simp only [hcc, if_false] at hcause
      obtain ⟨s', h1, h2, h3⟩ := h.cause_origin c' hcause
      rcases hs s' with he | ⟨ha, _⟩
      · exact ⟨s', by rw [he]; exact h1, by rw [he]; exact h2, by rw [he]; exact h3⟩
      · exact absurd ha h1
  · intro s' hp hf
    rcases hs s' with he | ⟨_, _, _, _, hnf⟩
    · rw [he] at hp hf ⊢
      have hpr := (h.scope_ctx s' hp).1
      rw [hold _ hpr]
      exact h.cause_of s' hp hf
    · exact absurd hf hnf
  · intro c' hp
    by_cases hcc : c' = c
    · subst hcc; rw [hnew]; simp
    · rw [hc] at hp ⊢; simp only [hcc, if_false] at hp ⊢; exact h.anc_self c' hp
  · intro c' a hp ha
    by_cases hcc : c' = c
    · subst hcc
      rw [hnew] at ha ⊢
      simp only [List.mem_cons] at ha
      rcases ha with rfl | ha
      · rw [hnew]; exact ⟨rfl, fun b hb => hb⟩
      · have := h.anc_closed p a hpp ha
        rw [hold a this.1]
        exact ⟨this.1, fun b hb => List.mem_cons_of_mem _ (this.2 b hb)⟩
    · rw [hc] at hp ha; simp only [hcc, if_false] at hp ha
      have := h.anc_closed c' a hp ha
      rw [hold a this.1, hold c' hp]
      exact this


theorem invC_step {σ : State} {e : Event} (hA : InvA σ) (h : InvC σ) (hg : enabled σ e = true) : InvC (apply σ e) := by
  cases e with
  | obs t c => exact h
  | advance d => exact invC_compat h rfl (fun s => ⟨rfl, rfl, Iff.rfl, Iff.rfl⟩)
  | ctxnew c p d =>
    simp [enabled] at hg
    exact invC_newctx h c p d none hg.1 hg.2 rfl (fun s' => Or.inl rfl)
  | make s c p o r =>
    simp [enabled] at hg
    obtain ⟨⟨⟨⟨⟨hsa, hca⟩, hpp⟩, _⟩, _⟩, _⟩ := hg
    apply invC_newctx h c p none (some s) hca hpp
    · simp only [apply]; cases o <;> rfl
    · intro s'
      have e2 : (apply σ (.make s c p o r)).scope = fun i => if i = s then ({ phase := .live, ctx := c, pctx := p, owner := o, root := r, rgHeld := true, mainLow := 1, termLow := 2 } : Scope) else σ.scope i := by
        simp only [apply]; cases o <;> rfl
      rw [e2]
      by_cases hs : s' = s
      · subst hs; right; simp [hsa, Scope.flag]
      · left; simp [hs]
  | spawn p c r =>
    refine invC_compat (σ' := apply σ (.spawn p c r)) h rfl ?_
    intro s'; simp only [apply, addTask_scope, setScope_scope]
    split
    · subst_vars; simp [Scope.flag]
    · simp
  | start c m =>
    refine invC_compat (σ' := apply σ (.start c m)) h rfl ?_
    intro s'; simp only [apply, setTask_scope, setScope_scope]
    split
    · subst_vars; split
      · simp [Scope.flag]
      · split <;> simp [Scope.flag]
    · simp
  | endT t o v => exact invC_compat h rfl (fun s => ⟨rfl, rfl, Iff.rfl, Iff.rfl⟩)
  | rel t =>
    refine invC_compat (σ' := apply σ (.rel t)) h rfl ?_
    intro s'; simp only [apply, setTask_scope, setScope_scope]
    split
    · subst_vars; split <;> simp [Scope.flag]
    · simp
  | rgd s =>
    refine invC_compat (σ' := apply σ (.rgd s)) h rfl ?_
    intro s'; simp only [apply, setScope_scope]
    split
    · subst_vars; simp [Scope.flag]
    · simp
  | tgd s =>
    refine invC_compat (σ' := apply σ (.tgd s)) h rfl ?_
    intro s'; simp only [apply, setScope_scope]
    split
    · subst_vars; simp [Scope.flag]
    · simp
  | ret s r =>
    simp [enabled] at hg
    have e1 : (apply σ (.ret s r)).ctx = σ.ctx := by simp only [apply]; split <;> rfl
    have e2 : (apply σ (.ret s r)).scope = (setScope σ s { σ.scope s with phase := .returned, result := some r }).scope := by
      simp only [apply]; split <;> rfl
    apply invC_compat h e1
    intro s'; rw [e2]; simp only [setScope_scope]
    split
    · subst_vars; simp [Scope.flag, hg.1.1]
    · simp
  | cgd s cc =>
    simp [enabled] at hg
    have hne : (σ.scope s).phase ≠ .absent := by simp [hg.1.1.1.1]
    apply invC_cause h s hne
    · rfl
    · intro s'; simp only [apply, causeCtx_scope, setScope_scope]
      split
      · subst_vars; simp
      · simp
    · simp [apply, Scope.flag]
  | cancel s t cc =>
    simp [enabled] at hg
    have hlive := hA.active_live t (Or.inr (Or.inl hg.1.1.1))
    rw [hg.1.2] at hlive
    have hne : (σ.scope s).phase ≠ .absent := by simp [hlive]
    apply invC_cause h s hne
    · rfl
    · intro s'; simp only [apply, causeCtx_scope, setScope_scope]
      split
      · subst_vars; simp
      · simp
    · simp [apply, Scope.flag]
  | seterr s t ip st cc =>
    simp [enabled] at hg
    obtain ⟨⟨⟨⟨⟨⟨hen, hsc⟩, hnr⟩, hout⟩, hip⟩, hst⟩, _⟩ := hg
    have hlive := hA.active_live t (Or.inr (Or.inr hen))
    rw [hsc] at hlive
    have hne : (σ.scope s).phase ≠ .absent := by simp [hlive]
    cases st with
    | false =>
      apply invC_compat h
      · simp [apply]
      · intro s'; simp only [apply, Bool.false_eq_true, if_false, setTask_scope, setScope_scope]
        split
        · subst_vars; simp [Scope.flag]
        · simp
    | true =>
      apply invC_cause h s hne
      · simp [apply]; rfl
      · intro s'; simp only [apply, if_true, setTask_scope, causeCtx_scope, setScope_scope]
        split
        · subst_vars; simp
        · simp
      · simp only [apply, if_true, setTask_scope, causeCtx_scope, setScope_scope, Scope.flag]
        left; split <;> simp


/-! ## owners of nested scopes, roots -/

structure InvD (σ : State) : Prop where
  owner_inner : ∀ s o, (σ.scope s).phase = .live → (σ.scope s).owner = some o →
    (σ.task o).phase = .running ∧ σ.inner o = some s
  inner_owner : ∀ t s, σ.inner t = some s → (σ.scope s).phase = .live ∧ (σ.scope s).owner = some t
  owner_present : ∀ s o, (σ.scope s).phase ≠ .absent → (σ.scope s).owner = some o → (σ.task o).phase ≠ .absent
  root_scope : ∀ s, (σ.scope s).phase ≠ .absent →
    (σ.task (σ.scope s).root).scope = s ∧ (σ.task (σ.scope s).root).phase ≠ .absent

theorem invD_init : InvD init := by
  constructor <;> simp [init]

theorem InvD.inner_running {σ : State} (h : InvD σ) {t s : Nat} (hi : σ.inner t = some s) : (σ.task t).phase = .running := by
  have := h.inner_owner t s hi
  exact (h.owner_inner s t this.1 this.2).1

theorem invD_compat {σ σ' : State} (h : InvD σ) (hi : σ'.inner = σ.inner)
    (hs : ∀ s, (σ'.scope s).phase = (σ.scope s).phase ∧ (σ'.scope s).owner = (σ.scope s).owner ∧ (σ'.scope s).root = (σ.scope s).root)
    (ht : ∀ t, ((σ.task t).phase ≠ .absent → (σ'.task t).phase ≠ .absent ∧ (σ'.task t).scope = (σ.task t).scope) ∧
      ((σ.task t).phase = .running → σ.inner t ≠ none → (σ'.task t).phase = .running)) : InvD σ' := by
  refine ⟨?_, ?_, ?_, ?_⟩
  · intro s o hl ho
    rw [(hs s).1] at hl; rw [(hs s).2.1] at ho
    have := h.owner_inner s o hl ho
    rw [hi]
    exact ⟨(ht o).2 this.1 (by simp [this.2]), this.2⟩
  · intro t s hin
    rw [hi] at hin
    rw [(hs s).1, (hs s).2.1]
    exact h.inner_owner t s hin
  · intro s o hp ho
    rw [(hs s).1] at hp; rw [(hs s).2.1] at ho
    exact ((ht o).1 (h.owner_present s o hp ho)).1
  · intro s hp
    rw [(hs s).1] at hp
    rw [(hs s).2.2]
    have := h.root_scope s hp
    have h2 := (ht (σ.scope s).root).1 this.2
    exact ⟨by rw [h2.2]; exact this.1, h2.1⟩


theorem invD_step {σ : State} {e : Event} (h : InvD σ) (hg : enabled σ e = true) : InvD (apply σ e) := by
  have triv : ∀ t, ((σ.task t).phase ≠ .absent → (σ.task t).phase ≠ .absent ∧ (σ.task t).scope = (σ.task t).scope) ∧
      ((σ.task t).phase = .running → σ.inner t ≠ none → (σ.task t).phase = .running) :=
    fun t => ⟨fun hp => ⟨hp, rfl⟩, fun hr _ => hr⟩
  cases e with
  | obs t c => exact h
  | advance d => exact invD_compat h rfl (fun s => ⟨rfl, rfl, rfl⟩) triv
  | ctxnew c p d => exact invD_compat h rfl (fun s => ⟨rfl, rfl, rfl⟩) triv
  | tgd s =>
    refine invD_compat (σ' := apply σ (.tgd s)) h rfl ?_ triv
    intro s'; simp only [apply, setScope_scope]; split
    · subst_vars; simp
    · simp
  | rgd s =>
    refine invD_compat (σ' := apply σ (.rgd s)) h rfl ?_ triv
    intro s'; simp only [apply, setScope_scope]; split
    · subst_vars; simp
    · simp
  | cgd s cc =>
    refine invD_compat (σ' := apply σ (.cgd s cc)) h rfl ?_ triv
    intro s'; simp only [apply, causeCtx_scope, setScope_scope]; split
    · subst_vars; simp
    · simp
  | cancel s t cc =>
    refine invD_compat (σ' := apply σ (.cancel s t cc)) h rfl ?_ triv
    intro s'; simp only [apply, causeCtx_scope, setScope_scope]; split
    · subst_vars; simp
    · simp
  | endT t o v =>
    simp [enabled] at hg
    refine invD_compat (σ' := apply σ (.endT t o v)) h rfl (fun s => ⟨rfl, rfl, rfl⟩) ?_
    intro i; simp only [apply, setTask_task]
    split
    · subst_vars; simp [hg.2]
    · exact triv i
  | start c m =>
    simp [enabled] at hg
    refine invD_compat (σ' := apply σ (.start c m)) h rfl ?_ ?_
    · intro s'; simp only [apply, setTask_scope, setScope_scope]; split
      · subst_vars; split
        · simp
        · split <;> simp
      · simp
    · intro i; simp only [apply, setTask_task, setScope_task]
      split
      · subst_vars; simp
      · exact triv i
  | rel t =>
    simp [enabled] at hg
    refine invD_compat (σ' := apply σ (.rel t)) h rfl ?_ ?_
    · intro s'; simp only [apply, setTask_scope, setScope_scope]; split
      · subst_vars; split <;> simp
      · simp
    · intro i; simp only [apply, setTask_task, setScope_task]
      split
      · subst_vars; simp [hg.1.1]
      · exact triv i
  | spawn p c r =>
    simp [enabled] at hg
    refine invD_compat (σ' := apply σ (.spawn p c r)) h rfl ?_ ?_
    · intro s'; simp only [apply, addTask_scope, setScope_scope]; split
      · subst_vars; simp
      · simp
    · intro i; simp only [apply, addTask_task, setScope_task]
      split
      · subst_vars; simp [hg.2]
      · exact triv i
  | seterr s t ip st cc =>
    simp [enabled] at hg
    have e1 : (apply σ (.seterr s t ip st cc)).task = fun i => if i = t then { σ.task t with reported := true } else σ.task i := by
      simp only [apply]; split <;> rfl
    have e2 : (apply σ (.seterr s t ip st cc)).scope = fun i => if i = s then
        { σ.scope s with slot := if st then (if ip then Slot.panic else Slot.err t (σ.task t).val) else (σ.scope s).slot,
                         errLog := (σ.scope s).errLog ++ [(t, ip)] } else σ.scope i := by
      simp only [apply]; split <;> rfl
    have e3 : (apply σ (.seterr s t ip st cc)).inner = σ.inner := by
      simp only [apply]; split <;> rfl
    refine invD_compat h e3 ?_ ?_
    · intro s'; rw [e2]; simp only; split
      · subst_vars; simp
      · simp
    · intro i; rw [e1]; simp only
      split
      · subst_vars; simp; intro hh _; exact hh
      · exact triv i
  | make s c p o r =>
    simp [enabled] at hg
    obtain ⟨⟨⟨⟨⟨hsa, _⟩, _⟩, _⟩, hra⟩, hown⟩ := hg
    have e1 : (apply σ (.make s c p o r)).task = fun i => if i = r then ({ scope := s, parent := none, reqMain := true, phase := .pending } : Task) else σ.task i := by
      simp only [apply]; cases o <;> rfl
    have e2 : (apply σ (.make s c p o r)).scope = fun i => if i = s then ({ phase := .live, ctx := c, pctx := p, owner := o, root := r, rgHeld := true, mainLow := 1, termLow := 2 } : Scope) else σ.scope i := by
      simp only [apply]; cases o <;> rfl
    have e3 : (apply σ (.make s c p o r)).inner = fun i => if some i = o then some s else σ.inner i := by
      simp only [apply]; cases o with
      | none => funext i; simp
      | some o' => funext i; simp [setInner, addTask, setTask]
    -- a present task is not the fresh root id
    have hner : ∀ i, (σ.task i).phase ≠ .absent → i ≠ r := fun i hi hh => hi (hh ▸ hra)
    have hown' : ∀ o', o = some o' → (σ.task o').phase = .running ∧ σ.inner o' = none ∧ o' ≠ r := by
      intro o' ho; subst ho; simp at hown
      exact ⟨hown.1.1, by simpa using hown.1.2, hown.2⟩
    refine ⟨?_, ?_, ?_, ?_⟩
    · intro s' o' hl ho
      rw [e2] at hl ho; rw [e1, e3]
      by_cases hs : s' = s
      · subst hs
        simp only [if_true] at ho
        have := hown' o' ho
        simp [this.2.2, this.1, ho]
      · simp only [hs, if_false] at hl ho
        have := h.owner_inner s' o' hl ho
        have hne := hner o' (by simp [this.1])
        simp only [hne, if_false]
        refine ⟨this.1, ?_⟩
        split
        · rename_i heq
          have := (hown' o' heq.symm).2.1
          simp_all
        · exact this.2
    · intro t s'' hin
      rw [e3] at hin; rw [e2]
      simp only at hin
      split at hin
      · rename_i heq
        simp at hin; subst hin
        simp [heq]
      · have := h.inner_owner t s'' hin
        have hne : s'' ≠ s := by intro hh; subst hh; simp [hsa] at this
        simp only [hne, if_false]; exact this
    · intro s' o' hp ho
      rw [e2] at hp ho; rw [e1]
      by_cases hs : s' = s
      · subst hs
        simp only [if_true] at ho
        have := hown' o' ho
        simp [this.2.2, this.1]
      · simp only [hs, if_false] at hp ho
        have := h.owner_present s' o' hp ho
        simp only [hner o' this, if_false]; exact this
    · intro s' hp
      rw [e2] at hp ⊢; rw [e1]
      by_cases hs : s' = s
      · subst hs; simp
      · simp only [hs, if_false] at hp ⊢
        have := h.root_scope s' hp
        simp only [hner _ this.2, if_false]; exact this
  | ret s r =>
    simp [enabled] at hg
    obtain ⟨⟨hl, _⟩, _⟩ := hg
    have e1 : (apply σ (.ret s r)).task = σ.task := by simp only [apply]; split <;> rfl
    have e2 : (apply σ (.ret s r)).scope = fun i => if i = s then { σ.scope s with phase := .returned, result := some r } else σ.scope i := by
      simp only [apply]; split <;> rfl
    have e3 : (apply σ (.ret s r)).inner = fun i => if some i = (σ.scope s).owner then none else σ.inner i := by
      simp only [apply]
      split
      · rename_i heq; funext i; simp [heq]
      · rename_i o heq; funext i; simp [heq, setInner]
    refine ⟨?_, ?_, ?_, ?_⟩
    · intro s' o' hl' ho
      rw [e2] at hl' ho; rw [e1, e3]
      by_cases hs : s' = s
      · subst hs; simp at hl'
      · simp only [hs, if_false] at hl' ho
        have := h.owner_inner s' o' hl' ho
        refine ⟨this.1, ?_⟩
        simp only
        split
        · rename_i heq
          have h2 := h.owner_inner s o' hl heq.symm
          rw [this.2] at h2; simp at h2; exact absurd h2.2 hs
        · exact this.2
    · intro t s'' hin
      rw [e3] at hin; rw [e2]
      simp only at hin
      split at hin
      · simp at hin
      · rename_i hne
        have := h.inner_owner t s'' hin
        have hss : s'' ≠ s := by intro hh; subst hh; exact hne this.2.symm
        simp only [hss, if_false]; exact this
    · intro s' o' hp ho
      rw [e2] at hp ho; rw [e1]
      by_cases hs : s' = s
      · subst hs; simp only [if_true] at ho
        exact h.owner_present s' o' (by simp [hl]) ho
      · simp only [hs, if_false] at hp ho; exact h.owner_present s' o' hp ho
    · intro s' hp
      rw [e2] at hp ⊢; rw [e1]
      by_cases hs : s' = s
      · subst hs; simp only [if_true]
        exact h.root_scope s' (by simp [hl])
      · simp only [hs, if_false] at hp ⊢; exact h.root_scope s' hp


/-! ## all invariants, reachable states -/

structure Inv (σ : State) : Prop where
  a : InvA σ
  b : InvB σ
  c : InvC σ
  d : InvD σ

theorem inv_init : Inv init := ⟨invA_init, invB_init, invC_init, invD_init⟩

theorem inv_step {σ : State} {e : Event} (h : Inv σ) (hg : enabled σ e = true) : Inv (apply σ e) :=
  ⟨invA_step h.a hg, invB_step h.a h.b hg, invC_step h.a h.c hg, invD_step h.d hg⟩

theorem step?_eq_some {σ σ' : State} {e : Event} : step? σ e = some σ' ↔ enabled σ e = true ∧ σ' = apply σ e := by
  unfold step?
  split
  · rename_i h; simp [h]; exact eq_comm
  · rename_i h; simp [h]

theorem run_cons {σ : State} {e : Event} {es : List Event} :
    run σ (e :: es) = if enabled σ e then run (apply σ e) es else none := by
  simp only [run, step?]
  split <;> simp_all

theorem run_append {σ : State} {es₁ es₂ : List Event} :
    run σ (es₁ ++ es₂) = (run σ es₁).bind fun σ' => run σ' es₂ := by
  induction es₁ generalizing σ with
  | nil => simp [run]
  | cons e es ih =>
    simp only [List.cons_append, run_cons]
    split
    · exact ih
    · simp

/-- the states reached by replaying an accepted log from the initial state -/
def Reach (σ : State) : Prop := ∃ es, run init es = some σ

theorem run_inv {P : State → Prop} (hstep : ∀ σ e, P σ → enabled σ e = true → P (apply σ e))
    {σ σ' : State} {es : List Event} (h0 : P σ) (hr : run σ es = some σ') : P σ' := by
  induction es generalizing σ with
  | nil => simp [run] at hr; exact hr ▸ h0
  | cons e es ih =>
    rw [run_cons] at hr
    split at hr
    · rename_i hg; exact ih (hstep σ e h0 hg) hr
    · simp at hr

theorem Reach.inv {σ : State} (h : Reach σ) : Inv σ := by
  obtain ⟨es, hr⟩ := h
  exact run_inv (P := Inv) (fun _ _ hi hg => inv_step hi hg) inv_init hr

theorem Reach.init : Reach init := ⟨[], rfl⟩

theorem Reach.step {σ : State} {e : Event} (h : Reach σ) (hg : enabled σ e = true) : Reach (apply σ e) := by
  obtain ⟨es, hr⟩ := h
  refine ⟨es ++ [e], ?_⟩
  rw [run_append, hr]
  show run σ [e] = some (apply σ e)
  rw [run_cons]
  simp [hg, run]

theorem Reach.run {σ σ' : State} {es : List Event} (h : Reach σ) (hr : run σ es = some σ') : Reach σ' := by
  obtain ⟨es0, hr0⟩ := h
  refine ⟨es0 ++ es, ?_⟩
  rw [run_append, hr0]
  exact hr


/-! ## consequences used by the property theorems -/

/-- `mainLow = 0` exactly when the run guard is dropped and no started main task still owns its guard -/
theorem InvA.mainLow_zero_iff {σ : State} (h : InvA σ) {s : Nat} (hs : (σ.scope s).phase ≠ .absent) :
    (σ.scope s).mainLow = 0 ↔
      (σ.scope s).rgHeld = false ∧ ∀ t ∈ σ.tids, holdsMain s (σ.task t) = false := by
  have := h.mainLow_eq s hs
  constructor
  · intro h0
    have hc : mainCount σ s = 0 := by omega
    have hr : (σ.scope s).rgHeld = false := by
      cases hrg : (σ.scope s).rgHeld with
      | false => rfl
      | true => simp [hrg] at this; omega
    refine ⟨hr, ?_⟩
    intro t ht
    have := List.countP_eq_zero.mp hc t ht
    simpa using this
  · intro ⟨hr, hall⟩
    have hc : mainCount σ s = 0 := List.countP_eq_zero.mpr (fun t ht => by simp [hall t ht])
    simp [hr] at this; omega

theorem InvA.termLow_zero_iff {σ : State} (h : InvA σ) {s : Nat} (hs : (σ.scope s).phase ≠ .absent) :
    (σ.scope s).termLow = 0 ↔
      (σ.scope s).cgd = true ∧ ∀ t ∈ σ.tids, holdsTerm s (σ.task t) = false := by
  have := h.termLow_eq s hs
  constructor
  · intro h0
    have hc : termCount σ s = 0 := by omega
    have hr : (σ.scope s).cgd = true := by
      cases hrg : (σ.scope s).cgd with
      | true => rfl
      | false => simp [hrg] at this; omega
    refine ⟨hr, ?_⟩
    intro t ht
    have := List.countP_eq_zero.mp hc t ht
    simpa using this
  · intro ⟨hr, hall⟩
    have hc : termCount σ s = 0 := List.countP_eq_zero.mpr (fun t ht => by simp [hall t ht])
    simp [hr] at this; omega

/-- a present task that owns no guard of its scope has released -/
theorem released_of_not_holding {x : Task} {s : Nat} (hsc : x.scope = s) (hp : x.phase ≠ .absent)
    (hm : holdsMain s x = false) (ht : holdsTerm s x = false) : x.phase = .released := by
  cases hph : x.phase with
  | absent => exact absurd hph hp
  | released => rfl
  | pending => simp [holdsTerm, hsc, hph] at ht
  | running => cases hmn : x.main <;> simp [holdsMain, holdsTerm, hsc, hph, hmn] at hm ht
  | ended => cases hmn : x.main <;> simp [holdsMain, holdsTerm, hsc, hph, hmn] at hm ht

/-- once the `terminated` signal is sent every task of the scope has released its guard -/
theorem InvA.all_released_of_tgd {σ : State} (h : InvA σ) {s : Nat} (hs : (σ.scope s).phase ≠ .absent)
    (htg : (σ.scope s).tgd = true) :
    (σ.scope s).rgHeld = false ∧ (σ.scope s).cgd = true ∧
      ∀ t, (σ.task t).phase ≠ .absent → (σ.task t).scope = s → (σ.task t).phase = .released := by
  have ⟨ht0, hc⟩ := h.tgd_term s htg
  have hm0 := h.closed s (h.cgd_closed s hc)
  have ⟨hrg, hmain⟩ := (h.mainLow_zero_iff hs).mp hm0
  have ⟨_, hterm⟩ := (h.termLow_zero_iff hs).mp ht0
  refine ⟨hrg, hc, ?_⟩
  intro t hp hsc
  have hmem := (h.mem_iff t).mpr hp
  exact released_of_not_holding hsc hp (hmain t hmem) (hterm t hmem)

end EraVerif.Model.Scope
