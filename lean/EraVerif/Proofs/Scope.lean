import EraVerif.Model.Scope

/-!
# Invariants of the task-scope guard protocol (helper lemmas for `Props/C17.lean`)

`Inv σ` holds in `init` and is preserved by every enabled event, hence in every state reached by replaying an
accepted log (`Reach`). The heart is the counting invariant that ties the two lower-bound counters to the set of
tasks that still own a guard.
-/

namespace EraVerif.Model.Scope

/-! ## the state update functions -/

@[simp] theorem setTask_task (σ : State) (t : Nat) (x : Task) (i : Nat) :
    (setTask σ t x).task i = if i = t then x else σ.task i := rfl
@[simp] theorem setTask_scope (σ : State) (t : Nat) (x : Task) : (setTask σ t x).scope = σ.scope := rfl
@[simp] theorem setTask_ctx (σ : State) (t : Nat) (x : Task) : (setTask σ t x).ctx = σ.ctx := rfl
@[simp] theorem setTask_inner (σ : State) (t : Nat) (x : Task) : (setTask σ t x).inner = σ.inner := rfl
@[simp] theorem setTask_tids (σ : State) (t : Nat) (x : Task) : (setTask σ t x).tids = σ.tids := rfl
@[simp] theorem setTask_now (σ : State) (t : Nat) (x : Task) : (setTask σ t x).now = σ.now := rfl

@[simp] theorem setScope_scope (σ : State) (s : Nat) (x : Scope) (i : Nat) :
    (setScope σ s x).scope i = if i = s then x else σ.scope i := rfl
@[simp] theorem setScope_task (σ : State) (s : Nat) (x : Scope) : (setScope σ s x).task = σ.task := rfl
@[simp] theorem setScope_ctx (σ : State) (s : Nat) (x : Scope) : (setScope σ s x).ctx = σ.ctx := rfl
@[simp] theorem setScope_inner (σ : State) (s : Nat) (x : Scope) : (setScope σ s x).inner = σ.inner := rfl
@[simp] theorem setScope_tids (σ : State) (s : Nat) (x : Scope) : (setScope σ s x).tids = σ.tids := rfl
@[simp] theorem setScope_now (σ : State) (s : Nat) (x : Scope) : (setScope σ s x).now = σ.now := rfl

@[simp] theorem setCtx_ctx (σ : State) (c : Nat) (x : Ctx) (i : Nat) :
    (setCtx σ c x).ctx i = if i = c then x else σ.ctx i := rfl
@[simp] theorem setCtx_task (σ : State) (c : Nat) (x : Ctx) : (setCtx σ c x).task = σ.task := rfl
@[simp] theorem setCtx_scope (σ : State) (c : Nat) (x : Ctx) : (setCtx σ c x).scope = σ.scope := rfl
@[simp] theorem setCtx_inner (σ : State) (c : Nat) (x : Ctx) : (setCtx σ c x).inner = σ.inner := rfl
@[simp] theorem setCtx_tids (σ : State) (c : Nat) (x : Ctx) : (setCtx σ c x).tids = σ.tids := rfl
@[simp] theorem setCtx_now (σ : State) (c : Nat) (x : Ctx) : (setCtx σ c x).now = σ.now := rfl

@[simp] theorem setInner_inner (σ : State) (t : Nat) (x : Option Nat) (i : Nat) :
    (setInner σ t x).inner i = if i = t then x else σ.inner i := rfl
@[simp] theorem setInner_task (σ : State) (t : Nat) (x : Option Nat) : (setInner σ t x).task = σ.task := rfl
@[simp] theorem setInner_scope (σ : State) (t : Nat) (x : Option Nat) : (setInner σ t x).scope = σ.scope := rfl
@[simp] theorem setInner_ctx (σ : State) (t : Nat) (x : Option Nat) : (setInner σ t x).ctx = σ.ctx := rfl
@[simp] theorem setInner_tids (σ : State) (t : Nat) (x : Option Nat) : (setInner σ t x).tids = σ.tids := rfl
@[simp] theorem setInner_now (σ : State) (t : Nat) (x : Option Nat) : (setInner σ t x).now = σ.now := rfl

@[simp] theorem causeCtx_ctx (σ : State) (c i : Nat) :
    (causeCtx σ c).ctx i = if i = c then { σ.ctx c with cause := true } else σ.ctx i := rfl
@[simp] theorem causeCtx_task (σ : State) (c : Nat) : (causeCtx σ c).task = σ.task := rfl
@[simp] theorem causeCtx_scope (σ : State) (c : Nat) : (causeCtx σ c).scope = σ.scope := rfl
@[simp] theorem causeCtx_inner (σ : State) (c : Nat) : (causeCtx σ c).inner = σ.inner := rfl
@[simp] theorem causeCtx_tids (σ : State) (c : Nat) : (causeCtx σ c).tids = σ.tids := rfl
@[simp] theorem causeCtx_now (σ : State) (c : Nat) : (causeCtx σ c).now = σ.now := rfl

/-! ## who owns which guard -/

/-- task record `x` owns a `CancelGuard` of scope `s` (started as a main task, release not yet announced) -/
def holdsMain (s : Nat) (x : Task) : Bool :=
  x.scope == s && x.main && (x.phase == .running || x.phase == .ended)

/-- task record `x` keeps the `TerminateGuard` of scope `s` alive without owning a `CancelGuard`: it is spawned but
not started (kind unknown), or it runs as a background task -/
def holdsTerm (s : Nat) (x : Task) : Bool :=
  x.scope == s && (x.phase == .pending || (!x.main && (x.phase == .running || x.phase == .ended)))

def mainCount (σ : State) (s : Nat) : Nat := σ.tids.countP fun t => holdsMain s (σ.task t)
def termCount (σ : State) (s : Nat) : Nat := σ.tids.countP fun t => holdsTerm s (σ.task t)

/-- changing the record of one task changes a count by the difference of the predicate on that task -/
theorem countP_update (g : Nat → Task) (c : Nat) (x : Task) (f : Task → Bool) :
    ∀ l : List Nat, l.Nodup →
      l.countP (fun t => f (if t = c then x else g t)) + (if c ∈ l ∧ f (g c) = true then 1 else 0)
        = l.countP (fun t => f (g t)) + (if c ∈ l ∧ f x = true then 1 else 0) := by
  intro l
  induction l with
  | nil => intro _; simp
  | cons a l ih =>
    intro hn
    have hn' := (List.nodup_cons.mp hn)
    have ih' := ih hn'.2
    by_cases hac : a = c
    · subst hac
      have hnot : a ∉ l := hn'.1
      have hsame : l.countP (fun t => f (if t = a then x else g t)) = l.countP (fun t => f (g t)) := by
        apply List.countP_congr
        intro t ht
        have : t ≠ a := fun h => hnot (h ▸ ht)
        simp [this]
      simp only [List.countP_cons, if_true, List.mem_cons, true_or, true_and, hsame]
      by_cases h1 : f (g a) = true <;> by_cases h2 : f x = true <;> simp [h1, h2] <;> omega
    · have hca : c ≠ a := fun h => hac h.symm
      simp only [List.countP_cons, hac, if_false, List.mem_cons, hca, false_or]
      omega

theorem countP_congr_task (l : List Nat) (g g' : Nat → Task) (f : Task → Bool)
    (h : ∀ t ∈ l, f (g' t) = f (g t)) : l.countP (fun t => f (g' t)) = l.countP (fun t => f (g t)) := by
  apply List.countP_congr
  intro t ht
  simp [h t ht]

end EraVerif.Model.Scope
