import EraVerif.Model.Replica
import EraVerif.Proofs.Certs
import EraVerif.Proofs.ReplicaStep

/-!
# The held timeout certificate is for a view strictly below the current view

`high_timeout_qc.view.number < view_number` (harness monitor `view_not_above_timeout_qc`): in the code a timeout
certificate for view `W` is only ever adopted together with a move to a view `≥ W + 1` (`on_timeout`:
`process_timeout_qc` then `start_new_view(W.next())`; `on_new_view` / `on_proposal`: the justification's view
`W.next()` is `≥` the current view before the certificate is processed).

The invariant is preserved by every step from **any** state (no `Wf` needed), for every outcome (accepted, rejected,
blocked, even the panic states), provided `ViewNumber::next` does not wrap on the views the input carries (`NoWrapJ`).
-/

namespace EraVerif.Proofs.ReplicaTqc
open EraVerif.Model
open EraVerif.Proofs.Certs
open EraVerif.Proofs.ReplicaStep

/-- a held timeout certificate is for a view strictly below the replica's view -/
def TqcBelow (r : Replica) : Prop := ∀ q, r.highTimeoutQC = some q → q.view.number < r.view

/-- the same for a persisted `ChonkyV2State` -/
def DurableTqcBelow (d : Durable) : Prop := ∀ q, d.highTimeoutQC = some q → q.view.number < d.view

/-- no view number carried by the input is `2^64 - 1` where the handler takes its (wrapping) successor: `NoWrap`
(commit / timeout vote) extended to the timeout certificate that justifies a proposal / new-view message -/
def NoWrapJ : Input → Prop
  | .msg s =>
    match s.msg with
    | .commit v => v.view.number + 1 < 2 ^ 64
    | .timeout t => t.view.number + 1 < 2 ^ 64
    | .proposal _ (.timeout q) => q.view.number + 1 < 2 ^ 64
    | .newView (.timeout q) => q.view.number + 1 < 2 ^ 64
    | _ => True
  | _ => True

theorem NoWrapJ.noWrap {inp : Input} (h : NoWrapJ inp) : NoWrap inp := by
  cases inp with
  | tick => trivial
  | restart b => trivial
  | msg s =>
    obtain ⟨m, key, sigOk⟩ := s
    cases m with
    | proposal p j => trivial
    | commit v => exact h
    | timeout t => exact h
    | newView j => trivial

/-- the no-wrap condition on a justification: only a timeout certificate matters -/
def JustNoWrap : Just → Prop
  | .timeout q => q.view.number + 1 < 2 ^ 64
  | .commit _ => True

/-! ## `process_*`: what happens to the view and the high timeout certificate (no hypothesis) -/

theorem processCommitQC_view_htqc (r : Replica) (e : Env) (q : CommitQC) :
    (processCommitQC r e q).1.view = r.view ∧ (processCommitQC r e q).1.highTimeoutQC = r.highTimeoutQC := by
  unfold processCommitQC
  dsimp only
  split <;> split <;> exact ⟨rfl, rfl⟩

/-- `process_timeout_qc` keeps the view; the high timeout certificate is the old one or `q`, and the old one if the
call did not complete -/
theorem processTimeoutQC_view_htqc (r : Replica) (e : Env) (q : TimeoutQC) :
    (processTimeoutQC r e q).1.view = r.view ∧
    ((processTimeoutQC r e q).1.highTimeoutQC = r.highTimeoutQC ∨
      ((processTimeoutQC r e q).2.2 = true ∧ (processTimeoutQC r e q).1.highTimeoutQC = some q)) := by
  unfold processTimeoutQC
  have key : ∀ (p : Replica × List Effect × Bool), p.1.view = r.view → p.1.highTimeoutQC = r.highTimeoutQC →
      ((if (!p.2.2) = true then (p.1, p.2.1, false) else
          (if (match p.1.highTimeoutQC with | none => true | some old => decide (old.view.number < q.view.number)) = true
            then { p.1 with highTimeoutQC := some q } else p.1, p.2.1, true)).1.view = r.view ∧
       ((if (!p.2.2) = true then (p.1, p.2.1, false) else
          (if (match p.1.highTimeoutQC with | none => true | some old => decide (old.view.number < q.view.number)) = true
            then { p.1 with highTimeoutQC := some q } else p.1, p.2.1, true)).1.highTimeoutQC = r.highTimeoutQC ∨
        ((if (!p.2.2) = true then (p.1, p.2.1, false) else
          (if (match p.1.highTimeoutQC with | none => true | some old => decide (old.view.number < q.view.number)) = true
            then { p.1 with highTimeoutQC := some q } else p.1, p.2.1, true)).2.2 = true ∧
         (if (!p.2.2) = true then (p.1, p.2.1, false) else
          (if (match p.1.highTimeoutQC with | none => true | some old => decide (old.view.number < q.view.number)) = true
            then { p.1 with highTimeoutQC := some q } else p.1, p.2.1, true)).1.highTimeoutQC = some q))) := by
    intro p hv ht
    cases hok : p.2.2 with
    | false => exact ⟨hv, Or.inl ht⟩
    | true =>
      simp only [Bool.not_true, Bool.false_eq_true, if_false]
      by_cases hnew : (match p.1.highTimeoutQC with
          | none => true | some old => decide (old.view.number < q.view.number)) = true
      · simp only [if_pos hnew]
        exact ⟨hv, Or.inr ⟨trivial, trivial⟩⟩
      · simp only [if_neg hnew]
        exact ⟨hv, Or.inl ht⟩
  cases hh : q.highQC with
  | none => exact key (r, [], true) rfl rfl
  | some hq =>
    obtain ⟨h1, h2⟩ := processCommitQC_view_htqc r e hq
    exact key (processCommitQC r e hq) h1 h2

/-- `process_commit_qc` / `process_timeout_qc` of a justification: the view is kept; the high timeout certificate is
the old one, or (only if the call completed) the timeout certificate of the justification -/
theorem processJust_view_htqc (r : Replica) (e : Env) (j : Just) :
    (processJust r e j).1.view = r.view ∧
    ((processJust r e j).1.highTimeoutQC = r.highTimeoutQC ∨
      ((processJust r e j).2.2 = true ∧ ∃ q, j = .timeout q ∧ (processJust r e j).1.highTimeoutQC = some q)) := by
  cases j with
  | commit q =>
    obtain ⟨h1, h2⟩ := processCommitQC_view_htqc r e q
    exact ⟨h1, Or.inl h2⟩
  | timeout q =>
    obtain ⟨h1, h2⟩ := processTimeoutQC_view_htqc r e q
    refine ⟨h1, ?_⟩
    rcases h2 with h2 | ⟨h2, h3⟩
    · exact Or.inl h2
    · exact Or.inr ⟨h2, q, rfl, h3⟩

/-- under `JustNoWrap` the timeout certificate inside `j` is for a view below `j`'s view -/
theorem just_tqc_lt {j : Just} {q : TimeoutQC} (hj : j = .timeout q) (hnw : JustNoWrap j) :
    q.view.number < j.viewNumber := by
  subst hj
  have : q.view.number + 1 < 2 ^ 64 := hnw
  show q.view.number < nextU64 q.view.number
  rw [nextU64_eq _ this]
  omega

/-! ## the handlers -/

theorem tqcBelow_startTimeout (cfg : RCfg) {r : Replica} (h : TqcBelow r) : TqcBelow (startTimeout cfg r).r := by
  have h' : TqcBelow ({ r with phase := .timeout } : Replica) := h
  unfold startTimeout
  dsimp only
  split
  · split <;> exact h'
  · exact h'

/-- `start_new_view(view)` from a state whose timeout certificate is below `view` (also in the panic state) -/
theorem tqcBelow_startNewView {r : Replica} {view : Nat} (h : ∀ q, r.highTimeoutQC = some q → q.view.number < view) :
    TqcBelow (startNewView r view).r := by
  unfold startNewView
  dsimp only
  split
  · exact h
  · split <;> exact h

theorem tqcBelow_newViewTail {r : Replica} {e : Env} {j : Just} (h : TqcBelow r) (hge : r.view ≤ j.viewNumber)
    (hnw : JustNoWrap j) : TqcBelow (newViewTail r e j).r := by
  obtain ⟨hv, ht⟩ := processJust_view_htqc r e j
  -- the timeout certificate after `process*` is below `j`'s view, and below the view if the call did not complete
  have hlt : ∀ q, (processJust r e j).1.highTimeoutQC = some q → q.view.number < j.viewNumber := by
    intro q hq
    rcases ht with ht | ⟨_, q', hj, hq'⟩
    · rw [ht] at hq
      exact Nat.lt_of_lt_of_le (h q hq) hge
    · rw [hq'] at hq
      cases hq
      exact just_tqc_lt hj hnw
  unfold newViewTail
  cases hok : (processJust r e j).2.2 with
  | false =>
    simp only [Bool.not_false, if_true]
    intro q hq
    show q.view.number < (processJust r e j).1.view
    rw [hv]
    rcases ht with ht | ⟨hok', _⟩
    · exact h q (ht ▸ hq)
    · rw [hok] at hok'; cases hok'
  | true =>
    simp only [Bool.not_true, Bool.false_eq_true, if_false]
    by_cases hgt : j.viewNumber > (processJust r e j).1.view
    · rw [if_pos hgt]
      exact tqcBelow_startNewView hlt
    · rw [if_neg hgt]
      intro q hq
      show q.view.number < (processJust r e j).1.view
      have := hlt q hq
      rw [hv] at hgt ⊢
      omega

theorem tqcBelow_propTail {cfg : RCfg} {r r0 : Replica} {e : Env} {j : Just} {hsh : Nat} (h : TqcBelow r)
    (hr0 : r0 = { r with proposals := r0.proposals }) (hge : r.view ≤ j.viewNumber) (hnw : JustNoWrap j) :
    TqcBelow (propTail cfg r0 e j hsh).r := by
  obtain ⟨hv, ht⟩ := processJust_view_htqc (propR1 cfg r0 j hsh) e j
  have e2 : (propR1 cfg r0 j hsh).highTimeoutQC = r.highTimeoutQC := by rw [hr0]; rfl
  have e7 : (propR1 cfg r0 j hsh).view = j.viewNumber := rfl
  have hlt : TqcBelow (processJust (propR1 cfg r0 j hsh) e j).1 := by
    intro q hq
    rw [hv, e7]
    rcases ht with ht | ⟨_, q', hj, hq'⟩
    · rw [ht, e2] at hq
      exact Nat.lt_of_lt_of_le (h q hq) hge
    · rw [hq'] at hq
      cases hq
      exact just_tqc_lt hj hnw
  unfold propTail
  split <;> exact hlt

theorem tqcBelow_commitTail {cfg : RCfg} {r : Replica} {e : Env} {key : Nat} {sigOk : Bool} {v : Vote} (h : TqcBelow r)
    (hge : r.view ≤ v.view.number) (hnw : v.view.number + 1 < 2 ^ 64) :
    TqcBelow (commitTail cfg r e key sigOk v).r := by
  unfold commitTail
  split
  · exact h
  · rename_i qc _
    obtain ⟨hv, ht⟩ := processCommitQC_view_htqc (commitR2 r key v qc) e qc
    split
    · exact h
    · split
      · intro q hq
        show q.view.number < (processCommitQC (commitR2 r key v qc) e qc).1.view
        rw [hv]
        exact h q (ht ▸ hq)
      · apply tqcBelow_startNewView
        intro q hq
        rw [ht] at hq
        have := h q hq
        rw [nextU64_eq _ hnw]
        omega

theorem tqcBelow_timeoutTail {cfg : RCfg} {r : Replica} {e : Env} {key : Nat} {sigOk : Bool} {t : TVote} (h : TqcBelow r)
    (hge : r.view ≤ t.view.number) (hnw : t.view.number + 1 < 2 ^ 64) :
    TqcBelow (timeoutTail cfg r e key sigOk t).r := by
  unfold timeoutTail
  split
  · exact h
  · rename_i qc hadd
    -- `TimeoutQC::add` succeeds only on a certificate of the vote's view, and keeps the view
    have hqv : qc.view = t.view := by
      obtain ⟨i, _, _, _, _, hview, _, rfl⟩ := (tqc_add_ok _ _ _ _ _).mp hadd
      exact hview.symm
    obtain ⟨hv, ht⟩ := processTimeoutQC_view_htqc (timeoutR2 r key t qc) e qc
    split
    · exact h
    · split
      · exact h
      · split
        · rename_i hok
          intro q hq
          show q.view.number < (processTimeoutQC (timeoutR2 r key t qc) e qc).1.view
          rw [hv]
          rcases ht with ht | ⟨hok', _⟩
          · exact h q (ht ▸ hq)
          · rw [hok'] at hok; simp at hok
        · apply tqcBelow_startNewView
          intro q hq
          rw [nextU64_eq _ hnw]
          rcases ht with ht | ⟨_, hq'⟩
          · rw [ht] at hq
            have := h q hq
            omega
          · rw [hq'] at hq
            cases hq
            rw [hqv]
            omega

/-! ## the step -/

/-- **every step keeps the timeout certificate below the view**: any state (well-formed or not), any environment
answer, any input other than a restart, whatever the outcome -/
theorem tqcBelow_step (cfg : RCfg) {r : Replica} (h : TqcBelow r) (e : Env) (inp : Input) (hin : ∀ b, inp ≠ .restart b)
    (hnw : NoWrapJ inp) : TqcBelow (step cfg r e inp).r := by
  cases inp with
  | tick => exact tqcBelow_startTimeout cfg h
  | restart b => exact absurd rfl (hin b)
  | msg s =>
    obtain ⟨m, key, sigOk⟩ := s
    cases m with
    | proposal p j =>
      simp only [step]
      rcases onProposal_cases cfg r e key sigOk p j with ⟨_, w', hw'⟩ | ⟨hc, ⟨w', _, hw'⟩ | ⟨h', r0, hd, ht⟩⟩
      · rw [hw']; exact h
      · rw [hw']; exact h
      · rw [ht]
        have hge : r.view ≤ j.viewNumber := by
          have := hc.1
          apply Classical.byContradiction
          intro hn
          exact this (Or.inl (by omega))
        have hnw' : JustNoWrap j := by
          cases j with
          | commit q => trivial
          | timeout q => exact hnw
        exact tqcBelow_propTail h (propDecide_rest hd) hge hnw'
    | commit v =>
      simp only [step]
      rcases onCommit_cases cfg r e key sigOk v with ⟨_, w', hw'⟩ | ⟨hc, ht⟩
      · rw [hw']; exact h
      · rw [ht]; exact tqcBelow_commitTail h hc.2.1 hnw
    | timeout t =>
      simp only [step]
      rcases onTimeout_cases cfg r e key sigOk t with ⟨_, w', hw'⟩ | ⟨hc, ht⟩
      · rw [hw']; exact h
      · rw [ht]; exact tqcBelow_timeoutTail h hc.2.1 hnw
    | newView j =>
      simp only [step]
      rcases onNewView_cases cfg r e key sigOk j with ⟨_, w', hw'⟩ | ⟨hc, ht⟩
      · rw [hw']; exact h
      · rw [ht]
        have hge : r.view ≤ j.viewNumber := by
          have := hc.1
          apply Classical.byContradiction
          intro hn
          exact this (Or.inl (by omega))
        have hnw' : JustNoWrap j := by
          cases j with
          | commit q => trivial
          | timeout q => exact hnw
        exact tqcBelow_newViewTail h hge hnw'

theorem tqcBelow_start_none : TqcBelow (Replica.start none) := by
  intro q hq
  simp [Replica.start, initDurable] at hq

theorem tqcBelow_start_some (d : Durable) (h : DurableTqcBelow d) : TqcBelow (Replica.start (some d)) := h

theorem TqcBelow.durable {r : Replica} (h : TqcBelow r) : DurableTqcBelow r.durable := h

end EraVerif.Proofs.ReplicaTqc
