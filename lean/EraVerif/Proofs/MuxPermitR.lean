import EraVerif.Proofs.MuxPermit

namespace EraVerif.Proofs.Mux
open EraVerif.Model.Mux EraVerif.Gen.MuxConst

attribute [local simp] State.upd State.release State.releaseOpt State.emit State.setSlot State.log State.enqueue
  handover finishRead

set_option maxHeartbeats 4000000 in
theorem PInv_stepReadStep {s s' : State} {k : Key} (hi : PInv s) (h : stepReadStep s k = some s') : PInv s' := by
  unfold stepReadStep readFrame at h
  leaves h
  all_goals subst h
  all_goals first
    | (refine PInv_of_same (s := s) rfl rfl rfl rfl rfl rfl ?_ hi; frsame; done)
    | skip
  all_goals (refine PInv_upd' (s := s) (k := k) hi (by simp_all) ?_ rfl rfl rfl ?_ ?_ rfl ?_)
  all_goals first
    | (intro k' hk'; red; simp [hk']; done)
    | (red; simp_all [cntOf, szOf, frames] <;> omega)
    | skip
  all_goals (intro g hg; have hd := hi.dlen k; simp_all [frames])
  all_goals (rcases hg with rfl | hg <;> first | (simp only [List.length_drop]; omega) | exact hd.2 _ hg)


theorem PInv_step {s s' : State} {e : Event} (hi : PInv s) (h : step? s e = some s') : PInv s' := by
  cases e <;> simp only [step?] at h
  case wireIn f => cases h; exact PInv_of_same (s := s) rfl rfl rfl rfl rfl rfl (fun k => frSame_refl _) hi
  case wireEof => cases h; exact PInv_of_same (s := s) rfl rfl rfl rfl rfl rfl (fun k => frSame_refl _) hi
  case pump => exact PInv_stepPump hi h
  case recvOpenStart k => exact PInv_stepRecvOpenStart hi h
  case discard k => exact PInv_stepDiscard hi h
  case closeData k => exact PInv_stepCloseData hi h
  case closeFrame k => exact PInv_stepCloseFrame hi h
  case joinedA k => exact PInv_stepJoinedA hi h
  case push k => exact PInv_stepPush hi h
  case pop c x => exact PInv_stepPop hi h
  case sendOpen k => exact PInv_stepSendOpen hi h
  case joinedC k => exact PInv_stepJoinedC hi h
  case doFlush => exact PInv_stepDoFlush hi h
  case appOpen a b c => exact PInv_stepAppOpen hi h
  case appRead a b => exact PInv_stepAppRead hi h
  case readStep k => exact PInv_stepReadStep hi h
  case appWrite a b => exact PInv_stepAppWrite hi h
  case writeStep k => exact PInv_stepWriteStep hi h
  case appFlush a => exact PInv_stepAppFlush hi h
  case appDrop a b c => exact PInv_stepAppDrop hi h
  case wtake => exact PInv_stepWTake hi h
  case wdo => exact PInv_stepWDo hi h
  case wblock => exact PInv_stepWBlock hi h
  case txWindow l => cases h; exact PInv_of_same (s := s) rfl rfl rfl rfl rfl rfl (fun k => frSame_refl _) hi
  case flushStep k => exact PInv_stepFlushStep hi h
  case cancelWrite k => exact PInv_stepCancelWrite hi h
  case cancelFlush k => exact PInv_stepCancelFlush hi h

theorem PInv_reachable {s : State} (h : Reachable s) : PInv s :=
  reachable_inv (P := PInv) PInv_init (fun _ _ _ hi hs => PInv_step hi hs) h

end EraVerif.Proofs.Mux
