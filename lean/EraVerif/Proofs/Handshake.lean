import EraVerif.Model.Handshake

/-! Decision-level lemmas about the four handshake functions (core Lean only). -/

namespace EraVerif.Proofs.Handshake
open EraVerif.Model.Handshake

theorem gossipOutbound_ok_iff (me g sid peer : Nat) (sendOk : Bool) (recv : Option Frame) (K : Key) :
    (gossipOutbound me g sid peer sendOk recv).res = .ok K ↔
      sendOk = true ∧ ∃ f, recv = some f ∧ f.genesis = g ∧ f.sessionId.msg = sid ∧ f.sessionId.key = peer ∧
        f.sessionId.verify = true ∧ K = f.sessionId.key := by
  unfold gossipOutbound
  cases sendOk <;> cases recv with
  | none => simp
  | some f =>
    simp only []
    by_cases h1 : f.genesis = g <;> by_cases h2 : f.sessionId.msg = sid <;> by_cases h3 : f.sessionId.key = peer <;>
      cases h4 : f.sessionId.verify <;> simp [h1, h2, h3, h4] <;> try (constructor <;> intro h <;> simp_all)

theorem consensusOutbound_ok_iff (me g sid peer : Nat) (sendOk : Bool) (recv : Option Frame) (K : Key) :
    (consensusOutbound me g sid peer sendOk recv).res = .ok K ↔
      sendOk = true ∧ ∃ f, recv = some f ∧ f.genesis = g ∧ f.sessionId.msg = sid ∧ f.sessionId.key = peer ∧
        f.sessionId.verify = true ∧ K = f.sessionId.key := by
  unfold consensusOutbound
  cases sendOk <;> cases recv with
  | none => simp
  | some f =>
    simp only []
    by_cases h1 : f.genesis = g <;> by_cases h2 : f.sessionId.msg = sid <;> by_cases h3 : f.sessionId.key = peer <;>
      cases h4 : f.sessionId.verify <;> simp [h1, h2, h3, h4] <;> try (constructor <;> intro h <;> simp_all)

theorem gossipInbound_ok_iff (me g sid : Nat) (sendOk : Bool) (recv : Option Frame) (K : Key) :
    (gossipInbound me g sid sendOk recv).res = .ok K ↔
      sendOk = true ∧ ∃ f, recv = some f ∧ f.genesis = g ∧ f.sessionId.msg = sid ∧
        f.sessionId.verify = true ∧ K = f.sessionId.key := by
  unfold gossipInbound
  cases sendOk <;> cases recv with
  | none => simp
  | some f =>
    simp only []
    by_cases h1 : f.genesis = g <;> by_cases h2 : f.sessionId.msg = sid <;>
      cases h4 : f.sessionId.verify <;> simp [h1, h2, h4] <;> try (constructor <;> intro h <;> simp_all)

theorem consensusInbound_ok_iff (me g sid : Nat) (sendOk : Bool) (recv : Option Frame) (K : Key) :
    (consensusInbound me g sid sendOk recv).res = .ok K ↔
      sendOk = true ∧ ∃ f, recv = some f ∧ f.genesis = g ∧ f.sessionId.msg = sid ∧
        f.sessionId.verify = true ∧ K = f.sessionId.key := by
  unfold consensusInbound
  cases sendOk <;> cases recv with
  | none => simp
  | some f =>
    simp only []
    by_cases h1 : f.genesis = g <;> by_cases h2 : f.sessionId.msg = sid <;>
      cases h4 : f.sessionId.verify <;> simp [h1, h2, h4] <;> try (constructor <;> intro h <;> simp_all)

/-- all four functions at once -/
theorem run_ok_iff (r : Run) (K : Key) :
    r.outcome.res = .ok K ↔
      r.sendOk = true ∧ ∃ f, r.recv = some f ∧ f.genesis = r.genesis ∧ f.sessionId.msg = r.sid ∧
        f.sessionId.verify = true ∧ K = f.sessionId.key ∧ (r.dir = .outbound → f.sessionId.key = r.peer) := by
  obtain ⟨net, dir, me, g, sess, ini, sid, peer, sendOk, recv⟩ := r
  cases net <;> cases dir <;>
    simp only [Run.outcome, gossipOutbound_ok_iff, gossipInbound_ok_iff, consensusOutbound_ok_iff,
      consensusInbound_ok_iff, reduceCtorEq, false_implies, true_implies, and_true] <;>
    constructor <;> (rintro ⟨h1, f, h2⟩; refine ⟨h1, f, ?_⟩; simp_all)

/-- every frame a handshake writes is the own key's signature over the id of the session the run is on,
    together with the own genesis -/
theorem sent_eq (r : Run) : ∀ f ∈ r.outcome.sent, f = { sessionId := sign r.me r.sid, genesis := r.genesis } := by
  obtain ⟨net, dir, me, g, sess, ini, sid, peer, sendOk, recv⟩ := r
  intro f hf
  cases net <;> cases dir <;>
    simp only [Run.outcome, gossipOutbound, gossipInbound, consensusOutbound, consensusInbound] at hf <;>
    (repeat' split at hf) <;> simp_all

/-- an inbound run signs nothing unless the received frame passed every check -/
theorem inbound_sent_nonempty (r : Run) (hd : r.dir = .inbound) (hs : r.outcome.sent ≠ []) :
    ∃ f, r.recv = some f ∧ f.genesis = r.genesis ∧ f.sessionId.msg = r.sid ∧ f.sessionId.verify = true := by
  obtain ⟨net, dir, me, g, sess, ini, sid, peer, sendOk, recv⟩ := r
  simp only at hd; subst hd
  cases net <;>
    simp only [Run.outcome, gossipInbound, consensusInbound] at hs <;>
    (repeat' split at hs) <;> simp_all

/-- what a valid signed message looks like -/
theorem verify_iff (s : Signed) : s.verify = true ↔ s.sig = { signer := s.key, msg := s.msg } := by
  obtain ⟨m, k, ⟨a, b⟩⟩ := s
  simp [Signed.verify]

end EraVerif.Proofs.Handshake
