import EraVerif.Model.SyncSchedule
import EraVerif.Props.C06
import EraVerif.Props.C01r

/-!
# C06s, part 1: plumbing for the synchronous schedule

* what a handler run to completion does to a `Sys` (`sysStep`): replica state, messages sent;
* the frame lemma: `deliver E x i inp` changes validator `i` only;
* `Stage`: the facts carried from step to step along the schedule (the state is globally reachable, the store of
  every correct validator has caught up with its proposal cache);
* `deliver_legal`: a delivery of an authentic message (or a tick) to a correct validator is a `GStep`;
* `phase_spec`: a whole phase is a sequence of `GStep`s; afterwards every validator of `C` is in the state obtained by
  handling its own inputs, everybody else is unchanged, and the log has grown by exactly the effects emitted.
-/

namespace EraVerif.Proofs.Sync
open EraVerif.Model EraVerif.Proofs.ReplicaStep EraVerif.Proofs.Progress EraVerif.Proofs.RefineIP
open EraVerif.Proofs.Crash (dur)

/-! ## one validator -/

/-- the messages an effect list lets leave the node, in order -/
def sendsOf : List Effect → List Msg
  | [] => []
  | .send m :: es => m :: sendsOf es
  | .persist _ :: es => sendsOf es
  | .notify _ :: es => sendsOf es
  | .queueBlock _ _ _ :: es => sendsOf es

theorem mem_sendsOf {m : Msg} {es : List Effect} : m ∈ sendsOf es ↔ Effect.send m ∈ es := by
  induction es with
  | nil => simp [sendsOf]
  | cons x es ih => cases x <;> simp [sendsOf, ih]

theorem applyEffs_sent (s : Sys) (es : List Effect) : (applyEffs s es).sent = s.sent ++ sendsOf es := by
  induction es generalizing s with
  | nil => simp [applyEffs, sendsOf]
  | cons x es ih => cases x <;> simp [applyEffs, sendsOf, ih]

theorem sysStep_r (cfg : RCfg) (e : Env) (s : Sys) (inp : Input) :
    (sysStep cfg e s inp).r = (step cfg s.r e inp).r := by
  unfold sysStep
  rw [Crash.applyEffs_r]

theorem sysStep_sent (cfg : RCfg) (e : Env) (s : Sys) (inp : Input) :
    (sysStep cfg e s inp).sent = s.sent ++ sendsOf (step cfg s.r e inp).effs := by
  unfold sysStep
  rw [applyEffs_sent]

theorem sysRun_nil (cfg : RCfg) (e : Env) (s : Sys) : sysRun cfg e s [] = s := rfl

theorem sysRun_cons (cfg : RCfg) (e : Env) (s : Sys) (inp : Input) (rest : List Input) :
    sysRun cfg e s (inp :: rest) = sysRun cfg e (sysStep cfg e s inp) rest := rfl

theorem sysRun_append (cfg : RCfg) (e : Env) (s : Sys) (a b : List Input) :
    sysRun cfg e s (a ++ b) = sysRun cfg e (sysRun cfg e s a) b := by
  unfold sysRun; rw [List.foldl_append]

/-- the replica state after a list of inputs is `Progress.run` -/
theorem sysRun_r (cfg : RCfg) (e : Env) (s : Sys) (inps : List Input) :
    (sysRun cfg e s inps).r = run cfg s.r (inps.map (fun i => (e, i))) := by
  induction inps generalizing s with
  | nil => rfl
  | cons inp rest ih =>
    rw [sysRun_cons, ih, List.map_cons, run_cons, sysStep_r]

theorem sysRun_sent (cfg : RCfg) (e : Env) (s : Sys) (inps : List Input) :
    (sysRun cfg e s inps).sent = s.sent ++ sendsOf (sysEffs cfg e s inps) := by
  induction inps generalizing s with
  | nil => simp [sysRun_nil, sysEffs, sendsOf]
  | cons inp rest ih =>
    rw [sysRun_cons, ih, sysStep_sent]
    have : ∀ a b : List Effect, sendsOf (a ++ b) = sendsOf a ++ sendsOf b := by
      intro a b
      induction a with
      | nil => rfl
      | cons x a iha => cases x <;> simp [sendsOf, iha]
    simp [sysEffs, this]

theorem sysRun_sent_mono (cfg : RCfg) (e : Env) (s : Sys) (inps : List Input) :
    ∀ m ∈ s.sent, m ∈ (sysRun cfg e s inps).sent := by
  intro m hm
  rw [sysRun_sent]
  exact List.mem_append_left _ hm

/-! ## the frame lemma -/

section frame
variable {cfg : RCfg}

theorem set_sys_self (g : Global cfg) (i : Fin cfg.c.n) (s : Sys) (h : List Durable) : (g.set i s h).sys i = s := by
  simp [Global.set]

theorem set_sys_other (g : Global cfg) (i j : Fin cfg.c.n) (s : Sys) (h : List Durable) (hj : j ≠ i) :
    (g.set i s h).sys j = g.sys j := by
  simp [Global.set, hj]

theorem deliver_sys_self (E : Fin cfg.c.n → Env) (x : Run cfg) (i : Fin cfg.c.n) (inp : Input) :
    (deliver E x i inp).g.sys i = sysStep cfg (E i) (x.g.sys i) inp := set_sys_self _ _ _ _

/-- **Frame.** A step of validator `i` changes nothing at any other validator. -/
theorem deliver_sys_other (E : Fin cfg.c.n → Env) (x : Run cfg) (i j : Fin cfg.c.n) (inp : Input) (hj : j ≠ i) :
    (deliver E x i inp).g.sys j = x.g.sys j := set_sys_other _ _ _ _ _ hj

theorem deliver_log (E : Fin cfg.c.n → Env) (x : Run cfg) (i : Fin cfg.c.n) (inp : Input) :
    (deliver E x i inp).log = x.log ++ (step cfg (x.g.sys i).r (E i) inp).effs.map (fun ef => (i.val, ef)) := rfl

end frame

/-! ## what is carried along the schedule -/

section stage
variable {cfg : RCfg} {byz : Finset (Fin cfg.c.n)}

/-- the facts every step of the schedule preserves -/
structure Stage (byz : Finset (Fin cfg.c.n)) (E : Fin cfg.c.n → Env) (g : Global cfg) : Prop where
  reach : GReach cfg (Byz byz) g
  below : ∀ i, i ∉ byz → CacheBelowStore (g.sys i).r (E i).storeNext

/-- the store's queue is never behind what is persisted -/
def EnvSane (byz : Finset (Fin cfg.c.n)) (E : Fin cfg.c.n → Env) : Prop :=
  ∀ i, i ∉ byz → (E i).persistedNext ≤ (E i).storeNext

theorem Stage.ginv {E : Fin cfg.c.n → Env} {g : Global cfg} (h : Stage byz E g) (ht : 1 ≤ cfg.c.total) :
    GInv cfg byz g := (Props.C01r.reach_inv ht h.reach).1

theorem Stage.wf {E : Fin cfg.c.n → Env} {g : Global cfg} (h : Stage byz E g) (ht : 1 ≤ cfg.c.total)
    {i : Fin cfg.c.n} (hi : i ∉ byz) : Wf cfg (g.sys i).r := (h.ginv ht i hi).linv.wf

/-- an authentic message stays authentic when a validator takes a step -/
theorem authentic_set {g : Global cfg} {i : Fin cfg.c.n} {s' : Sys} {h' : List Durable}
    (hsent : ∀ m ∈ (g.sys i).sent, m ∈ s'.sent) {m : Signed} (ha : Authentic (Byz byz) g m) :
    Authentic (Byz byz) (g.set i s' h') m := by
  obtain ⟨mc, mt⟩ := sigs_mono_set (byz := byz) (h' := h') hsent
  obtain ⟨h1, h2⟩ := ha
  refine ⟨?_, ?_⟩
  · intro hs hp hk hb
    have := h1 hs hp hk hb
    by_cases he : (⟨m.key, hk⟩ : Fin cfg.c.n) = i
    · rw [he, set_sys_self]
      rw [he] at this
      exact hsent _ this
    · rw [set_sys_other _ _ _ _ _ he]
      exact this
  · have mcq : ∀ q, AuthCQC (sigsOf (Byz byz) g) q → AuthCQC (sigsOf (Byz byz) (g.set i s' h')) q :=
      fun q hq p hp => mc _ _ (hq p hp)
    have mtq : ∀ q, AuthTQC (sigsOf (Byz byz) g) q → AuthTQC (sigsOf (Byz byz) (g.set i s' h')) q :=
      fun q hq => ⟨fun p hp => mt _ _ (hq.1 p hp), fun e he cq hcq => mcq _ (hq.2 e he cq hcq)⟩
    have mj : ∀ j, AuthJust (sigsOf (Byz byz) g) j → AuthJust (sigsOf (Byz byz) (g.set i s' h')) j := by
      intro j hj
      cases j with
      | commit q => exact mcq q hj
      | timeout q => exact mtq q hj
    cases hm : m.msg with
    | proposal p j => rw [hm] at h2; exact mj j h2
    | newView j => rw [hm] at h2; exact mj j h2
    | commit v => trivial
    | timeout t =>
      rw [hm] at h2
      exact fun cq hcq => mcq cq (h2 cq hcq)

theorem sysStep_sent_mono (e : Env) (s : Sys) (inp : Input) : ∀ m ∈ s.sent, m ∈ (sysStep cfg e s inp).sent := by
  intro m hm
  rw [sysStep_sent]
  exact List.mem_append_left _ hm

theorem authentic_deliver (E : Fin cfg.c.n → Env) (x : Run cfg) (i : Fin cfg.c.n) (inp : Input) {m : Signed}
    (ha : Authentic (Byz byz) x.g m) : Authentic (Byz byz) (deliver E x i inp).g m :=
  authentic_set (sysStep_sent_mono (E i) (x.g.sys i) inp) ha

/-- what the schedule needs of an input to deliver it -/
def Deliverable (byz : Finset (Fin cfg.c.n)) (g : Global cfg) (inp : Input) : Prop :=
  (∀ b, inp ≠ .restart b) ∧ InputOk inp ∧ InputOk2 inp ∧ ∀ m, inp = .msg m → Authentic (Byz byz) g m

theorem deliverable_tick (g : Global cfg) : Deliverable byz g .tick :=
  ⟨(by intro b h; cases h), trivial, trivial, (by intro m h; cases h)⟩

/-- **Every delivery of the schedule is a legal global step**: a correct validator whose store has caught up with its
proposal cache handles a deliverable input to completion (it neither panics nor waits in `queue_block`); the stage
facts hold again afterwards. -/
theorem deliver_legal (ht : 1 ≤ cfg.c.total) {E : Fin cfg.c.n → Env} (hE : EnvSane byz E) {x : Run cfg}
    (hst : Stage byz E x.g) {i : Fin cfg.c.n} (hi : i ∉ byz) {inp : Input} (hd : Deliverable byz x.g inp) :
    GStep cfg (Byz byz) x.g (deliver E x i inp).g ∧ Stage byz E (deliver E x i inp).g := by
  obtain ⟨hin, hok, hok2, hauth⟩ := hd
  have hwf := hst.wf ht hi
  have hnb := step_not_blocked cfg (x.g.sys i).r (E i) inp (hst.below i hi) (hE i hi)
  have hout : (step cfg (x.g.sys i).r (E i) inp).out = .accepted ∨
      ∃ w, (step cfg (x.g.sys i).r (E i) inp).out = .rejected w := by
    rcases Props.C05.outcome_trichotomy cfg (x.g.sys i).r (E i) inp hwf with ⟨w, hw⟩ | hb | ha
    · exact Or.inr ⟨w, hw⟩
    · exact absurd hb hnb
    · exact Or.inl ha
  have hstep : GStep cfg (Byz byz) x.g (deliver E x i inp).g :=
    GStep.step x.g i hi _ _ (HStep.run (x.g.sys i) (x.g.hist i) (E i) inp hin hok hok2 hauth hout)
  refine ⟨hstep, GReach.step hst.reach hstep, ?_⟩
  intro j hj
  by_cases hji : j = i
  · subst hji
    rw [deliver_sys_self, sysStep_r]
    exact step_cache_below cfg _ (E j) inp hin (hst.below j hj) (hE j hj)
  · rw [deliver_sys_other E x i j inp hji]
    exact hst.below j hj

theorem deliverable_mono {g g' : Global cfg} (hm : ∀ m, Authentic (Byz byz) g m → Authentic (Byz byz) g' m)
    {inp : Input} (h : Deliverable byz g inp) : Deliverable byz g' inp :=
  ⟨h.1, h.2.1, h.2.2.1, fun m hm' => hm m (h.2.2.2 m hm')⟩

/-- one validator handles a list of deliverable inputs -/
theorem deliverList_spec (ht : 1 ≤ cfg.c.total) {E : Fin cfg.c.n → Env} (hE : EnvSane byz E) {i : Fin cfg.c.n}
    (hi : i ∉ byz) (inps : List Input) :
    ∀ {x : Run cfg}, Stage byz E x.g → (∀ inp ∈ inps, Deliverable byz x.g inp) →
      Relation.ReflTransGen (GStep cfg (Byz byz)) x.g (deliverList E x i inps).g ∧
      Stage byz E (deliverList E x i inps).g ∧
      (∀ m, Authentic (Byz byz) x.g m → Authentic (Byz byz) (deliverList E x i inps).g m) ∧
      (deliverList E x i inps).g.sys i = sysRun cfg (E i) (x.g.sys i) inps ∧
      (∀ j, j ≠ i → (deliverList E x i inps).g.sys j = x.g.sys j) ∧
      (deliverList E x i inps).log =
        x.log ++ (sysEffs cfg (E i) (x.g.sys i) inps).map (fun ef => (i.val, ef)) := by
  induction inps with
  | nil =>
    intro x hst _
    exact ⟨.refl, hst, fun m hm => hm, rfl, fun j _ => rfl, by simp [deliverList, sysEffs]⟩
  | cons inp rest ih =>
    intro x hst hd
    obtain ⟨hs1, hst1⟩ := deliver_legal ht hE hst hi (hd inp List.mem_cons_self)
    have hmono : ∀ m, Authentic (Byz byz) x.g m → Authentic (Byz byz) (deliver E x i inp).g m :=
      fun m hm => authentic_deliver E x i inp hm
    obtain ⟨r1, r2, r3, r4, r5, r6⟩ := ih (x := deliver E x i inp) hst1
      (fun y hy => deliverable_mono hmono (hd y (List.mem_cons_of_mem _ hy)))
    refine ⟨Relation.ReflTransGen.head hs1 r1, r2, fun m hm => r3 m (hmono m hm), ?_, ?_, ?_⟩
    · show (deliverList E (deliver E x i inp) i rest).g.sys i = _
      rw [r4, deliver_sys_self, sysRun_cons]
    · intro j hj
      show (deliverList E (deliver E x i inp) i rest).g.sys j = _
      rw [r5 j hj, deliver_sys_other E x i j inp hj]
    · show (deliverList E (deliver E x i inp) i rest).log = _
      rw [r6, deliver_log, deliver_sys_self]
      simp [sysEffs, List.append_assoc]

/-- **A phase of the schedule.** From a stage state, with deliverable inputs for distinct correct validators: the
phase is a sequence of legal global steps; every validator of `C` ends in the state it reaches by handling its own
inputs from its own state, everybody else is unchanged; messages authentic before stay authentic; the log grows by
the effects emitted, validator by validator. -/
theorem phase_spec (ht : 1 ≤ cfg.c.total) {E : Fin cfg.c.n → Env} (hE : EnvSane byz E)
    (inps : Fin cfg.c.n → List Input) (C : List (Fin cfg.c.n)) :
    ∀ {x : Run cfg}, C.Nodup → (∀ i ∈ C, i ∉ byz) → Stage byz E x.g →
      (∀ i ∈ C, ∀ inp ∈ inps i, Deliverable byz x.g inp) →
      Relation.ReflTransGen (GStep cfg (Byz byz)) x.g (phase E C inps x).g ∧
      Stage byz E (phase E C inps x).g ∧
      (∀ m, Authentic (Byz byz) x.g m → Authentic (Byz byz) (phase E C inps x).g m) ∧
      (∀ i ∈ C, (phase E C inps x).g.sys i = sysRun cfg (E i) (x.g.sys i) (inps i)) ∧
      (∀ j, j ∉ C → (phase E C inps x).g.sys j = x.g.sys j) ∧
      (phase E C inps x).log =
        x.log ++ C.flatMap (fun i => (sysEffs cfg (E i) (x.g.sys i) (inps i)).map (fun ef => (i.val, ef))) := by
  induction C with
  | nil =>
    intro x _ _ hst _
    exact ⟨.refl, hst, fun m hm => hm, (by intro i hi; cases hi), fun j _ => rfl, (by simp [phase])⟩
  | cons a rest ih =>
    intro x hnd hc hst hd
    obtain ⟨hna, hnd'⟩ := List.nodup_cons.mp hnd
    obtain ⟨s1, s2, s3, s4, s5, s6⟩ := deliverList_spec ht hE (hc a List.mem_cons_self) (inps a) hst
      (hd a List.mem_cons_self)
    obtain ⟨r1, r2, r3, r4, r5, r6⟩ := ih (x := deliverList E x a (inps a)) hnd'
      (fun i hi => hc i (List.mem_cons_of_mem _ hi)) s2
      (fun i hi inp hinp => deliverable_mono s3 (hd i (List.mem_cons_of_mem _ hi) inp hinp))
    have hph : phase E (a :: rest) inps x = phase E rest inps (deliverList E x a (inps a)) := rfl
    rw [hph]
    refine ⟨s1.trans r1, r2, fun m hm => r3 m (s3 m hm), ?_, ?_, ?_⟩
    · intro i hi
      rcases List.mem_cons.mp hi with rfl | hi
      · rw [r5 i hna, s4]
      · have hia : i ≠ a := fun h => hna (h ▸ hi)
        rw [r4 i hi, s5 i hia]
    · intro j hj
      have hja : j ≠ a := fun h => hj (h ▸ List.mem_cons_self)
      have hjr : j ∉ rest := fun h => hj (List.mem_cons_of_mem _ h)
      rw [r5 j hjr, s5 j hja]
    · rw [r6, s6, List.flatMap_cons, List.append_assoc]
      congr 2
      apply List.flatMap_congr
      intro i hi
      have hia : i ≠ a := fun h => hna (h ▸ hi)
      rw [s5 i hia]

end stage

end EraVerif.Proofs.Sync
