import EraVerif.Proofs.MuxTx

namespace EraVerif.Proofs.Mux
open EraVerif.Model.Mux EraVerif.Gen.MuxConst

attribute [local simp] State.upd State.release State.releaseOpt State.emit State.setSlot State.log State.enqueue
  handover finishRead

/-- try the three ways a leaf can preserve `TInv` -/
macro "tx_leaf" hi:ident s:ident k:term : tactic =>
  `(tactic| first
    | (refine TInv_of_same (s := $s) rfl rfl (by simp_all) ?_ $hi; txsame; done)
    | (refine TInv_upd (k := $k) $hi rfl rfl rfl ?_ ?_ ?_
       · intro k' hk'; red; simp [hk']
       · red; simp only [↓reduceIte]; constructor <;> simp_all [pendRest]
       · red; simp_all)
    | (refine TInv_emit (k := $k) $hi rfl rfl rfl ?_ ?_ ?_ ?_
       · intro k' hk'; red; simp [hk']
       · red; simp only [↓reduceIte]; constructor <;> simp_all [pendRest]
       · red; cases hto : (State.st $s $k).txOpen <;> simp_all [txStep]
       · simp_all))

theorem TInv_stepCloseData {s s' : State} {k : Key} (hl : LInv s) (hi : TInv s) (h : stepCloseData s k = some s') : TInv s' := by
  unfold stepCloseData at h
  have ht := hi.st k
  obtain ⟨t1, t2, t3, t4, t5, t6, t7⟩ := ht
  have l1 := hl.d1 k
  have l4 := hl.pw k
  leaves h
  all_goals subst h
  all_goals tx_leaf hi s k

theorem TInv_stepCloseFrame {s s' : State} {k : Key} (hl : LInv s) (hi : TInv s) (h : stepCloseFrame s k = some s') : TInv s' := by
  unfold stepCloseFrame at h
  have ht := hi.st k
  obtain ⟨t1, t2, t3, t4, t5, t6, t7⟩ := ht
  have l1 := hl.d1 k
  have l4 := hl.pw k
  leaves h
  all_goals subst h
  all_goals tx_leaf hi s k

theorem TInv_stepJoinedA {s s' : State} {k : Key} (hl : LInv s) (hi : TInv s) (h : stepJoinedA s k = some s') : TInv s' := by
  unfold stepJoinedA at h
  have ht := hi.st k
  obtain ⟨t1, t2, t3, t4, t5, t6, t7⟩ := ht
  have l1 := hl.d1 k
  have l4 := hl.pw k
  leaves h
  all_goals subst h
  all_goals tx_leaf hi s k

theorem TInv_stepPush {s s' : State} {k : Key} (hl : LInv s) (hi : TInv s) (h : stepPush s k = some s') : TInv s' := by
  unfold stepPush at h
  have ht := hi.st k
  obtain ⟨t1, t2, t3, t4, t5, t6, t7⟩ := ht
  have l1 := hl.d1 k
  have l4 := hl.pw k
  leaves h
  all_goals subst h
  all_goals tx_leaf hi s k

set_option maxHeartbeats 1600000 in
theorem TInv_stepSendOpen {s s' : State} {k : Key} (hl : LInv s) (hi : TInv s) (h : stepSendOpen s k = some s') : TInv s' := by
  unfold stepSendOpen at h
  have ht := hi.st k
  obtain ⟨t1, t2, t3, t4, t5, t6, t7⟩ := ht
  have l1 := hl.d1 k
  have l4 := hl.pw k
  leaves h
  all_goals subst h
  all_goals tx_leaf hi s k

theorem TInv_stepJoinedC {s s' : State} {k : Key} (hl : LInv s) (hi : TInv s) (h : stepJoinedC s k = some s') : TInv s' := by
  unfold stepJoinedC at h
  have ht := hi.st k
  obtain ⟨t1, t2, t3, t4, t5, t6, t7⟩ := ht
  have l1 := hl.d1 k
  have l4 := hl.pw k
  leaves h
  all_goals subst h
  all_goals tx_leaf hi s k

theorem TInv_stepWriteStep {s s' : State} {k : Key} (hl : LInv s) (hi : TInv s) (h : stepWriteStep s k = some s') : TInv s' := by
  unfold stepWriteStep StreamSt.endWrite at h
  have ht := hi.st k
  obtain ⟨t1, t2, t3, t4, t5, t6, t7⟩ := ht
  have l1 := hl.d1 k
  have l4 := hl.pw k
  leaves h
  all_goals subst h
  all_goals first | (tx_leaf hi s k; done) | skip
  all_goals (refine TInv_upd (k := k) hi rfl rfl rfl ?_ ?_ ?_)
  all_goals first | (intro k' hk'; red; simp [hk']; done) | skip
  all_goals (red; simp only [↓reduceIte])
  all_goals first | (constructor <;> simp_all [pendRest] <;> done) | skip
  · have hdead : s.dead.isNone = false := by cases hd : s.dead <;> simp_all
    have hw := l4 (by simp_all)
    have ho := t3 hw
    constructor
    · intro ha; rw [hdead] at ha; cases ha
    all_goals simp_all [pendRest]
  all_goals
    rename_i p hp hr hf hn
    have hw := l4 (by simp [hp])
    have ho := t3 hw
    have hlog := t1
    simp only [pendRest, hp] at hlog
    constructor
    · intro ha
      simp only [pendRest]
      rw [hlog ha]
      simp only [List.append_assoc, List.append_cancel_left_eq]
      exact (List.take_append_drop _ _).symm
    · intro h0; rw [ho] at h0; cases h0
    · exact t3
    · exact t4
    · exact t5
    · intro h0; exact absurd hw (by rw [l1 h0]; decide)
    · simp only [List.length_append, List.length_take]; omega


theorem TInv_stepPop {s s' : State} {conn : Bool} {cap : Nat} (hl : LInv s) (hi : TInv s)
    (h : stepPop s conn cap = some s') : TInv s' := by
  unfold stepPop at h
  leaves h
  rename_i slot ws id ids hw hp
  have hq := (hl.q conn cap id (by rw [hp]; simp)).1
  have ht := hi.st ⟨conn, id⟩
  obtain ⟨t1, t2, t3, t4, t5, t6, t7⟩ := ht
  subst h
  tx_leaf hi s (⟨conn, id⟩ : Key)

theorem TInv_stepAppWrite {s s' : State} {slot : Nat} {bytes : List Nat} (hl : LInv s) (hi : TInv s)
    (h : stepAppWrite s slot bytes = some s') : TInv s' := by
  unfold stepAppWrite at h
  leaves h
  rename_i k r hs hp
  have hw := (hl.sl slot k r true hs).2 rfl
  have ht := hi.st k
  obtain ⟨t1, t2, t3, t4, t5, t6, t7⟩ := ht
  have ho := t3 hw
  have hpn : (s.st k).pendW = none := by cases hq : (s.st k).pendW <;> simp_all
  subst h
  refine TInv_upd (k := k) hi rfl rfl rfl ?_ ?_ ?_
  · intro k' hk'; red; simp [hk']
  · red; simp only [↓reduceIte]
    constructor
    · intro ha; simp only [pendRest]; rw [t1 ha]; simp [pendRest, hpn]
    · intro h0; rw [ho] at h0; cases h0
    · exact t3
    · exact t4
    · exact t5
    · exact t6
    · exact t7
  · red; simp

theorem TInv_stepFlushStep {s s' : State} {k : Key} (hl : LInv s) (hi : TInv s) (h : stepFlushStep s k = some s') : TInv s' := by
  unfold stepFlushStep at h
  have ht := hi.st k
  obtain ⟨t1, t2, t3, t4, t5, t6, t7⟩ := ht
  have l1 := hl.d1 k
  have l4 := hl.pw k
  leaves h
  all_goals subst h
  all_goals first | (tx_leaf hi s k; done) | skip

theorem TInv_stepCancelWrite {s s' : State} {k : Key} (hl : LInv s) (hi : TInv s) (h : stepCancelWrite s k = some s') : TInv s' := by
  unfold stepCancelWrite StreamSt.endWrite at h
  have ht := hi.st k
  obtain ⟨t1, t2, t3, t4, t5, t6, t7⟩ := ht
  have l1 := hl.d1 k
  have l4 := hl.pw k
  leaves h
  rename_i p hp hc
  subst h
  have hw := l4 (by simp [hp])
  have ho := t3 hw
  refine TInv_upd (k := k) hi rfl rfl rfl ?_ ?_ ?_
  · intro k' hk'; red; simp [hk']
  · red; simp only [↓reduceIte]
    constructor
    · intro ha
      have hlog := t1 ha
      simp only [pendRest, hp] at hlog
      simp only [pendRest, List.append_nil]
      rw [hlog]
      exact take_length_sub_append _ _
    · intro h0; rw [ho] at h0; cases h0
    · exact t3
    · exact t4
    · exact t5
    · exact t6
    · exact t7
  · red; simp

theorem TInv_stepAppDrop {s s' : State} {slot : Nat} {r w : Bool} (hi : TInv s)
    (h : stepAppDrop s slot r w = some s') : TInv s' := by
  unfold stepAppDrop at h
  split at h
  · rename_i k hr hw hs
    by_cases hg : (r && hr && (s.st k).pendR.isSome || w && hw && ((s.st k).pendW.isSome || (s.st k).pendF.isSome)) = true
    · rw [if_pos hg] at h; cases h
    · rw [if_neg hg] at h
      simp only [Option.some.injEq] at h
      subst h
      have ht := hi.st k
      obtain ⟨t1, t2, t3, t4, t5, t6, t7⟩ := ht
      refine TInv_upd (k := k) hi rfl rfl rfl ?_ ?_ ?_
      · intro k' hk'; red; simp [hk']
      · red; simp only [↓reduceIte]
        constructor
        · exact t1
        · exact t2
        · intro h0; apply t3; revert h0; dsimp only; split <;> simp
        · exact t4
        · exact t5
        · exact t6
        · exact t7
      · red; simp
  · cases h

theorem TInv_step {s s' : State} {e : Event} (hl : LInv s) (hi : TInv s) (h : step? s e = some s') : TInv s' := by
  cases e <;> simp only [step?] at h
  case wireIn f => cases h; exact TInv_of_same (s := s) rfl rfl id (fun k => txSame_refl _) hi
  case wireEof => cases h; exact TInv_of_same (s := s) rfl rfl id (fun k => txSame_refl _) hi
  case pump => exact TInv_stepPump hi h
  case recvOpenStart k => exact TInv_stepRecvOpenStart hi h
  case discard k => exact TInv_stepDiscard hi h
  case closeData k => exact TInv_stepCloseData hl hi h
  case closeFrame k => exact TInv_stepCloseFrame hl hi h
  case joinedA k => exact TInv_stepJoinedA hl hi h
  case push k => exact TInv_stepPush hl hi h
  case pop c x => exact TInv_stepPop hl hi h
  case sendOpen k => exact TInv_stepSendOpen hl hi h
  case joinedC k => exact TInv_stepJoinedC hl hi h
  case doFlush => exact TInv_stepDoFlush hi h
  case appOpen a b c => exact TInv_stepAppOpen hi h
  case appRead a b => exact TInv_stepAppRead hi h
  case readStep k => exact TInv_stepReadStep hi h
  case appWrite a b => exact TInv_stepAppWrite hl hi h
  case writeStep k => exact TInv_stepWriteStep hl hi h
  case appFlush a => exact TInv_stepAppFlush hi h
  case appDrop a b c => exact TInv_stepAppDrop hi h
  case wtake => exact TInv_stepWTake hi h
  case wdo => exact TInv_stepWDo hi h
  case wblock => exact TInv_stepWBlock hi h
  case txWindow l => cases h; exact TInv_of_same (s := s) rfl rfl id (fun k => txSame_refl _) hi
  case flushStep k => exact TInv_stepFlushStep hl hi h
  case cancelWrite k => exact TInv_stepCancelWrite hl hi h
  case cancelFlush k => exact TInv_stepCancelFlush hi h

theorem TInv_reachable {s : State} (h : Reachable s) : TInv s := by
  have : LInv s ∧ TInv s :=
    reachable_inv (P := fun s => LInv s ∧ TInv s) (fun c a b d e => ⟨LInv_init c a b d e, TInv_init c a b d e⟩)
      (fun _ _ _ hi hs => ⟨LInv_step hi.1 hs, TInv_step hi.1 hi.2 hs⟩) h
  exact this.2

end EraVerif.Proofs.Mux
