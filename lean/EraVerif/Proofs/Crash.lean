import EraVerif.Model.ReplicaSys

/-!
# Helper lemmas for C03 (no vote equivocation across crashes)

* `Shape`: the form of the effect list of every handler — either nothing durable and nothing sent, or
  `silent* ++ persist d' :: send*`, with `d'` related to the state before the step by `Trans` and every message
  sent after the write recorded by `d'` (`MsgOk`).
* `Core d sent`: the invariant tying the durable state to everything that ever left the node.
* `Inv s`: `Core` plus agreement of the live replica with the durable state; `inv_of_reachable`.
-/

namespace EraVerif.Proofs.Crash
open EraVerif.Model

/-! ## vocabulary -/

/-- an effect that neither writes the durable state nor lets a message leave the node -/
def silent : Effect → Bool
  | .persist _ => false
  | .send _ => false
  | _ => true

theorem quiet_of_silent {x : Effect} (h : silent x = true) :
    (∀ m, x ≠ Effect.send m) ∧ ∀ d, x ≠ Effect.persist d := by
  constructor
  · intro m hm; subst hm; cases h
  · intro d hd; subst hd; cases h

/-- two states agree on what the votes depend on -/
def Agree (a b : Durable) : Prop := a.view = b.view ∧ a.phase = b.phase ∧ a.highVote = b.highVote

/-- how a durable write may change (view, phase, highVote): move to a higher view; or leave `prepare` within the
view; or switch to `timeout` within the view keeping the high vote -/
def Trans (d0 d' : Durable) : Prop :=
  d0.view < d'.view ∨ (d'.view = d0.view ∧ d0.phase = .prepare) ∨
  (d'.view = d0.view ∧ d'.phase = .timeout ∧ d'.highVote = d0.highVote)

/-- the durable state `d` records the vote `m` -/
def MsgOk (d : Durable) : Msg → Prop
  | .commit v => d.phase = .commit ∧ d.highVote = some v ∧ v.view.number = d.view
  | .timeout t => d.phase = .timeout ∧ t.view.number = d.view ∧ t.highVote = d.highVote
  | _ => True

def OutOk (o : Outcome) : Prop := o = .accepted ∨ ∃ w, o = .rejected w

/-- the form of a handler's result, relative to the (view, phase, highVote) `d0` before the step. The list form
holds unconditionally; what relates the new durable state to the old one is guaranteed under `P` (the hypothesis
that the incoming vote is not for the one view number at which `ViewNumber::next` wraps, and that the input is
not the explicit restart). -/
def Shape (P : Prop) (d0 : Durable) (res : StepRes) : Prop :=
  ((∀ x ∈ res.effs, silent x = true) ∧ (P → OutOk res.out → Agree res.r.toDurable d0)) ∨
  (∃ pre d' msgs, res.effs = pre ++ Effect.persist d' :: msgs.map Effect.send ∧
     (∀ x ∈ pre, silent x = true) ∧ (P → Trans d0 d') ∧ (∀ m ∈ msgs, MsgOk d' m) ∧
     (∀ v, Msg.commit v ∈ msgs → msgs = [Msg.commit v]) ∧ Agree res.r.toDurable d')

theorem Agree.rfl' (a : Durable) : Agree a a := ⟨rfl, rfl, rfl⟩

theorem Agree.trans {a b c : Durable} (h1 : Agree a b) (h2 : Agree b c) : Agree a c :=
  ⟨h1.1.trans h2.1, h1.2.1.trans h2.2.1, h1.2.2.trans h2.2.2⟩

theorem Agree.symm {a b : Durable} (h : Agree a b) : Agree b a := ⟨h.1.symm, h.2.1.symm, h.2.2.symm⟩

theorem Trans.congr {d0 d0' d' : Durable} (h : Agree d0 d0') (t : Trans d0 d') : Trans d0' d' := by
  obtain ⟨h1, h2, h3⟩ := h
  unfold Trans at *
  rw [← h1, ← h2, ← h3]; exact t

theorem Trans.congr_right {d0 d' d'' : Durable} (h : Agree d' d'') (t : Trans d0 d') : Trans d0 d'' := by
  obtain ⟨h1, h2, h3⟩ := h
  unfold Trans at *
  rw [← h1, ← h2, ← h3]; exact t

theorem Shape.congr {P : Prop} {d0 d0' : Durable} {res : StepRes} (h : Agree d0 d0') (s : Shape P d0 res) :
    Shape P d0' res := by
  rcases s with ⟨h1, h2⟩ | ⟨pre, d', msgs, h1, h2, h3, h4, h5, h6⟩
  · exact Or.inl ⟨h1, fun p o => (h2 p o).trans h⟩
  · exact Or.inr ⟨pre, d', msgs, h1, h2, fun p => (h3 p).congr h, h4, h5, h6⟩

theorem Shape.mono {P P' : Prop} {d0 : Durable} {res : StepRes} (hpp : P' → P) (s : Shape P d0 res) :
    Shape P' d0 res := by
  rcases s with ⟨h1, h2⟩ | ⟨pre, d', msgs, h1, h2, h3, h4, h5, h6⟩
  · exact Or.inl ⟨h1, fun p o => h2 (hpp p) o⟩
  · exact Or.inr ⟨pre, d', msgs, h1, h2, fun p => h3 (hpp p), h4, h5, h6⟩

/-- silent effects in front do not change the shape -/
theorem Shape.prepend {P : Prop} {d0 : Durable} {res : StepRes} (effs : List Effect)
    (he : ∀ x ∈ effs, silent x = true) (s : Shape P d0 res) : Shape P d0 { res with effs := effs ++ res.effs } := by
  rcases s with ⟨h1, h2⟩ | ⟨pre, d', msgs, h1, h2, h3, h4, h5, h6⟩
  · refine Or.inl ⟨?_, h2⟩
    intro x hx
    rcases List.mem_append.1 hx with hx | hx
    · exact he x hx
    · exact h1 x hx
  · refine Or.inr ⟨effs ++ pre, d', msgs, ?_, ?_, h3, h4, h5, h6⟩
    · simp only [h1, List.append_assoc]
    · intro x hx
      rcases List.mem_append.1 hx with hx | hx
      · exact he x hx
      · exact h2 x hx

theorem shape_rej {P : Prop} (r : Replica) (w : Reject) : Shape P r.toDurable (rej r w) :=
  Or.inl ⟨(by intro x hx; cases hx), fun _ _ => Agree.rfl' _⟩

/-! ## the certificate-processing helpers only touch the high certificates and queue blocks -/

theorem saveBlock_silent (r : Replica) (e : Env) (q : CommitQC) : ∀ x ∈ (saveBlock r e q).1, silent x = true := by
  unfold saveBlock
  split
  · intro x hx; cases hx
  · split
    · intro x hx; cases hx
    · split
      · intro x hx
        simp only [List.mem_singleton] at hx
        subst hx; rfl
      · intro x hx; cases hx

theorem processCommitQC_spec (r : Replica) (e : Env) (q : CommitQC) :
    Agree (processCommitQC r e q).1.toDurable r.toDurable ∧
    ∀ x ∈ (processCommitQC r e q).2.1, silent x = true := by
  unfold processCommitQC
  simp only []
  repeat' split
  all_goals first
    | exact ⟨⟨rfl, rfl, rfl⟩, saveBlock_silent _ e q⟩
    | exact ⟨⟨rfl, rfl, rfl⟩, (by intro x hx; cases hx)⟩

theorem processTimeoutQC_spec (r : Replica) (e : Env) (q : TimeoutQC) :
    Agree (processTimeoutQC r e q).1.toDurable r.toDurable ∧
    ∀ x ∈ (processTimeoutQC r e q).2.1, silent x = true := by
  have key : ∀ p : Replica × List Effect × Bool,
      (Agree p.1.toDurable r.toDurable ∧ ∀ x ∈ p.2.1, silent x = true) →
      (Agree (match p with
        | (r1, effs, ok) => if !ok then (r1, effs, false) else
          ((if (match r1.highTimeoutQC with
                | none => true
                | some old => decide (old.view.number < q.view.number)) then { r1 with highTimeoutQC := some q } else r1), effs, true)).1.toDurable r.toDurable ∧
       ∀ x ∈ (match p with
        | (r1, effs, ok) => if !ok then (r1, effs, false) else
          ((if (match r1.highTimeoutQC with
                | none => true
                | some old => decide (old.view.number < q.view.number)) then { r1 with highTimeoutQC := some q } else r1), effs, true)).2.1, silent x = true) := by
    rintro ⟨r1, effs, ok⟩ ⟨h1, h2⟩
    simp only []
    repeat' split
    all_goals exact ⟨h1, h2⟩
  unfold processTimeoutQC
  cases hq : q.highQC with
  | none => exact key (r, [], true) ⟨Agree.rfl' _, (by intro x hx; cases hx)⟩
  | some hq' => exact key (processCommitQC r e hq') (processCommitQC_spec r e hq')

theorem processJust_spec (r : Replica) (e : Env) (j : Just) :
    Agree (processJust r e j).1.toDurable r.toDurable ∧
    ∀ x ∈ (processJust r e j).2.1, silent x = true := by
  cases j with
  | commit q => exact processCommitQC_spec r e q
  | timeout q => exact processTimeoutQC_spec r e q

/-! ## the handlers -/

theorem not_outOk_panic (site : String) : ¬ OutOk (.panic site) := by
  rintro (o | ⟨w, o⟩) <;> cases o

theorem not_outOk_blocked : ¬ OutOk .blocked := by
  rintro (o | ⟨w, o⟩) <;> cases o

theorem startNewView_shape {P : Prop} (r : Replica) (view : Nat) (h : P → r.view < view) :
    Shape P r.toDurable (startNewView r view) := by
  unfold startNewView
  simp only []
  split
  · exact Or.inl ⟨(by intro x hx; cases hx), fun _ o => absurd o (not_outOk_panic _)⟩
  · rename_i j hj
    refine Or.inr ⟨[.notify j], _, [.newView j], rfl, ?_, fun p => Or.inl ?_, ?_, ?_, Agree.rfl' _⟩
    · intro x hx
      simp only [List.mem_singleton] at hx
      subst hx; rfl
    · split <;> exact h p
    · intro m hm
      simp only [List.mem_singleton] at hm
      subst hm; trivial
    · intro v hv
      simp only [List.mem_singleton] at hv
      cases hv

theorem startTimeout_shape (cfg : RCfg) (r : Replica) : Shape True r.toDurable (startTimeout cfg r) := by
  have tr : True → Trans r.toDurable ({ r with phase := Phase.timeout } : Replica).durable :=
    fun _ => Or.inr (Or.inr ⟨rfl, rfl, rfl⟩)
  unfold startTimeout
  simp only []
  split
  · split
    · refine Or.inr ⟨[], _, [], rfl, ?_, tr, ?_, ?_, Agree.rfl' _⟩
      · intro x hx; cases hx
      · intro x hx; cases hx
      · intro x hx; cases hx
    · rename_i j hj
      refine Or.inr ⟨[], _, [.newView j, .timeout _], rfl, ?_, tr, ?_, ?_, Agree.rfl' _⟩
      · intro x hx; cases hx
      · intro m hm
        simp only [List.mem_cons, List.not_mem_nil, or_false] at hm
        rcases hm with hm | hm
        · subst hm; trivial
        · subst hm; exact ⟨rfl, rfl, rfl⟩
      · intro v hv
        simp only [List.mem_cons, List.not_mem_nil, or_false] at hv
        rcases hv with hv | hv <;> cases hv
  · refine Or.inr ⟨[], _, [.timeout _], rfl, ?_, tr, ?_, ?_, Agree.rfl' _⟩
    · intro x hx; cases hx
    · intro m hm
      simp only [List.mem_singleton] at hm
      subst hm; exact ⟨rfl, rfl, rfl⟩
    · intro v hv
      simp only [List.mem_singleton] at hv
      cases hv

theorem just_view_number (j : Just) : j.view.number = j.viewNumber := by cases j <;> rfl

theorem proposal_tail (d0 : Durable) (p : Replica × List Effect × Bool) (vote : Vote)
    (hp : ∀ x ∈ p.2.1, silent x = true) (ht : Trans d0 p.1.toDurable) (h1 : p.1.phase = .commit)
    (h2 : p.1.highVote = some vote) (h3 : vote.view.number = p.1.view) :
    Shape True d0 (if (!p.2.2) = true then { r := p.1, effs := p.2.1, out := .blocked }
      else { r := p.1, effs := p.2.1 ++ [.persist p.1.durable, .send (.commit vote)], out := .accepted }) := by
  split
  · exact Or.inl ⟨hp, fun _ o => absurd o not_outOk_blocked⟩
  · refine Or.inr ⟨p.2.1, p.1.durable, [.commit vote], rfl, hp, fun _ => ht, ?_, ?_, Agree.rfl' _⟩
    · intro m hm
      simp only [List.mem_singleton] at hm
      subst hm; exact ⟨h1, h2, h3⟩
    · intro v hv
      simp only [List.mem_singleton] at hv
      rw [hv]

theorem onProposal_shape (cfg : RCfg) (r : Replica) (e : Env) (key : Nat) (sigOk : Bool) (payload : Option Payload)
    (j : Just) : Shape True r.toDurable (onProposal cfg r e key sigOk payload j) := by
  unfold onProposal
  simp only []
  split
  · exact shape_rej r _
  rename_i hview
  split
  · exact shape_rej r _
  split
  · exact shape_rej r _
  split
  · exact shape_rej r _
  split
  · exact shape_rej r _
  split
  · exact shape_rej r _
  rename_i h r0 hdec
  have hview' : r.view < j.viewNumber ∨ (j.viewNumber = r.view ∧ r.phase = .prepare) := by
    by_cases hp : r.phase = .prepare
    · by_cases hlt : r.view < j.viewNumber
      · exact Or.inl hlt
      · refine Or.inr ⟨?_, hp⟩
        have : ¬ j.viewNumber < r.view := fun h => hview (Or.inl h)
        omega
    · refine Or.inl ?_
      have h1 : ¬ j.viewNumber < r.view := fun h => hview (Or.inl h)
      have h2 : ¬ j.viewNumber = r.view := fun h => hview (Or.inr ⟨h, hp⟩)
      omega
  have sp := processJust_spec ({ r0 with view := j.viewNumber, phase := Phase.commit, highVote := some { view := j.view, proposal := { number := (Just.impliedBlock cfg.c j).fst, payload := h } } } : Replica) e j
  apply proposal_tail
  · exact sp.2
  · refine Trans.congr_right sp.1.symm ?_
    rcases hview' with hv | ⟨hv, hp⟩
    · exact Or.inl hv
    · exact Or.inr (Or.inl ⟨hv, hp⟩)
  · exact sp.1.2.1
  · exact sp.1.2.2
  · rw [sp.1.1]; exact just_view_number j

theorem nextU64_gt {a b : Nat} (h1 : ¬ a < b) (h2 : a + 1 < 2^64) : b < nextU64 a := by
  unfold nextU64
  rw [Nat.mod_eq_of_lt h2]
  omega

theorem shape_ite {P c : Prop} [Decidable c] {d : Durable} {a b : StepRes} (ha : c → Shape P d a)
    (hb : ¬ c → Shape P d b) : Shape P d (if c then a else b) := by
  split
  · exact ha ‹_›
  · exact hb ‹_›

theorem newView_tail {P : Prop} (d0 : Durable) (p : Replica × List Effect × Bool) (view : Nat)
    (hp : ∀ x ∈ p.2.1, silent x = true) (ha : Agree p.1.toDurable d0) (hlt : P → d0.view < view) :
    Shape P d0 (if (!p.2.2) = true then { r := p.1, effs := p.2.1, out := .blocked }
      else { startNewView p.1 view with effs := p.2.1 ++ (startNewView p.1 view).effs }) := by
  refine shape_ite (fun _ => Or.inl ⟨hp, fun _ o => absurd o not_outOk_blocked⟩) (fun _ => ?_)
  refine Shape.prepend _ hp (Shape.congr ha (startNewView_shape _ _ ?_))
  intro p; rw [ha.1]; exact hlt p

theorem onCommit_shape (cfg : RCfg) (r : Replica) (e : Env) (key : Nat) (sigOk : Bool) (v : Vote)
    : Shape (v.view.number + 1 < 2^64) r.toDurable (onCommit cfg r e key sigOk v) := by
  unfold onCommit
  simp only []
  refine shape_ite (fun _ => shape_rej r _) (fun _ => ?_)
  refine shape_ite (fun _ => shape_rej r _) (fun hold => ?_)
  refine shape_ite (fun _ => shape_rej r _) (fun _ => ?_)
  refine shape_ite (fun _ => shape_rej r _) (fun _ => ?_)
  refine shape_ite (fun _ => shape_rej r _) (fun _ => ?_)
  split
  · exact Or.inl ⟨(by intro x hx; cases hx), fun _ o => absurd o (not_outOk_panic _)⟩
  rename_i qc hqc
  refine shape_ite (fun _ => Or.inl ⟨(by intro x hx; cases hx), fun _ _ => ⟨rfl, rfl, rfl⟩⟩) (fun _ => ?_)
  exact newView_tail _ (processCommitQC _ e qc) _ (processCommitQC_spec _ e qc).2 (processCommitQC_spec _ e qc).1
    (fun hv => nextU64_gt hold hv)

theorem onTimeout_shape (cfg : RCfg) (r : Replica) (e : Env) (key : Nat) (sigOk : Bool) (t : TVote)
    : Shape (t.view.number + 1 < 2^64) r.toDurable (onTimeout cfg r e key sigOk t) := by
  unfold onTimeout
  simp only []
  refine shape_ite (fun _ => shape_rej r _) (fun _ => ?_)
  refine shape_ite (fun _ => shape_rej r _) (fun hold => ?_)
  refine shape_ite (fun _ => shape_rej r _) (fun _ => ?_)
  refine shape_ite (fun _ => shape_rej r _) (fun _ => ?_)
  refine shape_ite (fun _ => shape_rej r _) (fun _ => ?_)
  split
  · exact Or.inl ⟨(by intro x hx; cases hx), fun _ o => absurd o (not_outOk_panic _)⟩
  rename_i qc hqc
  split
  · exact Or.inl ⟨(by intro x hx; cases hx), fun _ o => absurd o (not_outOk_panic _)⟩
  refine shape_ite (fun _ => Or.inl ⟨(by intro x hx; cases hx), fun _ _ => ⟨rfl, rfl, rfl⟩⟩) (fun _ => ?_)
  exact newView_tail _ (processTimeoutQC _ e qc) _ (processTimeoutQC_spec _ e qc).2 (processTimeoutQC_spec _ e qc).1
    (fun hv => nextU64_gt hold hv)

theorem onNewView_shape (cfg : RCfg) (r : Replica) (e : Env) (key : Nat) (sigOk : Bool) (j : Just) :
    Shape True r.toDurable (onNewView cfg r e key sigOk j) := by
  unfold onNewView
  simp only []
  refine shape_ite (fun _ => shape_rej r _) (fun _ => ?_)
  refine shape_ite (fun _ => shape_rej r _) (fun _ => ?_)
  refine shape_ite (fun _ => shape_rej r _) (fun _ => ?_)
  refine shape_ite (fun _ => shape_rej r _) (fun _ => ?_)
  have sp := processJust_spec r e j
  refine shape_ite (fun _ => Or.inl ⟨sp.2, fun _ o => absurd o not_outOk_blocked⟩) (fun _ => ?_)
  refine shape_ite (fun hgt => ?_) (fun _ => Or.inl ⟨sp.2, fun _ _ => sp.1⟩)
  exact Shape.prepend _ sp.2 (Shape.congr sp.1 (startNewView_shape _ _ (fun _ => hgt)))

/-- every step of the replica has the shape -/
theorem step_shape (cfg : RCfg) (r : Replica) (e : Env) (inp : Input) :
    Shape (InputOk inp ∧ ∀ b, inp ≠ .restart b) r.toDurable (step cfg r e inp) := by
  cases inp with
  | restart b => exact Or.inl ⟨(by intro x hx; cases hx), fun p _ => absurd rfl (p.2 b)⟩
  | tick => exact (startTimeout_shape cfg r).mono (fun _ => trivial)
  | msg s =>
    unfold step
    simp only []
    split
    · exact (onProposal_shape ..).mono (fun _ => trivial)
    · rename_i v hs
      refine (onCommit_shape ..).mono (fun p => ?_)
      have := p.1
      unfold InputOk at this
      simp only [hs] at this
      exact this
    · rename_i t hs
      refine (onTimeout_shape ..).mono (fun p => ?_)
      have := p.1
      unfold InputOk at this
      simp only [hs] at this
      exact this
    · exact (onNewView_shape ..).mono (fun _ => trivial)

/-! ## applying effect lists and their prefixes -/

theorem applyEffs_r (s : Sys) (es : List Effect) : (applyEffs s es).r = s.r := by
  induction es generalizing s with
  | nil => rfl
  | cons x es ih => cases x <;> simp only [applyEffs, ih]

theorem applyEffs_silent (s : Sys) (es : List Effect) (h : ∀ x ∈ es, silent x = true) : applyEffs s es = s := by
  induction es generalizing s with
  | nil => rfl
  | cons x es ih =>
    have hx := h x (List.mem_cons_self ..)
    have ht : ∀ y ∈ es, silent y = true := fun y hy => h y (List.mem_cons_of_mem _ hy)
    cases x with
    | persist d => cases hx
    | send m => cases hx
    | notify j => simp only [applyEffs]; exact ih s ht
    | queueBlock a b c => simp only [applyEffs]; exact ih s ht

theorem applyEffs_append (s : Sys) (a b : List Effect) : applyEffs s (a ++ b) = applyEffs (applyEffs s a) b := by
  induction a generalizing s with
  | nil => rfl
  | cons x a ih => cases x <;> simp only [List.cons_append, applyEffs, ih]

theorem applyEffs_sends (s : Sys) (ms : List Msg) :
    applyEffs s (ms.map Effect.send) = { s with sent := s.sent ++ ms } := by
  induction ms generalizing s with
  | nil => simp only [List.map_nil, applyEffs, List.append_nil]
  | cons m ms ih => simp only [List.map_cons, applyEffs, ih, List.append_assoc, List.singleton_append]

theorem applyEffs_shape (s : Sys) (pre : List Effect) (d : Durable) (ms : List Msg)
    (h : ∀ x ∈ pre, silent x = true) :
    applyEffs s (pre ++ Effect.persist d :: ms.map Effect.send) = { s with d := some d, sent := s.sent ++ ms } := by
  rw [applyEffs_append, applyEffs_silent s pre h]
  simp only [applyEffs, applyEffs_sends]

/-- a prefix of `silent* ++ persist d :: send*` is silent, or is `silent* ++ persist d :: (a prefix of the sends)` -/
theorem take_shape (pre : List Effect) (d : Durable) (ms : List Msg) (k : Nat) (h : ∀ x ∈ pre, silent x = true) :
    (∀ x ∈ (pre ++ Effect.persist d :: ms.map Effect.send).take k, silent x = true) ∨
    ∃ j, (pre ++ Effect.persist d :: ms.map Effect.send).take k = pre ++ Effect.persist d :: (ms.take j).map Effect.send := by
  by_cases hk : k ≤ pre.length
  · left
    rw [List.take_append_of_le_length hk]
    intro x hx
    exact h x (List.mem_of_mem_take hx)
  · right
    obtain ⟨n, hn⟩ : ∃ n, k - pre.length = n + 1 := ⟨k - pre.length - 1, by omega⟩
    refine ⟨n, ?_⟩
    rw [List.take_append, hn, List.take_succ_cons, List.map_take, List.take_of_length_le (by omega)]

/-- where a `send` can sit in `silent* ++ persist d :: send*`: among the sends after the write -/
theorem send_in_shape {pre : List Effect} {d : Durable} {ms : List Msg} (hpre : ∀ x ∈ pre, silent x = true)
    {p q : List Effect} {m : Msg} (h : pre ++ Effect.persist d :: ms.map Effect.send = p ++ Effect.send m :: q) :
    ∃ ms1 ms2, ms = ms1 ++ m :: ms2 ∧ p = pre ++ Effect.persist d :: ms1.map Effect.send := by
  rcases List.append_eq_append_iff.1 h with ⟨as, hp, has⟩ | ⟨bs, hpre', hbs⟩
  · rcases List.cons_eq_append_iff.1 has with ⟨_, hc⟩ | ⟨as', has', hms⟩
    · cases hc
    · obtain ⟨l1, l2, hl, hl1, hl2⟩ := List.map_eq_append_iff.1 hms
      obtain ⟨a, l2', hl2', ha, _⟩ := List.map_eq_cons_iff.1 hl2
      cases ha
      exact ⟨l1, l2', by rw [hl, hl2'], by rw [hp, has', hl1]⟩
  · rcases List.cons_eq_append_iff.1 hbs with ⟨_, hc⟩ | ⟨bs', hbs', _⟩
    · cases hc
    · have : silent (Effect.send m) = true := hpre _ (by rw [hpre', hbs']; simp only [List.mem_append, List.mem_cons, true_or, or_true])
      cases this

/-- **persist before send**, general form: in the effects of any step, whatever precedes a `send m` ends with the
durable write of a state that records `m`, followed by sends only (none, if `m` is a commit vote) -/
theorem send_decomp (cfg : RCfg) (r : Replica) (e : Env) (inp : Input) {p q : List Effect} {m : Msg}
    (h : (step cfg r e inp).effs = p ++ Effect.send m :: q) :
    ∃ pre d ms1, p = pre ++ Effect.persist d :: ms1.map Effect.send ∧ (∀ x ∈ pre, silent x = true) ∧ MsgOk d m ∧
      (∀ v, m = Msg.commit v → ms1 = []) := by
  rcases step_shape cfg r e inp with ⟨h1, _⟩ | ⟨pre, d', msgs, h1, h2, _, h4, h5, _⟩
  · have : silent (Effect.send m) = true := h1 _ (by rw [h]; simp only [List.mem_append, List.mem_cons, true_or, or_true])
    cases this
  · rw [h1] at h
    obtain ⟨ms1, ms2, hms, hp⟩ := send_in_shape h2 h
    refine ⟨pre, d', ms1, hp, h2, h4 m (by rw [hms]; simp only [List.mem_append, List.mem_cons, true_or, or_true]), ?_⟩
    intro v hv
    have := h5 v (by rw [hms, hv]; simp only [List.mem_append, List.mem_cons, true_or, or_true])
    rw [hms] at this
    rcases List.append_eq_cons_iff.1 this with ⟨h0, _⟩ | ⟨as', _, hnil⟩
    · exact h0
    · have := congrArg List.length hnil
      simp only [List.length_nil, List.length_append, List.length_cons] at this
      omega

/-! ## the invariant on (durable state, everything sent) -/

/-- `m1` may be sent before `m2` -/
def Before (m1 m2 : Msg) : Prop :=
  (∀ a b, voteView m1 = some a → voteView m2 = some b → a ≤ b) ∧
  (∀ t v, m1 = Msg.timeout t → m2 = Msg.commit v → t.view.number < v.view.number)

structure Core (d : Durable) (sent : List Msg) : Prop where
  le_view : ∀ m ∈ sent, ∀ a, voteView m = some a → a ≤ d.view
  commit_at : ∀ v, Msg.commit v ∈ sent → v.view.number = d.view → d.phase ≠ .prepare ∧ d.highVote = some v
  timeout_at : ∀ t, Msg.timeout t ∈ sent → t.view.number = d.view → d.phase = .timeout
  one_commit : ∀ v1 v2, Msg.commit v1 ∈ sent → Msg.commit v2 ∈ sent → v1.view.number = v2.view.number → v1 = v2
  ordered : sent.Pairwise Before

theorem core_init : Core initDurable [] :=
  ⟨(by intro m hm; cases hm), (by intro v hv; cases hv), (by intro t ht; cases ht),
   (by intro v1 v2 hv; cases hv), List.Pairwise.nil⟩

theorem core_trans {d0 d' : Durable} {sent : List Msg} (c : Core d0 sent) (t : Trans d0 d') : Core d' sent := by
  refine ⟨?_, ?_, ?_, c.one_commit, c.ordered⟩
  · intro m hm a ha
    have := c.le_view m hm a ha
    rcases t with t | ⟨t, _⟩ | ⟨t, _⟩ <;> omega
  · intro v hv hvd
    have hle := c.le_view _ hv _ rfl
    rcases t with t | ⟨t, tp⟩ | ⟨t, tp, th⟩
    · omega
    · exact absurd tp (c.commit_at v hv (hvd.trans t)).1
    · have := c.commit_at v hv (hvd.trans t)
      refine ⟨(by rw [tp]; intro h; cases h), th.trans this.2⟩
  · intro tv hv hvd
    have hle := c.le_view _ hv _ rfl
    rcases t with t | ⟨t, tp⟩ | ⟨t, tp, th⟩
    · omega
    · have := c.timeout_at tv hv (hvd.trans t)
      rw [tp] at this; cases this
    · exact tp

theorem core_snoc {d : Durable} {sent : List Msg} {m : Msg} (c : Core d sent) (hm : MsgOk d m) :
    Core d (sent ++ [m]) := by
  cases m with
  | proposal p j =>
    refine ⟨?_, ?_, ?_, ?_, ?_⟩
    · intro m' hm' a ha
      rcases List.mem_append.1 hm' with h | h
      · exact c.le_view m' h a ha
      · simp only [List.mem_singleton] at h; subst h; cases ha
    · intro v hv
      rcases List.mem_append.1 hv with h | h
      · exact c.commit_at v h
      · simp only [List.mem_singleton] at h; cases h
    · intro t ht
      rcases List.mem_append.1 ht with h | h
      · exact c.timeout_at t h
      · simp only [List.mem_singleton] at h; cases h
    · intro v1 v2 h1 h2
      rcases List.mem_append.1 h1 with h1 | h1
      · rcases List.mem_append.1 h2 with h2 | h2
        · exact c.one_commit v1 v2 h1 h2
        · simp only [List.mem_singleton] at h2; cases h2
      · simp only [List.mem_singleton] at h1; cases h1
    · refine List.pairwise_append.2 ⟨c.ordered, List.pairwise_singleton _ _, ?_⟩
      intro a _ b hb
      simp only [List.mem_singleton] at hb; subst hb
      exact ⟨(by intro x y _ hy; cases hy), (by intro t v _ hv; cases hv)⟩
  | newView j =>
    refine ⟨?_, ?_, ?_, ?_, ?_⟩
    · intro m' hm' a ha
      rcases List.mem_append.1 hm' with h | h
      · exact c.le_view m' h a ha
      · simp only [List.mem_singleton] at h; subst h; cases ha
    · intro v hv
      rcases List.mem_append.1 hv with h | h
      · exact c.commit_at v h
      · simp only [List.mem_singleton] at h; cases h
    · intro t ht
      rcases List.mem_append.1 ht with h | h
      · exact c.timeout_at t h
      · simp only [List.mem_singleton] at h; cases h
    · intro v1 v2 h1 h2
      rcases List.mem_append.1 h1 with h1 | h1
      · rcases List.mem_append.1 h2 with h2 | h2
        · exact c.one_commit v1 v2 h1 h2
        · simp only [List.mem_singleton] at h2; cases h2
      · simp only [List.mem_singleton] at h1; cases h1
    · refine List.pairwise_append.2 ⟨c.ordered, List.pairwise_singleton _ _, ?_⟩
      intro a _ b hb
      simp only [List.mem_singleton] at hb; subst hb
      exact ⟨(by intro x y _ hy; cases hy), (by intro t v _ hv; cases hv)⟩
  | commit v =>
    obtain ⟨hp, hh, hvd⟩ := hm
    refine ⟨?_, ?_, ?_, ?_, ?_⟩
    · intro m' hm' a ha
      rcases List.mem_append.1 hm' with h | h
      · exact c.le_view m' h a ha
      · simp only [List.mem_singleton] at h; subst h
        simp only [voteView, Option.some.injEq] at ha
        omega
    · intro v' hv' hvd'
      refine ⟨(by rw [hp]; intro h; cases h), ?_⟩
      rcases List.mem_append.1 hv' with h | h
      · exact (c.commit_at v' h hvd').2
      · simp only [List.mem_singleton, Msg.commit.injEq] at h; subst h; exact hh
    · intro t ht htd
      rcases List.mem_append.1 ht with h | h
      · exact c.timeout_at t h htd
      · simp only [List.mem_singleton] at h; cases h
    · have key : ∀ v', Msg.commit v' ∈ sent → v'.view.number = d.view → v' = v := by
        intro v' h hd
        have := (c.commit_at v' h hd).2
        rw [hh] at this
        exact (Option.some.inj this).symm
      intro v1 v2 h1 h2 he
      rcases List.mem_append.1 h1 with h1' | h1'
      · rcases List.mem_append.1 h2 with h2' | h2'
        · exact c.one_commit v1 v2 h1' h2' he
        · simp only [List.mem_singleton, Msg.commit.injEq] at h2'
          rw [h2'] at he ⊢
          exact key v1 h1' (he.trans hvd)
      · simp only [List.mem_singleton, Msg.commit.injEq] at h1'
        rw [h1'] at he ⊢
        rcases List.mem_append.1 h2 with h2' | h2'
        · exact (key v2 h2' (he.symm.trans hvd)).symm
        · simp only [List.mem_singleton, Msg.commit.injEq] at h2'; exact h2'.symm
    · refine List.pairwise_append.2 ⟨c.ordered, List.pairwise_singleton _ _, ?_⟩
      intro a ha b hb
      simp only [List.mem_singleton] at hb; subst hb
      refine ⟨?_, ?_⟩
      · intro x y hx hy
        simp only [voteView, Option.some.injEq] at hy
        have := c.le_view a ha x hx
        omega
      · intro t v' hat hv'
        simp only [Msg.commit.injEq] at hv'; subst hv'
        subst hat
        have hle := c.le_view _ ha _ rfl
        by_cases heq : t.view.number = d.view
        · have := c.timeout_at t ha heq
          rw [hp] at this; cases this
        · omega
  | timeout t =>
    obtain ⟨hp, htd, _⟩ := hm
    refine ⟨?_, ?_, ?_, ?_, ?_⟩
    · intro m' hm' a ha
      rcases List.mem_append.1 hm' with h | h
      · exact c.le_view m' h a ha
      · simp only [List.mem_singleton] at h; subst h
        simp only [voteView, Option.some.injEq] at ha
        omega
    · intro v hv
      rcases List.mem_append.1 hv with h | h
      · exact c.commit_at v h
      · simp only [List.mem_singleton] at h; cases h
    · intro t' _ _
      exact hp
    · intro v1 v2 h1 h2
      rcases List.mem_append.1 h1 with h1 | h1
      · rcases List.mem_append.1 h2 with h2 | h2
        · exact c.one_commit v1 v2 h1 h2
        · simp only [List.mem_singleton] at h2; cases h2
      · simp only [List.mem_singleton] at h1; cases h1
    · refine List.pairwise_append.2 ⟨c.ordered, List.pairwise_singleton _ _, ?_⟩
      intro a ha b hb
      simp only [List.mem_singleton] at hb; subst hb
      refine ⟨?_, (by intro t' v _ hv; cases hv)⟩
      intro x y hx hy
      simp only [voteView, Option.some.injEq] at hy
      have := c.le_view a ha x hx
      omega

theorem core_append {d : Durable} {sent : List Msg} (ms : List Msg) (c : Core d sent) (hm : ∀ m ∈ ms, MsgOk d m) :
    Core d (sent ++ ms) := by
  induction ms generalizing sent with
  | nil => rw [List.append_nil]; exact c
  | cons m ms ih =>
    have := ih (core_snoc c (hm m (List.mem_cons_self ..))) (fun m' h => hm m' (List.mem_cons_of_mem _ h))
    rw [List.append_assoc] at this
    exact this

/-! ## the system invariant -/

/-- the durable state a restart would read -/
def dur (s : Sys) : Durable := s.d.getD initDurable

structure Inv (s : Sys) : Prop where
  agree : Agree s.r.toDurable (dur s)
  core : Core (dur s) s.sent

theorem inv_init : Inv Sys.init := ⟨Agree.rfl' _, core_init⟩

/-- the invariant after any prefix of the effects of a step (the live replica aside) -/
theorem core_prefix (cfg : RCfg) (s : Sys) (e : Env) (inp : Input) (hin : ∀ b, inp ≠ .restart b) (hok : InputOk inp)
    (k : Nat) (h : Inv s) :
    Core (dur (applyEffs s ((step cfg s.r e inp).effs.take k))) (applyEffs s ((step cfg s.r e inp).effs.take k)).sent := by
  rcases step_shape cfg s.r e inp with ⟨h1, _⟩ | ⟨pre, d', msgs, h1, h2, h3, h4, _, _⟩
  · rw [applyEffs_silent s _ (fun x hx => h1 x (List.mem_of_mem_take hx))]
    exact h.core
  · rw [h1]
    rcases take_shape pre d' msgs k h2 with hs | ⟨j, hj⟩
    · rw [applyEffs_silent s _ hs]
      exact h.core
    · rw [hj, applyEffs_shape s pre d' _ h2]
      exact core_append _ (core_trans h.core ((h3 ⟨hok, hin⟩).congr h.agree))
        (fun m hm => h4 m (List.mem_of_mem_take hm))

theorem inv_step {cfg : RCfg} {s s' : Sys} (h : Inv s) (st : SysStep cfg s s') : Inv s' := by
  cases st with
  | run e inp hin hok hout =>
    rcases step_shape cfg s.r e inp with ⟨h1, h2⟩ | ⟨pre, d', msgs, h1, h2, h3, h4, _, h6⟩
    · rw [applyEffs_silent _ _ h1]
      exact ⟨(h2 ⟨hok, hin⟩ hout).trans h.agree, h.core⟩
    · rw [h1, applyEffs_shape _ pre d' _ h2]
      exact ⟨h6, core_append _ (core_trans h.core ((h3 ⟨hok, hin⟩).congr h.agree)) h4⟩
  | crash e inp hin hok k => exact ⟨Agree.rfl' _, core_prefix cfg s e inp hin hok k h⟩
  | restart => exact ⟨Agree.rfl' _, h.core⟩

theorem inv_of_reachable {cfg : RCfg} {s : Sys} (h : Reachable cfg s) : Inv s := by
  induction h with
  | init => exact inv_init
  | step _ st ih => exact inv_step ih st

/-! ## a tiny concrete system for the non-vacuity examples of `Props/C03.lean` -/

namespace Ex

/-- six validators of weight 1 (f = 1, quorum 5), round-robin leader -/
def cfg : RCfg :=
  { c := { weights := [1, 1, 1, 1, 1, 1], genesis := 0, epoch := 0, first := 0 },
    leader := fun v => v % 6, maxPayload := 1000 }

def env : Env := { queuedFirst := 0, persistedNext := 100, payloadOk := true, storeNext := 100 }

def vote0 : Vote := { view := { genesis := 0, epoch := 0, number := 0 }, proposal := { number := 0, payload := 7 } }

/-- a valid commit certificate for view 0 (five of six signers) -/
def qc0 : CommitQC :=
  { message := vote0, signers := [true, true, true, true, true, false],
    sig := [(0, vote0), (1, vote0), (2, vote0), (3, vote0), (4, vote0)] }

/-- two conflicting proposals of the (equivocating) leader of view 1 -/
def propA : Input := .msg { msg := .proposal (some { id := 11, size := 10 }) (.commit qc0), key := 1, sigOk := true }
def propB : Input := .msg { msg := .proposal (some { id := 12, size := 10 }) (.commit qc0), key := 1, sigOk := true }

def voteA : Vote := { view := { genesis := 0, epoch := 0, number := 1 }, proposal := { number := 1, payload := 11 } }

def tv0 : TVote := { view := { genesis := 0, epoch := 0, number := 0 }, highVote := none, highQC := none }

/-- the state after a handler ran to completion -/
def runStep (s : Sys) (inp : Input) : Sys :=
  applyEffs { s with r := (step cfg s.r env inp).r } (step cfg s.r env inp).effs

/-- the state after the process died behind the first `k` effects of a step and restarted -/
def crashStep (s : Sys) (inp : Input) (k : Nat) : Sys :=
  let s' := applyEffs s ((step cfg s.r env inp).effs.take k)
  { s' with r := Replica.start s'.d }

end Ex

end EraVerif.Proofs.Crash
