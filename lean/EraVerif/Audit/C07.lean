import EraVerif.Audit.Tool
import EraVerif.Props.C07
#audit_module EraVerif.Props.C07
