import Lean

/-!
`#audit_module M` prints one JSON line per theorem declared in module `M`:
`{"theorem": name, "axioms": [...]}` — the axioms come from `Lean.collectAxioms`, the same traversal
`#print axioms` uses. The check driver counts these lines (obligations) and rejects any axiom outside
`{propext, Classical.choice, Quot.sound}` (so `sorryAx`, `Lean.ofReduceBool` (native_decide) and
user axioms fail the audit).
-/
open Lean Elab Command

elab "#audit_module " id:ident : command => do
  let env ← getEnv
  let modName := id.getId
  let some modIdx := env.getModuleIdx? modName
    | throwError "module {modName} is not imported"
  let mut names : Array Name := #[]
  for (n, ci) in env.constants.map₁.toList do
    if env.getModuleIdxFor? n == some modIdx then
      match ci with
      | .thmInfo _ =>
        -- only theorems written in the source file (auto-generated equation lemmas have no range)
        if !n.isInternal && (← findDeclarationRanges? n).isSome then names := names.push n
      | _ => pure ()
  let sorted := names.qsort (fun a b => a.toString < b.toString)
  for n in sorted do
    let axs ← liftCoreM <| collectAxioms n
    let axsS := axs.qsort (fun a b => a.toString < b.toString) |>.map (fun a => s!"\"{a}\"")
    logInfo m!"AUDIT \{\"theorem\": \"{n}\", \"axioms\": [{", ".intercalate axsS.toList}]}"
