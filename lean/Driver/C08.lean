import Driver.Util
import EraVerif.Model.Store

/-!
Model driver for C08. One JSON operation per line (see `harness/src/bin/c08.rs` for the generator):

* `{"op":"init","reset":true,"gfirst":G,"weights":[..],"first":F,"last":L|null,"credits":K}` — a node is started on
  a storage whose durable range is `[F, L]` (chain-0 blocks readable), storage ready for `K` hand-offs;
* `{"op":"submit","id":I,"src":"api"|"consensus"|"peer","want":W?,"n":N | "rel":R,"b":{..flags..}}` — one
  `queue_block` call (`rel` is relative to the current `queued.next`);
* `cancel`, `credit`, `fail_next`, `complete`, `jump`, `prune`, `report`, `restart`, `get`, `scan`, `tick`.

After the events of the operation the driver runs the model **to quiescence** (every enabled internal event —
parked pushes in arrival order, `wait_until_persisted` returns, the persisted watcher, the hand-off task — until
nothing changes), which is what the harness does with the real tasks on a single-threaded runtime, and prints the
same snapshot the harness prints.
-/

namespace Driver.C08
open Lean Driver EraVerif.Model.Store EraVerif.Gen.StoreConst

structure DState where
  sys : Option Sys := none
  gfirst : Nat := 0
  nvals : Nat := 0
  /-- the storage makes every hand-off durable at once (`mt` cases) -/
  auto : Bool := false

/-! ### parsing -/

def getInt (j : Json) (k : String) : Option Int :=
  match j.getObjVal? k with
  | .ok v => (match v.getInt? with | .ok n => some n | .error _ => none)
  | .error _ => none

def getOptNat (j : Json) (k : String) : Option (Option Nat) :=
  match j.getObjVal? k with
  | .ok Json.null => some none
  | .ok v => (match v.getNat? with | .ok n => some (some n) | .error _ => none)
  | .error _ => none

def allSigners (n : Nat) : List Nat := List.range n

/-- the canonical valid block of `chain` for number `n`: pre-genesis below `gfirst`, consensus block from there -/
def canonical (d : DState) (n chain : Nat) : Block :=
  if n < d.gfirst then
    { kind := .pre, num := n, chain := chain, epoch := 0, genesisOk := true, payloadOk := true, signersLen := 0,
      signers := [], sigOk := true, justOk := true }
  else
    { kind := .final, num := n, chain := chain, epoch := 0, genesisOk := true, payloadOk := true,
      signersLen := d.nvals, signers := allSigners d.nvals, sigOk := true, justOk := true }

/-- block descriptor `{"k":"a"|"p"|"f","c":chain,"e":epoch,"g":..,"p":..,"sl":..,"s":[..],"sg":..,"j":..}` -/
def parseBlock (d : DState) (n : Nat) (b : Json) : Option Block := do
  let k ← getStr b "k"
  let c ← getNat b "c"
  let kind : Kind := if k == "p" then .pre else if k == "f" then .final else (if n < d.gfirst then .pre else .final)
  match kind with
  | .pre =>
    let j ← getBool b "j"
    some { kind := .pre, num := n, chain := c, epoch := 0, genesisOk := true, payloadOk := true, signersLen := 0,
           signers := [], sigOk := true, justOk := j }
  | .final =>
    let e ← getNat b "e"
    let g ← getBool b "g"
    let p ← getBool b "p"
    let sl ← getNat b "sl"
    let s ← getNatList b "s"
    let sg ← getBool b "sg"
    some { kind := .final, num := n, chain := c, epoch := e, genesisOk := g, payloadOk := p, signersLen := sl,
           signers := s, sigOk := sg, justOk := true }

/-! ### run to quiescence -/

/-- index of the first parked request whose `wait_for` predicate holds -/
def firstEnabled (next : Nat) : List Req → Nat → Option Nat
  | [], _ => none
  | r :: rs, i => if r.block.num ≤ next then some i else firstEnabled next rs (i + 1)

def firstPersisted (next : Nat) : List Req → Nat → Option Nat
  | [], _ => none
  | r :: rs, i => if r.block.num < next then some i else firstPersisted next rs (i + 1)

def applyEv (s : Sys) (e : Event) : Sys × Bool :=
  match step? s e with
  | some s' => (s', true)
  | none => (s, false)

/-- one round: returns the new state and whether anything happened -/
def quiesceRound (auto : Bool) (s : Sys) : Sys × Bool :=
  if auto && !s.env.inbox.isEmpty then applyEv s (.env .complete) else
  match firstEnabled s.store.queued.next s.parked 0 with
  | some i => applyEv s (.push i)
  | none =>
    match firstPersisted s.env.persisted.next s.awaiting 0 with
    | some i => applyEv s (.persistedSeen i)
    | none =>
      -- watcher: `update_persisted` with the current report is idempotent, so "something happened" = the store or
      -- the `dead` flag changed
      let (s1, ran) := applyEv s .watcher
      if ran && (decide (s1.store ≠ s.store) || s1.dead != s.dead) then (s1, true)
      else
        let (s2, took) := applyEv s .taskTake
        if took then (s2, true)
        else
          let (s3, ret) := applyEv s .taskReturn
          if ret then (s3, true) else (s, false)

def quiesceA (auto : Bool) : Nat → Sys → Sys
  | 0, s => s
  | fuel + 1, s =>
    let (s', progressed) := quiesceRound auto s
    if progressed then quiesceA auto fuel s' else s

def quiesce : Nat → Sys → Sys := quiesceA false

/-! ### observations -/

/-- identity of a block in observations: number, chain, kind, signer bitmap as a number -/
def blockJ (b : Block) : Json :=
  match b.kind with
  | .pre => Json.arr #[natJ b.num, natJ b.chain, Json.str "p", natJ 0]
  | .final => Json.arr #[natJ b.num, natJ b.chain, Json.str "f", natJ (b.signers.foldl (fun a i => a + 2 ^ i) 0)]

def rangeJ (r : Range) : Json := Json.arr #[natJ r.first, optNatJ r.last]

def finJ (f : List (Nat × Bool)) : Json :=
  let sorted := f.toArray.qsort (fun a b => a.1 < b.1)
  Json.arr (sorted.map fun (i, ok) => Json.arr #[natJ i, Json.bool ok])

def snapshot (old : Option Sys) (s : Sys) : List (String × Json) :=
  let sameInc := match old with | some o => o.incarnation == s.incarnation | none => false
  let oldHanded := match old with | some o => if sameInc then o.handed.length else 0 | none => 0
  let oldFin := match old with | some o => o.finished.length | none => 0
  [("q", rangeJ s.store.queued), ("p", rangeJ s.store.persisted),
   ("h", Json.arr ((s.handed.drop oldHanded).map blockJ).toArray),
   ("hn", Json.arr ((s.handed.drop oldHanded).map (fun b => natJ b.num)).toArray),
   ("fin", finJ (s.finished.drop oldFin)),
   ("live", natJ (s.parked.length + s.awaiting.length)),
   ("dead", Json.bool s.dead),
   ("ep", rangeJ s.env.persisted),
   ("cache", natJ s.store.cache.length)]

/-- source only (compared also in cases with racing conflicting requests, where the identity is not determined) -/
def getSrcJ (s : Sys) (n : Nat) : Json :=
  match s.get n with
  | .absent => Json.arr #[natJ n, Json.str "absent"]
  | .cached _ => Json.arr #[natJ n, Json.str "cached"]
  | .stored _ => Json.arr #[natJ n, Json.str "stored"]
  | .error => Json.arr #[natJ n, Json.str "err"]

def getJ (s : Sys) (n : Nat) : Json :=
  match s.get n with
  | .absent => Json.arr #[natJ n, Json.str "absent"]
  | .cached b => Json.arr #[natJ n, Json.str "cached", blockJ b]
  | .stored b => Json.arr #[natJ n, Json.str "stored", blockJ b]
  | .error => Json.arr #[natJ n, Json.str "err"]

/-! ### operations -/

def FUEL : Nat := 100000

/-- `cls`: observation class of the operation; for a `submit` (`rid = some id`) it is refined by what happened to
the call during this operation (returned `Ok`, returned an error, still parked). -/
def finishOpC (cls : String) (rid : Option Nat) (d : DState) (old : Option Sys) (s : Sys)
    (extra : List (String × Json)) : DState × Json :=
  let s' := quiesceA d.auto FUEL s
  let oldFin := match old with | some o => o.finished.length | none => 0
  let cls1 := match rid with
    | none => cls
    | some id =>
      match (s'.finished.drop oldFin).find? (fun x => x.1 == id) with
      | some (_, true) => cls ++ "-done"
      | some (_, false) => cls ++ "-rejected"
      | none => cls ++ "-parked"
  let cls2 := if s'.dead then cls1 ++ "+dead" else cls1
  ({ d with sys := some s' }, Json.mkObj (snapshot old s' ++ extra ++ [("class", Json.str cls2)]))

def finishOp (d : DState) (old : Option Sys) (s : Sys) (extra : List (String × Json)) : DState × Json :=
  finishOpC "op" none d old s extra

/-- chain-0 blocks for the numbers `lo, …, hi-1` -/
def canonRange (d : DState) (lo hi : Nat) : List Block := (List.range (hi - lo)).map fun i => canonical d (lo + i) 0

/-- the number a peer was asked for: `n + dwant`; a negative value stands for "some other number" -/
def wantOf (n : Nat) (dw : Int) : Nat :=
  let w := (n : Int) + dw
  if w < 0 then n + 1 else w.toNat

def completeN : Nat → Sys → Sys
  | 0, s => s
  | k + 1, s =>
    match step? s (.env .complete) with
    | some s' => completeN k s'
    | none => s

def handle (d : DState) (j : Json) : DState × Json :=
  match getStr j "op" with
  | none => (d, badOp)
  | some "init" =>
    match getNat j "gfirst", getNatList j "weights", getNat j "first", getOptNat j "last", getNat j "credits" with
    | some g, some ws, some f, some l, some k =>
      let d0 : DState := { sys := none, gfirst := g, nvals := ws.length }
      let p : Range := { first := f, last := l }
      let disk := match l with | some l => canonRange d0 f (l + 1) | none => []
      let cfg : Config := { firstBlock := g, schedules := [(0, ws)] }
      let s := Sys.init cfg { persisted := p, disk := disk, credits := k }
      finishOpC "init" none d0 none s []
    | _, _, _, _, _ => (d, badOp)
  | some "mt" =>
    -- concurrent submitters on a multi-threaded runtime, storage persisting every hand-off at once, one side-channel
    -- jump "to at least `jump`": only the final (order-independent) state is compared
    match getNat j "gfirst", getNatList j "weights", getNat j "first", getOptNat j "last", getArr j "subs",
          getOptNat j "jump" with
    | some g, some ws, some f, some l, some subs, some jump =>
      let d0 : DState := { sys := none, gfirst := g, nvals := ws.length, auto := true }
      let p : Range := { first := f, last := l }
      let disk := match l with | some l => canonRange d0 f (l + 1) | none => []
      let cfg : Config := { firstBlock := g, schedules := [(0, ws)] }
      let s0 := quiesceA true FUEL (Sys.init cfg { persisted := p, disk := disk, credits := 1000000 })
      let s1 := subs.toList.foldl (fun (acc : Sys) a =>
        match getNat a "id", getNat a "n", getStr a "src", getObj a "b" with
        | some id, some n, some src, some bj =>
          match parseBlock d0 n bj with
          | some b =>
            let r : Req := { id := id, block := b, waitPersist := src == "consensus" }
            let ev : Event := if src == "peer" then
                .peer (match getInt a "dwant" with | some dw => wantOf n dw | none => n) r
              else .submit r
            quiesceA true FUEL (applyEv acc ev).1
          | none => acc
        | _, _, _, _ => acc) s0
      let s2 := match jump with
        | none => s1
        | some L =>
          let cur := s1.env.persisted
          if cur.next ≤ L then
            (applyEv s1 (.env (.publish { first := cur.first, last := some L } (canonRange d0 cur.next (L + 1))))).1
          else s1
      finishOpC "mt" none d0 none s2 []
    | _, _, _, _, _, _ => (d, badOp)
  | some "net" =>
    -- a fresh node (durable state `{first, None}`) fetching from one peer over the real gossip network: the peer's
    -- answers arrive as `peer want block` events in the given order
    match getNat j "gfirst", getNatList j "weights", getNat j "first", getArr j "answers" with
    | some g, some ws, some f, some answers =>
      let d0 : DState := { sys := none, gfirst := g, nvals := ws.length }
      let cfg : Config := { firstBlock := g, schedules := [(0, ws)] }
      let s0 := quiesce FUEL (Sys.init cfg { persisted := { first := f, last := none }, disk := [], credits := 1000 })
      let s1 := answers.toList.foldl (fun (acc : Sys × Nat) a =>
        match getNat a "want", getNat a "n", getObj a "b" with
        | some want, some n, some bj =>
          match parseBlock d0 n bj with
          | some b => (quiesce FUEL (applyEv acc.1 (.peer want { id := acc.2, block := b, waitPersist := false })).1, acc.2 + 1)
          | none => acc
        | _, _, _ => acc) (s0, 0)
      finishOpC "net" none d0 none s1.1 []
    | _, _, _, _ => (d, badOp)
  | some op =>
    match d.sys with
    | none => (d, badOp)
    | some s =>
      match op with
      | "submit" =>
        let num? : Option Nat :=
          match getNat j "n" with
          | some n => some n
          | none =>
            match getInt j "rel" with
            | some r => let v := (s.store.queued.next : Int) + r; if v < 0 then none else some v.toNat
            | none => none
        match num?, getNat j "id", getStr j "src", getObj j "b" with
        | some n, some id, some src, some bj =>
          match parseBlock d n bj with
          | none => (d, badOp)
          | some b =>
            let r : Req := { id := id, block := b, waitPersist := src == "consensus" }
            let ev : Event :=
              if src == "peer" then
                let want : Nat := match getInt j "dwant" with
                  | some dw => wantOf n dw
                  | none => n
                .peer want r
              else .submit r
            let (s1, _) := applyEv s ev
            finishOpC "submit" (some id) d (some s) s1 [("n", natJ n)]
        | none, _, _, _ => finishOpC "submit-skip" none d (some s) s [("skip", Json.bool true)]
        | _, _, _, _ => (d, badOp)
      | "cancel" =>
        match getNat j "id" with
        | some id =>
          let s1 := match s.parked.findIdx? (fun r => r.id == id) with
            | some i => (applyEv s (.cancel i)).1
            | none => s
          finishOpC "cancel" none d (some s) s1 []
        | none => (d, badOp)
      | "credit" =>
        match getNat j "k" with
        | some k => finishOpC "credit" none d (some s) (applyEv s (.env (.credit k))).1 []
        | none => (d, badOp)
      | "fail_next" => finishOpC "fail_next" none d (some s) (applyEv s (.env .failNext)).1 []
      | "complete" =>
        match getNat j "k" with
        | some k => finishOpC "complete" none d (some s) (completeN k s) []
        | none => (d, badOp)
      | "jump" =>
        -- side channel: the storage obtains the chain-0 blocks `next … next+by-1`
        match getNat j "by" with
        | some by_ =>
          if by_ = 0 then finishOpC "jump" none d (some s) s [] else
          let cur := s.env.persisted
          let p : Range := { first := cur.first, last := some (cur.next + by_ - 1) }
          finishOpC "jump" none d (some s) (applyEv s (.env (.publish p (canonRange d cur.next (cur.next + by_))))).1 []
        | none => (d, badOp)
      | "prune" =>
        -- `in_memory::Engine::truncate(first + by)`
        match getNat j "by" with
        | some by_ =>
          let cur := s.env.persisted
          let f := cur.first + by_
          if cur.first ≥ f then finishOpC "prune" none d (some s) s [] else
          let p : Range := { first := f, last := if cur.next ≤ f then none else cur.last }
          finishOpC "prune" none d (some s) (applyEv s (.env (.publish p []))).1 []
        | none => (d, badOp)
      | "report" =>
        -- arbitrary report; `honest`: the chain-0 blocks of the reported range become readable
        match getNat j "first", getOptNat j "last", getBool j "honest" with
        | some f, some l, some honest =>
          let p : Range := { first := f, last := l }
          let add := if honest then (match l with | some l => canonRange d f (l + 1) | none => []) else []
          finishOpC "report" none d (some s) (applyEv s (.env (.publish p add))).1 []
        | _, _, _ => (d, badOp)
      | "restart" =>
        let (s1, ok) := applyEv s .restart
        finishOpC "restart" none d (some s) s1 [("restarted", Json.bool ok)]
      | "get" =>
        let num? : Option Nat :=
          match getNat j "n" with
          | some n => some n
          | none =>
            match getInt j "rel" with
            | some r => let v := (s.store.queued.next : Int) + r; if v < 0 then none else some v.toNat
            | none => none
        match num? with
        | some n =>
          let src := match s.get n with
            | .absent => "absent" | .cached _ => "cached" | .stored _ => "stored" | .error => "err"
          finishOpC ("get-" ++ src) none d (some s) s [("g", getJ s n), ("gs", getSrcJ s n)]
        | none => finishOpC "get-skip" none d (some s) s [("skip", Json.bool true)]
      | "scan" =>
        let lo := s.store.queued.first - 1
        let hi := s.store.queued.next + 2
        let rows := (List.range (hi - lo)).map fun i => getJ s (lo + i)
        let rowsS := (List.range (hi - lo)).map fun i => getSrcJ s (lo + i)
        finishOpC "scan" none d (some s) s [("scan", Json.arr rows.toArray), ("scans", Json.arr rowsS.toArray)]
      | "tick" => finishOpC "tick" none d (some s) s []
      | _ => (d, badOp)

end Driver.C08

def main : IO Unit := Driver.run ({} : Driver.C08.DState) Driver.C08.handle
