import Lean.Data.Json

/-! Shared plumbing of the model driver: one JSON object per input line, one JSON object per output line. -/
namespace Driver
open Lean

partial def lineLoop {σ : Type} (h : IO.FS.Stream) (out : IO.FS.Stream) (s : σ)
    (step : σ → Json → σ × Json) : IO Unit := do
  let line ← h.getLine
  if line.isEmpty then
    out.flush
    return ()
  let t := line.trimAscii.toString
  if t.isEmpty then lineLoop h out s step else
  match Json.parse t with
  | .error e =>
    out.putStrLn (Json.compress (Json.mkObj [("bad_line", Json.str e)]))
    lineLoop h out s step
  | .ok j =>
    let (s', o) := step s j
    out.putStrLn (Json.compress o)
    lineLoop h out s' step

def run {σ : Type} (init : σ) (step : σ → Json → σ × Json) : IO Unit := do
  lineLoop (← IO.getStdin) (← IO.getStdout) init step

def runPure (f : Json → Json) : IO Unit := run () (fun _ j => ((), f j))

def getNat (j : Json) (k : String) : Option Nat :=
  match j.getObjVal? k with
  | .ok v => (match v.getNat? with | .ok n => some n | .error _ => none)
  | .error _ => none

def getStr (j : Json) (k : String) : Option String :=
  match j.getObjVal? k with
  | .ok v => (match v.getStr? with | .ok n => some n | .error _ => none)
  | .error _ => none

def getBool (j : Json) (k : String) : Option Bool :=
  match j.getObjVal? k with
  | .ok v => (match v.getBool? with | .ok n => some n | .error _ => none)
  | .error _ => none

def getArr (j : Json) (k : String) : Option (Array Json) :=
  match j.getObjVal? k with
  | .ok v => (match v.getArr? with | .ok n => some n | .error _ => none)
  | .error _ => none

def getNatList (j : Json) (k : String) : Option (List Nat) :=
  (getArr j k).bind fun a => a.toList.mapM fun v => (match v.getNat? with | .ok n => some n | .error _ => none)

def getBoolList (j : Json) (k : String) : Option (List Bool) :=
  (getArr j k).bind fun a => a.toList.mapM fun v => (match v.getBool? with | .ok n => some n | .error _ => none)

def getObj (j : Json) (k : String) : Option Json :=
  match j.getObjVal? k with
  | .ok v => some v
  | .error _ => none

def badOp : Json := Json.mkObj [("bad_op", Json.bool true)]

def natJ (n : Nat) : Json := Json.num (JsonNumber.fromNat n)
def optNatJ : Option Nat → Json
  | none => Json.null
  | some n => natJ n

end Driver
