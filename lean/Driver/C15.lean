import Driver.Util
import EraVerif.Model.Limiter

/-!
Model driver for C15. One JSON object per line:

  {"op":"init","burst":B,"refresh_s":S,"refresh_ns":N}   Limiter::new (refresh = S·10⁹ + N ns, may be ≤ 0)
  {"op":"acquire","id":i,"n":k}                          create `acquire(ctx,k)` and poll it once
  {"op":"poll","id":i}  {"op":"cancel","id":i}  {"op":"drop","id":i}  {"op":"advance","d":ns}
-/
namespace Driver.C15
open Lean Driver EraVerif.Model

def getInt (j : Json) (k : String) : Option Int :=
  match j.getObjVal? k with
  | .ok v => (match v.getInt? with | .ok n => some n | .error _ => none)
  | .error _ => none

structure St where
  cfg : Limiter.Cfg := ⟨0, 0⟩
  lim : Limiter.State := Limiter.init ⟨0, 0⟩

def str (s : String) : Json := Json.str s

def resJ (s : Limiter.State) : Limiter.Res → List (String × Json)
  | .pending => [("r", str "pending")]
  | .granted n => [("r", str "granted"), ("t", natJ s.now), ("n", natJ n)]
  | .cancelled => [("r", str "cancelled")]
  | .dropped => [("r", str "dropped")]
  | .advanced => [("r", str "advanced"), ("now", natJ s.now)]
  | .noop => [("r", str "noop")]
  | .panic => [("panic", str "limiter")]

def diag (s : Limiter.State) : List (String × Json) :=
  [("ticks", natJ s.ticks), ("permits", natJ s.permits), ("reserved", natJ s.reserved),
   ("queue", Json.arr (s.queue.map (fun w => natJ w.id)).toArray)]

def limOp (j : Json) : Option Limiter.Op :=
  match getStr j "op" with
  | some "acquire" => do some (.acquire (← getNat j "id") (← getNat j "n"))
  | some "poll" => do some (.poll (← getNat j "id"))
  | some "cancel" => do some (.cancel (← getNat j "id"))
  | some "drop" => do some (.drop (← getNat j "id"))
  | some "advance" => do some (.advance (← getNat j "d"))
  | _ => none

def handle (st : St) (j : Json) : St × Json :=
  match getStr j "op" with
  | some "init" =>
    match getNat j "burst", getInt j "refresh_s", getInt j "refresh_ns" with
    | some b, some s, some n =>
      let cfg : Limiter.Cfg := ⟨b, s * 1000000000 + n⟩
      ({ cfg := cfg, lim := Limiter.init cfg }, Json.mkObj [("r", str "init")])
    | _, _, _ => (st, badOp)
  | _ =>
    match limOp j with
    | none => (st, badOp)
    | some op =>
      let (l', r) := Limiter.step st.cfg st.lim op
      ({ st with lim := l' }, Json.mkObj (resJ l' r ++ diag l'))

end Driver.C15

def main : IO Unit := Driver.run ({} : Driver.C15.St) Driver.C15.handle
