import Driver.Util
import EraVerif.Model.Limiter
import EraVerif.Model.RpcLimit

/-!
Model driver for C15. One JSON object per line:

  {"op":"init","burst":B,"refresh_s":S,"refresh_ns":N}   Limiter::new (refresh = S·10⁹ + N ns, may be ≤ 0)
  {"op":"acquire","id":i,"n":k}                          create `acquire(ctx,k)` and poll it once
  {"op":"poll","id":i}  {"op":"cancel","id":i}  {"op":"drop","id":i}  {"op":"advance","d":ns}
-/
namespace Driver.C15
open Lean Driver EraVerif.Model

def getInt (j : Json) (k : String) : Option Int :=
  match j.getObjVal? k with
  | .ok v => (match v.getInt? with | .ok n => some n | .error _ => none)
  | .error _ => none

structure St where
  cfg : Limiter.Cfg := ⟨0, 0⟩
  lim : Limiter.State := Limiter.init ⟨0, 0⟩

def str (s : String) : Json := Json.str s

def cls (c : String) : List (String × Json) := [("r", str c), ("class", str c)]

def resJ (s : Limiter.State) : Limiter.Res → List (String × Json)
  | .pending => cls "pending"
  | .granted n => cls "granted" ++ [("t", natJ s.now), ("n", natJ n)]
  | .cancelled => cls "cancelled"
  | .dropped => cls "dropped"
  | .advanced => cls "advanced" ++ [("now", natJ s.now)]
  | .noop => cls "noop"
  | .panic => [("panic", str "limiter")]

def diag (s : Limiter.State) : List (String × Json) :=
  [("ticks", natJ s.ticks), ("permits", natJ s.permits), ("reserved", natJ s.reserved),
   ("queue", Json.arr (s.queue.map (fun w => natJ w.id)).toArray)]

def limOp (j : Json) : Option Limiter.Op :=
  match getStr j "op" with
  | some "acquire" => do some (.acquire (← getNat j "id") (← getNat j "n"))
  | some "poll" => do some (.poll (← getNat j "id"))
  | some "cancel" => do some (.cancel (← getNat j "id"))
  | some "drop" => do some (.drop (← getNat j "id"))
  | some "advance" => do some (.advance (← getNat j "d"))
  | _ => none

/-! ### The per-connection half: `Model/RpcLimit.lean` under the greedy schedule of the harness scenario

The server side (CONNECT streams) of one capability; the client answers every OPEN at once and sends its
request at once (or when a request token is released); handlers return at once (or when a handler token is
released). After every step all enabled events are fired until nothing changes (`saturate`). -/

structure Tok where
  req : Nat
  hnd : Nat
  opn : Nat
  holdReq : Bool
  holdHnd : Bool
  holdOpn : Bool
deriving DecidableEq

abbrev RS := RpcLimit.State

def streamAct (cfg : Limiter.Cfg) (x : RS × Tok) (i : Nat) : RS × Tok :=
  let (s, tk) := x
  let st (e : RpcLimit.Event) := RpcLimit.step cfg .connect s e
  match s.streams[i]? with
  | none => (s, tk)
  | some str =>
    match str.phase with
    | .closing => (st (.startAcquire i), tk)
    | .acquiring => (st (.pollAcquire i), tk)
    | .granted k =>
      -- the client answers our OPEN (sent in exchange step 1) immediately, or when an open token is released
      if k ≥ 2 && !str.peerOpen then
        if tk.holdOpn then
          if tk.opn > 0 then
            (RpcLimit.step cfg .connect (st (.peerOpen i)) (.exchange i), { tk with opn := tk.opn - 1 })
          else (s, tk)
        else (RpcLimit.step cfg .connect (st (.peerOpen i)) (.exchange i), tk)
      else (st (.exchange i), tk)
    | .idle _ =>
      if tk.holdReq then
        if tk.req > 0 then (st (.request i), { tk with req := tk.req - 1 }) else (s, tk)
      else (st (.request i), tk)
    | .serving =>
      if tk.holdHnd then
        if tk.hnd > 0 then (st (.finish i), { tk with hnd := tk.hnd - 1 }) else (s, tk)
      else (st (.finish i), tk)

def pass (cfg : Limiter.Cfg) (n : Nat) (x : RS × Tok) : RS × Tok :=
  (List.range n).foldl (streamAct cfg) x

def saturate (cfg : Limiter.Cfg) (n : Nat) : Nat → RS × Tok → RS × Tok
  | 0, x => x
  | fuel + 1, x =>
    let y := pass cfg n x
    if y.1 = x.1 ∧ y.2 = x.2 then x else saturate cfg n fuel y

def obsOf (s : RS) : Nat × Nat :=
  (s.handled.length, s.streams.countP (fun st => st.phase = .serving))

def rpcStep (cfg : Limiter.Cfg) (n : Nat) (x : RS × Tok) (j : Json) : RS × Tok :=
  let (s, tk) := x
  let x1 : RS × Tok :=
    match getNat j "adv", getNat j "rel_h", getNat j "rel_r", getNat j "rel_o" with
    | some d, _, _, _ => (RpcLimit.step cfg .connect s (.tick d), tk)
    | _, some k, _, _ => (s, { tk with hnd := tk.hnd + k })
    | _, _, some k, _ => (s, { tk with req := tk.req + k })
    | _, _, _, some k => (s, { tk with opn := tk.opn + k })
    | _, _, _, _ => (s, tk)
  saturate cfg n 100000 x1

def rpcScenario (j : Json) : Json :=
  match getNat j "inflight", getNat j "burst", getNat j "refresh_ns", getNat j "client_streams", getArr j "steps" with
  | some inflight, some burst, some r, some m, some steps =>
    let cfg : Limiter.Cfg := ⟨burst, r⟩
    let n := min inflight m
    let tk : Tok := ⟨0, 0, 0, (getBool j "hold_requests").getD false, (getBool j "hold_handlers").getD false,
      (getBool j "hold_opens").getD false⟩
    let x0 := saturate cfg n 100000 (RpcLimit.init cfg n, tk)
    let (_, obs) := steps.toList.foldl (fun (acc : (RS × Tok) × List (Nat × Nat)) st =>
        let x := rpcStep cfg n acc.1 st
        (x, acc.2 ++ [obsOf x.1])) (x0, [obsOf x0.1])
    Json.mkObj [("class", str "rpc"),
      ("starts", Json.arr (obs.map (fun o => natJ o.1)).toArray),
      ("running", Json.arr (obs.map (fun o => natJ o.2)).toArray)]
  | _, _, _, _, _ => badOp

def handle1 (st : St) (j : Json) : St × Json :=
  match getStr j "op" with
  | some "rpc" => (st, rpcScenario j)
  | some "init" =>
    match getNat j "burst", getInt j "refresh_s", getInt j "refresh_ns" with
    | some b, some s, some n =>
      let cfg : Limiter.Cfg := ⟨b, s * 1000000000 + n⟩
      ({ cfg := cfg, lim := Limiter.init cfg }, Json.mkObj (cls "init"))
    | _, _, _ => (st, badOp)
  | _ =>
    match limOp j with
    | none => (st, badOp)
    | some op =>
      let (l', r) := Limiter.step st.cfg st.lim op
      ({ st with lim := l' }, Json.mkObj (resJ l' r ++ diag l'))

/-- `{"op":"case","ops":[...]}`: a whole case in one line (replay files). -/
def handle (st : St) (j : Json) : St × Json :=
  match getStr j "op", getArr j "ops" with
  | some "case", some ops =>
    let (st', res) := ops.toList.foldl (fun (acc : St × List Json) o =>
      let (s', r) := handle1 acc.1 o
      (s', acc.2 ++ [r])) (st, [])
    (st', Json.mkObj (cls "case" ++ [("res", Json.arr res.toArray)]))
  | _, _ => handle1 st j

end Driver.C15

def main : IO Unit := Driver.run ({} : Driver.C15.St) Driver.C15.handle
