import Driver.ReplicaDriver
import EraVerif.Model.RunLoop

/-!
Model driver of the replica's message loop (`Model/RunLoop.lean`), second correspondence run of C05.

ops (first op of a case carries `"reset": true`):
* `{"op":"init","reset":true,"weights":[..],"first":k,"wseed":s,"me":i,"max_payload":1000,"view_timeout":1000}` → `{"class":"init"}`
* `{"op":"arrive","id":k,"from":i,"sig_ok":b,"msg":{..as in the replica driver..}}`
    → `{"closed":[ids whose ack channel this send closed, sorted],"pending":[unresolved ids, sorted]}`
* `{"op":"advance","ms":d}` → `{"now":t}`
* `{"op":"quiesce","env":{"queued_first","persisted_next","store_next"}}`
    → `{"trace":[{"persist"|"send"|"notify":..}|{"ack":id} ..in order..],"queued":[block hand-overs, in order],
        "closed":[],"pending":[..]}`
* `{"op":"restart"}` → `{"closed":[..],"pending":[]}`

The environment oracle of a `quiesce` is the harness's engine: `env` sampled before the task runs; a block handed over
to the store is queued and persisted at once (`store_next`, `persisted_next` move past it); the execution layer
rejects payload ids ≡ 3 mod 7. Block hand-overs are performed by the store's background task, so they are listed
separately from the ordered trace.
-/
namespace Driver.C05loop
open Lean Driver Driver.CJson Driver.ReplicaDriver EraVerif.Model EraVerif.Model.RunLoop

structure DSt where
  cfg : LCfg := { rc := { c := default, leader := fun _ => 0, maxPayload := 1000 }, viewTimeout := 1000 }
  s : RunLoop.St := RunLoop.St.init

def insertSorted (n : Nat) : List Nat → List Nat
  | [] => [n]
  | x :: xs => if n ≤ x then n :: x :: xs else x :: insertSorted n xs

def sortNat (l : List Nat) : List Nat := l.foldr insertSorted []

def idsJ (l : List Nat) : Json := Json.arr (l.map natJ).toArray

def unresolved (s : RunLoop.St) : List Nat := sortNat (s.unresolved.map (·.id))

/-- the harness engine after the hand-overs in `rounds` -/
def envAfter (base : Env) (rounds : List Round) (inp : Input) : Env :=
  let e := rounds.foldl (fun e rd => rd.res.effs.foldl (fun e eff =>
      match eff with
      | .queueBlock n _ _ =>
        if n = e.storeNext then { e with storeNext := n + 1, persistedNext := max e.persistedNext (n + 1) } else e
      | _ => e) e) base
  let ok := match inp with
    | .msg s => (match s.msg with
        | .proposal (some p) _ => p.id % 7 != 3
        | _ => true)
    | _ => true
  { e with payloadOk := ok }

def srcJ : Src → Json
  | .boot => "boot"
  | .timer => "timer"
  | .msg q => Json.mkObj [("msg", natJ q.id)]

def modeJ : Mode → Json
  | .idle => "idle"
  | .recv => "recv"
  | .waitPrev q => Json.mkObj [("wait_prev", natJ q.id)]
  | .dead q => Json.mkObj [("dead", optNatJ (q.map (·.id)))]

def itemsJ (c : Committee) (rd : Round) : List Json :=
  ((rd.res.effs.filter (fun e => !isQueue e)).map (effectJ c)) ++
    (match rd.src with
     | .msg q => if rd.acked then [Json.mkObj [("ack", natJ q.id)]] else []
     | _ => [])

def roundDiagJ (rd : Round) : Json :=
  let (cls, why) := classOf rd.res.out
  Json.mkObj [("src", srcJ rd.src), ("class", Json.str cls), ("why", optJ Json.str why)]

def stepLine (d : DSt) (j : Json) : DSt × Json :=
  match getStr j "op" with
  | some "init" =>
    match committee? j with
    | some c =>
      let n := c.n
      let rc : RCfg := { c := c, leader := fun v => if n = 0 then 0 else v % n, maxPayload := (getNat j "max_payload").getD 1000 }
      ({ cfg := { rc := rc, viewTimeout := (getNat j "view_timeout").getD 1000 }, s := RunLoop.St.init },
        Json.mkObj [("class", "init")])
    | none => (d, badOp)
  | some "arrive" =>
    match (getObj j "msg").bind msg?, getNat j "from", getNat j "id" with
    | some m, some k, some id =>
      let q : Req := { id := id, s := { msg := m, key := k, sigOk := (getBool j "sig_ok").getD true } }
      let s' := apply d.cfg d.s (.arrive q)
      ({ d with s := s' },
        Json.mkObj [("closed", idsJ (sortNat (s'.closed.drop d.s.closed.length))), ("pending", idsJ (unresolved s')),
                    ("_order", idsJ (s'.pending.map (·.id)))])
    | _, _, _ => (d, badOp)
  | some "advance" =>
    let s' := apply d.cfg d.s (.advance ((getNat j "ms").getD 0))
    ({ d with s := s' }, Json.mkObj [("now", natJ s'.now), ("_deadline", natJ s'.deadline)])
  | some "quiesce" =>
    let k := d.s.hist.length
    let base := env? j
    let envf : EnvF := fun h inp => envAfter base (h.drop k) inp
    let s' := apply d.cfg d.s (.quiesce envf)
    let rounds := s'.hist.drop k
    let c := d.cfg.rc.c
    let trace := rounds.flatMap (itemsJ c)
    let queued := rounds.flatMap (fun rd => (rd.res.effs.filter isQueue).map (effectJ c))
    ({ d with s := s' },
      Json.mkObj [("trace", Json.arr trace.toArray), ("queued", Json.arr queued.toArray),
                  ("closed", idsJ (sortNat (s'.closed.drop d.s.closed.length))), ("pending", idsJ (unresolved s')),
                  ("_rounds", Json.arr (rounds.map roundDiagJ).toArray), ("_mode", modeJ s'.mode),
                  ("_now", natJ s'.now), ("_deadline", natJ s'.deadline), ("_view", natJ s'.r.view)])
  | some "restart" =>
    let s' := apply d.cfg d.s .restart
    ({ d with s := s' },
      Json.mkObj [("closed", idsJ (sortNat (s'.closed.drop d.s.closed.length))), ("pending", idsJ (unresolved s')),
                  ("_view", natJ s'.r.view)])
  | _ => (d, badOp)

end Driver.C05loop

def main : IO Unit := Driver.run ({} : Driver.C05loop.DSt) Driver.C05loop.stepLine
