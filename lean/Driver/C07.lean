import Driver.Util
import EraVerif.Gen.Thresholds

namespace Driver.C07
open Lean Driver EraVerif.Gen.Thresholds

/-- `{"n": <u64>}` ↦ the three thresholds as computed by the regenerated definitions (wrapping u64), plus the
checked evaluation (`null` = the Rust expression would overflow/underflow). -/
def handle (j : Json) : Json :=
  match getNat j "n" with
  | none => badOp
  | some n =>
    let u : UInt64 := UInt64.ofNat n
    Json.mkObj [
      ("f", natJ (max_faulty_weight u).toNat),
      ("q", natJ (quorum_threshold u).toNat),
      ("s", natJ (subquorum_threshold u).toNat),
      ("f_chk", optNatJ (max_faulty_weight_chk n)),
      ("q_chk", optNatJ (quorum_threshold_chk n)),
      ("s_chk", optNatJ (subquorum_threshold_chk n))]

end Driver.C07

def main : IO Unit := Driver.runPure Driver.C07.handle
