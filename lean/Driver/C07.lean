import Driver.Util
import EraVerif.Gen.Thresholds
import EraVerif.Model.ScheduleNew

namespace Driver.C07
open Lean Driver EraVerif.Gen.Thresholds EraVerif.Model.ScheduleNew

/-- `{"n": <u64>}` ↦ the three thresholds as computed by the regenerated definitions (wrapping u64), plus the
checked evaluation (`null` = the Rust expression would overflow/underflow). -/
def parseV (j : Json) : Option VInfo :=
  match j with
  | Json.arr #[k, w, l] =>
    match k.getNat?.toOption, w.getNat?.toOption, l.getBool?.toOption with
    | some k, some w, some l => some { key := k, weight := w, leader := l }
    | _, _, _ => none
  | _ => none

/-- `{"sched": [[key, weight, leader], ...]}` ↦ `Schedule::new` on that committee: accepted or not, and for an accepted
one the recorded total weight and its thresholds. -/
def handleSched (vs : Array Json) : Json :=
  match vs.toList.mapM parseV with
  | none => badOp
  | some vs =>
    match scheduleNew vs with
    | none => Json.mkObj [("ok", Json.bool false)]
    | some (t, l) =>
      let u : UInt64 := UInt64.ofNat t
      Json.mkObj [("ok", Json.bool true), ("total", natJ t), ("leader_weight", natJ l),
        ("f", natJ (max_faulty_weight u).toNat), ("q", natJ (quorum_threshold u).toNat),
        ("s", natJ (subquorum_threshold u).toNat)]

def handle (j : Json) : Json :=
  if let some vs := getArr j "sched" then handleSched vs else
  match getNat j "n" with
  | none => badOp
  | some n =>
    let u : UInt64 := UInt64.ofNat n
    Json.mkObj [
      ("f", natJ (max_faulty_weight u).toNat),
      ("q", natJ (quorum_threshold u).toNat),
      ("s", natJ (subquorum_threshold u).toNat),
      ("f_chk", optNatJ (max_faulty_weight_chk n)),
      ("q_chk", optNatJ (quorum_threshold_chk n)),
      ("s_chk", optNatJ (subquorum_threshold_chk n))]

end Driver.C07

def main : IO Unit := Driver.runPure Driver.C07.handle
