import Driver.ReplicaDriver
def main : IO Unit := Driver.run ({} : Driver.ReplicaDriver.St) Driver.ReplicaDriver.stepLine
