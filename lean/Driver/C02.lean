import Driver.ReplicaDriver
def main : IO Unit := Driver.run ({} : Driver.ReplicaDriver.Multi) Driver.ReplicaDriver.multiStep
