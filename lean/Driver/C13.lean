import Driver.Util
import EraVerif.Model.Noise
import EraVerif.Model.NoiseNet

/-! Model driver of C13: replays the operation lines of `harness/src/bin/c13.rs` through the model of the noise
stream (`Model/Noise.lean`) inside the scripted network (`Model/NoiseNet.lean`). -/

namespace Driver.C13
open Lean Driver EraVerif.Model.Noise EraVerif.Model.NoiseNet

structure Sess where
  d0 : Dir
  d1 : Dir

def Sess.get (s : Sess) (i : Nat) : Dir := if i % 2 = 0 then s.d0 else s.d1
def Sess.set (s : Sess) (i : Nat) (d : Dir) : Sess := if i % 2 = 0 then { s with d0 := d } else { s with d1 := d }

def intJ (i : Int) : Json := Json.num (JsonNumber.fromInt i)
def strJ (s : String) : Json := Json.str s

def jsonNat? (v : Json) : Option Nat :=
  match v.getNat? with
  | .ok n => some n
  | .error _ => none

def wscript (j : Json) (k : String) : List WrEv :=
  match getArr j k with
  | none => []
  | some a => a.toList.map fun v =>
    match v with
    | .str "P" => WrEv.pending
    | .str _ => WrEv.err
    | v => WrEv.accept ((jsonNat? v).getD 0)

def rscript (j : Json) (k : String) : List RdEv :=
  match getArr j k with
  | none => []
  | some a => a.toList.map fun v =>
    match v with
    | .str "P" => RdEv.pending
    | .str _ => RdEv.err
    | v => RdEv.give ((jsonNat? v).getD 0)

def flEv (j : Json) : FlEv :=
  match getStr j "fl" with
  | some "P" => .pending
  | some "E" => .err
  | _ => .ok

def tresJ : TRes → Json
  | .n k => natJ k
  | .pending => intJ (-1)
  | .err => intJ (-2)

def traceJ (t : Trace) : Json := Json.arr (t.map fun e => Json.arr #[natJ e.1, tresJ e.2]).toArray

def errKind : IoErr → String
  | .writeZero => "write_zero"
  | .transport => "transport"
  | .invalidData => "invalid_data"
  | .other => "other"

def pollClass {α : Type} : Poll α → String
  | .ready _ => "ok"
  | .pending => "pending"
  | .err _ => "err"

def panicJ (site : String) : Json := Json.mkObj [("panic", strJ site)]

def natsJ (l : List Nat) : Json := Json.arr (l.map natJ).toArray

/-- `write` / `flush` / `shutdown` -/
def writeLike (s : Sess) (j : Json) (kind : String) : Sess × Json :=
  let di := (getNat j "dir").getD 0
  let d := s.get di
  let script := wscript j "tw"
  if kind == "write" then
    let len := (getNat j "len").getD 0
    let buf := List.range' d.accepted len
    match pollWrite buf script d.w with
    | .error e => (s, panicJ e)
    | .ok o =>
      let (d1, hdrs) := ({ d with w := o.w }).accept o.sent
      let (res, d2) : List (String × Json) × Dir :=
        match o.res with
        | .ready n => ([("r", strJ "ok"), ("n", natJ n)], { d1 with accepted := d1.accepted + n })
        | .pending => ([("r", strJ "pending")], d1)
        | .err e => ([("r", strJ "err"), ("kind", strJ (errKind e))], d1)
      (s.set di d2, Json.mkObj (res ++ [("tw", traceJ o.trace), ("hdrs", natsJ hdrs), ("sent", natJ d2.sentTotal),
        ("class", strJ ("write:" ++ pollClass o.res))]))
  else
    let r := if kind == "flush" then pollFlush script (flEv j) d.w else pollShutdown script (flEv j) d.w
    match r with
    | .error e => (s, panicJ e)
    | .ok fo =>
      let o := fo.o
      let (d1, hdrs) := ({ d with w := o.w }).accept o.sent
      let res : List (String × Json) :=
        match o.res with
        | .ready () => [("r", strJ "ok")]
        | .pending => [("r", strJ "pending")]
        | .err e => [("r", strJ "err"), ("kind", strJ (errKind e))]
      (s.set di d1, Json.mkObj (res ++ [("tw", traceJ o.trace), ("hdrs", natsJ hdrs), ("sent", natJ d1.sentTotal),
        ("inner", Json.bool fo.innerCalled), ("class", strJ (kind ++ ":" ++ pollClass o.res))]))

def isRaw : WByte → Bool
  | .raw _ => true
  | _ => false

def readOp (s : Sess) (j : Json) : Sess × Json :=
  let di := (getNat j "dir").getD 0
  let d := s.get di
  let cap := (getNat j "cap").getD 0
  match pollRead cv0 cap (rscript j "tr") d.r d.wire with
  | .error e => (s, panicJ e)
  | .ok o =>
    let pulled := d.wire.length - o.wire.length
    let d1 := { d with r := o.r, wire := o.wire, tags := d.tags.drop pulled, pulledTotal := d.pulledTotal + pulled }
    -- the generator never lets a ciphertext byte (whose value is not modelled) be read as a length field
    let opq := match o.r.frame.slice with
      | a :: b :: _ => !(isRaw a && isRaw b)
      | _ => false
    let (res, d2) : List (String × Json) × Dir :=
      match o.res with
      | .ready [] => ([("r", strJ "eof")], d1)
      | .ready bs =>
        let off : Int := if bs == List.range' d1.delivered bs.length then Int.ofNat d1.delivered else -2
        ([("r", strJ "data"), ("off", intJ off), ("n", natJ bs.length)], { d1 with delivered := d1.delivered + bs.length })
      | .pending => ([("r", strJ "pending")], d1)
      | .err e => ([("r", strJ "err"), ("kind", strJ (errKind e))], d1)
    let res := if opq then [("r", strJ "opaque-length-read")] else res
    let cls := match o.res with
      | .ready [] => "eof"
      | .ready _ => "data"
      | .pending => "pending"
      | .err _ => "err"
    (s.set di d2, Json.mkObj (res ++ [("tr", traceJ o.trace), ("class", strJ ("read:" ++ cls))]))

def tamperOf (j : Json) : Option Tamper :=
  let g := fun k => (getNat j k).getD 0
  match getStr j "kind" with
  | some "flip" => some (.flip (g "at") (g "x"))
  | some "trunc" => some (.trunc (g "at"))
  | some "splice" => some (.splice (g "at") (g "del") ((getNatList j "bytes").getD []))
  | some "dropf" => some (.dropf (g "f") (g "c"))
  | some "replayf" => some (.replayf (g "k") (g "g"))
  | some "swapf" => some (.swapf (g "f"))
  | some "dropr" => some (.dropr (g "at") (g "len"))
  | some "dupr" => some (.dupr (g "from") (g "len") (g "at"))
  | _ => none

def tamperOp (s : Sess) (j : Json) : Sess × Json :=
  let di := (getNat j "dir").getD 0
  let d := s.get di
  match tamperOf j with
  | none => (s, badOp)
  | some t =>
    let o := d.tamper t
    let fields : List (String × Json) :=
      [("applied", Json.bool o.applied), ("inflight", natJ d.wire.length), ("after", natJ o.d.wire.length)] ++
      o.fields.map (fun kv => (kv.1, natJ kv.2)) ++
      (match o.hit with | some h => [("hit", strJ h)] | none => []) ++
      [("class", strJ ("tamper:" ++ (getStr j "kind").getD "" ++ ":" ++ (if o.applied then "true" else "false")))]
    (s.set di o.d, Json.mkObj fields)

def checkOp (s : Sess) (j : Json) : Sess × Json :=
  let d := s.get ((getNat j "dir").getD 0)
  (s, Json.mkObj [("accepted", natJ d.accepted), ("delivered", natJ d.delivered), ("sent", natJ d.sentTotal),
    ("pulled", natJ d.pulledTotal), ("inflight", natJ d.wire.length), ("frames", natJ d.hist.size)])

def step (s : Sess) (j : Json) : Sess × Json :=
  match getStr j "op" with
  | some "init" => (⟨Dir.init, Dir.init⟩, Json.mkObj [("ok", Json.bool true), ("same_id", Json.bool true)])
  | some "write" => writeLike s j "write"
  | some "flush" => writeLike s j "flush"
  | some "shutdown" => writeLike s j "shutdown"
  | some "read" => readOp s j
  | some "tamper" => tamperOp s j
  | some "check" => checkOp s j
  -- `early`: the responder writes frames right after ITS half of the handshake, before the initiator has finished
  -- reading the handshake message; the handshake is atomic in the model, so the run is monitored on the implementation
  -- only (every byte must arrive) and the model just acknowledges the op
  | some "early" => (⟨Dir.init, Dir.init⟩, Json.mkObj [("class", "early")])
  | _ => (s, badOp)

end Driver.C13

def main : IO Unit := Driver.run (⟨EraVerif.Model.NoiseNet.Dir.init, EraVerif.Model.NoiseNet.Dir.init⟩ : Driver.C13.Sess) Driver.C13.step
