import Driver.Util
import EraVerif.Model.Mux

/-! Model driver for C14: replays the harness's operation lines through `Model/Mux.lean`.
Every operation is one environment / application event of the LTS followed by `settle` (internal events until
none is enabled); in `pair` sessions the flushed output of each side is fed to the other side as `wireIn` events
until both are quiescent. -/
namespace Driver.C14
open Lean Driver EraVerif.Model.Mux

structure Side where
  s : State
  /-- `doneLog` entries already reported -/
  seenDone : Nat := 0
  /-- `out` frames already reported -/
  seenOut : Nat := 0
  /-- `out` frames already forwarded to the other side (pair mode) -/
  fwdOut : Nat := 0
  /-- the senders suspended on the channel slot `write_send`, first come first (tokio's semaphore is fair) -/
  chq : List Event := []
  /-- pair mode: the transport towards the other side blocks the writer while this many bytes are unread -/
  cap : Option Nat := none

structure Sess where
  raw : Bool
  sides : Array Side
  diverged : Bool := false

def hexDigit (n : Nat) : Char := if n < 10 then Char.ofNat (48 + n) else Char.ofNat (87 + n)
def hexOf (bs : List Nat) : String := String.ofList (bs.flatMap fun b => [hexDigit (b / 16 % 16), hexDigit (b % 16)])

def payload (n seed : Nat) : List Nat := (List.range n).map fun i => (seed + i) % 251

/-- BTreeMap semantics for the local capability lists: ascending id, a later entry replaces an earlier one. -/
def insertCap (m : Caps) (c v : Nat) : Caps :=
  match m with
  | [] => [(c, v)]
  | (c', v') :: rest => if c < c' then (c, v) :: m else if c = c' then (c, v) :: rest else (c', v') :: insertCap rest c v

def capsOf (j : Json) (k : String) : Caps :=
  match getArr j k with
  | none => []
  | some a => a.toList.filterMap fun p =>
      match p.getArr? with
      | .ok q => match q[0]? >>= (·.getNat?.toOption), q[1]? >>= (·.getNat?.toOption) with
        | some c, some v => some (c, v)
        | _, _ => none
      | .error _ => none

def capMap (c : Caps) : Caps := c.foldl (fun m p => insertCap m p.1 p.2) []

def cfgOf (j : Json) (k : String) : Cfg :=
  match getNatList j k with
  | some [a, b, c, d] => ⟨a, b, c, d⟩
  | _ => ⟨0, 0, 0, 0⟩

/-- replace the closure chains of the state by array lookups (extensionally the same functions) -/
def compact (s : State) : State :=
  let accArr := (Array.range s.nAcc).map fun i => s.st ⟨false, i⟩
  let conArr := (Array.range s.nCon).map fun i => s.st ⟨true, i⟩
  let dflt : StreamSt := {}
  let maxSlot := s.slotList.foldl max 0
  let slotArr := (Array.range (maxSlot + 1)).map s.slots
  let qa := s.rngAcc.map fun r => (r.cap, s.qPushed false r.cap, s.qWait false r.cap)
  let qc := s.rngCon.map fun r => (r.cap, s.qPushed true r.cap, s.qWait true r.cap)
  let look (c : Bool) (x : Nat) : Option (Nat × List Nat × List Nat) := (if c then qc else qa).find? (·.1 == x)
  { s with
    st := fun k => if k.conn then (if h : k.id < conArr.size then conArr[k.id] else dflt)
                   else (if h : k.id < accArr.size then accArr[k.id] else dflt)
    slots := fun x => if h : x < slotArr.size then slotArr[x] else .free
    qPushed := fun c x => match look c x with | some e => e.2.1 | none => []
    qWait := fun c x => match look c x with | some e => e.2.2 | none => [] }

def fuelOf (s : State) : Nat := 20000 + 40 * (s.rx.foldl (fun a f => a + f.data.length + 4) 0)

def settleC (first : List Event) (prio : List Key) (s : State) : State × List Event × Bool :=
  let (s', q, ok) := settle (requeue first s) prio (fuelOf s) s
  (compact s', q, ok)

/-- after quiescence: the new state and the senders still suspended on the channel slot, in arrival order -/
def Side.withState (sd : Side) (s' : State) (q : List Event) : Side := { sd with s := s', chq := q }

def setLimit (s : State) (l : Option Nat) : State := (step? s (.txWindow l)).getD s

def toWire (f : OFrame) : WFrame := ⟨mkHdr f.kind f.conn f.id, f.data⟩

/-- pair mode: settle both sides, forward what each flushed, let each writer see how much the other side has pulled
from the transport, until nothing moves -/
def settlePair (pa pb : List Key) : Nat → Side → Side → Side × Side × Bool
  | 0, a, b => (a, b, false)
  | fuel + 1, a, b =>
    let la := a.cap.map (· + b.s.pulled)
    let lb := b.cap.map (· + a.s.pulled)
    let (sa, qa, oka) := settleC a.chq pa (setLimit a.s la)
    let (sb, qb, okb) := settleC b.chq pb (setLimit b.s lb)
    let fa := (sa.wire.take sa.flushed).drop a.fwdOut
    let fb := (sb.wire.take sb.flushed).drop b.fwdOut
    let a1 := a.withState sa qa
    let b1 := b.withState sb qb
    if fa.isEmpty && fb.isEmpty && a.cap.map (· + sb.pulled) == la && b.cap.map (· + sa.pulled) == lb then
      (a1, b1, oka && okb) else
    let sb' := fa.foldl (fun s f => { s with rx := s.rx ++ [toWire f] }) sb
    let sa' := fb.foldl (fun s f => { s with rx := s.rx ++ [toWire f] }) sa
    settlePair pa pb fuel { a1 with s := sa', fwdOut := a.fwdOut + fa.length } { b1 with s := sb', fwdOut := b.fwdOut + fb.length }

def settleSess (ss : Sess) (pa : List Key := []) (pb : List Key := []) : Sess :=
  if ss.raw || ss.sides.size < 2 then
    match ss.sides[0]? with
    | none => ss
    | some a =>
      let (s', q, ok) := settleC a.chq pa a.s
      { ss with sides := ss.sides.set! 0 (a.withState s' q), diverged := ss.diverged || !ok }
  else
    match ss.sides[0]?, ss.sides[1]? with
    | some a0, some b0 =>
      let (a, b, ok) := settlePair pa pb 100000 a0 b0
      { ss with sides := #[a, b], diverged := ss.diverged || !ok }
    | _, _ => ss

def runStr (s : State) : String :=
  match s.dead with
  | none => "up"
  | some .config => "config"
  | some .protocol => "protocol"
  | some .closed => "closed"
  | some .panic => "panic"

def fkCode : FK → Nat
  | .open => 0 | .data => 1 | .close => 2

def stableSort {α : Type} (lt : α → α → Bool) (l : List α) : List α :=
  l.foldl (fun acc x =>
    -- insert x after every element that is not greater than it
    let rec ins : List α → List α
      | [] => [x]
      | y :: ys => if lt x y then x :: y :: ys else y :: ins ys
    ins acc) []

def heldCount (s : State) : Nat :=
  (s.slotList.filter fun x => match s.slots x with | .held _ r w => r || w | _ => false).length

/-- observation of one op; returns the updated bookkeeping -/
def observe (ss : Sess) (res : String) (extra : List (String × Json)) : Sess × Json :=
  let sides := ss.sides
  let done : List (Nat × Nat × Json) := (List.range sides.size).flatMap fun si =>
    match sides[si]? with
    | none => []
    | some sd => (sd.s.doneLog.drop sd.seenDone).filterMap fun d =>
        match d with
        | .opened slot conn id => some (si, slot, Json.arr #[natJ si, natJ slot, Json.str "open", natJ (if conn then 1 else 0), natJ id])
        | .read slot bytes eos => some (si, slot, Json.arr #[natJ si, natJ slot, Json.str "read", Json.str (hexOf bytes), natJ (if eos then 1 else 0)])
        | .wrote _ _ => none
        | .canceled _ => none
  let doneSorted := stableSort (fun a b => a.1 < b.1 || (a.1 == b.1 && a.2.1 < b.2.1)) done
  let outOf (sd : Side) : Json :=
    let fs := (sd.s.wire.take sd.s.flushed).drop sd.seenOut
    let sorted := stableSort (fun (a b : OFrame) => (a.conn == false && b.conn == true) || (a.conn == b.conn && a.id < b.id)) fs
    Json.arr (sorted.map fun f => Json.arr #[natJ (if f.conn then 1 else 0), natJ f.id, natJ (fkCode f.kind), Json.str (hexOf f.data)]).toArray
  let nout : Nat := (match sides[0]? with | some a => a.s.flushed - a.seenOut | none => 0) +
    (match sides[1]? with | some b => b.s.flushed - b.seenOut | none => 0)
  let res := if ss.diverged then "diverged" else res
  let cls := res ++ "/" ++ (match sides[0]? with | some a => runStr a.s | none => "") ++ "/" ++
    (if doneSorted.isEmpty then "-" else "done") ++ (if nout > 0 then "+out" else "")
  let fields : List (String × Json) :=
    [("res", Json.str res), ("class", Json.str cls),
     ("done", Json.arr (doneSorted.map (·.2.2)).toArray),
     ("held", Json.arr (sides.toList.map fun sd => natJ (heldCount sd.s)).toArray)] ++
    (match sides[0]? with
     | some a => [("out", outOf a), ("run", Json.str (runStr a.s)), ("pulled", natJ a.s.pulled)]
     | none => []) ++
    (match sides[1]? with
     | some b => [("outB", outOf b), ("runB", Json.str (runStr b.s))]
     | none => []) ++ extra
  let sides' := sides.map fun sd => { sd with seenDone := sd.s.doneLog.length, seenOut := sd.s.flushed }
  ({ ss with sides := sides' }, Json.mkObj fields)

def capsJ (c : Caps) : Json := Json.arr (c.map fun p => Json.arr #[natJ p.1, natJ p.2]).toArray

/-- scheduling advice of an op: `[[side, conn, id], ...]`, the streams in the order in which the real runtime let them
through `StreamQueue::push` -/
def advOf (j : Json) (side : Nat) : List Key :=
  ((getArr j "adv").getD #[]).toList.filterMap fun e =>
    match e.getArr? with
    | .ok a =>
      let nat (i : Nat) : Nat := (a[i]? >>= (·.getNat?.toOption)).getD 0
      if nat 0 == side then some ⟨nat 1 == 1, nat 2⟩ else none
    | .error _ => none

def doInit (j : Json) : Sess × Json :=
  let raw := getStr j "mode" == some "raw"
  let acc := capMap (capsOf j "acc")
  let con := capMap (capsOf j "con")
  let pacc := capsOf j "pacc"
  let pcon := capsOf j "pcon"
  let cfg := cfgOf j "cfg"
  if raw then
    let a : Side := { s := State.init cfg acc con pacc pcon }
    let ss := settleSess { raw := true, sides := #[a] } (advOf j 0) (advOf j 1)
    observe ss "ok" [("verify", Json.bool (muxVerify cfg acc con)), ("hs", Json.arr #[capsJ acc, capsJ con])]
  else
    let pacc := capMap pacc
    let pcon := capMap pcon
    let pcfg := cfgOf j "pcfg"
    let a : Side := { s := State.init cfg acc con pacc pcon }
    let b : Side := { s := State.init pcfg pacc pcon acc con }
    let ss := settleSess { raw := false, sides := #[a, b] } (advOf j 0) (advOf j 1)
    observe ss "ok" [("verify", Json.bool (muxVerify cfg acc con)), ("verifyB", Json.bool (muxVerify pcfg pacc pcon)),
                     ("hs", Json.arr #[capsJ acc, capsJ con]), ("hsB", Json.arr #[capsJ pacc, capsJ pcon])]

/-- the local stream a slot holds, or (pending CONNECT open) the one that has sent OPEN for it -/
def keyOfSlot (s : State) (slot : Nat) : Option Key :=
  match s.slots slot with
  | .held k _ _ => some k
  | .waiting true _ => (keysOf s).find? fun k => (s.st k).mphase == .joinC slot || (s.st k).mphase == .reserved slot
  | _ => none

def frameOf (s : State) (f : Json) : Option WFrame :=
  match f.getArr? with
  | .error _ => none
  | .ok a =>
    let nat (i : Nat) : Nat := (a[i]? >>= (·.getNat?.toOption)).getD 0
    match a[0]? >>= (·.getStr?.toOption) with
    | some _ =>
      match keyOfSlot s (nat 1) with
      | none => none
      | some k =>
        let bits := match nat 2 with | 0 => FK.open.bits | 1 => FK.data.bits | 2 => FK.close.bits | _ => FK.data.bits ||| FK.close.bits
        -- the peer's end of our CONNECT stream is its ACCEPT stream
        let hdr := bits ||| (if k.conn then EraVerif.Gen.MuxConst.STREAM_ACCEPT else EraVerif.Gen.MuxConst.STREAM_CONNECT) ||| k.id
        some ⟨hdr, if nat 2 == 1 then payload (nat 3) (nat 4) else []⟩
    | none =>
      let hdr := nat 0
      some ⟨hdr, if hdrFK hdr == some .data then payload (nat 1) (nat 2) else []⟩

def applyEv (s : State) (e : Event) : Option State := step? s e

def wroteRes (sd : Side) (slot : Nat) : String :=
  match (sd.s.doneLog.drop sd.seenDone).reverse.find?
      (fun d => match d with | .wrote x _ => x == slot | .canceled x => x == slot | _ => false) with
  | some (.wrote _ true) => "ok"
  | some (.wrote _ false) => "err"
  | some (.canceled _) => "canceled"
  | _ => "pend"

def doOp (ss : Sess) (j : Json) : Sess × Json :=
  let op := (getStr j "op").getD ""
  let si := (getNat j "side").getD 0
  match ss.sides[si]? with
  | none => (ss, Json.mkObj [("res", Json.str "noside")])
  | some sd =>
    let s := sd.s
    let slot := (getNat j "slot").getD 0
    let fin (s' : State) (res : String) : Sess × Json :=
      observe (settleSess { ss with sides := ss.sides.set! si { sd with s := s' } } (advOf j 0) (advOf j 1)) res []
    let finW (s' : State) : Sess × Json :=
      let ss' := settleSess { ss with sides := ss.sides.set! si { sd with s := s' } } (advOf j 0) (advOf j 1)
      let r := match ss'.sides[si]? with | some sd' => wroteRes sd' slot | none => "pend"
      observe ss' r []
    /- `write_all` / `flush` under a context of its own: if the call is still suspended at quiescence (it can only be
       suspended in the reservation of the channel slot), the context is cancelled -/
    let finC (s' : State) (k : Key) (ev : Event) : Sess × Json :=
      let ss' := settleSess { ss with sides := ss.sides.set! si { sd with s := s' } } (advOf j 0) (advOf j 1)
      match ss'.sides[si]? with
      | none => observe ss' "pend" []
      | some sd' =>
        let r := wroteRes sd' slot
        if r != "pend" then observe ss' r [] else
        let pending := if ev == Event.cancelWrite k then (sd'.s.st k).pendW.isSome else (sd'.s.st k).pendF.isSome
        if !pending then observe ss' "lost" [] else
        match applyEv sd'.s ev with
        | none => observe ss' "pend" []
        | some s2 =>
          let ss2 := settleSess { ss' with sides := ss'.sides.set! si { sd' with s := s2 } } [] []
          let r2 := match ss2.sides[si]? with | some sd2 => wroteRes sd2 slot | none => "pend"
          observe ss2 r2 []
    match op with
    | "win" =>
      -- raw mode: the peer takes `n` more bytes from the transport (`null`: it reads again without limit)
      if !ss.raw then fin s "noraw" else
      match getNat j "n" with
      | some n => fin (setLimit s (some (s.txSent + n))) "ok"
      | none => fin (setLimit s none) "ok"
    | "cap" =>
      -- pair mode: the transport from this side to the other holds at most `n` unread bytes before it blocks the writer
      if ss.raw then fin s "nopair" else
      observe (settleSess { ss with sides := ss.sides.set! si { sd with cap := getNat j "n" } } (advOf j 0) (advOf j 1)) "ok" []
    | "cwrite" =>
      match s.slots slot with
      | .held k _ w =>
        if !w then fin s "nohalf"
        else match applyEv s (.appWrite slot (payload ((getNat j "n").getD 0) ((getNat j "seed").getD 0))) with
          | some s' => finC s' k (.cancelWrite k)
          | none => fin s "refused"
      | _ => fin s "noslot"
    | "cflush" =>
      match s.slots slot with
      | .held k _ w =>
        if !w then fin s "nohalf"
        else match applyEv s (.appFlush slot) with
          | some s' => finC s' k (.cancelFlush k)
          | none => fin s "refused"
      | _ => fin s "noslot"
    | "wire" =>
      if !ss.raw then fin s "noraw" else
      let fs := ((getArr j "frames").getD #[]).toList.filterMap (frameOf s)
      fin (fs.foldl (fun s f => (applyEv s (.wireIn f)).getD s) s) "ok"
    | "eof" => if !ss.raw then fin s "noraw" else fin ((applyEv s .wireEof).getD s) "ok"
    | "open" =>
      let conn := ((getNat j "q").getD 0) % 2 == 1
      let cap := (getNat j "cap").getD 0
      if s.slotList.contains slot then fin s "busy"
      else if (rangeOfCap (s.rng conn) cap).isNone then fin s "nocap"
      else match applyEv s (.appOpen slot conn cap) with
        | some s' => fin s' "ok"
        | none => fin s "refused"
    | "read" =>
      match s.slots slot with
      | .held k r _ =>
        if (s.st k).pendR.isSome && r then fin s "busy"
        else if !r then fin s "nohalf"
        else match applyEv s (.appRead slot ((getNat j "n").getD 0)) with
          | some s' => fin s' "ok"
          | none => fin s "refused"
      | _ => fin s "noslot"
    | "write" =>
      match s.slots slot with
      | .held _ _ w =>
        if !w then fin s "nohalf"
        else match applyEv s (.appWrite slot (payload ((getNat j "n").getD 0) ((getNat j "seed").getD 0))) with
          | some s' => finW s'
          | none => fin s "refused"
      | _ => fin s "noslot"
    | "flush" =>
      match s.slots slot with
      | .held _ _ w =>
        if !w then fin s "nohalf"
        else match applyEv s (.appFlush slot) with
          | some s' => finW s'
          | none => fin s "refused"
      | _ => fin s "noslot"
    | "drop" =>
      let half := (getStr j "half").getD "rw"
      let r := half.contains 'r'
      let w := half.contains 'w'
      match s.slots slot with
      | .held k hr _ =>
        if r && hr && (s.st k).pendR.isSome then fin s "busy"
        else match applyEv s (.appDrop slot r w) with
          | some s' => fin s' "ok"
          | none => fin s "refused"
      | _ => fin s "noslot"
    | "quiet" => fin s "ok"
    | _ => fin s "badop"

def step (st : Option Sess) (j : Json) : Option Sess × Json :=
  if getStr j "op" == some "init" then
    let (ss, o) := doInit j
    (some ss, o)
  else match st with
    | none => (none, Json.mkObj [("res", Json.str "nosession")])
    | some ss =>
      let (ss', o) := doOp ss j
      (some ss', o)

end Driver.C14

def main : IO Unit := Driver.run (none : Option Driver.C14.Sess) Driver.C14.step
