import Driver.Util
import Std.Data.HashSet
import EraVerif.Model.Fetch
import EraVerif.Model.FetchNode

/-!
Model driver of the second C19 family (`c19n`): a real node (gossip network + block fetcher + engine) with raw peers.

The implementation is a concurrent system observed from outside: for every step the harness writes the environment
actions (`do`: a peer connects / announces a range / answers an outstanding `get_block` / disconnects / all
outstanding calls run into the rpc timeout) and the `get_block` requests that reached the raw peers until the node
settled (`trace`, a multiset of `[peer, block]`). The driver keeps the **set of states of the composed model**
(`Model.FetchNode`: queue + `get_block` tasks + store, with the fetcher of `Model.Fetch` reacting to the store) the node
may be in and, for each step,

1. applies the environment actions to every candidate (a refused action is `bad`);
2. explores the interleavings of internal events (`nstep?` on `nInternalEvents`, the fetcher's reaction to the store,
   the dropping of tasks of dead connections, the teardown of connections whose call runs into the rpc timeout) in
   which the hand-overs to **live** peers are exactly the observed requests, as a multiset: the arrival order on
   different connections says nothing about the order of the hand-overs (hand-overs on a connection that is already
   going down never reach the peer: hidden). First with a partial-order reduction (`safeEvent`: an enabled event that
   is independent of everything else is taken alone); if that accepts nothing, all interleavings are explored before
   the step is rejected;
3. keeps the quiescent states (`nQuiescent`, no droppable task): the harness waited until the node had settled, so a
   model state in which a future can still run means the node lost a request or a wake-up.

The snapshot (`blocks` = the queue's map, `held` = (peer, block) of the live tasks, `parked` = those inside
`queue_block`, `queued` = `queued().next()`, `live` = connections not torn down) is printed from the surviving
candidates and compared with the node's.
-/

namespace Driver.C19n
open Lean Driver EraVerif.Model.Fetch

deriving instance Hashable for ReqSt, Req, AccSt, EraVerif.Model.Fetch.Acc, Hold, Avail, State, GetSt, NState, TaskSt, Fetcher

/-! ## canonical representatives (as in `Driver/C19.lean`, plus hold ids) -/

def renameOf (tbl : List (Nat × Nat)) (c : Nat) : Nat := (aget tbl c).getD c

def sortNat (l : List Nat) : List Nat := (l.toArray.qsort (· < ·)).toList

def holdLt (a b : Nat × Hold) : Bool :=
  a.2.peer < b.2.peer || (a.2.peer = b.2.peer && (a.2.num < b.2.num || (a.2.num = b.2.num && a.1 < b.1)))

def canonQ (s : State) : State × List (Nat × Nat) :=
  -- hold ids: only ever looked up and allocated fresh (`nextHold`); rename in the order (peer, block, id)
  let hs := (s.holds.toArray.qsort holdLt).toList
  let htbl : List (Nat × Nat) := (hs.map (·.1)).zipIdx
  let chans : List Nat :=
    s.map.map (·.2) ++ hs.map (·.2.chan) ++
    s.reqs.filterMap (fun e => match e.2.st with | .waiting c => some c | _ => none)
  let tbl : List (Nat × Nat) := chans.foldl (fun t c => if (aget t c).isSome then t else t ++ [(c, t.length)]) []
  let rn := renameOf tbl
  ({ s with
    map := s.map.map (fun e => (e.1, rn e.2)),
    holds := hs.zipIdx.map (fun (e, i) => (i, { e.2 with chan := rn e.2.chan })),
    nextHold := hs.length,
    reqs := s.reqs.map (fun e => (e.1, match e.2.st with
      | .waiting c => { e.2 with st := .waiting (rn c) }
      | _ => e.2)),
    nextChan := tbl.length,
    ver := 1,
    accs := s.accs.map (fun e => (e.1, match e.2.st with
      | .watch m seen => { e.2 with st := .watch m (if seen = s.ver then 1 else 0) }
      | _ => e.2)) }, htbl)

def canonN (s : NState) : NState :=
  let (q, htbl) := canonQ s.q
  { s with q := q,
           tasks := (s.tasks.map (fun e => (renameOf htbl e.1, e.2))).toArray.qsort (fun a b => a.1 < b.1) |>.toList,
           -- ghost, read by no transition
           wanted := [] }

/-! ## the system: node + fetcher + which connections are going down -/

structure Sys where
  n : NState
  f : Fetcher
  /-- connections that failed / were dropped: their tasks are dropped, hand-overs on them reach nobody -/
  dead : List Nat
  /-- every peer that has connected in this case -/
  conns : List Nat
  /-- connections with a call that is running into the rpc timeout: each goes down at some point of the step -/
  doomed : List Nat := []
deriving DecidableEq, Hashable

def fetClosure : Nat → Fetcher → List Event → Fetcher × List Event
  | 0, f, acc => (f, acc)
  | fuel + 1, f, acc =>
    match f.internalEvents.findSome? (fun e => f.step? e) with
    | none => (f, acc)
    | some (f', es) => fetClosure fuel f' (acc ++ es)

/-- Queue events of the fetcher applied to the node; `cancelReq` of a request that has already returned is a no-op
(cancelling the scope of a finished `request` future). -/
def applyQ (s : NState) (es : List Event) : Option NState :=
  es.foldlM (fun s e =>
    match nstep? s (.q e) with
    | some (s', _) => some s'
    | none => match e with
      | .cancelReq _ => some s
      | _ => none) s

/-- The fetcher reacts to the store: `wait_until_queued` / `wait_until_persisted` return (the engine's persistence
task is running: what is queued gets persisted), requests are given up, permits are freed, new requests are created. -/
def react (x : Sys) : Option Sys :=
  let q := x.n.queuedNext
  let f1 := if x.f.queuedNext < q then ((x.f.step? (.setQueued q)).map (·.1)).getD x.f else x.f
  let f2 := if f1.persistedNext < q then ((f1.step? (.setPersisted q)).map (·.1)).getD f1 else f1
  let (f3, es) := fetClosure 1000 f2 []
  (applyQ x.n es).map fun n => { x with n := n, f := f3 }

def holdOf (s : NState) (p n : Nat) : Option Nat :=
  (s.q.holds.find? (fun e => e.2.peer = p ∧ e.2.num = n ∧ (aget s.tasks e.1).isSome)).map (·.1)

def tasksOf (s : NState) (p : Nat) : List Nat :=
  (s.q.holds.filter (fun e => e.2.peer = p ∧ (aget s.tasks e.1).isSome)).map (·.1)

/-- The connection of peer `p` goes down: its accept call is cancelled, all its tasks are dropped. -/
def teardown (x : Sys) (p : Nat) : Option Sys :=
  let n0 := { x.n with q := cancelConn x.n.q p }
  let r := (tasksOf n0 p).foldlM (fun s h => (nstep? s (.abort h)).map (·.1)) n0
  r.map fun n => { x with n := n, dead := if x.dead.contains p then x.dead else x.dead ++ [p],
                          doomed := x.doomed.filter (· != p) }

inductive Act
  | conn (p : Nat)
  | ann (p f l : Nat)
  | ans (p n : Nat) (r : Resp)
  | drop (p : Nat)
  | timeout

def jNat? (j : Json) : Option Nat := match j.getNat? with | .ok n => some n | .error _ => none
def jStr? (j : Json) : Option String := match j.getStr? with | .ok n => some n | .error _ => none

def parseAct (j : Json) : Option Act :=
  match j.getArr? with
  | .error _ => none
  | .ok a =>
    let kind := (a[0]? >>= jStr?).getD ""
    let arg (i : Nat) : Option Nat := a[i]? >>= jNat?
    match kind, a.size with
    | "conn", 2 => (arg 1).map .conn
    | "ann", 4 => match arg 1, arg 2, arg 3 with
      | some p, some f, some l => some (.ann p f l)
      | _, _, _ => none
    | "ans", 4 =>
      match arg 1, arg 2, a[3]? >>= jStr? with
      | some p, some n, some k =>
        match k with
        | "ok" => some (.ans p n (.block n true))
        | "none" => some (.ans p n .empty)
        | "badpayload" => some (.ans p n (.block n false))
        | "fewsig" => some (.ans p n (.block n false))
        | "wronggen" => some (.ans p n (.block n false))
        | "wrong+" => some (.ans p n (.block (n + 1) true))
        | "wrong-" => if n = 0 then none else some (.ans p n (.block (n - 1) true))
        | _ => none
      | _, _, _ => none
    | "drop", 2 => (arg 1).map .drop
    | "timeout", 1 => some .timeout
    | _, _ => none

/-- One environment action on one candidate. `none`: refused. -/
def applyAct (x : Sys) : Act → Option Sys
  | .conn p =>
    if x.conns.contains p then none else
    (nstep? x.n (.q (.startAcc p))).map fun r => { x with n := r.1, conns := x.conns ++ [p] }
  | .ann p f l =>
    if x.dead.contains p || !x.conns.contains p then none else
    (nstep? x.n (.q (.announce p f (some l)))).map fun r => { x with n := r.1 }
  | .ans p n r =>
    if x.dead.contains p then none else
    match holdOf x.n p n with
    | none => none
    | some h =>
      match nstep? x.n (.resp h r) with
      | none => none
      | some (n1, _) =>
        -- did the task fail? then the connection goes down
        if (aget n1.tasks h).isNone then teardown { x with n := n1 } p else some { x with n := n1 }
  | .drop p => if x.dead.contains p || !x.conns.contains p then none else teardown x p
  | .timeout =>
    -- the calls time out one after the other (each task has its own deadline): the connections go down in some
    -- order, with the node running in between
    let ps := (x.n.q.holds.filter (fun e => (aget x.n.tasks e.1).isSome ∧ !x.dead.contains e.2.peer)).map (·.2.peer)
    some { x with doomed := sortNat ps.eraseDups }

/-! ## exploration -/

structure Node where
  x : Sys
  /-- observed requests not matched yet (sorted) -/
  rem : List (Nat × Nat)
deriving DecidableEq, Hashable

def canonX (x : Sys) : Sys := { x with n := canonN x.n }

/-- Tasks of dead connections (created by a hand-over that raced with the teardown) are dropped. -/
def deadTasks (x : Sys) : List Nat :=
  (x.n.q.holds.filter (fun e => x.dead.contains e.2.peer ∧ (aget x.n.tasks e.1).isSome)).map (·.1)

def eraseFirst (l : List (Nat × Nat)) (a : Nat × Nat) : Option (List (Nat × Nat)) :=
  if l.contains a then some (l.erase a) else none

/-- Internal events that are independent of every other process's events and of the peers' view: taking one of them
first loses no quiescent state and no hand-over (ample set of size one). `reqDone`; `reqCancel` of a request that is
not on offer; `accChanged p` / `accAbort p` while `accAvail p` is disabled (the announced ranges do not change inside a
step); the `queue` step of a parked task; the dropping of a dead connection's task. -/
def safeEvent (x : Sys) : Option (Sum NEvent Nat) :=
  let availDisabled (p : Nat) : Bool := (nstep? x.n (.q (.accAvail p))).isNone
  let ev := (nInternalEvents x.n).find? fun e =>
    (nstep? x.n e).isSome &&
    match e with
    | .q (.reqDone _) => true
    | .q (.reqCancel n) => (aget x.n.q.map n).isNone
    | .q (.accChanged p) => availDisabled p
    | .q (.accAbort p) => availDisabled p
    | .queue _ => true
    | _ => false
  match ev with
  | some e => some (.inl e)
  | none => (deadTasks x).head?.map .inr

def succsOf (nd : Node) (evs : List NEvent) (dead : List Nat) (timeouts : Bool) : List Node :=
  let x := nd.x
  let viaN : List Node := evs.filterMap fun e =>
    match nstep? x.n e with
    | none => none
    | some (n', o) =>
      match e with
      | .queue _ => (react { x with n := n' }).map fun x' => ⟨canonX x', nd.rem⟩
      | _ =>
        match o with
        | some (.accepted p b _) =>
          if x.dead.contains p then some ⟨canonX { x with n := n' }, nd.rem⟩
          else
            -- the request reaches the peer; the connection's loop calls `accept_block` again
            match eraseFirst nd.rem (p, b), nstep? n' (.q (.startAcc p)) with
            | some rem', some (n'', _) => some ⟨canonX { x with n := n'' }, rem'⟩
            | _, _ => none
        | _ => some ⟨canonX { x with n := n' }, nd.rem⟩
  -- a hand-over on a connection that is about to time out may not reach the peer any more
  let viaDoomed : List Node := evs.filterMap fun e =>
    match nstep? x.n e with
    | some (n', some (.accepted p _ _)) =>
      if x.doomed.contains p then some ⟨canonX { x with n := n' }, nd.rem⟩ else none
    | _ => none
  let viaDead : List Node := dead.filterMap fun h =>
    (nstep? x.n (.abort h)).map fun r => ⟨canonX { x with n := r.1 }, nd.rem⟩
  let viaTimeout : List Node := if timeouts then x.doomed.filterMap fun p =>
    (teardown x p).map fun x' => ⟨canonX x', nd.rem⟩ else []
  viaN ++ viaDoomed ++ viaDead ++ viaTimeout

/-- Successors; with `reduce`, a safe event (if one is enabled) is the only one taken. -/
def succs (reduce : Bool) (nd : Node) : List Node :=
  match (if reduce then safeEvent nd.x else none) with
  | some (.inl e) => succsOf nd [e] [] false
  | some (.inr h) => succsOf nd [] [h] false
  | none => succsOf nd (nInternalEvents nd.x.n) (deadTasks nd.x) true

def quiet (x : Sys) : Bool := nQuiescent x.n && (deadTasks x).isEmpty && x.doomed.isEmpty

/-- Depth-first closure; `none` = out of fuel. -/
def explore (reduce : Bool) : Nat → List Node → Std.HashSet Node → Option (Std.HashSet Node)
  | _, [], seen => some seen
  | 0, _ :: _, _ => none
  | f + 1, nd :: rest, seen =>
    if seen.contains nd then explore reduce f rest seen
    else explore reduce f (succs reduce nd ++ rest) (seen.insert nd)

def dedup (l : List Sys) : List Sys := l.foldl (fun acc s => if acc.contains s then acc else acc ++ [s]) []

/-! ## snapshots -/

def pairLt (a b : Nat × Nat) : Bool := a.1 < b.1 || (a.1 = b.1 && a.2 < b.2)

def heldOf (x : Sys) (only : Option GetSt) : List (Nat × Nat) :=
  let l := x.n.q.holds.filterMap fun e =>
    match aget x.n.tasks e.1 with
    | none => none
    | some t => if only.isNone ∨ only = some t then some (e.2.peer, e.2.num) else none
  (l.toArray.qsort pairLt).toList

def liveOf (x : Sys) : List Nat := sortNat (x.conns.filter (fun p => !x.dead.contains p))

def pairsJ (l : List (Nat × Nat)) : Json := Json.arr (l.map fun (a, b) => Json.arr #[natJ a, natJ b]).toArray

structure DState where
  cands : List Sys := []

def snapKey (x : Sys) :=
  (sortNat (akeys x.n.q.map), heldOf x none, heldOf x (some .parked), x.n.queuedNext, liveOf x)

def snapshot (x : Sys) : List (String × Json) :=
  [("blocks", Json.arr ((sortNat (akeys x.n.q.map)).map natJ).toArray),
   ("held", pairsJ (heldOf x none)),
   ("parked", pairsJ (heldOf x (some .parked))),
   ("queued", natJ x.n.queuedNext),
   ("live", Json.arr ((liveOf x).map natJ).toArray)]

def reject (why : String) : Json := Json.mkObj [("ev", Json.str ("REJECT: " ++ why))]

def FUEL : Nat := 200000

def parsePairs (a : Array Json) : Option (List (Nat × Nat)) :=
  a.toList.mapM fun j => match j.getArr? with
    | .ok b => match b[0]? >>= jNat?, b[1]? >>= jNat? with
      | some p, some n => some (p, n)
      | _, _ => none
    | .error _ => none

/-- The accepted quiescent end states among the explored nodes. -/
def accepted (nodes : List Node) : List Sys :=
  dedup (((nodes.filter (·.rem.isEmpty)).filter (quiet ·.x)).map (·.x))

/-- Settles a set of candidates against an observed multiset of requests. The reduced exploration is tried first (it
preserves the quiescent states); if it accepts nothing, every interleaving is explored before the step is rejected. -/
def settle (st : DState) (cands : List Sys) (trace : List (Nat × Nat)) (tag : String) : DState × Json :=
  let tr := (trace.toArray.qsort pairLt).toList
  let start : List Node := cands.map fun x => ⟨canonX x, tr⟩
  let red := (explore true FUEL start {}).map Std.HashSet.toList
  let (nodes?, mode) := match red with
    | some nodes => if (accepted nodes).isEmpty then ((explore false FUEL start {}).map Std.HashSet.toList, "full") else (some nodes, "reduced")
    | none => ((explore false FUEL start {}).map Std.HashSet.toList, "full")
  match nodes? with
  | none => (st, reject "exploration out of fuel")
  | some nodes =>
    let full := nodes.filter (·.rem.isEmpty)
    let qs := accepted nodes
    match qs with
    | [] =>
      if full.isEmpty then
        let best := nodes.foldl (fun m nd => min m nd.rem.length) tr.length
        (st, reject s!"the model allows no interleaving in which exactly these requests reach the peers ({best} of {tr.length} unmatched at best)")
      else
        (st, reject "node settled, but in every model state with these requests a future can still run (lost request / missed wake-up)")
    | x0 :: rest =>
      if rest.any (fun x => snapKey x ≠ snapKey x0) then
        (st, reject "candidates disagree on the snapshot")
      else
        ({ cands := qs },
         Json.mkObj ([(tag, Json.bool true), ("ev", pairsJ tr)] ++ snapshot x0 ++
           [("ncand", natJ qs.length), ("explored", natJ nodes.length), ("mode", Json.str mode)]))

def doInit (j : Json) : DState × Json :=
  let k := (getNat j "k").getD 2
  let f0 := Fetcher.init k 0 0
  match react { n := NState.init 0, f := f0, dead := [], conns := [] } with
  | none => ({}, reject "fetcher model emitted a refused queue event")
  | some x => settle {} [x] [] "init"

def doStep (st : DState) (j : Json) : DState × Json :=
  let bad := (st, Json.mkObj [("bad", Json.bool true)])
  if st.cands.isEmpty then bad else
  match getArr j "do" with
  | none => bad
  | some acts =>
  match acts.toList.mapM parseAct with
  | none => bad
  | some acts =>
  match (getArr j "trace").map parsePairs with
  | some none => (st, reject "unparsable trace")
  | tr =>
  let trace := (tr.bind id).getD []
  -- connections the node closed because a call the script meant to answer later ran into the rpc timeout
  let late := (getNatList j "late").getD []
  match st.cands.mapM (fun x => (acts.foldlM applyAct x).map fun y => { y with doomed := sortNat (y.doomed ++ late.filter (fun p => !y.dead.contains p ∧ !y.doomed.contains p)) }) with
  | none => bad
  | some cands => settle st cands trace "step"

def handle (st : DState) (j : Json) : DState × Json :=
  match getStr j "op" with
  | some "ninit" => doInit j
  | some "nstep" => doStep st j
  | _ => (st, Json.mkObj [("bad", Json.bool true)])

end Driver.C19n

def main : IO Unit := Driver.run ({} : Driver.C19n.DState) Driver.C19n.handle
