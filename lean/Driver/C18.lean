import Driver.Util
import EraVerif.Model.AddrBook

/-! Model driver for C18 (address book). Operation lines:

* `{"op":"update","reset":bool?,"vs":[key…],"batch":[{"k":key,"m":[addr,version,secs,nanos],"sb":signer,"sm":[addr,version,secs,nanos]}…]}`
* `{"op":"announce","reset":bool?,"k":key,"a":addr,"s":secs,"n":nanos}`

* `{"op":"stash"}` / `{"op":"converge"}`: remember / compare the book and the set of seen announcements
* `{"op":"contended","calls":[update|announce…],"poll":[…]}`: overlapping calls = the calls applied atomically in listed order
* `{"op":"seq","reset":bool?,"ops":[…]}`: a whole case as one line (replay files)

Observation: `class` (`ok` / `dup` / `badsig` / `announce` / `stash` / `converge`), `ok`, `notified`, `wrap` (announce only: the `u64`
`version + 1` wrapped) and `book`: the entries in ascending key order as
`[key, addr, version, secs, nanos, verifies]`. -/
namespace Driver.C18
open Lean Driver EraVerif.Model.AddrBook

def jInt? (v : Json) : Option Int :=
  match v.getInt? with | .ok n => some n | .error _ => none

def jNat? (v : Json) : Option Nat :=
  match v.getNat? with | .ok n => some n | .error _ => none

def getInt (j : Json) (k : String) : Option Int := (getObj j k).bind jInt?

def parseMsg (v : Json) : Option Msg :=
  match v.getArr? with
  | .ok a =>
    match a.toList with
    | [ad, ve, s, n] => do
      let ad ← jNat? ad
      let ve ← jNat? ve
      let s ← jInt? s
      let n ← jInt? n
      pure { addr := ad, version := ve, secs := s, nanos := n }
    | _ => none
  | .error _ => none

def parseAnn (v : Json) : Option Ann := do
  let k ← getNat v "k"
  let m ← (getObj v "m").bind parseMsg
  let sb ← getNat v "sb"
  let sm ← (getObj v "sm").bind parseMsg
  pure { key := k, msg := m, sigBy := sb, sigOver := sm }

def intJ (i : Int) : Json := Json.num (JsonNumber.fromInt i)

def annJ (a : Ann) : Json :=
  Json.arr #[natJ a.key, natJ a.msg.addr, natJ a.msg.version, intJ a.msg.secs, intJ a.msg.nanos, Json.bool a.verify]

def bookJ (b : Book) : Json := Json.arr ((snapshot b (keyBound b)).map annJ).toArray

structure St where
  book : Book := []
  seen : List Ann := []          -- entries of the batches accepted in the current case
  hasStash : Bool := false
  stashBook : Book := []
  stashSeen : List Ann := []

def handleOne (st0 : St) (j : Json) : St × Json :=
  let st := if getBool j "reset" == some true then { st0 with book := [], seen := [] } else st0
  let b := st.book
  match getStr j "op" with
  | some "update" =>
    match getNatList j "vs", (getArr j "batch").bind (fun a => a.toList.mapM parseAnn) with
    | some vs, some data =>
      let o := update vs b data
      let cls := match o.res with
        | .ok _ => "ok"
        | .error .duplicate => "dup"
        | .error .badSig => "badsig"
      let ok := match o.res with | .ok _ => true | .error _ => false
      ({ st with book := o.book, seen := if ok then st.seen ++ data else st.seen },
       Json.mkObj [("class", Json.str cls), ("ok", Json.bool ok), ("notified", Json.bool o.notified),
                   ("book", bookJ o.book)])
    | _, _ => (st, badOp)
  | some "announce" =>
    match getNat j "k", getNat j "a", getInt j "s", getInt j "n" with
    | some k, some a, some s, some n =>
      let b' := announce b k a s n
      ({ st with book := b' },
       Json.mkObj [("class", Json.str "announce"), ("ok", Json.bool true), ("notified", Json.bool true),
                   ("wrap", Json.bool (announceOverflows b k)), ("book", bookJ b')])
    | _, _, _, _ => (st, badOp)
  | some "stash" =>
    ({ st with hasStash := true, stashBook := b, stashSeen := st.seen },
     Json.mkObj [("class", Json.str "stash"), ("ok", Json.bool true), ("book", bookJ b)])
  | some "converge" =>
    if st.hasStash then
      let sameSeen := st.seen.all (fun a => st.stashSeen.contains a) && st.stashSeen.all (fun a => st.seen.contains a)
      let bound := max (keyBound b) (keyBound st.stashBook)
      let equal := decide (snapshot b bound = snapshot st.stashBook bound)
      (st, Json.mkObj [("class", Json.str "converge"), ("ok", Json.bool true), ("same_seen", Json.bool sameSeen),
                       ("equal", Json.bool equal), ("book", bookJ b)])
    else
      (st, Json.mkObj [("class", Json.str "converge"), ("ok", Json.bool true), ("same_seen", Json.bool false),
                       ("equal", Json.bool false), ("book", bookJ b)])
  | _ => (st, badOp)

/-- `{"op":"contended","calls":[…],"poll":[…]}`: overlapping `update`/`announce` calls. They serialise on the watch's
sender lock, which is a fair FIFO mutex: the model applies them atomically in queue (= listed) order; the order in
which the futures are polled afterwards (`poll`) has no influence. -/
def handleContended (st0 : St) (j : Json) : St × Json :=
  let st := if getBool j "reset" == some true then { st0 with book := [], seen := [] } else st0
  let calls := ((getArr j "calls").getD #[]).toList
  let rec go (st : St) (classes : List Json) (notified : Bool) : List Json → St × List Json × Bool
    | [] => (st, classes.reverse, notified)
    | c :: cs =>
      let (st', obs) := handleOne st (c.setObjVal! "reset" (Json.bool false))
      let cls := (getObj obs "class").getD (Json.str "bad_op")
      go st' (cls :: classes) (notified || getBool obs "notified" == some true) cs
  let (st', classes, notified) := go st [] false calls
  (st', Json.mkObj [("class", Json.str "contended"), ("ok", Json.bool true), ("results", Json.arr classes.toArray),
                    ("notified", Json.bool notified), ("book", bookJ st'.book)])

/-- `{"op":"seq","reset":b,"ops":[…]}` = a whole case as one line (replay files): the observation of its last op -/
def handle (st : St) (j : Json) : St × Json :=
  if getStr j "op" == some "seq" then
    let ops := ((getArr j "ops").getD #[]).toList
    let reset := getBool j "reset" == some true
    let rec go (st : St) (first : Bool) (last : Json) : List Json → St × Json
      | [] => (st, last)
      | o :: os =>
        let o := if first && reset then o.setObjVal! "reset" (Json.bool true) else o
        let (st', obs) := if getStr o "op" == some "contended" then handleContended st o else handleOne st o
        go st' false obs os
    go st true badOp ops
  else if getStr j "op" == some "contended" then handleContended st j
  else handleOne st j

end Driver.C18

def main : IO Unit := Driver.run ({} : Driver.C18.St) Driver.C18.handle
