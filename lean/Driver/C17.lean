import Driver.Util
import EraVerif.Model.Scope
import EraVerif.Model.Signal

/-!
Model driver of C17 (task scopes): trace acceptance.

One op per line: `{"reset":true,"op":"prog","top":<scope id>,"sids":[..],"prog":{..},"log":[event..]}`.
`log` is the totally ordered event log of one run of the program on the real code (`harness/src/bin/c17.rs`), each
event a JSON array:

```
["ctxnew",c,p,deadline|null]      ["make",s,c,p,owner|0,root]     ["spawn",p,c,reqMain]      ["start",c,main]
["end",t,out(0 ok|1 err|2 panic),val]   ["seterr",s,t,isPanic,stored,canceled]   ["rel",t]   ["rgd",s]
["cgd",s,canceled]   ["tgd",s]   ["ret",s,kind(0 ok|1 err|2 panic),val]   ["cancel",s,t,canceled]   ["obs",t,c]
["advance",d]
```

The log is replayed through `Model.Scope.step?`. Observation: `{"accepted":bool,"complete":bool,"result":..,"class":..}`
(+ diagnostics `_at`, `_event`, `_why` naming the first event the model does not allow); `result` is what the model
says the top scope returns for this log (recomputed from the final error slot), `complete`: every spawned task has
released its guard and every scope has returned (no internal action left pending).
-/
namespace Driver.C17
open Lean Driver EraVerif.Model.Scope

def jNat (j : Json) : Option Nat := match j.getNat? with | .ok n => some n | .error _ => none
def jBool (j : Json) : Option Bool := match j.getBool? with | .ok n => some n | .error _ => none
def jStr (j : Json) : Option String := match j.getStr? with | .ok n => some n | .error _ => none
def jOptNat (j : Json) : Option (Option Nat) :=
  match j with
  | .null => some none
  | _ => (jNat j).map some

def zeroNone (n : Nat) : Option Nat := if n = 0 then none else some n

def outOfNat : Nat → Option Out
  | 0 => some .ok
  | 1 => some .err
  | 2 => some .panic
  | _ => none

def resOfNat (k v : Nat) : Option Res :=
  match k with
  | 0 => some (.ok v)
  | 1 => some (.err v)
  | 2 => some .panic
  | _ => none

def parseEvent (j : Json) : Option Event := do
  let a ← (match j.getArr? with | .ok a => some a.toList | .error _ => none)
  match a with
  | name :: args =>
    let n ← jStr name
    match n, args with
    | "ctxnew", [c, p, d] => pure (.ctxnew (← jNat c) (← jNat p) (← jOptNat d))
    | "make", [s, c, p, o, r] => pure (.make (← jNat s) (← jNat c) (← jNat p) (zeroNone (← jNat o)) (← jNat r))
    | "spawn", [p, c, m] => pure (.spawn (← jNat p) (← jNat c) (← jBool m))
    | "start", [c, m] => pure (.start (← jNat c) (← jBool m))
    | "end", [t, o, v] => pure (.endT (← jNat t) (← outOfNat (← jNat o)) (← jNat v))
    | "seterr", [s, t, p, st, c] => pure (.seterr (← jNat s) (← jNat t) (← jBool p) (← jBool st) (← jBool c))
    | "rel", [t] => pure (.rel (← jNat t))
    | "rgd", [s] => pure (.rgd (← jNat s))
    | "cgd", [s, c] => pure (.cgd (← jNat s) (← jBool c))
    | "tgd", [s] => pure (.tgd (← jNat s))
    | "ret", [s, k, v] => pure (.ret (← jNat s) (← resOfNat (← jNat k) (← jNat v)))
    | "cancel", [s, t, c] => pure (.cancel (← jNat s) (← jNat t) (← jBool c))
    | "obs", [t, c] => pure (.obs (← jNat t) (← jNat c))
    | "advance", [d] => pure (.advance (← jNat d))
    | _, _ => none
  | [] => none

def resJ : Res → Json
  | .ok v => Json.str s!"ok:{v}"
  | .err v => Json.str s!"err:{v}"
  | .panic => Json.str "panic"
  | .unwrapPanic => Json.str "unwrap-panic"

def resClass : Res → String
  | .ok _ => "ok"
  | .err _ => "err"
  | .panic => "panic"
  | .unwrapPanic => "unwrap-panic"

def phaseStr : Phase → String
  | .absent => "absent" | .pending => "pending" | .running => "running" | .ended => "ended" | .released => "released"

/-- diagnostics only: which part of the state the rejected event ran into -/
def why (σ : State) : Event → String
  | .start c main =>
    let t := σ.task c
    let sc := σ.scope t.scope
    s!"start {c} main={main}: phase={phaseStr t.phase} reqMain={t.reqMain} mainClosed={sc.mainClosed} mainLow={sc.mainLow} termLow={sc.termLow}"
  | .seterr s t p st c =>
    let x := σ.task t
    s!"seterr s={s} t={t} panic={p} stored={st} canceled={c}: phase={phaseStr x.phase} scope={x.scope} reported={x.reported} shouldStore={shouldStore (σ.scope s).slot p}"
  | .rel t =>
    let x := σ.task t
    s!"rel {t}: phase={phaseStr x.phase} reported={x.reported} main={x.main} mainLow={(σ.scope x.scope).mainLow} termLow={(σ.scope x.scope).termLow}"
  | .cgd s c => s!"cgd {s} canceled={c}: cgd={(σ.scope s).cgd} mainLow={(σ.scope s).mainLow} termLow={(σ.scope s).termLow}"
  | .tgd s => s!"tgd {s}: tgd={(σ.scope s).tgd} termLow={(σ.scope s).termLow} cgd={(σ.scope s).cgd}"
  | .ret s r =>
    let sc := σ.scope s
    s!"ret {s}: tgd={sc.tgd} expected={resClass (resOf sc.slot (σ.task sc.root).out (σ.task sc.root).val)} got={resClass r}"
  | .obs t c => s!"obs t={t} c={c}: phase={phaseStr (σ.task t).phase} present={(σ.ctx c).present} eff={eff σ c}"
  | .rgd s => s!"rgd {s}: rgHeld={(σ.scope s).rgHeld} mainLow={(σ.scope s).mainLow}"
  | .spawn p c _ => s!"spawn p={p} c={c}: parent phase={phaseStr (σ.task p).phase} child phase={phaseStr (σ.task c).phase}"
  | .endT t _ _ => s!"end {t}: phase={phaseStr (σ.task t).phase} inner={σ.inner t}"
  | .cancel s t c => s!"cancel s={s} t={t} canceled={c}: phase={phaseStr (σ.task t).phase}"
  | .make s _ _ _ _ => s!"make {s}"
  | .ctxnew c p _ => s!"ctxnew {c} {p}"
  | .advance _ => "advance"

/-- `{"op":"race",..}`: the first poll of a `signal::Once` receiver racing with `send` (harness family `race`); the
model's verdict for that race (`Model.Signal.raceOk`, theorem `C17sig.race_ok`): no wake-up is lost -/
def handleRace : Json :=
  Json.mkObj [("accepted", Json.bool true), ("complete", Json.bool true), ("class", Json.str "race"),
              ("lost", Json.bool (!EraVerif.Model.Signal.raceOk))]

def handle (j : Json) : Json :=
  if (j.getObjValAs? String "op").toOption == some "race" then handleRace else
  match getArr j "log", getNat j "top" with
  | some logA, some top =>
    let sids := (getNatList j "sids").getD [top]
    -- parse; an event the driver cannot parse (e.g. "stray_cancel", "timeout") is an event the model does not allow
    let rec parseAll (l : List Json) (i : Nat) (acc : List Event) : List Event × Option (Nat × Json) :=
      match l with
      | [] => (acc.reverse, none)
      | x :: xs =>
        match parseEvent x with
        | some e => parseAll xs (i + 1) (e :: acc)
        | none => (acc.reverse, some (i, x))
    let (evs, bad) := parseAll logA.toList 0 []
    let (σ, stop) := runIdx init 0 evs
    let sc := σ.scope top
    let res : Res := match sc.result with
      | some r => r
      | none => resOf sc.slot (σ.task sc.root).out (σ.task sc.root).val
    let accepted := stop.isNone && bad.isNone
    let complete := accepted && quiescent σ sids
    let diag : List (String × Json) :=
      match stop, bad with
      | some i, _ => [("_at", natJ i), ("_event", (logA.toList.getD i Json.null)),
                      ("_why", Json.str (match evs.drop i with | e :: _ => why σ e | [] => ""))]
      | none, some (i, x) => [("_at", natJ i), ("_event", x), ("_why", Json.str "not an event of the model")]
      | none, none => []
    Json.mkObj ([("accepted", Json.bool accepted), ("complete", Json.bool complete), ("result", resJ res),
                 ("class", Json.str (resClass res))] ++ diag)
  | _, _ => badOp

end Driver.C17

def main : IO Unit := Driver.runPure Driver.C17.handle
