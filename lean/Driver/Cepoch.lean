import Driver.Util
import EraVerif.Model.Epoch

/-!
Model driver of the component `epoch` (harness `harness/src/bin/cepoch.rs`). One JSON operation per line:

* `boot` (first op of a case): the provider's table (`acts`, `coms`, `announce`), `first`, `static`, `hold`;
  a node is installed on an empty storage: `EngineManager::new`, the schedule task's first insert and first poll;
* `tick` (the poll interval passes), `jump` (side-channel persistence up to `to`), `verify`, `qblock`, `hold`,
  `gate` (slow provider), `persist` (the slow storage writes the next block it was handed), `spawn` (Config::new +
  Config::run of epoch `e`), `rstart` (stepped `StateMachine::start`), `prop`, `commits`, `restart`, `peer`.

Every op is a fixed list of events of `Model/Epoch.lean` (`step`), followed — in the `rep` / `run` families — by the
enabled internal events in a canonical order (`settle`: teardown, start, the view-0 bootstrap of `run`, a handler
resuming from `save_block`), which is what the harness does with the real tasks on a single-threaded runtime.
Durable writes made by an instance whose epoch is already over at that moment ("stale" w.r.t. the provider's table)
are left out of `wrote` on both sides (their order is a scheduling matter).
-/

namespace Driver.Cepoch
open Lean Driver EraVerif.Model.Epoch

/-- driver-side bookkeeping of one bft instance of the current process life -/
structure InstX where
  epoch : Nat
  stepped : Bool
  booted : Bool
  /-- inside `save_block`, waiting for this block to be persisted; the view to start afterwards -/
  blocked : Option (Nat × Nat)
  /-- `block_proposal_cache`: (number, payload id) -/
  cache : List (Nat × Nat)
  /-- number of `high_commit_qc` -/
  highQc : Option Nat

structure DState where
  node : Node := Node.init none 0
  truth : Truth := { acts := [], coms := [], announce := [] }
  fam : String := "mgr"
  up : Bool := false
  hold : Bool := false
  gateOpen : Bool := true
  /-- a poll blocked at the gate: the head it asked for -/
  pollHead : Option Nat := none
  asked : Nat := 0
  /-- epoch named by the certificate of each stored (queued or persisted) block -/
  blockEpoch : List (Nat × Nat) := []
  /-- handed to the storage, not written yet (numbers) -/
  pending : List Nat := []
  /-- proposals stored in the durable slot -/
  slotProps : List (Nat × Nat) := []
  slotQc : Option Nat := none
  xs : List InstX := []
  /-- non-stale durable writes of the current op -/
  wrote : List RState := []

def phaseStr : Phase → String
  | .prepare => "prepare"
  | .commit => "commit"
  | .timeout => "timeout"

def rstateJ (r : RState) : Json := Json.arr #[natJ r.epoch, natJ r.view, Json.str (phaseStr r.phase)]

def schedJ (s : Sched) : Json :=
  Json.arr (s.map fun (e, l) => Json.arr #[natJ e, natJ l.act, optNatJ l.exp, natJ l.com]).toArray

def lookupEpoch (l : List (Nat × Nat)) (n : Nat) : Option Nat :=
  match l.find? (fun p => p.1 == n) with
  | some p => some p.2
  | none => none

/-- the instance of epoch `x` acts although the last block of `x` is persisted (w.r.t. the provider's table) -/
def stale (t : Truth) (x next : Nat) : Bool :=
  match t.acts[x + 1]? with
  | some a => decide (a ≤ next)
  | none => false

def findX (xs : List InstX) (e : Nat) : Option InstX := xs.find? (fun x => x.epoch == e)

def setX (xs : List InstX) (x : InstX) : List InstX := xs.map fun y => if y.epoch == x.epoch then x else y

/-- applies a model event; an event that is not enabled leaves the state unchanged (and is reported) -/
def ev (d : DState) (e : Ev) : DState × Bool :=
  match step d.node e with
  | some n => ({ d with node := n }, true)
  | none => (d, false)

/-- records the durable write the last event made (the slot's new content) unless its writer is stale -/
def noteWrite (d : DState) (cache : List (Nat × Nat)) (qc : Option Nat) : DState :=
  match d.node.slot with
  | some st =>
    let d := { d with slotProps := cache, slotQc := qc }
    if stale d.truth st.epoch d.node.persistedNext then d else { d with wrote := d.wrote ++ [st] }
  | none => d

/-! ### the schedule task -/

def lastKind (d : DState) : LastKind :=
  match d.node.persistedNext with
  | 0 => .empty
  | n + 1 =>
    match lookupEpoch d.blockEpoch n with
    | some e => .final e
    | none => .empty

/-- one iteration of the polling loop; `none` = the task panicked -/
def pollNow (d : DState) : Option DState :=
  if !d.node.runnerUp || d.pollHead.isSome then some d else
  let head := headOf d.node.persistedNext
  match runnerPoll { sched := d.node.sched, cur := d.node.cur } head (d.truth.provPending head) with
  | .panic => none
  | .ok _ false => some d
  | .ok _ true =>
    if d.gateOpen then
      let (d, _) := ev d (.poll (d.truth.provPending head))
      some { d with asked := d.asked + 1 }
    else some { d with asked := d.asked + 1, pollHead := some head }

/-- the gate opens: the blocked call returns the answer for the head it was asked at -/
def pollResume (d : DState) : Option DState :=
  match d.pollHead with
  | none => some d
  | some head =>
    match runnerPoll { sched := d.node.sched, cur := d.node.cur } head (d.truth.provPending head) with
    | .panic => none
    | .ok r _ => some { d with node := { d.node with sched := r.sched, cur := r.cur }, pollHead := none }

/-- `EngineManager::new` + the start of the runner: first insert, first poll -/
def startLife (d : DState) : Option DState :=
  if d.node.static.isSome then some d else
  let head := match d.node.persistedNext with
    | 0 => 0
    | n + 1 => n
  let firstBlock := match d.truth.acts[0]? with
    | some a => a
    | none => 0
  -- `(head, cur_epoch)`: the last persisted block, or `genesis.first_block` on an empty store
  let head := match lastKind d with
    | .final _ => head
    | _ => firstBlock
  match d.truth.provSchedule head with
  | none => none
  | some (act, com) =>
    let (d, _) := ev d (.runnerInit (lastKind d) act com)
    pollNow d

/-! ### run to quiescence -/

def settleOnce (d : DState) : DState × Bool :=
  -- 1. teardown
  let r1 := d.xs.foldl (fun (acc : DState × Bool) x =>
    let d := acc.1
    if x.stepped then acc else
    match d.node.inst x.epoch with
    | .waiting | .running _ _ =>
      let (d', ok) := ev d (.teardown x.epoch)
      if ok then ({ d' with xs := setX d'.xs { x with blocked := none } }, true) else acc
    | _ => acc) (d, false)
  -- 2. start
  let r2 := r1.1.xs.foldl (fun (acc : DState × Bool) x =>
    let d := acc.1
    if x.stepped then acc else
    match d.node.inst x.epoch with
    | .waiting =>
      let (d', ok) := ev d (.start x.epoch)
      if ok then
        let mine := match d.node.slot with
          | some st => st.epoch == x.epoch
          | none => x.epoch == 0
        let x' := { x with booted := false, cache := if mine then d.slotProps else [],
                           highQc := if mine then d.slotQc else none }
        ({ d' with xs := setX d'.xs x' }, true)
      else acc
    | _ => acc) (r1.1, r1.2)
  -- 3. the view-0 bootstrap of `StateMachine::run`
  let r3 := r2.1.xs.foldl (fun (acc : DState × Bool) x0 =>
    let d := acc.1
    match findX d.xs x0.epoch with
    | none => acc
    | some x =>
      if x.stepped || x.booted then acc else
      match d.node.inst x.epoch with
      | .running v _ =>
        let d := { d with xs := setX d.xs { x with booted := true } }
        if v == 0 then
          let (d', ok) := ev d (.timeout x.epoch)
          if ok then (noteWrite d' x.cache x.highQc, true) else (d, true)
        else (d, true)
      | _ => acc) (r2.1, r2.2)
  -- 4. a handler resumes from `save_block`
  let r4 := r3.1.xs.foldl (fun (acc : DState × Bool) x0 =>
    let d := acc.1
    match findX d.xs x0.epoch with
    | none => acc
    | some x =>
      match x.blocked with
      | some (n, nv) =>
        if n < d.node.persistedNext then
          match d.node.inst x.epoch with
          | .running _ _ =>
            let cache := match x.highQc with
              | some q => x.cache.filter (fun p => decide (q < p.1))
              | none => x.cache
            let x' := { x with blocked := none, cache := cache }
            let d := { d with xs := setX d.xs x' }
            let (d', ok) := ev d (.newView x.epoch nv)
            if ok then (noteWrite d' cache x.highQc, true) else (d, true)
          | _ => ({ d with xs := setX d.xs { x with blocked := none } }, true)
        else acc
      | none => acc) (r3.1, r3.2)
  r4

def settle (d : DState) : DState :=
  (List.range 12).foldl (fun d _ => (settleOnce d).1) d

/-! ### storage -/

/-- a block with number `n` (certificate naming `epoch`) is appended to the queue if it is the next one, and the
hand-off task gives it to the storage -/
def pushBlock (d : DState) (n epoch : Nat) : DState :=
  if n == d.node.queuedNext then
    let (d, _) := ev d .queue
    let d := { d with blockEpoch := (n, epoch) :: d.blockEpoch.filter (fun p => p.1 != n) }
    if d.hold then { d with pending := d.pending ++ [n] }
    else if n == d.node.persistedNext then (ev d .persist).1 else d
  else d

def runObs (d : DState) : List (String × Json) :=
  let done := (d.xs.filter fun x => !x.stepped && (match d.node.inst x.epoch with
    | .done => true
    | _ => false)).map (fun x => x.epoch)
  [("next", natJ d.node.persistedNext), ("queued", natJ d.node.queuedNext),
   ("wrote", Json.arr (d.wrote.map rstateJ).toArray),
   ("done", Json.arr (done.map natJ).toArray)]

def famRun (d : DState) : Bool := d.fam != "mgr"

def finishRun (d : DState) (extra : List (String × Json)) : DState × Json :=
  let d := settle d
  ({ d with wrote := [] }, Json.mkObj (extra ++ runObs d))

def finish (d : DState) (extra : List (String × Json)) : DState × Json :=
  if famRun d then finishRun d extra else (d, Json.mkObj extra)

def panicJ : Json := Json.mkObj [("panic", Json.str "schedule task")]

/-! ### ops -/

def getNatD (j : Json) (k : String) : Nat := (getNat j k).getD 0

def newInst (e : Nat) (stepped : Bool) : InstX :=
  { epoch := e, stepped := stepped, booted := stepped, blocked := none, cache := [], highQc := none }

def handle (d : DState) (j : Json) : DState × Json :=
  let d := { d with wrote := [] }
  match getStr j "op" with
  | some "boot" =>
    let first := getNatD j "first"
    let truth : Truth := { acts := (getNatList j "acts").getD [], coms := (getNatList j "coms").getD [],
                           announce := (getNatList j "announce").getD [] }
    let isStatic := (getBool j "static").getD false
    let static : Option (Nat × Nat) := if isStatic then some (first, truth.coms.headD 0) else none
    let d : DState := { node := Node.init static first, truth := truth, fam := (getStr j "fam").getD "mgr",
                        up := true, hold := (getBool j "hold").getD false }
    match startLife d with
    | none => (d, panicJ)
    | some d => (d, Json.mkObj [("sched", schedJ d.node.sched), ("asked", natJ d.asked), ("next", natJ d.node.persistedNext)])
  | some "tick" =>
    match pollNow d with
    | none => (d, panicJ)
    | some d =>
      let (d, o) := finish d []
      (d, o.mergeObj (Json.mkObj [("sched", schedJ d.node.sched), ("asked", natJ d.asked)]))
  | some "jump" =>
    let to := getNatD j "to"
    let d := (List.range (to + 1 - d.node.persistedNext)).foldl (fun (d : DState) _ =>
      let n := d.node.persistedNext
      let d := { d with blockEpoch := (n, d.truth.epochOf n) :: d.blockEpoch.filter (fun p => p.1 != n),
                        pending := d.pending.filter (fun m => m != n) }
      (ev d .syncPersist).1) d
    finish d (if famRun d then [] else [("next", natJ d.node.persistedNext)])
  | some "verify" =>
    (d, Json.mkObj [("ok", Json.bool (verifyPayloadGuard d.node.sched (getNatD j "n") (getNatD j "e")))])
  | some "qblock" =>
    let n := getNatD j "n"
    let claimed := getNatD j "claimed"
    let v := queueBlockVerify d.node.sched claimed (getNatD j "by") ((getBool j "payok").getD true)
    let cls := match v with
      | .ok => "ok"
      | .noSchedule => "no_schedule"
      | .badBlock => "bad_block"
    let d := if v == .ok then pushBlock d n claimed else d
    let (d, o) := finish d [("class", Json.str cls)]
    (d, o.mergeObj (Json.mkObj [("queued", natJ d.node.queuedNext), ("next", natJ d.node.persistedNext)]))
  | some "hold" => ({ d with hold := (getBool j "on").getD true }, Json.mkObj [])
  | some "gate" =>
    let d := { d with gateOpen := (getBool j "open").getD true }
    match (if d.gateOpen then pollResume d else some d) with
    | none => (d, panicJ)
    | some d =>
      let (d, o) := finish d []
      (d, o.mergeObj (Json.mkObj [("sched", schedJ d.node.sched)]))
  | some "persist" =>
    match d.pending with
    | [] => finish d [("had", Json.bool false)]
    | n :: rest =>
      let d := { d with pending := rest }
      let d := if n == d.node.persistedNext then (ev d .persist).1 else d
      finish d [("had", Json.bool true)]
  | some "spawn" =>
    let e := getNatD j "e"
    let ok := (schedOf d.node.sched e).isSome && (findX d.xs e).isNone
    let d := if ok then { (ev d (.spawn e)).1 with xs := d.xs ++ [newInst e false] } else d
    finish d [("ok", Json.bool ok)]
  | some "rstart" =>
    let e := getNatD j "e"
    let ok := (schedOf d.node.sched e).isSome && (findX d.xs e).isNone
    if ok then
      let mine := match d.node.slot with
        | some st => st.epoch == e
        | none => e == 0
      let d := (ev (ev d (.spawn e)).1 (.start e)).1
      let x := { newInst e true with cache := if mine then d.slotProps else [], highQc := if mine then d.slotQc else none }
      let d := { d with xs := d.xs ++ [x] }
      let (v, p) := match d.node.inst e with
        | .running v p => (v, p)
        | _ => (0, .prepare)
      finish d [("ok", Json.bool true), ("view", natJ v), ("phase", Json.str (phaseStr p))]
    else finish d [("ok", Json.bool false)]
  | some "prop" =>
    let e := getNatD j "e"
    let view := getNatD j "view"
    let n := getNatD j "n"
    let pay := getNatD j "pay"
    match findX d.xs e, d.node.inst e with
    | some x, .running cv p =>
      if x.blocked.isSome then finish d [("voted", Json.bool false)] else
      let cls : String :=
        if !proposalFresh cv p view then "rejected:Old"
        else if !startReady n d.node.persistedNext then "rejected:MissingPreviousPayload"
        else if !verifyPayloadGuard d.node.sched n e then "rejected:InvalidPayload"
        else "accepted"
      if cls == "accepted" then
        let (d, ok) := ev d (.vote e view (some n) pay)
        -- the justification's certificate (for block n-1 unless it is the view-0 timeout certificate)
        let qc : Option Nat := if (getStr j "just") == some "t" then x.highQc else
          match x.highQc with
          | some q => some (max q (n - 1))
          | none => some (n - 1)
        let x' := { x with cache := (n, pay) :: x.cache.filter (fun c => c != (n, pay)), highQc := qc }
        let d := { d with xs := setX d.xs x' }
        let d := if ok then noteWrite d x'.cache x'.highQc else d
        let extra := (if x.stepped then [("class", Json.str cls)] else []) ++ [("voted", Json.bool ok)]
        finish d extra
      else
        -- a stepped handler that waits for the previous block gives up when the harness lets the view deadline pass;
        -- the poll interval of the schedule task passes with it
        let d := if x.stepped && cls == "rejected:MissingPreviousPayload" then (pollNow d).getD d else d
        finish d ((if x.stepped then [("class", Json.str cls)] else []) ++ [("voted", Json.bool false)])
    | _, _ => finish d [("voted", Json.bool false)]
  | some "commits" =>
    let e := getNatD j "e"
    let view := getNatD j "view"
    let n := getNatD j "n"
    let pay := getNatD j "pay"
    match findX d.xs e, d.node.inst e with
    | some x, .running cv _ =>
      if x.blocked.isSome || view < cv then finish d [] else
      -- the certificate forms: process_commit_qc
      let newer := match x.highQc with
        | some q => decide (q < n)
        | none => true
      let x1 := { x with highQc := if newer then some n else x.highQc }
      let cached := x.cache.contains (n, pay)
      let d := { d with xs := setX d.xs x1 }
      let d := if newer && cached then pushBlock d n e else d
      if newer && cached && !(n < d.node.persistedNext) then
        -- stuck in `wait_until_persisted`
        let d := { d with xs := setX d.xs { x1 with blocked := some (n, view + 1) } }
        finish d []
      else
        let cache := match x1.highQc with
          | some q => x1.cache.filter (fun p => decide (q < p.1))
          | none => x1.cache
        let x2 := { x1 with cache := cache }
        let d := { d with xs := setX d.xs x2 }
        let (d, ok) := ev d (.newView e (view + 1))
        let d := if ok then noteWrite d cache x2.highQc else d
        finish d []
    | _, _ => finish d []
  | some "restart" =>
    let (d, _) := ev d .crash
    let d := { d with xs := [], pending := [], pollHead := none,
                      gateOpen := (getBool j "gate").getD d.gateOpen,
                      blockEpoch := d.blockEpoch.filter (fun p => decide (p.1 < d.node.persistedNext)) }
    match startLife d with
    | none => (d, panicJ)
    | some d =>
      let (d, o) := finishRun d []
      (d, o.mergeObj (Json.mkObj [("sched", schedJ d.node.sched), ("asked", natJ d.asked)]))
  | some "peer" => (d, Json.mkObj [("agree", Json.bool true), ("b_ok", Json.bool true)])
  | _ => (d, badOp)

end Driver.Cepoch

def main : IO Unit := Driver.run ({} : Driver.Cepoch.DState) Driver.Cepoch.handle
