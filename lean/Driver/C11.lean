import Driver.Util
import EraVerif.Model.Leader

/-!
Model driver of C11 (leader election). Every op line is self-contained (it carries the whole schedule):

* `{"op":"new","vals":[[id,weight,leader],..],"mode":"rr"|"w","freq":n}`
    → `{"ok":true,"vec":[ids in stored order],"leaders":[positions],"total":n}` | `{"ok":false}`
* `{"op":"leader", …schedule…, "view":v, "hs":[[turn,"<decimal Keccak256 of the turn's 8 BE bytes>"],..]}`
    → `{"ok":true,"leader":id}` | `{"ok":false}` (schedule rejected) | `{"panic":site}`
* `{"op":"scan", …schedule…, "start":v, "count":c, "hs":[..]}` (views `start … start+c-1`, clipped at 2^64-1)
    → `{"ok":true,"leaders":[ids]}` | `{"ok":false}` | `{"panic":site}`

`H` of the model is the table `hs` (the real Keccak on the queried points, computed by the harness through
`zksync_consensus_crypto::keccak256`); if the model needs the hash of a turn that is not in the table the answer is
`{"hmiss":turn}`, which the comparison reports as a disagreement.
-/
namespace Driver.C11
open Lean Driver EraVerif.Model.Leader EraVerif.Gen

def parseVal (j : Json) : Option VInfo :=
  match j.getArr? with
  | .ok a =>
    if a.size ≠ 3 then none else
    match a[0]!.getNat?, a[1]!.getNat?, a[2]!.getBool? with
    | .ok k, .ok w, .ok l => some { key := k, weight := w, leader := l }
    | _, _, _ => none
  | .error _ => none

def parseSched (j : Json) : Option (List VInfo × Sel) := do
  let a ← getArr j "vals"
  let vals ← a.toList.mapM parseVal
  let m ← getStr j "mode"
  let mode ← (if m == "rr" then some Mode.roundRobin else if m == "w" then some Mode.weighted else none)
  let freq ← getNat j "freq"
  some (vals, { frequency := freq, mode := mode })

def parseHs (j : Json) : Option (List (Nat × Nat)) := do
  let a ← getArr j "hs"
  a.toList.mapM fun e =>
    match e.getArr? with
    | .ok p =>
      if p.size ≠ 2 then none else
      match p[0]!.getNat?, p[1]!.getStr? with
      | .ok t, .ok s => s.toNat?.map fun h => (t, h)
      | _, _ => none
    | .error _ => none

def lookupH (tab : List (Nat × Nat)) (t : Nat) : Option Nat := (tab.find? (fun p => p.1 == t)).map (·.2)

def hOf (tab : List (Nat × Nat)) : Nat → Nat := fun t => (lookupH tab t).getD 0

def idsJ (l : List Nat) : Json := Json.arr (l.map natJ).toArray

def errName : NewErr → String
  | .duplicateKey => "duplicate"
  | .zeroWeight => "zero_weight"
  | .weightOverflow => "overflow"
  | .empty => "empty"
  | .noLeader => "no_leader"

def rejected (e : NewErr) : Json :=
  Json.mkObj [("ok", Json.bool false), ("class", Json.str "rejected"), ("err", Json.str (errName e))]

def modeSuffix (s : Schedule) : String :=
  match s.sel.mode with
  | .roundRobin => "rr"
  | .weighted => "weighted"
def panicJ (site : String) : Json := Json.mkObj [("panic", Json.str site)]

/-- the turn whose hash the weighted arm will ask for, if the table lacks it -/
def missing (tab : List (Nat × Nat)) (s : Schedule) (view : Nat) : Option Nat :=
  match s.sel.mode with
  | .roundRobin => none
  | .weighted =>
    match LeaderSel.turn view s.sel.frequency with
    | none => none
    | some t => if (lookupH tab t).isSome then none else some t

/-- leaders of the views `v, v+1, …` (at most `n`, stopping after 2^64 − 1) -/
def scan (tab : List (Nat × Nat)) (s : Schedule) : Nat → Nat → List Nat → Json
  | 0, _, acc => Json.mkObj [("ok", Json.bool true), ("class", Json.str ("scan_" ++ modeSuffix s)),
                             ("leaders", idsJ acc.reverse)]
  | n + 1, v, acc =>
    if v ≥ EraVerif.Model.LeaderOps.U64 then
      Json.mkObj [("ok", Json.bool true), ("class", Json.str ("scan_" ++ modeSuffix s)), ("leaders", idsJ acc.reverse)]
    else match missing tab s v with
    | some t => Json.mkObj [("hmiss", natJ t)]
    | none =>
      match viewLeader (hOf tab) s v with
      | .panic site => panicJ site
      | .ok k => scan tab s n (v + 1) (k :: acc)

def handle (j : Json) : Json :=
  match getStr j "op", parseSched j with
  | some op, some (vals, sel) =>
    match Schedule.new vals sel with
    | .panic site => panicJ site
    | .err e => rejected e
    | .ok s =>
      if op == "new" then
        Json.mkObj [("ok", Json.bool true), ("class", Json.str "new"), ("vec", idsJ (s.vec.map (·.key))), ("leaders", idsJ s.leaders),
                    ("total", natJ s.totalWeight), ("leader_weight", natJ s.leaderWeight)]
      else match parseHs j with
      | none => badOp
      | some tab =>
        if op == "leader" then
          match getNat j "view" with
          | none => badOp
          | some view =>
            match missing tab s view with
            | some t => Json.mkObj [("hmiss", natJ t)]
            | none =>
              match viewLeader (hOf tab) s view with
              | .panic site => panicJ site
              | .ok k => Json.mkObj [("ok", Json.bool true), ("class", Json.str ("leader_" ++ modeSuffix s)),
                                     ("leader", natJ k)]
        else if op == "scan" then
          match getNat j "start", getNat j "count" with
          | some start, some count => scan tab s count start []
          | _, _ => badOp
        else badOp
  | _, _ => badOp

end Driver.C11

def main : IO Unit := Driver.runPure Driver.C11.handle
