import Driver.Util
import EraVerif.Model.C10Std
import EraVerif.Model.C10Mux
import EraVerif.Model.C10Frame
import EraVerif.Model.C10Noise
import EraVerif.Model.C10Read
import EraVerif.Model.C10Readers
import EraVerif.Model.C10Canon
import EraVerif.Model.C10Verify
import EraVerif.Model.C10Votes
import EraVerif.Model.C10Store

/-!
Model driver of C10. One JSON operation per line, one JSON observation per line.

* `{"op":"dur"|"ts","s":i64?,"n":i32?}`                      → `{"class","secs","nanos"}`
* `{"op":"bitvec","size":u64?,"bytes":len?}`                 → `{"class","len"}`
* `{"op":"sockaddr","ip":len?,"port":u32?}`                  → `{"class","v","port"}`
* `{"op":"read","ty":name,"v":tree}`                         → `{"class"}`  (tree: see `pvOf`)
* `{"op":"wire","ty":name,"hex":..}` bytes prost rejects      → `{"class":"err"}`
* `{"op":"mux","cfg":{"rfs","rbs","rfc"},"na","nc","bytes":[..],"eof":bool}` → `{"class","consumed"}`
* `{"op":"muxhs","accept":[{"id"?,"max"?}],"connect":[..],"ours_accept":[[cap,max]..],"ours_connect":[..]}`
                                                              → `{"class","streams"}`
* `{"op":"frame","kind":"recv"|"mux","max":M,"avail":[bytes],"dec":bool}` → `{"class","alloc_le_max"}`
* `{"op":"preface","s1":[bytes],"s1dec":bool,"hs":bool,"s3":[bytes],"s3dec":bool}` → `{"class","alloc_le_max"}`
* `{"op":"noise","segs":[{"n":lenfield,"body":present,"auth":bool}],"k":bufsize,"frags":[..]}` → `{"total","end"}`
* `{"op":"canon","occ":[..]}`                                 → `{"class"}`
* `{"op":"sel","old":{"key","kind","inner"},"new":{..}}`      → `{"sel","old_view","new_view"}`
* `{"op":"cqc","ctx":{..},"qc":{..}}`, `{"op":"tqc",..}`, `{"op":"implied",..}` → `{"class",..}`
* `{"op":"votes","ctx":{..},"msgs":[{"kind":"commit"|"timeout","signer":i|null,"sig":bool,"m":vote|tvote}]}` → `{"verdicts":[..],"view"}`
* `{"op":"bss","first":F,"last":null|n,"n":N}` (`BlockStoreState::{contains,head,verify,next}`) → `{"contains","head","verify","next"}`
* `{"op":"node",..}` a real node instance fed absurd RPC messages: it must stay alive → `{"ping":true,"fetched":true}`
* `{"op":"replica",..}` (only exercised on the implementation) → `{}`
-/
namespace Driver.C10
open Lean Driver EraVerif.Model.C10

def getInt (j : Json) (k : String) : Option Int :=
  match j.getObjVal? k with
  | .ok v => (match v.getInt? with | .ok n => some n | .error _ => none)
  | .error _ => none

def strJ (s : String) : Json := Json.str s
def intJ (n : Int) : Json := Json.num (JsonNumber.fromInt n)
def obj (l : List (String × Json)) : Json := Json.mkObj l
def clsOf {α : Type} (r : Res α) : List (String × Json) :=
  match r with
  | .ok _ => [("class", strJ "ok")]
  | .err w => [("class", strJ "err"), ("_why", strJ w)]
  | .panic s => [("panic", strJ s)]

/-! ### std leaves -/
def opDur (ts : Bool) (j : Json) : Json :=
  let r : PDur := ⟨getInt j "s", getInt j "n"⟩
  let res := if ts then timestampRead r else durationRead r
  match res with
  | .ok d => obj ([("class", strJ "ok"), ("secs", intJ d.secs), ("nanos", intJ d.nanos),
        ("build_s", intJ (durationBuildWrap d).1), ("build_n", intJ (durationBuildWrap d).2),
        ("build_checked_ok", Json.bool (durationBuild d).isOk)] ++
      (if ts then [("display_ok", Json.bool (utcDisplay d).isOk), ("debug_ok", Json.bool (utcDebug d).isOk)] else []))
  | r => obj (clsOf r)

def opBitvec (j : Json) : Json :=
  match bitvecRead ⟨getNat j "size", getNat j "bytes"⟩ with
  | .ok n => obj [("class", strJ "ok"), ("len", natJ n)]
  | r => obj (clsOf r)

def opSockaddr (j : Json) : Json :=
  match sockaddrRead ⟨getNat j "ip", getNat j "port"⟩ with
  | .ok (v, p) => obj [("class", strJ "ok"), ("v", natJ v), ("port", natJ p)]
  | r => obj (clsOf r)

/-! ### generic reads -/
instance : Inhabited PV := ⟨.msg .nil⟩
instance : Inhabited (Res Unit) := ⟨.ok ()⟩
/-- tree encoding: number → scalar; bool; `{"$b":len,"$id":k,"$tp":bool}` → bytes; `{"$s":bool}` → string;
array → repeated; any other object → message -/
partial def pvOf (j : Json) : PV :=
  match j with
  | .num _ => match j.getInt? with
    | .ok n => .int n
    | .error _ => .int 0
  | .bool b => .bool b
  | .arr a => .list (PVs.ofList (a.toList.map pvOf))
  | .obj kvs =>
    match j.getObjVal? "$b" with
    | .ok l => .bytes ((l.getNat?.toOption).getD 0) ((getNat j "$id").getD 0) ((getBool j "$tp").getD false)
    | .error _ =>
      match j.getObjVal? "$s" with
      | .ok b => .str ((b.getBool?.toOption).getD false)
      | .error _ =>
        .msg (kvs.foldl (fun acc k v => match v with
          | .null => acc
          | v => PFields.cons k (pvOf v) acc) PFields.nil)
  | _ => .msg .nil

def opRead (j : Json) : Json :=
  match getStr j "ty", getObj j "v" with
  | some ty, some v =>
    match Readers.readerOf ty with
    | some rd => obj (clsOf (rd.run (pvOf v)))
    | none => obj [("unknown_type", strJ ty)]
  | _, _ => badOp

/-! ### mux -/
def outcomeName : Mux.Outcome → String
  | .closed => "closed" | .protocol => "protocol" | .blocked => "pending" | .waiting => "pending" | .panic _ => "panic"

def opMux (j : Json) : Json :=
  match getObj j "cfg", getNat j "na", getNat j "nc", (getNatList j "bytes").getD [], getBool j "eof" with
  | some c, some na, some nc, bytes0, some eof =>
    -- optional compact tail: `"pat":[..]` repeated `"times"` times after `"bytes"` (floods)
    let pat := (getNatList j "pat").getD []
    let times := (getNat j "times").getD 0
    let bytes := bytes0 ++ (List.replicate times pat).flatten
    match getNat c "rfs", getNat c "rbs", getNat c "rfc" with
    | some rfs, some rbs, some rfc =>
      let (s, o) := Mux.run (Mux.fuelFor bytes) (Mux.St.init ⟨rfs, rbs, rfc⟩ na nc bytes eof)
      match o with
      | some (.panic site) => obj [("panic", strJ site)]
      | some o => obj [("class", strJ (outcomeName o)), ("consumed", natJ s.consumed),
          ("_detail", strJ (reprStr o)), ("_live", natJ s.live.length), ("_live_bytes", natJ s.live.sum)]
      | none => obj [("class", strJ "diverges")]
    | _, _, _ => badOp
  | _, _, _, _, _ => badOp

def capsOf (j : Json) (k : String) : List Mux.PCap :=
  ((getArr j k).getD #[]).toList.map fun c => ⟨getNat c "id", getNat c "max"⟩

def pairsOf (j : Json) (k : String) : List (Nat × Nat) :=
  ((getArr j k).getD #[]).toList.filterMap fun p =>
    match p.getArr? with
    | .ok a => if a.size = 2 then
        (match a[0]!.getNat?, a[1]!.getNat? with | .ok x, .ok y => some (x, y) | _, _ => none) else none
    | .error _ => none

def opMuxHs (j : Json) : Json :=
  match Mux.handshakeRead (capsOf j "accept") (capsOf j "connect") with
  | .ok (peerAccept, peerConnect) =>
    -- our accept streams pair with the peer's connect table and vice versa
    match Mux.spawnStreams (pairsOf j "ours_accept") peerConnect, Mux.spawnStreams (pairsOf j "ours_connect") peerAccept with
    | .ok a, .ok c => obj [("class", strJ "closed"), ("streams", natJ (a + c))]
    | .panic s, _ => obj [("panic", strJ s)]
    | _, .panic s => obj [("panic", strJ s)]
    | _, _ => badOp
  | .err w => obj [("class", strJ "protocol"), ("streams", natJ 0), ("_why", strJ w)]
  | .panic s => obj [("panic", strJ s)]

/-! ### frames, preface -/
def opFrame (j : Json) : Json :=
  match getStr j "kind", getNat j "max", getNatList j "avail", getBool j "dec" with
  | some kind, some max, some avail, some dec =>
    if kind = "mux" then
      -- through `rpc::Service`: the peer only sees whether the server answered; a bad request closes the transient
      -- stream, never the connection
      let r := Frame.muxRecvProto (fun _ => dec) max avail
      obj [("class", strJ (if r.cls = .ok then "ok" else "rejected")), ("alive", Json.bool true),
           ("alloc_le_max", Json.bool (decide (r.alloc ≤ max))), ("_cls", strJ r.cls.name)]
    else
      let r := Frame.recvProto (fun _ => dec) max avail
      obj [("class", strJ r.cls.name), ("alloc_le_max", Json.bool (decide (r.alloc ≤ max))), ("_alloc", natJ r.alloc)]
  | _, _, _, _ => badOp

/-- `{"op":"trunc","max":M,"avail":[bytes],"dec":bool}`: `frame::mux_recv_proto` on a real mux stream fed
`avail` (full length prefix of a valid message + a prefix of its body) and then CLOSEd -/
def opTrunc (j : Json) : Json :=
  match getNat j "max", getNatList j "avail", getBool j "dec" with
  | some max, some avail, some dec =>
    let r := Frame.muxRecvProto (fun _ => dec) max avail
    let c := match r.cls with
      | .ok => "ok" | .tooLarge => "too_large" | .eosLen => "eos" | .eosBody => "eos" | .decodeErr => "decode_err"
    obj [("class", strJ c)]
  | _, _, _ => badOp

def opPreface (j : Json) : Json :=
  match getNatList j "s1", getBool j "s1dec", getBool j "hs", getNatList j "s3", getBool j "s3dec" with
  | some s1, some d1, some hs, some s3, some d3 =>
    let (c, a) := Frame.prefaceAccept ⟨s1, d1, hs, s3, d3⟩
    obj [("class", strJ c.name), ("alloc_le_max", Json.bool (decide (a ≤ Frame.PREFACE_MAX_FRAME)))]
  | _, _, _, _, _ => badOp

/-! ### noise -/
def le16 (n : Nat) : List Nat := [n % 256, n / 256 % 256]

def opNoise (j : Json) : Json :=
  match getArr j "segs", getNat j "k" with
  | some segs, some k =>
    let segs := segs.toList.map fun s => ((getNat s "n").getD 0, (getNat s "body").getD 0, (getBool s "auth").getD false)
    let wire := segs.foldr (fun (n, body, _) acc => le16 n ++ List.replicate body 0 ++ acc) []
    let auths := segs.map fun (_, _, a) => a
    let dec : Noise.Dec := fun i c =>
      if auths.getD i false && c.length ≥ 16 then some (c.length - 16) else none
    let frags := (getNatList j "frags").getD []
    let (total, e, _) := Noise.readAll dec k (wire.length + 2) (Noise.Rd.init wire frags) 0
    match e with
    | .panic s => obj [("panic", strJ s)]
    | e => obj [("total", natJ total), ("end", strJ e.name)]
  | _, _ => badOp

/-! ### canonical_raw on the test schema `T{1:u64 a, 2:rep u64 r, 3:bytes b, 4:rep fixed32 f, 5:S m, 6:rep S ms}`,
`S{1:u64 x, 2:rep u64 y}` -/
def fieldInfo (top : Bool) (num : Nat) : Option (Bool × Canon.Wire × Bool) :=  -- (isList, wire, isMsg)
  if top then
    match num with
    | 1 => some (false, .scalar, false) | 2 => some (true, .scalar, false) | 3 => some (false, .len, false)
    | 4 => some (true, .scalar, false) | 5 => some (false, .len, true) | 6 => some (true, .len, true)
    | _ => none
  else
    match num with
    | 1 => some (false, .scalar, false) | 2 => some (true, .scalar, false)
    | _ => none

/-- occurrences in wire order: `{"f":num,"direct":true}` | `{"f":num,"packed":k}` | `{"f":num,"len":n}` |
`{"f":num,"sub":[occurrences]}`; returns the `Field` list in ascending field number -/
partial def canonOf (top : Bool) (occs : List Json) : Res Unit :=
  let nums := (occs.filterMap fun o => getNat o "f").eraseDups
  let sorted := nums.toArray.qsort (· < ·) |>.toList
  let fields : List (Option Canon.Field × Option String) := sorted.map fun num =>
    match fieldInfo top num with
    | none => (none, none)
    | some (isList, wire, isMsg) =>
      let mine := occs.filter fun o => getNat o "f" == some num
      let nvalues := (mine.map fun o =>
        match getNat o "packed" with
        | some k => k
        | none => 1).sum
      let subs : List (Res Unit) := if isMsg then mine.map fun o => canonOf false ((getArr o "sub").getD #[]).toList else []
      let subPanic := subs.findSome? fun r => match r with | .panic s => some s | _ => none
      (some ⟨num, isList, wire, nvalues, subs.all (·.isOk)⟩, subPanic)
  match fields.findSome? (·.2) with
  | some s => .panic s
  | none => Canon.canonicalRaw (fields.filterMap (·.1))

def opCanon (j : Json) : Json :=
  obj (clsOf (canonOf true ((getArr j "occ").getD #[]).toList))

/-! ### consensus messages -/
open Verify in
def kindOf (s : String) : MsgKind :=
  if s = "proposal" then .proposal else if s = "commit" then .commit else if s = "timeout" then .timeout else .newView

open Verify in
def qmsgOf (j : Json) : QMsg := ⟨(getNat j "key").getD 0, kindOf ((getStr j "kind").getD ""), (getNat j "inner").getD 0⟩

open Verify in
def opSel (j : Json) : Json :=
  match getObj j "old", getObj j "new" with
  | some o, some n =>
    let o := qmsgOf o; let n := qmsgOf n
    obj [("sel", strJ (selection o n).name), ("old_view", natJ o.viewNumber), ("new_view", natJ n.viewNumber)]
  | _, _ => badOp

open Verify in
def ctxOf (j : Json) : Ctx :=
  ⟨(getNat j "genesis").getD 0, (getNat j "epoch").getD 0, (getNatList j "weights").getD [],
   (getNat j "quorum").getD 0, (getNat j "subquorum").getD 0⟩

open Verify in
def viewOf (j : Json) : View := ⟨(getNat j "g").getD 0, (getNat j "e").getD 0, (getNat j "v").getD 0⟩

open Verify in
def voteOf (j : Json) : ReplicaCommit :=
  ⟨viewOf ((getObj j "view").getD Json.null), ⟨(getNat j "n").getD 0, (getNat j "h").getD 0⟩⟩

open Verify in
def cqcOf (j : Json) : CommitQC :=
  ⟨voteOf ((getObj j "vote").getD Json.null), (getBoolList j "signers").getD [], (getBool j "sig").getD false⟩

def optObj (j : Json) (k : String) : Option Json :=
  match j.getObjVal? k with
  | .ok Json.null => none
  | .ok v => some v
  | .error _ => none

open Verify in
def tvoteOf (j : Json) : ReplicaTimeout :=
  ⟨viewOf ((getObj j "view").getD Json.null), (optObj j "hv").map voteOf, (optObj j "hq").map cqcOf⟩

open Verify in
def tqcOf (j : Json) : TimeoutQC :=
  ⟨viewOf ((getObj j "view").getD Json.null),
   ((getArr j "map").getD #[]).toList.map (fun e => (tvoteOf ((getObj e "m").getD Json.null), (getBoolList e "signers").getD [])),
   (getBool j "sig").getD false⟩

open Verify in
def justOf (j : Json) : Option Justification :=
  match optObj j "commit", optObj j "timeout" with
  | some q, _ => some (.commit (cqcOf q))
  | _, some q => some (.timeout (tqcOf q))
  | _, _ => none

def errName {α : Type} (r : Res α) : List (String × Json) :=
  match r with
  | .ok _ => [("class", strJ "ok")]
  | .err w => [("class", strJ "err"), ("err", strJ w)]
  | .panic s => [("panic", strJ s)]

open Verify in
def opCqc (j : Json) : Json :=
  match getObj j "ctx", getObj j "qc" with
  | some c, some q => obj (errName (commitQcVerify (ctxOf c) (cqcOf q)))
  | _, _ => badOp

open Verify in
def opTqc (j : Json) : Json :=
  match getObj j "ctx", getObj j "qc" with
  | some c, some q => obj (clsOf (timeoutQcVerify (ctxOf c) (tqcOf q)))
  | _, _ => badOp

open Verify in
def opImplied (j : Json) : Json :=
  match getObj j "ctx", (getObj j "just").bind justOf with
  | some c, some jj =>
    let c := ctxOf c
    let v := justificationVerify c jj
    match v with
    | .ok _ =>
      match impliedBlock c ((getNat j "first").getD 0) jj with
      | .ok (n, rp) => obj [("class", strJ "ok"), ("number", natJ n), ("repropose", Json.bool rp.isSome),
          ("view", natJ (justificationView jj).number)]
      | r => obj (clsOf r)
    | r => obj (clsOf r)
  | _, _ => badOp

open Verify Votes in
def opVotes (j : Json) : Json :=
  match getObj j "ctx", getArr j "msgs" with
  | some c, some msgs =>
    let c := ctxOf c
    let ops : List Votes.Op := msgs.toList.map fun m =>
      let signer := getNat m "signer"
      let sig := (getBool m "sig").getD false
      let body := (getObj m "m").getD Json.null
      if (getStr m "kind").getD "" = "commit" then Votes.Op.commit ⟨signer, sig, voteOf body⟩
      else Votes.Op.timeout ⟨signer, sig, tvoteOf body⟩
    match Votes.runOps c Votes.St.init ops with
    | .ok (s, vs) =>
      obj [("verdicts", Json.arr (vs.map fun v => match v with
              | .accepted => strJ "accepted"
              | .rejected _ => strJ "rejected").toArray),
           ("view", natJ s.view),
           ("_why", Json.arr (vs.map fun v => match v with
              | .accepted => strJ ""
              | .rejected w => strJ w).toArray)]
    | r => obj (clsOf r)
  | _, _ => badOp

def opBss (j : Json) : Json :=
  match getNat j "first", getNat j "n" with
  | some first, some n =>
    let s : Store.BSS := ⟨first, getNat j "last"⟩
    match Store.contains s n with
    | .ok b =>
      obj [("contains", Json.bool b), ("head", natJ (Store.head s)),
           ("verify", strJ (match Store.verify s with | .ok _ => "ok" | _ => "err")),
           ("next", match Store.next s with | .ok x => natJ x | _ => strJ "panic")]
    | r => obj (clsOf r)
  | _, _ => badOp

def handle (j : Json) : Json :=
  match getStr j "op" with
  | some "dur" => opDur false j
  | some "ts" => opDur true j
  | some "bitvec" => opBitvec j
  | some "sockaddr" => opSockaddr j
  | some "read" => opRead j
  | some "wire" => obj [("class", strJ "err")]
  | some "mux" => opMux j
  | some "muxhs" => opMuxHs j
  | some "frame" => opFrame j
  | some "preface" => opPreface j
  | some "trunc" => opTrunc j
  | some "noise" => opNoise j
  | some "canon" => opCanon j
  | some "sel" => opSel j
  | some "cqc" => opCqc j
  | some "tqc" => opTqc j
  | some "implied" => opImplied j
  | some "votes" => opVotes j
  | some "bss" => opBss j
  | some "node" => obj [("ping", Json.bool true), ("fetched", Json.bool true)]
  | some "replica" => obj []
  | _ => badOp

end Driver.C10

def main : IO Unit := Driver.runPure Driver.C10.handle
