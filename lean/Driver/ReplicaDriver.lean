import Driver.CJson
import EraVerif.Model.Replica

/-! Line-protocol driver of the Layer-I replica model (shared by the consensus properties). -/
namespace Driver.ReplicaDriver
open Lean Driver Driver.CJson EraVerif.Model

structure St where
  cfg : RCfg := { c := default, leader := fun _ => 0, maxPayload := 1000 }
  r : Replica := Replica.start none
  /-- last durable state (what a restart restores) -/
  durable : Option Durable := none
  /-- last justification handed to the proposer -/
  notified : Option Just := none

/-- a payload is named by its id; its size is a function of the id (ids ≥ 2^32 name large payloads), as in
`World::payload` of the harness -/
def payload? (j : Json) : Option Payload :=
  match j.getNat? with
  | .ok id => some { id := id, size := max 8 (id >>> 32) }
  | .error _ => none

def msg? (j : Json) : Option Msg :=
  match j.getObjVal? "commit" with
  | .ok v => (vote? v).map Msg.commit
  | .error _ =>
  match j.getObjVal? "timeout" with
  | .ok v => (tvote? v).map Msg.timeout
  | .error _ =>
  match j.getObjVal? "newview" with
  | .ok v => (just? v).map Msg.newView
  | .error _ =>
  match j.getObjVal? "proposal" with
  | .ok p => do
    let jj ← just? (← getObj p "just")
    let pl ← optField? p "payload" payload?
    some (Msg.proposal pl jj)
  | .error _ => none

def env? (j : Json) : Env :=
  match getObj j "env" with
  | some e => { queuedFirst := (getNat e "queued_first").getD 0, persistedNext := (getNat e "persisted_next").getD 0,
                payloadOk := (getBool e "payload_ok").getD true, storeNext := (getNat e "store_next").getD 0 }
  | none => { queuedFirst := 0, persistedNext := 0, payloadOk := true, storeNext := 0 }

def phaseJ : Phase → Json
  | .prepare => "prepare" | .commit => "commit" | .timeout => "timeout"

/-- groups sorted by the position of their first set bit (they are disjoint in every certificate the replica
builds or accepts; ties keep arrival order) -/
def firstBit (s : List Bool) : Nat := (s.findIdx (· == true))

def insertSorted (x : TVote × List Bool) : List (TVote × List Bool) → List (TVote × List Bool)
  | [] => [x]
  | y :: ys => if firstBit x.2 < firstBit y.2 then x :: y :: ys else y :: insertSorted x ys

def sortGroups (m : List (TVote × List Bool)) : List (TVote × List Bool) := m.foldl (fun acc x => insertSorted x acc) []

def tqcSumJ (c : Committee) (q : TimeoutQC) : Json :=
  Json.mkObj [("view", viewJ q.view),
    ("groups", Json.arr ((sortGroups q.map).map (fun (m, s) => Json.mkObj [("msg", tvoteSumJ c m), ("signers", boolsJ s)])).toArray),
    ("valid", Json.bool (q.verify c))]

def justSumJ (c : Committee) : Just → Json
  | .commit q => Json.mkObj [("commit", cqcSumJ c q)]
  | .timeout q => Json.mkObj [("timeout", tqcSumJ c q)]

def sortPairs (l : List (Nat × Nat)) : List (Nat × Nat) :=
  l.foldl (fun acc x => let rec ins : List (Nat × Nat) → List (Nat × Nat)
    | [] => [x]
    | y :: ys => if x.1 < y.1 ∨ (x.1 = y.1 ∧ x.2 < y.2) then x :: y :: ys else y :: ins ys
    ins acc) []

def propsJ (ps : List (Nat × Payload)) : Json :=
  Json.arr ((sortPairs (ps.map (fun p => (p.1, p.2.id)))).map (fun p => Json.arr #[natJ p.1, natJ p.2])).toArray

def durableJ (c : Committee) (d : Durable) : Json :=
  Json.mkObj [("view", natJ d.view), ("phase", phaseJ d.phase), ("hv", optJ voteJ d.highVote),
    ("hcqc", optJ (cqcSumJ c) d.highCommitQC), ("htqc", optJ (tqcSumJ c) d.highTimeoutQC), ("proposals", propsJ d.proposals)]

def msgSumJ (c : Committee) : Msg → Json
  | .commit v => Json.mkObj [("commit", voteJ v)]
  | .timeout t => Json.mkObj [("timeout", tvoteSumJ c t)]
  | .newView j => Json.mkObj [("newview", justSumJ c j)]
  | .proposal p j => Json.mkObj [("proposal", Json.mkObj [("payload", optJ (fun (p : Payload) => natJ p.id) p), ("just", justSumJ c j)])]

def effectJ (c : Committee) : Effect → Json
  | .persist d => Json.mkObj [("persist", durableJ c d)]
  | .send m => Json.mkObj [("send", msgSumJ c m)]
  | .notify j => Json.mkObj [("notify", justSumJ c j)]
  | .queueBlock n h q => Json.mkObj [("queue", Json.mkObj [("n", natJ n), ("h", natJ h), ("qc", cqcSumJ c q)])]

def snapJ (c : Committee) (r : Replica) : Json :=
  Json.mkObj [("view", natJ r.view), ("phase", phaseJ r.phase), ("hv", optJ voteJ r.highVote),
    ("hcqc", optJ (cqcSumJ c) r.highCommitQC), ("htqc", optJ (tqcSumJ c) r.highTimeoutQC), ("proposals", propsJ r.proposals),
    ("commit_views", natJ r.commitViews.length),
    ("commit_qcs", Json.arr #[natJ r.commitQCs.length, natJ ((r.commitQCs.map (fun x => x.2.length)).sum)]),
    ("timeout_views", natJ r.timeoutViews.length), ("timeout_qcs", natJ r.timeoutQCs.length)]

def classOf : Outcome → String × Option String
  | .accepted => ("accepted", none)
  | .rejected w => ("rejected", some (reprStr w))
  | .blocked => ("blocked", none)
  | .panic s => ("panic", some s)

/-- truncate the effects of a step at the `at`-th persist (crash injected at that durable write) -/
def cutAtPersist (effs : List Effect) (k : Nat) (applied : Bool) : Option (List Effect) :=
  let rec go (pre : List Effect) (rest : List Effect) (k : Nat) : Option (List Effect) :=
    match rest with
    | [] => none
    | (.persist d) :: tl => if k = 0 then some (if applied then pre ++ [.persist d] else pre) else go (pre ++ [.persist d]) tl (k - 1)
    | e :: tl => go (pre ++ [e]) tl k
  go [] effs k

def lastPersist (effs : List Effect) : Option Durable :=
  effs.foldl (fun acc e => match e with | .persist d => some d | _ => acc) none

def lastNotify (effs : List Effect) : Option Just :=
  effs.foldl (fun acc e => match e with | .notify j => some j | _ => acc) none

def isQueue : Effect → Bool
  | .queueBlock .. => true
  | _ => false

/-- The hand-over of a block to storage (`queue_next_block`) is performed by the store's background task, so its
position relative to the handler's own effects depends on task scheduling: the comparison lists the queue effects
after the others (their relative order is kept). -/
def obsJ (c : Committee) (cls : String) (why : Option String) (effs : List Effect) (r : Replica) : Json :=
  let effs' := effs.filter (fun e => !isQueue e) ++ effs.filter isQueue
  Json.mkObj [("class", Json.str cls), ("_why", optJ Json.str why), ("effects", Json.arr (effs'.map (effectJ c)).toArray), ("snap", snapJ c r)]

def applyStep (s : St) (j : Json) (inp : Input) : St × Json :=
  let e := env? j
  let res := step s.cfg s.r e inp
  let crash := getObj j "crash"
  let cut := match crash with
    | some cr => (match getNat cr "at" with
        | some k => cutAtPersist res.effs k ((getBool cr "applied").getD false)
        | none => none)
    | none => none
  match cut with
  | some effs =>
    -- the process died at that durable write; restart from what is durable
    let d := (lastPersist effs).orElse (fun _ => s.durable)
    let r' := Replica.start d
    ({ s with r := r', durable := d, notified := (lastNotify effs).orElse (fun _ => s.notified) }, obsJ s.cfg.c "crashed" none effs r')
  | none =>
    let (cls, why) := classOf res.out
    let d := (lastPersist res.effs).orElse (fun _ => s.durable)
    ({ s with r := res.r, durable := d, notified := (lastNotify res.effs).orElse (fun _ => s.notified) }, obsJ s.cfg.c cls why res.effs res.r)

def stepLine (s : St) (j : Json) : St × Json :=
  match getStr j "op" with
  | some "init" =>
    match committee? j with
    | some c =>
      let n := c.n
      -- the leader of a view is a parameter of the replica model (leader election is C11): when the case uses a schedule
      -- other than round-robin over everybody, the table of the real `view_leader` for the first views travels with the op
      let table : Array Nat := ((getNatList j "leader_table").getD []).toArray
      let cfg : RCfg := { c := c, leader := fun v => if h : v < table.size then table[v] else (if n = 0 then 0 else v % n),
                          maxPayload := (getNat j "max_payload").getD 1000 }
      let r := Replica.start none
      ({ cfg := cfg, r := r, durable := none, notified := none }, Json.mkObj [("class", "init"), ("snap", snapJ c r)])
    | none => (s, badOp)
  | some "msg" =>
    match (getObj j "msg").bind msg?, getNat j "from" with
    | some m, some k => applyStep s j (.msg { msg := m, key := k, sigOk := (getBool j "sig_ok").getD true })
    | _, _ => (s, badOp)
  | some "implied" =>
    -- the decision function alone: `get_implied_block` on an (already verified) justification
    match (getObj j "just").bind just? with
    | some jj =>
      let (num, oh) := jj.impliedBlock s.cfg.c
      (s, Json.mkObj [("num", natJ num), ("hash", optNatJ oh),
        ("hv", optJ (fun (h : Header) => Json.arr #[natJ h.number, natJ h.payload])
          (match jj with | .timeout q => q.highVote s.cfg.c | .commit _ => none)),
        ("hq_view", optNatJ (match jj with | .timeout q => q.highQC.map (fun x => x.message.view.number) | .commit _ => none))])
    | none => (s, badOp)
  | some "prune" => (s, Json.mkObj [("class", "pruned")])   -- the execution layer pruned its store: only the environment changes
  | some "tick" => applyStep s j .tick
  | some "restart" =>
    let r := Replica.start s.durable
    ({ s with r := r }, Json.mkObj [("class", "restarted"), ("snap", snapJ s.cfg.c r)])
  | some "propose" =>
    -- the justification handed to the proposer is given by the op (abstract value rebuilt by the harness from
    -- the real notification); `create_proposal` is compared as a function of it
    match (getObj j "just").bind just? with
    | none => (s, Json.mkObj [("class", "nothing")])
    | some jj =>
      let fresh : Payload := { id := (getNat j "fresh").getD 0, size := 8 }
      match createProposal s.cfg (env? j) jj fresh with
      | none => (s, Json.mkObj [("class", "waiting")])
      | some m => (s, Json.mkObj [("class", "proposal"), ("msg", msgSumJ s.cfg.c m)])
  | _ => (s, badOp)

/-- several replicas side by side (multi-replica simulations): the op's `rid` selects the replica (default 0) -/
structure Multi where
  sts : List (Nat × St) := []

def multiStep (m : Multi) (j : Json) : Multi × Json :=
  let rid := (getNat j "rid").getD 0
  let cur : St := ((m.sts.find? (fun e => e.1 == rid)).map (·.2)).getD {}
  let (s', o) := stepLine cur j
  let rest := m.sts.filter (fun e => e.1 != rid)
  ({ sts := (rid, s') :: rest }, o)

end Driver.ReplicaDriver
