import Driver.Util
import EraVerif.Model.Consensus

/-! JSON codecs of the consensus model types (must match `harness/src/abs.rs`). -/
namespace Driver.CJson
open Lean Driver EraVerif.Model

def view? (j : Json) : Option View := do
  some { genesis := ← getNat j "g", epoch := ← getNat j "e", number := ← getNat j "v" }

def vote? (j : Json) : Option Vote := do
  let v ← view? (← getObj j "view")
  some { view := v, proposal := { number := ← getNat j "n", payload := ← getNat j "h" } }

def optField? {α : Type} (j : Json) (k : String) (f : Json → Option α) : Option (Option α) :=
  match j.getObjVal? k with
  | .ok Json.null => some none
  | .ok v => (f v).map some
  | .error _ => some none

def sig? {α : Type} (f : Json → Option α) (j : Json) (k : String) : Option (AggSig α) := do
  let a ← getArr j k
  a.toList.mapM fun e => do
    let p ← (match e.getArr? with | .ok p => some p | .error _ => none)
    if p.size ≠ 2 then none else
    let i ← (match p[0]!.getNat? with | .ok n => some n | .error _ => none)
    let m ← f p[1]!
    some (i, m)

def cqc? (j : Json) : Option CommitQC := do
  some { message := ← vote? (← getObj j "vote"), signers := ← getBoolList j "signers", sig := ← sig? vote? j "sig" }

def tvote? (j : Json) : Option TVote := do
  some { view := ← view? (← getObj j "view"), highVote := ← optField? j "hv" vote?, highQC := ← optField? j "hq" cqc? }

def tqc? (j : Json) : Option TimeoutQC := do
  let groups ← getArr j "map"
  let map ← groups.toList.mapM fun e => do
    let p ← (match e.getArr? with | .ok p => some p | .error _ => none)
    if p.size ≠ 2 then none else
    let m ← tvote? p[0]!
    let s ← (match p[1]!.getArr? with
      | .ok a => a.toList.mapM (fun b => match b.getBool? with | .ok x => some x | .error _ => none)
      | .error _ => none)
    some (m, s)
  some { view := ← view? (← getObj j "view"), map := map, sig := ← sig? tvote? j "sig" }

def just? (j : Json) : Option Just :=
  match j.getObjVal? "commit" with
  | .ok q => (cqc? q).map Just.commit
  | .error _ =>
    match j.getObjVal? "timeout" with
    | .ok q => (tqc? q).map Just.timeout
    | .error _ => none

def committee? (j : Json) : Option Committee := do
  some { weights := ← getNatList j "weights", genesis := (getNat j "genesis").getD 0,
         epoch := (getNat j "epoch").getD 0, first := (getNat j "first").getD 0 }

def signedBy? (j : Json) : Option SignedBy := do
  let key := match j.getObjVal? "key" with
    | .ok v => (match v.getNat? with | .ok n => some n | .error _ => none)
    | .error _ => none
  some { key := key, sigOk := (getBool j "sig_ok").getD true }

/-! encoders (summaries used in observations) -/

def viewJ (v : View) : Json := Json.mkObj [("g", natJ v.genesis), ("e", natJ v.epoch), ("v", natJ v.number)]
def voteJ (v : Vote) : Json :=
  Json.mkObj [("view", viewJ v.view), ("n", natJ v.proposal.number), ("h", natJ v.proposal.payload)]
def optJ {α : Type} (f : α → Json) : Option α → Json
  | none => Json.null
  | some a => f a
def boolsJ (b : List Bool) : Json := Json.arr (b.map Json.bool).toArray

/-- certificate summary: content + whether it verifies in isolation. The signer bitmap is not part of the summary:
which of two equal-view certificates (same block, different signer subsets) a replica ends up holding depends on the
byte order of signatures inside a `BTreeMap` key (`TimeoutQC::high_qc` tie-break), which is not modelled and not
property-relevant (DESIGN App. C). -/
def cqcSumJ (c : Committee) (q : CommitQC) : Json :=
  Json.mkObj [("vote", voteJ q.message), ("valid", Json.bool (q.verify c))]

def tvoteSumJ (c : Committee) (t : TVote) : Json :=
  Json.mkObj [("view", viewJ t.view), ("hv", optJ voteJ t.highVote), ("hq", optJ (cqcSumJ c) t.highQC)]

end Driver.CJson
