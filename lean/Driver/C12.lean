import Driver.Util
import EraVerif.Model.Handshake
import EraVerif.Model.Pool
import EraVerif.Model.PeerNet

/-!
Model driver of C12. Three op families (see `harness/src/bin/c12.rs` for the generator):

* `hs`        one handshake function call of an honest party (the *victim*) against a scripted remote end
              (honest peer / forging adversary / malformed frame / reflection / replay / man-in-the-middle relay);
* `pool_*`    `PoolWatch` call sequences (`pool_new` starts a case), plus order-independent summaries of
              concurrent batches;
* `node_*`    a real `Network`: connection attempts through `run_inbound_stream` / `run_outbound_stream` /
              `maintain_connection` and disconnects (`node_new` starts a case).

The remote scripts are evaluated here on *abstract* frames exactly as the harness realises them with real keys:
session `sid` is the victim's session, `sid+1` the second session of a replay / relay, `sid+1000` an id that
belongs to no session.
-/

namespace Driver.C12
open Lean Driver
open EraVerif.Model.Handshake EraVerif.Model.PeerNet
open EraVerif.Model.Pool (Pool Obs)

/-! ### JSON output -/

def errName : Err → String
  | .genesis => "genesis" | .session => "session" | .peer => "peer" | .signature => "signature" | .stream => "stream"

def frameJ (f : Frame) : Json :=
  Json.mkObj [("key", natJ f.sessionId.key), ("msg", natJ f.sessionId.msg),
              ("sig", Json.arr #[natJ f.sessionId.sig.signer, natJ f.sessionId.sig.msg]),
              ("genesis", natJ f.genesis)]

def resFields : Res → List (String × Json)
  | .ok k => [("ok", Json.bool true), ("key", natJ k)]
  | .err e => [("ok", Json.bool false), ("err", Json.str (errName e))]

def pairsJ (l : List (Nat × Nat)) : Json :=
  Json.arr (l.map (fun (k, v) => Json.arr #[natJ k, natJ v])).toArray

/-- insertion sort on (key, value) pairs: the harness sorts what it reads from the hash map -/
def insertSorted (e : Nat × Nat) : List (Nat × Nat) → List (Nat × Nat)
  | [] => [e]
  | x :: xs => if e.1 < x.1 ∨ (e.1 = x.1 ∧ e.2 ≤ x.2) then e :: x :: xs else x :: insertSorted e xs

def sortPairs (l : List (Nat × Nat)) : List (Nat × Nat) := l.foldr insertSorted []

def insertSortedNat (e : Nat) : List Nat → List Nat
  | [] => [e]
  | x :: xs => if e ≤ x then e :: x :: xs else x :: insertSortedNat e xs

def sortNats (l : List Nat) : List Nat := l.foldr insertSortedNat []

/-! ### remote scripts -/

inductive Tweak where
  | none | msgThis | key (k : Nat) | genesis (g : Nat) | resign (a : Nat)

def parseTweak (j : Option Json) : Option Tweak :=
  match j with
  | .none => some .none
  | some j =>
    match getStr j "t" with
    | some "none" => some .none
    | some "msg_this" => some .msgThis
    | some "key" => (getNat j "k").map .key
    | some "genesis" => (getNat j "g").map .genesis
    | some "resign" => (getNat j "a").map .resign
    | _ => Option.none

/-- what the adversary does to a frame in transit towards a receiver whose session id is `recvSid` -/
def Tweak.apply (t : Tweak) (f : Frame) (recvSid : Sid) : Frame :=
  match t with
  | .none => f
  | .msgThis => { f with sessionId := { f.sessionId with msg := recvSid } }
  | .key k => { f with sessionId := { f.sessionId with key := k } }
  | .genesis g => { f with genesis := g }
  | .resign a => { sessionId := sign a recvSid, genesis := f.genesis }

def ownFrame (me g sid : Nat) : Frame := { sessionId := sign me sid, genesis := g }

def inboundFn (net : Net) (me g sid : Nat) (recv : Option Frame) : Outcome :=
  match net with
  | .gossip => gossipInbound me g sid true recv
  | .consensus => consensusInbound me g sid true recv

def outboundFn (net : Net) (me g sid peer : Nat) (recv : Option Frame) : Outcome :=
  match net with
  | .gossip => gossipOutbound me g sid peer true recv
  | .consensus => consensusOutbound me g sid peer true recv

/-- the victim's side of one scenario -/
structure Victim where
  net : Net
  dir : Dir
  me : Nat
  genesis : Nat
  peer : Nat
  sid : Nat

def Victim.run (v : Victim) (recv : Option Frame) : Outcome :=
  match v.dir with
  | .inbound => inboundFn v.net v.me v.genesis v.sid recv
  | .outbound => outboundFn v.net v.me v.genesis v.sid v.peer recv

/-- Evaluates a remote script: what the victim's `recv_proto` gets, and the result of the second honest party
    (honest / relay scripts). `none` = the op line is not understood. -/
def evalRemote (v : Victim) (r : Json) : Option (Option Frame × Option Res) :=
  let vOwn := ownFrame v.me v.genesis v.sid
  match getStr r "kind" with
  | some "honest" => do
    let rk ← getNat r "me"; let g2 ← getNat r "genesis"; let p2 ← getNat r "peer"
    match v.dir with
    | .outbound =>
      let o := inboundFn v.net rk g2 v.sid (some vOwn)
      pure (o.sent.head?, some o.res)
    | .inbound =>
      let rOwn := ownFrame rk g2 v.sid
      let ov := inboundFn v.net v.me v.genesis v.sid (some rOwn)
      let o := outboundFn v.net rk g2 v.sid p2 ov.sent.head?
      pure (some rOwn, some o.res)
  | some "forge" => do
    let k ← getNat r "key"; let a ← getNat r "signer"; let g ← getNat r "genesis"
    let msg ← getStr r "msg"; let sg ← getStr r "signed"
    let lbl := fun (s : String) => if s == "this" then v.sid else v.sid + 1000
    pure (some { sessionId := { msg := lbl msg, key := k, sig := { signer := a, msg := lbl sg } }, genesis := g },
          Option.none)
  | some "malformed" =>
    -- `weak_key_i`: a well-formed frame over the right session id and chain whose key is one nobody holds (a small-order
    -- Ed25519 point) with a "signature" no key holder produced: in the symbolic model simply a signature by another
    -- signer, hence refused with a signature error. (Consensus: the point at infinity does not decode as a BLS key.)
    if ((getStr r "how").getD "").startsWith "weak_key_" && v.net == .gossip then
      pure (some { sessionId := { msg := v.sid, key := 900, sig := { signer := 901, msg := v.sid } }, genesis := v.genesis },
            Option.none)
    else pure (Option.none, Option.none)
  | some "reflect" => do
    let t ← parseTweak (getObj r "tweak")
    match v.dir with
    | .outbound => pure (some (t.apply vOwn v.sid), Option.none)
    | .inbound => Option.none
  | some "replay" => do
    let rk ← getNat r "me"; let g2 ← getNat r "genesis"
    let t ← parseTweak (getObj r "tweak")
    pure (some (t.apply (ownFrame rk g2 (v.sid + 1)) v.sid), Option.none)
  | some "relay" => do
    let rk ← getNat r "me"; let g2 ← getNat r "genesis"; let p2 ← getNat r "peer"
    let tO ← parseTweak (getObj r "to_other"); let tV ← parseTweak (getObj r "to_victim")
    let sid2 := v.sid + 1
    match v.dir with
    | .outbound =>
      let o := inboundFn v.net rk g2 sid2 (some (tO.apply vOwn sid2))
      pure (o.sent.head?.map (fun f => tV.apply f v.sid), some o.res)
    | .inbound =>
      let f2 := tV.apply (ownFrame rk g2 sid2) v.sid
      let ov := inboundFn v.net v.me v.genesis v.sid (some f2)
      let o := outboundFn v.net rk g2 sid2 p2 (ov.sent.head?.map (fun f => tO.apply f sid2))
      pure (some f2, some o.res)
  | _ => Option.none

def parseNet (j : Json) : Option Net :=
  match getStr j "net" with
  | some "gossip" => some .gossip
  | some "consensus" => some .consensus
  | _ => none

def parseDir (j : Json) : Option Dir :=
  match getStr j "dir" with
  | some "in" => some .inbound
  | some "out" => some .outbound
  | _ => none

/-! ### state -/

structure St where
  pool : Pool := Pool.new [] 0
  node : Node := Node.new { nodeKey := 0, valKey := none, genesis := 0, committee := [], staticIn := [],
                            dynLimit := 0, staticOut := [] }

def poolObs (p : Pool) : Json := pairsJ (sortPairs p.current)

def nodePools (n : Node) : Json :=
  Json.mkObj [("gin", poolObs n.gIn), ("gout", poolObs n.gOut), ("cin", poolObs n.cIn), ("cout", poolObs n.cOut)]

def obsName : Obs → String
  | .ok => "ok" | .errExists => "exists" | .errLimit => "limit" | .removed => "removed" | .absent => "absent"
  | .underflow => "underflow"

def handleHs (j : Json) : Json :=
  match (do
    let net ← parseNet j; let dir ← parseDir j
    let me ← getNat j "me"; let g ← getNat j "genesis"; let peer ← getNat j "peer"; let sid ← getNat j "sid"
    let r ← getObj j "remote"
    let v : Victim := { net := net, dir := dir, me := me, genesis := g, peer := peer, sid := sid }
    let (recv, other) ← evalRemote v r
    let o := v.run recv
    pure (o, other)) with
  | none => badOp
  | some (o, other) =>
    Json.mkObj (resFields o.res ++ [("sent", Json.arr (o.sent.map frameJ).toArray)] ++
      (match other with
       | none => []
       | some r => [("other", Json.mkObj (resFields r))]))

def parseBatchOp (j : Json) : Option EraVerif.Model.Pool.Op :=
  match getStr j "o" with
  | some "i" => do let k ← getNat j "k"; let v ← getNat j "v"; pure (.insert k v)
  | some "r" => do let k ← getNat j "k"; pure (.remove k)
  | _ => none

/-- quota probe: insert fresh non-allowed keys 1000, 1001, … (at most 8) until one is refused, then remove the
    admitted ones again; returns the pool afterwards and how many were admitted -/
def probePool (p : Pool) : Pool × Nat :=
  let rec go (fuel : Nat) (i : Nat) (p : Pool) : Pool × Nat :=
    match fuel with
    | 0 => (p, i)
    | fuel + 1 =>
      let (p', o) := p.insert (1000 + i) 0
      if o == .ok then go fuel (i + 1) p' else (p, i)
  let (p1, n) := go 8 0 p
  ((List.range n).foldl (fun q i => (q.remove (1000 + i)).1) p1, n)

def handlePool (s : St) (op : String) (j : Json) : St × Json :=
  match op with
  | "pool_probe" =>
    let (p, n) := probePool s.pool
    ({ s with pool := p }, Json.mkObj [("free", natJ n), ("cur", poolObs p)])
  | "pool_contended" =>
    -- the calls queue on the (fair, FIFO) sender lock in the order listed and each is atomic: the outcome is that of
    -- the sequential run in that order
    match getArr j "ops" with
    | none => (s, badOp)
    | some a =>
      match a.toList.mapM parseBatchOp with
      | none => (s, badOp)
      | some ops =>
        let (p, os) := s.pool.run ops
        if os.contains .underflow then (s, Json.mkObj [("panic", Json.str "pool.rs extra_count underflow")]) else
        let name := fun (o : Obs) => match o with
          | .removed => "done" | .absent => "done" | o => obsName o
        ({ s with pool := p },
         Json.mkObj [("res", Json.arr (os.map (fun o => Json.str (name o))).toArray), ("cur", poolObs p)])
  | "pool_new" =>
    match getNatList j "allowed", getNat j "limit" with
    | some a, some l =>
      let p := Pool.new a l
      ({ s with pool := p }, Json.mkObj [("cur", poolObs p)])
    | _, _ => (s, badOp)
  | "pool_insert" =>
    match getNat j "k", getNat j "v" with
    | some k, some v =>
      let (p, o) := s.pool.insert k v
      ({ s with pool := p }, Json.mkObj [("res", Json.str (obsName o)), ("cur", poolObs p)])
    | _, _ => (s, badOp)
  | "pool_remove" =>
    match getNat j "k" with
    | some k =>
      let (p, o) := s.pool.remove k
      if o == .underflow then ({ s with pool := p }, Json.mkObj [("panic", Json.str "pool.rs extra_count underflow")])
      else ({ s with pool := p }, Json.mkObj [("res", Json.str (obsName o)), ("cur", poolObs p)])
    | none => (s, badOp)
  | "pool_batch" =>
    match getArr j "ops", getStr j "mode" with
    | some a, some mode =>
      match a.toList.mapM parseBatchOp with
      | none => (s, badOp)
      | some ops =>
        let (p, os) := s.pool.run ops
        if os.contains .underflow then (s, Json.mkObj [("panic", Json.str "pool.rs extra_count underflow")]) else
        let nOk := (os.filter (· == .ok)).length
        let keys := p.keys
        let base := [("mode", Json.str mode), ("n_ok", natJ nOk), ("size", natJ keys.length), ("extras", natJ p.extras),
                     ("allowed_in", Json.arr ((sortNats (keys.filter (fun k => k ∈ p.allowed))).map natJ).toArray)]
        -- the order of a concurrent batch is not determined: only order-independent facts are compared (the harness
        -- emits the subset that is order-independent for the batch's mode); the case ends after a batch
        ({ s with pool := p }, Json.mkObj (base ++ [("cur", poolObs p)]))
    | _, _ => (s, badOp)
  | _ => (s, badOp)

def outJ (n : Node) (o : Out) (hsSent : Bool) : Json :=
  let cls := match o with
    | .admitted _ => "admitted"
    | .refusedHandshake _ => "refused"
    | .refusedPool _ => "refused"
    | .noConsensus => "refused"
    | .closed _ => "closed"
    | .closedUnderflow => "panic"
    | .notLive => "not_live"
  let why := match o with
    | .refusedHandshake e => "hs:" ++ errName e
    | .refusedPool ob => "pool:" ++ obsName ob
    | .noConsensus => "no_consensus"
    | _ => ""
  Json.mkObj ([("out", Json.str cls), ("why", Json.str why), ("hs_sent", Json.bool hsSent), ("pools", nodePools n)] ++
    (match o with | .admitted k => [("key", natJ k)] | _ => []))

def handleNode (s : St) (op : String) (j : Json) : St × Json :=
  match op with
  | "node_new" =>
    match (do
      let me ← getNat j "me"; let g ← getNat j "genesis"
      let com ← getNatList j "committee"; let si ← getNatList j "static_in"; let so ← getNatList j "static_out"
      let dl ← getNat j "dyn_limit"
      pure ({ nodeKey := me, valKey := getNat j "vme", genesis := g, committee := com, staticIn := si,
              dynLimit := dl, staticOut := so } : Cfg)) with
    | none => (s, badOp)
    | some cfg =>
      let n := Node.new cfg
      ({ s with node := n }, Json.mkObj [("consensus", Json.bool cfg.valKey.isSome), ("pools", nodePools n)])
  | "node_conn" =>
    match (do
      let net ← parseNet j; let dir ← parseDir j
      let conn ← getNat j "conn"; let sid ← getNat j "sid"; let peer ← getNat j "peer"
      let r ← getObj j "remote"
      pure (net, dir, conn, sid, peer, r)) with
    | none => (s, badOp)
    | some (net, dir, conn, sid, peer, r) =>
      match s.node.me? net with
      | none =>
        let (n, o) := s.node.step (.connect net dir conn sid peer true none)
        ({ s with node := n }, outJ n o false)
      | some me =>
        let v : Victim := { net := net, dir := dir, me := me, genesis := s.node.cfg.genesis, peer := peer, sid := sid }
        match evalRemote v r with
        | none => (s, badOp)
        | some (recv, _) =>
          let hs := v.run recv
          let (n, o) := s.node.step (.connect net dir conn sid peer true recv)
          ({ s with node := n }, outJ n o (!hs.sent.isEmpty))
  | "node_close" =>
    match getNat j "conn" with
    | none => (s, badOp)
    | some c =>
      let (n, o) := s.node.step (.close c)
      ({ s with node := n }, outJ n o false)
  | _ => (s, badOp)

def step1 (s : St) (j : Json) : St × Json :=
  match getStr j "op" with
  | some "hs" => (s, handleHs j)
  | some op =>
    if op.startsWith "pool_" then handlePool s op j
    else if op.startsWith "node_" then handleNode s op j
    else (s, badOp)
  | none => (s, badOp)

/-- `{"op":"case","ops":[..]}`: a whole stateful case as one line (the form in which the harness reports the input
    of a pool / node monitor failure, so that it can be replayed); the observation is that of the last op. -/
def step (s : St) (j : Json) : St × Json :=
  match getStr j "op", getArr j "ops" with
  | some "case", some ops => ops.foldl (fun (acc : St × Json) o => step1 acc.1 o) (s, badOp)
  | _, _ => step1 s j

end Driver.C12

def main : IO Unit := Driver.run ({} : Driver.C12.St) Driver.C12.step
