import Driver.C07

def main (args : List String) : IO UInt32 := do
  match args with
  | ["c07"] => Driver.C07.main; return 0
  | _ =>
    IO.eprintln "usage: vmodel <property> < ops.jsonl > model.jsonl"
    return 2
