import Driver.Util
import EraVerif.Model.Fetch

/-!
Model driver of C19. The implementation is a concurrent object; for every step the harness writes the environment
actions (`do`) and the implementation's visible events in the order they happened (`trace`). The driver keeps the
**set of model states** the implementation may be in, and for each step

1. applies the environment events to every candidate (a step that is refused by `step?` is `bad`);
2. explores every interleaving of internal events whose visible labels spell exactly `trace` (hidden events are
   free), using the model's own `step?` / `internalEvents`;
3. keeps the states that are **quiescent** (`Model.Fetch.quiescent`): the implementation was polled until idle, so
   a model state with an enabled internal event means the implementation missed a wake-up.

No candidate left = the implementation did something the model forbids (`ev` becomes a `REJECT…` string, which can
never equal the implementation's event list). The snapshot (`blocks`, `reqs`, `accs`, `holds`) is printed from the
surviving candidates and compared with the implementation's.
-/

namespace Driver.C19
open Lean Driver EraVerif.Model.Fetch

inductive Act
  | ev (e : Event)
  | queue
  | okF (h : Nat)     -- fetcher family: the holder queues the block, then sends `()`

structure FetSt where
  f : Fetcher
  persist : Bool
  /-- one past the last block the harness's store can provide -/
  lastBlock : Nat

structure DState where
  cands : List State := [State.init]
  fet : Option FetSt := none

def jNat? (j : Json) : Option Nat := match j.getNat? with | .ok n => some n | .error _ => none
def jStr? (j : Json) : Option String := match j.getStr? with | .ok n => some n | .error _ => none

def parseAct (fetMode : Bool) (j : Json) : Option Act :=
  match j.getArr? with
  | .error _ => none
  | .ok a =>
    let kind := (a[0]? >>= jStr?).getD ""
    let arg (i : Nat) : Option Nat := a[i]? >>= jNat?
    match kind, a.size with
    | "req", 2 => if fetMode then none else (arg 1).map fun n => .ev (.spawnReq n)
    | "cancel", 2 => if fetMode then none else (arg 1).map fun n => .ev (.cancelReq n)
    | "start", 2 => (arg 1).map fun p => .ev (.startAcc p)
    | "stop", 2 => (arg 1).map fun p => .ev (.cancelAcc p)
    | "ann", 4 =>
      match arg 1, arg 2, a[3]? with
      | some p, some f, some l =>
        if l.isNull then some (.ev (.announce p f none))
        else (jNat? l).map fun l => .ev (.announce p f (some l))
      | _, _, _ => none
    | "ok", 2 => (arg 1).map fun h => if fetMode then .okF h else .ev (.succeed h)
    | "fail", 2 => (arg 1).map fun h => .ev (.fail h)
    | "queue", 1 => if fetMode then some .queue else none
    | _, _ => none

def parseVis (j : Json) : Option Vis :=
  match j.getArr? with
  | .error _ => none
  | .ok a =>
    let kind := (a[0]? >>= jStr?).getD ""
    let arg (i : Nat) : Option Nat := a[i]? >>= jNat?
    match kind, a.size with
    | "acc", 4 => match arg 1, arg 2, arg 3 with
      | some p, some n, some h => some (.accepted p n h)
      | _, _, _ => none
    | "stopped", 2 => (arg 1).map .stopped
    | "done", 2 => (arg 1).map .done
    | "cancelled", 2 => (arg 1).map .cancelled
    | _, _ => none

/-! ## canonical representatives

Channel names are only ever compared for equality and allocated fresh (`nextChan`), and the watch version is only
compared with the receivers' seen versions and incremented; so a state is bisimilar to the one obtained by renaming
the channels in order of first occurrence (map by block, holds by id, waiting requesters by block) and by replacing
`ver ↦ 1`, `seen ↦ if seen = ver then 1 else 0` (a stale receiver stays stale for ever: `ver` only grows). The
driver explores the quotient; without it two insertions performed in either order give two candidates for ever. -/

def renameOf (tbl : List (Nat × Nat)) (c : Nat) : Nat := (aget tbl c).getD c

def canon (s : State) : State :=
  let chans : List Nat :=
    s.map.map (·.2) ++ s.holds.map (·.2.chan) ++
    s.reqs.filterMap (fun e => match e.2.st with | .waiting c => some c | _ => none)
  let tbl : List (Nat × Nat) := chans.foldl (fun t c => if (aget t c).isSome then t else t ++ [(c, t.length)]) []
  let rn := renameOf tbl
  { s with
    map := s.map.map (fun e => (e.1, rn e.2)),
    holds := s.holds.map (fun e => (e.1, { e.2 with chan := rn e.2.chan })),
    reqs := s.reqs.map (fun e => (e.1, match e.2.st with
      | .waiting c => { e.2 with st := .waiting (rn c) }
      | _ => e.2)),
    nextChan := tbl.length,
    ver := 1,
    accs := s.accs.map (fun e => (e.1, match e.2.st with
      | .watch m seen => { e.2 with st := .watch m (if seen = s.ver then 1 else 0) }
      | _ => e.2)) }

/-! ## exploration -/

structure Node where
  s : State
  k : Nat
deriving DecidableEq

/-- In the fetcher family the requests belong to `run_block_fetcher`, which ignores their results: their
completion is not observable. -/
def hiddenVis (hideReq : Bool) : Vis → Bool
  | .done _ | .cancelled _ => hideReq
  | _ => false

def succs (hideReq : Bool) (T : Array Vis) (nd : Node) : List Node :=
  (internalEvents nd.s).filterMap fun e =>
    match step? nd.s e with
    | none => none
    | some (s', none) => some ⟨canon s', nd.k⟩
    | some (s', some v) =>
      if hiddenVis hideReq v then some ⟨canon s', nd.k⟩
      else if T[nd.k]? = some v then some ⟨canon s', nd.k + 1⟩ else none

/-- Depth-first closure; `none` = out of fuel. -/
def explore (hideReq : Bool) (T : Array Vis) : Nat → List Node → List Node → Option (List Node)
  | _, [], seen => some seen
  | 0, _ :: _, _ => none
  | f + 1, nd :: rest, seen =>
    if seen.contains nd then explore hideReq T f rest seen
    else explore hideReq T f (succs hideReq T nd ++ rest) (nd :: seen)

def dedup (l : List State) : List State := l.foldl (fun acc s => if acc.contains s then acc else acc ++ [s]) []

/-! ## environment of the fetcher family -/

/-- Applies queue events to every candidate. `cancelReq` of a request that is already gone is a no-op (cancelling the
scope of a finished `request` future). -/
def applyEvents (lenientCancel : Bool) (cands : List State) (es : List Event) : Option (List State) :=
  cands.mapM fun s => es.foldlM (fun s e =>
    match step? s e with
    | some (s', _) => some s'
    | none => match e with
      | .cancelReq _ => if lenientCancel then some s else none
      | _ => none) s

/-- Runs the fetcher's own events to a fixpoint, collecting the queue events. -/
def fetClosure : Nat → Fetcher → List Event → Fetcher × List Event
  | 0, f, acc => (f, acc)
  | fuel + 1, f, acc =>
    match f.internalEvents.findSome? (fun e => f.step? e) with
    | none => (f, acc)
    | some (f', es) => fetClosure fuel f' (acc ++ es)

/-! ## snapshots -/

def sortNat (l : List Nat) : List Nat := (l.toArray.qsort (· < ·)).toList

def snapshot (s : State) (withReqs : Bool) : List (String × Json) :=
  [("blocks", Json.arr ((sortNat (akeys s.map)).map natJ).toArray),
   ("accs", Json.arr ((sortNat (akeys s.accs)).map natJ).toArray),
   ("holds", Json.arr ((s.holds.toArray.qsort (fun a b => a.1 < b.1)).map fun (h, hd) =>
      Json.arr #[natJ h, natJ hd.peer, natJ hd.num]))] ++
  (if withReqs then [("reqs", Json.arr ((sortNat (akeys s.reqs)).map natJ).toArray)] else [])

def snapKey (s : State) : List Nat × List Nat × List (Nat × Nat × Nat) × List Nat :=
  (sortNat (akeys s.map), sortNat (akeys s.accs),
   (s.holds.toArray.qsort (fun a b => a.1 < b.1)).toList.map (fun (h, hd) => (h, hd.peer, hd.num)),
   sortNat (akeys s.reqs))

def reject (why : String) (extra : List (String × Json) := []) : Json :=
  Json.mkObj ([("ev", Json.str ("REJECT: " ++ why))] ++ extra)

def FUEL : Nat := 400000

/-- One `step` line. -/
def doStep (st : DState) (j : Json) : DState × Json :=
  let fetMode := st.fet.isSome
  let bad := (st, Json.mkObj [("bad", Json.bool true), ("class", Json.str "bad")])
  match getArr j "do" with
  | none => bad
  | some acts =>
  match acts.toList.mapM (parseAct fetMode) with
  | none => bad
  | some acts =>
  let trace : Option (List Vis) := match getArr j "trace" with
    | none => some []
    | some t => t.toList.mapM parseVis
  match trace with
  | none => (st, reject "unparsable trace")
  | some trace =>
  -- 1. environment actions, in order, on every candidate
  let r : Option (List State × Option FetSt) := acts.foldlM (fun (acc : List State × Option FetSt) a =>
    let (cands, fet) := acc
    match a, fet with
    | .ev e, _ => (applyEvents false cands [e]).map (·, fet)
    | .queue, some fs =>
      if fs.f.queuedNext ≥ fs.lastBlock then none else
      let q := fs.f.queuedNext + 1
      match fs.f.step? (.setQueued q) with
      | none => none
      | some (f1, _) =>
        let f2 := if fs.persist then ((f1.step? (.setPersisted q)).map (·.1)).getD f1 else f1
        some (cands, some { fs with f := f2 })
    | .okF h, some fs =>
      -- `runner.rs`: `queue_block(block)` succeeded, then `send_resp.send(())`; the harness only does this for the
      -- block that is next in the store
      match cands.head? >>= (fun s => aget s.holds h) with
      | none => none
      | some hd =>
        if hd.num ≠ fs.f.queuedNext ∨ hd.num ≥ fs.lastBlock then none else
        let q := fs.f.queuedNext + 1
        match fs.f.step? (.setQueued q) with
        | none => none
        | some (f1, _) =>
          let f2 := if fs.persist then ((f1.step? (.setPersisted q)).map (·.1)).getD f1 else f1
          (applyEvents false cands [.succeed h]).map (·, some { fs with f := f2 })
    | _, none => none) (st.cands, st.fet)
  match r with
  | none => bad
  | some (cands, fet) =>
  -- the fetcher reacts to the store (spawns / cancels requests)
  let r2 : Option (List State × Option FetSt) := match fet with
    | none => some (cands, none)
    | some fs =>
      let (f', es) := fetClosure 1000 fs.f []
      (applyEvents true cands es).map (·, some { fs with f := f' })
  match r2 with
  | none => (st, reject "fetcher model emitted a refused queue event")
  | some (cands, fet) =>
  -- 2. + 3. interleavings spelling the trace, ending idle
  let T := trace.toArray
  match explore fetMode T FUEL (cands.map (⟨canon ·, 0⟩)) [] with
  | none => (st, reject "exploration out of fuel")
  | some nodes =>
    let full := nodes.filter (·.k = T.size)
    let quiet := dedup ((full.filter (quiescent ·.s)).map (·.s))
    match quiet with
    | [] =>
      if full.isEmpty then
        let best := nodes.foldl (fun m nd => max m nd.k) 0
        (st, reject s!"the model allows no interleaving with this trace (only the first {best} of {T.size} events)")
      else
        let en := match full.head? with
          | some nd => (internalEvents nd.s).filter (fun e => (step? nd.s e).isSome)
          | none => []
        (st, reject s!"implementation idle, but in every model state with this trace a future can still run (missed wake-up); e.g. enabled: {repr en}")
    | s0 :: rest =>
      if rest.any (fun s => snapKey s ≠ snapKey s0) then
        (st, reject "candidates disagree on the snapshot")
      else
        let obs := Json.mkObj ([("ev", Json.arr (T.map fun v => match v with
            | .accepted p n h => Json.arr #[Json.str "acc", natJ p, natJ n, natJ h]
            | .stopped p => Json.arr #[Json.str "stopped", natJ p]
            | .done n => Json.arr #[Json.str "done", natJ n]
            | .cancelled n => Json.arr #[Json.str "cancelled", natJ n]))] ++
          snapshot s0 (!fetMode) ++ [("ncand", natJ quiet.length), ("explored", natJ nodes.length)])
        ({ cands := quiet, fet := fet }, obs)

def doInit (j : Json) : DState × Json :=
  match getObj j "fetcher" with
  | none => ({}, Json.mkObj [("init", Json.bool true), ("blocks", Json.arr #[])])
  | some f =>
    let k := (getNat f "k").getD 3
    let pre := (getNat f "pre").getD 0
    let persist := (getBool f "persist").getD true
    let nblocks := (getNat f "blocks").getD 0
    let first := (getNat j "first").getD 0
    -- `queued().next()` when the fetcher starts; with the engine's background tasks running the pre-stored blocks
    -- get persisted, without them nothing is ever persisted
    let start := first + pre
    let f0 := Fetcher.init k start (if persist then start else first)
    let (f1, es) := fetClosure 1000 f0 []
    match applyEvents true [State.init] es with
    | none => ({}, reject "fetcher model emitted a refused queue event")
    | some cands =>
      match explore true #[] FUEL (cands.map (⟨canon ·, 0⟩)) [] with
      | none => ({}, reject "exploration out of fuel")
      | some nodes =>
        let quiet := dedup ((nodes.filter (quiescent ·.s)).map (·.s))
        match quiet with
        | [] => ({}, reject "no quiescent state")
        | s0 :: _ =>
          ({ cands := quiet, fet := some ⟨f1, persist, first + nblocks⟩ },
           Json.mkObj [("init", Json.bool true), ("first", natJ first),
                       ("blocks", Json.arr ((sortNat (akeys s0.map)).map natJ).toArray)])

partial def handle (st : DState) (j : Json) : DState × Json :=
  match getStr j "op" with
  | some "init" => doInit j
  | some "step" => doStep st j
  | some "case" =>
    let ops := ((getArr j "ops").getD #[]).toList.filter (fun o => getStr o "op" ≠ some "case")
    let (st', obs) := ops.foldl (fun (acc : DState × Array Json) o =>
      let (s, out) := handle acc.1 o
      (s, acc.2.push out)) (st, #[])
    (st', Json.mkObj [("case", Json.arr obs)])
  | _ => (st, Json.mkObj [("bad", Json.bool true)])

end Driver.C19

def main : IO Unit := Driver.run ({} : Driver.C19.DState) Driver.C19.handle
