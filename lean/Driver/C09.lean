import Driver.Util
import EraVerif.Model.Wire
import EraVerif.Model.Conv
import EraVerif.Gen.Schemas

/-!
Model driver for C09. One JSON op per line; see `harness/src/bin/c09.rs` for the generator.

  {"op":"canon","schema":NAME,"bytes":HEX}            canonical_raw against the regenerated schema table
  {"op":"canon","table":[MSG..],"idx":i,"bytes":HEX}  canonical_raw against an inline (synthetic) table
  {"op":"schema","name":NAME}                         the translator's view of a message descriptor
  {"op":"names"}                                      all message names of the regenerated table
  {"op":"buildcheck","table":[MSG..],"proto":TEXT}    the build-time restriction (`supportsCanonical`) on a small schema
  {"op":"bitvec","bits":"0101"} / {"op":"bitvec_read","size":n,"bytes":HEX}
  {"op":"duration"|"timestamp","secs":i,"nanos":i} / {"op":"duration_read","secs":i,"nanos":i}
  {"op":"sockaddr","ip":HEX,"port":n} / {"op":"sockaddr_read","ip":HEX,"port":n}
  {"op":"tqc","view":V,"entries":[{"msg":RT,"signers":"0101"}..],"sig":HEX}
  {"op":"schedule","validators":[{"key":HEX,"weight":n,"leader":b}..],"freq":n,"mode":"rr"|"weighted"}
  {"op":"muxhs","accept":[[id,max]..],"connect":[[id,max]..]}
-/

namespace Driver.C09
open Lean Driver EraVerif.Model.Wire EraVerif.Model.Conv

def hexVal (c : Char) : Option Nat :=
  if '0' ≤ c ∧ c ≤ '9' then some (c.toNat - '0'.toNat)
  else if 'a' ≤ c ∧ c ≤ 'f' then some (c.toNat - 'a'.toNat + 10)
  else if 'A' ≤ c ∧ c ≤ 'F' then some (c.toNat - 'A'.toNat + 10)
  else none

def unhexAux : List Char → List UInt8 → Option (List UInt8)
  | [], acc => some acc.reverse
  | [_], _ => none
  | a :: b :: rest, acc =>
    match hexVal a, hexVal b with
    | some x, some y => unhexAux rest (UInt8.ofNat (x * 16 + y) :: acc)
    | _, _ => none

def unhex (s : String) : Option Bytes := unhexAux s.toList []

def hexDigit (n : Nat) : Char := if n < 10 then Char.ofNat (48 + n) else Char.ofNat (87 + n)

def hex (bs : Bytes) : String :=
  String.ofList (bs.foldr (fun b acc => hexDigit (b.toNat / 16) :: hexDigit (b.toNat % 16) :: acc) [])

def getHex (j : Json) (k : String) : Option Bytes := (getStr j k).bind unhex

def getInt (j : Json) (k : String) : Option Int :=
  match j.getObjVal? k with
  | .ok v => (match v.getInt? with | .ok n => some n | .error _ => none)
  | .error _ => none

def bitsOfString (s : String) : Option (List Bool) :=
  s.toList.mapM fun c => if c = '0' then some false else if c = '1' then some true else none

def stringOfBits (bs : List Bool) : String := String.ofList (bs.map fun b => if b then '1' else '0')

def getBits (j : Json) (k : String) : Option (List Bool) := (getStr j k).bind bitsOfString

/-! ### schemas -/

def kindName : Kind → String
  | .varint => "varint"
  | .fixed64 => "fixed64"
  | .fixed32 => "fixed32"
  | .bytes => "bytes"
  | .msg _ => "msg"

def parseField (j : Json) : Option FieldSchema := do
  let num ← getNat j "num"
  let k ← getStr j "kind"
  let kind ← match k with
    | "varint" => some Kind.varint
    | "fixed64" => some Kind.fixed64
    | "fixed32" => some Kind.fixed32
    | "bytes" => some Kind.bytes
    | "msg" => (getNat j "sub").map Kind.msg
    | _ => none
  let repeated ← getBool j "repeated"
  let presence ← getBool j "presence"
  let isMap ← getBool j "map"
  pure { num, kind, repeated, explicitPresence := presence, isMap }

def parseTable (j : Json) : Option Table := do
  let arr ← getArr j "table"
  arr.toList.mapM fun m => do
    let name ← getStr m "name"
    let proto3 ← getBool m "proto3"
    let fs ← getArr m "fields"
    let fields ← fs.toList.mapM parseField
    pure { name, fields, proto3 }

def fieldJson (tbl : Table) (f : FieldSchema) : Json :=
  let sub : Json := match f.kind with
    | .msg i => (match tbl[i]? with | some m => Json.str m.name | none => Json.null)
    | _ => Json.null
  Json.mkObj [("num", natJ f.num), ("kind", Json.str (kindName f.kind)), ("sub", sub),
              ("repeated", Json.bool f.repeated), ("presence", Json.bool f.explicitPresence),
              ("map", Json.bool f.isMap)]

def insertSorted (f : FieldSchema) : List FieldSchema → List FieldSchema
  | [] => [f]
  | g :: gs => if f.num ≤ g.num then f :: g :: gs else g :: insertSorted f gs

def sortFields (fs : List FieldSchema) : List FieldSchema := fs.foldr insertSorted []

def resultJson (r : Except Err Bytes) : Json :=
  match r with
  | .ok out => Json.mkObj [("ok", Json.bool true), ("out", Json.str (hex out))]
  | .error e => Json.mkObj [("ok", Json.bool false), ("_err", Json.str (reprStr e))]

def encJson (t : Tree) : Json := Json.mkObj [("enc", Json.str (hex t.payload)), ("rt", Json.bool true)]

/-! ### typed values -/

def parseView (j : Json) : Option View := do
  pure { genesis := ← getHex j "genesis", epoch := ← getNat j "epoch", number := ← getNat j "number" }

def parseRC (j : Json) : Option ReplicaCommit := do
  let v ← (getObj j "view").bind parseView
  pure { view := v, number := ← getNat j "number", payload := ← getHex j "payload" }

def optObj (j : Json) (k : String) : Option (Option Json) :=
  match j.getObjVal? k with
  | .ok Json.null => some none
  | .ok v => some (some v)
  | .error _ => some none

def parseCQC (j : Json) : Option CommitQC := do
  let m ← (getObj j "msg").bind parseRC
  pure { message := m, signers := ← getBits j "signers", signature := ← getHex j "sig" }

def parseRT (j : Json) : Option ReplicaTimeout := do
  let v ← (getObj j "view").bind parseView
  let hv ← match ← optObj j "high_vote" with
    | none => some none
    | some x => (parseRC x).map some
  let hq ← match ← optObj j "high_qc" with
    | none => some none
    | some x => (parseCQC x).map some
  pure { view := v, highVote := hv, highQc := hq }

def parseCaps (j : Json) (k : String) : Option (List (Nat × Nat)) := do
  let arr ← getArr j k
  arr.toList.mapM fun e =>
    match e.getArr? with
    | .ok a =>
      match a.toList with
      | [x, y] => (match x.getNat?, y.getNat? with | .ok p, .ok q => some (p, q) | _, _ => none)
      | _ => none
    | .error _ => none

def durJson (d : Dur) : Json :=
  let (s, n) := durBuild d
  Json.mkObj [("enc", Json.str (hex (durTree d).payload)), ("secs", Json.num (JsonNumber.fromInt s)),
              ("nanos", Json.num (JsonNumber.fromInt n)),
              ("rt", Json.bool (durRead s n == .ok d))]

def handle (j : Json) : Json :=
  match getStr j "op" with
  | some "canon" =>
    match getHex j "bytes" with
    | none => badOp
    | some bs =>
      match j.getObjVal? "table" with
      | .ok _ =>
        match parseTable j, getNat j "idx" with
        | some tbl, some idx => resultJson (canonical tbl idx bs)
        | _, _ => badOp
      | .error _ =>
        match (getStr j "schema").bind EraVerif.Gen.Schemas.indexOf with
        | some idx => resultJson (canonical EraVerif.Gen.Schemas.table idx bs)
        | none => Json.mkObj [("unknown_schema", Json.bool true)]
  | some "schema" =>
    match getStr j "name" with
    | none => badOp
    | some name =>
      let tbl := EraVerif.Gen.Schemas.table
      match tbl.find? (fun m => m.name == name) with
      | none => Json.mkObj [("known", Json.bool false)]
      | some m =>
        Json.mkObj [("known", Json.bool true), ("proto3", Json.bool m.proto3),
                    ("fields", Json.arr ((sortFields m.fields).map (fieldJson tbl)).toArray)]
  | some "buildcheck" =>
    match parseTable j with
    | some tbl => Json.mkObj [("ok", Json.bool (supportsCanonical tbl))]
    | none => badOp
  | some "names" =>
    Json.mkObj [("names", Json.arr (EraVerif.Gen.Schemas.table.map (fun m => Json.str m.name)).toArray)]
  | some "bitvec" =>
    match getBits j "bits" with
    | none => badOp
    | some bits =>
      let (size, bytes) := bitvecBuild bits
      Json.mkObj [("enc", Json.str (hex (bitvecTree bits).payload)),
                  ("rt", Json.bool (bitvecRead size bytes == .ok bits))]
  | some "bitvec_read" =>
    match getNat j "size", getHex j "bytes" with
    | some size, some bytes =>
      match bitvecRead size bytes with
      | .ok bits => Json.mkObj [("ok", Json.bool true), ("bits", Json.str (stringOfBits bits))]
      | _ => Json.mkObj [("ok", Json.bool false)]
    | _, _ => badOp
  | some "duration" | some "timestamp" =>
    match getInt j "secs", getInt j "nanos" with
    | some s, some n => durJson ⟨s, n⟩
    | _, _ => badOp
  | some "duration_read" =>
    match getInt j "secs", getInt j "nanos" with
    | some s, some n =>
      match durRead s n with
      | .ok d => Json.mkObj [("ok", Json.bool true), ("secs", Json.num (JsonNumber.fromInt d.secs)),
                             ("nanos", Json.num (JsonNumber.fromInt d.nanos))]
      | .err => Json.mkObj [("ok", Json.bool false)]
      | .panic site => Json.mkObj [("panic", Json.str site)]
    | _, _ => badOp
  | some "sockaddr" =>
    match getHex j "ip", getNat j "port" with
    | some ip, some port =>
      let a : SockAddr := ⟨ip, port⟩
      Json.mkObj [("enc", Json.str (hex (sockTree a).payload)), ("rt", Json.bool (sockRead ip port == .ok a))]
    | _, _ => badOp
  | some "sockaddr_read" =>
    match getHex j "ip", getNat j "port" with
    | some ip, some port =>
      match sockRead ip port with
      | .ok _ => Json.mkObj [("ok", Json.bool true)]
      | _ => Json.mkObj [("ok", Json.bool false)]
    | _, _ => badOp
  | some "tqc" =>
    let q : Option TimeoutQC := do
      let v ← (getObj j "view").bind parseView
      let arr ← getArr j "entries"
      let entries ← arr.toList.mapM fun e => do
        let m ← (getObj e "msg").bind parseRT
        let s ← getBits e "signers"
        pure (m, s)
      pure { view := v, entries, signature := ← getHex j "sig" }
    match q with
    | none => badOp
    | some q => Json.mkObj [("enc", Json.str (hex q.tree.payload)), ("n", natJ q.map.length)]
  | some "schedule" =>
    let r : Option (List ValidatorInfo × LeaderSelection) := do
      let arr ← getArr j "validators"
      let vs ← arr.toList.mapM fun e => do
        pure ({ key := ← getHex e "key", weight := ← getNat e "weight", leader := ← getBool e "leader" } : ValidatorInfo)
      let freq ← getNat j "freq"
      let mode ← match ← getStr j "mode" with
        | "rr" => some LeaderMode.roundRobin
        | "weighted" => some LeaderMode.weighted
        | _ => none
      pure (vs, ⟨freq, mode⟩)
    match r with
    | none => badOp
    | some (vs, sel) =>
      match scheduleNew vs sel with
      | none => Json.mkObj [("ok", Json.bool false)]
      | some s => Json.mkObj [("ok", Json.bool true), ("enc", Json.str (hex s.tree.payload))]
  | some "muxhs" =>
    match parseCaps j "accept", parseCaps j "connect" with
    | some a, some c => Json.mkObj [("enc", Json.str (hex (muxHandshakeTree a c).payload))]
    | _, _ => badOp
  | _ => badOp

end Driver.C09

def main : IO Unit := Driver.runPure Driver.C09.handle
