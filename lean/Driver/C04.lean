import Driver.CJson

namespace Driver.C04
open Lean Driver Driver.CJson EraVerif.Model

structure St where
  c : Committee := default
  cqc : Option CommitQC := none
  tqc : Option TimeoutQC := none

def okJ (b : Bool) : Json := Json.mkObj [("ok", Json.bool b)]

def resNatJ (ok : Bool) : Res Nat → Json
  | .ok w => Json.mkObj [("ok", Json.bool ok), ("weight", natJ w)]
  | .panic s => Json.mkObj [("panic", Json.str s)]

def step (s : St) (j : Json) : St × Json :=
  match getStr j "op" with
  | some "committee" =>
    match committee? j with
    | some c => ({ c := c }, okJ true)
    | none => (s, badOp)
  | some "cqc_verify" =>
    match (getObj j "qc").bind cqc? with
    | some q => (s, okJ (q.verify s.c))
    | none => (s, badOp)
  | some "tqc_verify" =>
    match (getObj j "qc").bind tqc? with
    | some q => (s, okJ (q.verify s.c))
    | none => (s, badOp)
  | some "block_verify" =>
    match (getObj j "qc").bind cqc?, getNat j "payload" with
    | some q, some p => (s, okJ (finalBlockVerify s.c p q))
    | _, _ => (s, badOp)
  | some "cqc_new" =>
    match (getObj j "vote").bind vote? with
    | some v => ({ s with cqc := some (CommitQC.new s.c v) }, okJ true)
    | none => (s, badOp)
  | some "cqc_add" =>
    match (getObj j "vote").bind vote?, getNat j "key", s.cqc with
    | some v, some k, some q =>
      let sb : SignedBy := { key := if k < s.c.n then some k else none, sigOk := (getBool j "sig_ok").getD true }
      match q.add s.c sb v with
      | .ok q' => ({ s with cqc := some q' }, Json.mkObj [("ok", Json.bool true), ("signers", boolsJ q'.signers)])
      | .error _ => (s, Json.mkObj [("ok", Json.bool false), ("signers", boolsJ q.signers)])
    | _, _, _ => (s, badOp)
  | some "cqc_cur_verify" =>
    match s.cqc with
    | some q => (s, okJ (q.verify s.c))
    | none => (s, badOp)
  | some "tqc_new" =>
    match (getObj j "view").bind view? with
    | some v => ({ s with tqc := some (TimeoutQC.new v) }, okJ true)
    | none => (s, badOp)
  | some "tqc_add" =>
    match (getObj j "tvote").bind tvote?, getNat j "key", s.tqc with
    | some t, some k, some q =>
      let sb : SignedBy := { key := if k < s.c.n then some k else none, sigOk := (getBool j "sig_ok").getD true }
      match q.add s.c sb t with
      | .ok q' => ({ s with tqc := some q' }, resNatJ true (q'.weight s.c))
      | .error _ => (s, resNatJ false (q.weight s.c))
    | _, _, _ => (s, badOp)
  | some "tqc_cur_verify" =>
    match s.tqc with
    | some q => (s, okJ (q.verify s.c))
    | none => (s, badOp)
  | _ => (s, badOp)

end Driver.C04

def main : IO Unit := Driver.run ({} : Driver.C04.St) Driver.C04.step
