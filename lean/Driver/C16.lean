import Driver.Util
import EraVerif.Model.Mpsc

/-!
Model driver of C16 (a): the pending-input queue.

ops (first op of a case carries `"reset": true`):
* `{"op":"send","m":{"id","sender","kind","view","sig_ok"}}`   → `{"pending":[ids sorted],"len":n}`
* `{"op":"recv"}`                                              → `{"recv":id,"sender","kind","view","len"}` | `{"blocked":true}`
* `{"op":"drain"}`  (recv until it blocks)                     → `{"drained":[ids in delivery order]}`
  (`"sorted":true` after concurrent sends: ids sorted, only the set is determined)
* `{"op":"conc","threads":[[m..],..]}` concurrent senders, no consumer; every (sender, kind) is used by one
  thread only, so the pending *set* does not depend on the interleaving (`since_without_pop`)  → `{"pending":[..],"len":n}`
* `{"op":"case","steps":[op..]}` a whole case as one op → `{"obs":[..]}`
* `{"op":"conc_recv","threads":[[m..],..]}` concurrent senders and the consumer, which then drains the queue
  → `{"pending":[],"max_delivered":[[sender,kind,view]..]}`: per slot the highest delivered view — independent of
  the interleaving (`freshest_vote_survives_queue`)
-/
namespace Driver.C16
open Lean Driver EraVerif.Model.Mpsc

def kindOfNat : Nat → Option Kind
  | 0 => some .proposal
  | 1 => some .commit
  | 2 => some .timeout
  | 3 => some .newView
  | _ => none

def kindToNat : Kind → Nat
  | .proposal => 0
  | .commit => 1
  | .timeout => 2
  | .newView => 3

def parseMsg (j : Json) : Option Msg := do
  let id ← getNat j "id"
  let sender ← getNat j "sender"
  let k ← getNat j "kind"
  let kind ← kindOfNat k
  let view ← getNat j "view"
  let sigOk ← getBool j "sig_ok"
  pure { sender, kind, view, id, sigOk }

def insertSorted (n : Nat) : List Nat → List Nat
  | [] => [n]
  | x :: xs => if n ≤ x then n :: x :: xs else x :: insertSorted n xs

def sortNat (l : List Nat) : List Nat := l.foldr insertSorted []

def idsJ (l : List Nat) : Json := Json.arr (l.map natJ).toArray

def pendingObs (s : St) : Json :=
  Json.mkObj [("pending", idsJ (sortNat (s.buf.map (·.id)))), ("len", natJ s.buf.length),
              ("_order", idsJ (s.buf.map (·.id)))]

def panicJ : Json := Json.mkObj [("panic", Json.str "prunable_mpsc recv: unwrap on None")]

/-- recv until blocked; fuel = pending count + 1 (each successful recv shortens the buffer) -/
def drain : Nat → St → List Msg → St × List Msg × Bool
  | 0, s, acc => (s, acc, false)
  | fuel + 1, s, acc =>
    match recvSeq s with
    | (s', .blocked) => (s', acc, false)
    | (s', .got m) => drain fuel s' (acc ++ [m])
    | (s', .panic) => (s', acc, true)

def parseThreads (j : Json) : Option (List (List Msg)) := do
  let a ← getArr j "threads"
  a.toList.mapM fun t =>
    match t.getArr? with
    | .ok ms => ms.toList.mapM parseMsg
    | .error _ => none

/-- per slot (sorted by sender, kind) the maximal view in `l` -/
def maxPerSlot (l : List Msg) : List (Nat × Nat × Nat) :=
  let upd (acc : List (Nat × Nat × Nat)) (m : Msg) : List (Nat × Nat × Nat) :=
    let k := kindToNat m.kind
    if acc.any (fun e => e.1 == m.sender && e.2.1 == k) then
      acc.map (fun e => if e.1 == m.sender && e.2.1 == k && e.2.2 < m.view then (e.1, e.2.1, m.view) else e)
    else acc ++ [(m.sender, k, m.view)]
  let all := l.foldl upd []
  -- insertion sort by (sender, kind)
  let ins (e : Nat × Nat × Nat) (xs : List (Nat × Nat × Nat)) : List (Nat × Nat × Nat) :=
    let rec go : List (Nat × Nat × Nat) → List (Nat × Nat × Nat)
      | [] => [e]
      | x :: xs => if e.1 < x.1 || (e.1 == x.1 && e.2.1 ≤ x.2.1) then e :: x :: xs else x :: go xs
    go xs
  all.foldr ins []

def handleStep (s0 : St) (j : Json) : St × Json :=
  let s : St := if (getBool j "reset").getD false then {} else s0
  match getStr j "op" with
  | some "send" =>
    match (getObj j "m").bind parseMsg with
    | none => (s, badOp)
    | some m =>
      let s' := step s (.send m)
      (s', pendingObs s')
  | some "recv" =>
    match recvSeq s with
    | (s', .blocked) => (s', Json.mkObj [("blocked", Json.bool true)])
    | (s', .got m) =>
      (s', Json.mkObj [("recv", natJ m.id), ("sender", natJ m.sender), ("kind", natJ (kindToNat m.kind)),
                        ("view", natJ m.view), ("len", natJ s'.buf.length)])
    | (s', .panic) => (s', panicJ)
  | some "drain" =>
    match drain (s.buf.length + 1) s [] with
    | (s', _, true) => (s', panicJ)
    | (s', ms, false) =>
      let ids := ms.map (·.id)
      (s', Json.mkObj [("drained", idsJ (if (getBool j "sorted").getD false then sortNat ids else ids))])
  | some "conc" =>
    match parseThreads j with
    | none => (s, badOp)
    | some ts =>
      let s' := ts.flatten.foldl (fun st m => step st (.send m)) s
      (s', pendingObs s')
  | some "conc_recv" =>
    match parseThreads j with
    | none => (s, badOp)
    | some ts =>
      let s1 := ts.flatten.foldl (fun st m => step st (.send m)) s
      match drain (s1.buf.length + 1) s1 [] with
      | (s', _, true) => (s', panicJ)
      | (s', _, false) =>
        let mx := maxPerSlot (s'.out.drop s.out.length)
        (s', Json.mkObj [("pending", idsJ (s'.buf.map (·.id))),
                         ("max_delivered", Json.arr (mx.map fun e => idsJ [e.1, e.2.1, e.2.2]).toArray)])
  | _ => (s, badOp)

/-- `{"op":"case","steps":[..]}`: a whole case as one op (replay files of monitor failures) → `{"obs":[..]}` -/
def handle (s0 : St) (j : Json) : St × Json :=
  match getStr j "op" with
  | some "case" =>
    let steps := ((getArr j "steps").getD #[]).toList
    let r := steps.foldl (fun (p : St × List Json) st =>
      let (s', o) := handleStep p.1 st
      (s', p.2 ++ [o])) (({} : St), [])
    (({} : St), Json.mkObj [("obs", Json.arr r.2.toArray)])
  | _ => handleStep s0 j

end Driver.C16

def main : IO Unit := Driver.run ({} : EraVerif.Model.Mpsc.St) Driver.C16.handle
