-- Root of the `EraVerif` library: models, generated definitions, proofs, property theorems.
import EraVerif.Props.C07
import EraVerif.Props.C16
import EraVerif.Props.C18
import EraVerif.Props.C15
import EraVerif.Props.C09
import EraVerif.Props.C11
import EraVerif.Props.C12
import EraVerif.Props.C08
import EraVerif.Props.C04
import EraVerif.Props.C13
import EraVerif.Props.C19
import EraVerif.Props.C17
import EraVerif.Props.C16b
import EraVerif.Props.C10
import EraVerif.Props.C03
