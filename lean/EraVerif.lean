-- Root of the `EraVerif` library: models, generated definitions, proofs, property theorems.
import EraVerif.Props.C07
