#!/bin/bash
# tools/mutate_run.sh <Cxx> <patch.diff> [extra check args]
# Applies a patch to /repo, runs ./check <Cxx>, and reverts the patch — all under the global build lock, so that no
# other check ever sees the mutated tree. Exit code = exit code of the check (1 = the mutation was detected).
set -u
PROP="$1"; PATCH="$(readlink -f "$2")"; shift 2
cd "$(dirname "$0")/.."
mkdir -p .work
exec 9>.work/lock
flock 9
if ! git -C /repo apply --check "$PATCH" 2>/dev/null; then echo "patch does not apply"; exit 3; fi
git -C /repo apply "$PATCH"
# evidence and replay files of a mutated run go to .work/mutated/, never over the real evidence
EV="evidence/$PROP.json"; SAVE=".work/evidence.$PROP.saved"; rm -f "$SAVE"; [ -f "$EV" ] && cp "$EV" "$SAVE"
VERIF_LOCK_HELD=1 ./check "$PROP" "$@"
rc=$?
mkdir -p .work/mutated; [ -f "$EV" ] && cp "$EV" ".work/mutated/$PROP.json"
if [ -f "$SAVE" ]; then mv "$SAVE" "$EV"; fi
git -C /repo apply -R "$PATCH" || echo "WARNING: could not revert $PATCH"
# the generated Lean files were regenerated from the mutated source: regenerate them from the restored tree
python3 tools/translate.py > /dev/null 2>&1
# rebuild nothing here: the next check rebuilds from the restored tree
exit $rc
