#!/bin/bash
# tools/confirm_seed.sh <seed-id> <worktree> <crate> "<demo filter args>" [skip-filter]
# Confirms a seeded change in its scratch worktree (both patches applied on entry):
#   1. demo fails with the change, 2. demo passes without it, 3. the crate's existing tests pass with the change.
ID="$1"; WT="$2"; CRATE="$3"; DEMO="$4"; SKIP="${5:-}"
LOG=/verif/seeded/$ID/confirm.log
cd "$WT/node" || exit 2
{
echo "== $(date -u) confirm $ID in $WT"
git -C "$WT" status --short | head -5
echo "-- (1) demo WITH the change: expect failure"
cargo test -p $CRATE --offline $DEMO 2>&1 | grep -E "^test |test result|error(\[|:)" | tail -8
echo "-- (2) demo WITHOUT the change: expect pass"
git -C "$WT" apply -R "$WT/SEED/patch.diff" && cargo test -p $CRATE --offline $DEMO 2>&1 | grep -E "^test |test result|error(\[|:)" | tail -8
git -C "$WT" apply "$WT/SEED/patch.diff"
echo "-- (3) existing tests of $CRATE WITH the change (demo skipped): expect pass"
if [ -n "$SKIP" ]; then cargo test -p $CRATE --offline -- --skip $SKIP 2>&1 | grep -E "test result|FAILED|failed" | tail -6; else git -C "$WT" apply -R "$WT/SEED/demo.diff"; cargo test -p $CRATE --offline 2>&1 | grep -E "test result|FAILED|failed" | tail -6; git -C "$WT" apply "$WT/SEED/demo.diff"; fi
} > "$LOG" 2>&1
tail -30 "$LOG"
