#!/usr/bin/env python3
"""Regenerates the table of DESIGN.md §0.6 (between the markers) from seeded/*/meta.json."""
import json, glob, os, re
root = os.path.dirname(os.path.dirname(os.path.abspath(__file__)))
rows = []
def key(p):
    b = os.path.basename(os.path.dirname(p)); pid, k = b.split('-'); return (pid, int(k))
for f in sorted(glob.glob(os.path.join(root, 'seeded', '*', 'meta.json')), key=key):
    m = json.load(open(f))
    cell = lambda s: (s or '—').replace('|', '\\|').replace('\n', ' ')
    summ = cell(m.get('summary'))
    if len(summ) > 260: summ = summ[:257] + '…'
    needs = cell(m.get('needs_to_manifest'))
    if len(needs) > 200: needs = needs[:197] + '…'
    det = '; '.join(f"{k}: {v}" for k, v in (m.get('detected_by') or {}).items())
    rows.append(f"| {m['id']} | {summ} | {needs} | {cell(det)} | {cell(m.get('check_strengthened'))} |")
table = ["| seed | change (by a fresh sub-agent that saw only the property text) | what it needs to manifest | which check reports it | what was strengthened because of it |",
         "|---|---|---|---|---|"] + rows
p = os.path.join(root, 'DESIGN.md')
s = open(p).read()
a, b = '<!-- seeds-table:begin -->', '<!-- seeds-table:end -->'
assert a in s and b in s
s = s[:s.index(a) + len(a)] + '\n' + '\n'.join(table) + '\n' + s[s.index(b):]
open(p, 'w').write(s)
print(len(rows), 'seeds')
