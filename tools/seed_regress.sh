#!/bin/bash
# tools/seed_regress.sh [seed-id ...] : re-runs every recorded seeded change against the check(s) that are meant to catch it
# (tools/mutate_run.sh applies the patch under the global lock and reverts it) and prints one line per (seed, check):
#   <seed> <check> oracle|k-only|MISSED   (oracle = VIOLATION with a failing input; k-only = no-failing-input-found)
cd "$(dirname "$0")/.."
seeds=("$@")
if [ ${#seeds[@]} -eq 0 ]; then seeds=($(ls seeded | sort -V)); fi
for sd in "${seeds[@]}"; do
  [ -f "seeded/$sd/patch.diff" ] || continue
  p=${sd%%-*}
  checks=$p
  case $sd in
    C01-1) checks="C02 C01";;
    C09-3) checks="C10";;
    C07-3) checks="C07 C11";;
    C02-3) checks="C02 C03";;
    C07-4) checks="C02";;
    C05-5) checks="C04";;
    C11-4) checks="C11 C05";;
  esac
  for c in $checks; do
    out=$(tools/mutate_run.sh $c seeded/$sd/patch.diff 2>&1)
    if echo "$out" | grep -q "^VIOLATION.*replay=replays/$c-oracle"; then v=oracle
    elif echo "$out" | grep -q "^VIOLATION"; then v=k-only
    elif echo "$out" | grep -q "patch does not apply"; then v=PATCH-DOES-NOT-APPLY
    else v=MISSED; fi
    echo "$sd $c $v"
  done
done
