#!/bin/bash
# tools/confirm_seed_fresh.sh <seed-id> <crate> "<demo filter args>" [skip-filter]
# Confirms a seeded change from the files in /verif/seeded/<id>/ in a FRESH scratch worktree of /repo's HEAD:
#   1. demo fails with the change, 2. demo passes without it, 3. the crate's existing tests pass with the change.
ID="$1"; CRATE="$2"; DEMO="$3"; SKIP="${4:-}"
WT=/tmp/confirm-$ID
LOG=/verif/seeded/$ID/confirm.log
git -C /repo worktree add -f "$WT" HEAD -q || exit 2
cd "$WT/node" || exit 2
{
echo "== $(date -u) confirm $ID in fresh worktree $WT of $(git -C /repo rev-parse --short HEAD)"
git -C "$WT" apply /verif/seeded/$ID/demo.diff && git -C "$WT" apply /verif/seeded/$ID/patch.diff || echo "PATCHES DO NOT APPLY"
echo "-- (1) demo WITH the change: expect failure"
cargo test -p $CRATE --offline $DEMO 2>&1 | grep -E "^test |test result|error(\[|:)" | tail -8
echo "-- (2) demo WITHOUT the change: expect pass"
git -C "$WT" apply -R /verif/seeded/$ID/patch.diff && cargo test -p $CRATE --offline $DEMO 2>&1 | grep -E "^test |test result|error(\[|:)" | tail -8
git -C "$WT" apply /verif/seeded/$ID/patch.diff
echo "-- (3) existing tests of $CRATE WITH the change (demo removed): expect pass"
git -C "$WT" apply -R /verif/seeded/$ID/demo.diff
cargo test -p $CRATE --offline --lib --tests 2>&1 | grep -E "test result|FAILED|failed" | tail -6
} > "$LOG" 2>&1
cd /; git -C /repo worktree remove --force "$WT"; git -C /repo worktree prune
tail -12 "$LOG"
