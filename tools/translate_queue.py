"""Translator for the two functions that parametrise the bft inbound queue (node/components/bft/src/lib.rs) -> Gen/QueueFns.lean
(C16): `inbound_selection_function` (nested if/else over comparisons of key, label and view NUMBER of the pending and the
new request) and `inbound_filter_predicate` (`new_req.msg.verify().is_ok()`). Unrecognised shapes raise TErr.
"""
import re


class TErr(Exception):
    pass


def _fn_body(src, name):
    ms = list(re.finditer(r"\bfn\s+" + name + r"\s*\(", src))
    if len(ms) != 1:
        raise TErr(f"fn {name}: expected one definition, found {len(ms)}")
    i = src.index("{", ms[0].end())
    d, j = 1, i + 1
    while d and j < len(src):
        d += {"{": 1, "}": -1}.get(src[j], 0)
        j += 1
    return " ".join(src[ms[0].start():i].split()), " ".join(re.sub(r"//[^\n]*", "", src[i + 1:j - 1]).split())


OPERAND = {"msg.key": "key", "msg.msg.label()": "label", "msg.msg.view_number()": "view_number"}


def operand(s):
    m = re.fullmatch(r"(old_req|new_req)\.(.*)", s.strip())
    if not m or m.group(2) not in OPERAND:
        raise TErr(f"selection function: operand {s.strip()!r} (only key, label() and view_number() of the two requests are expected)")
    return f"{m.group(1)}.{OPERAND[m.group(2)]}"


def cond(s):
    parts = s.split("||")
    out = []
    for p in parts:
        if "&&" in p:
            raise TErr(f"selection function: condition {s!r}")
        m = re.fullmatch(r"\s*(.*?)\s*(!=|==|<=|>=|<|>)\s*(.*?)\s*", p)
        if not m:
            raise TErr(f"selection function: comparison {p!r}")
        op = {"!=": "≠", "==": "=", "<=": "≤", ">=": "≥", "<": "<", ">": ">"}[m.group(2)]
        out.append(f"{operand(m.group(1))} {op} {operand(m.group(3))}")
    return " ∨ ".join(out)


def block(s):
    s = s.strip()
    m = re.fullmatch(r"SelectionFunctionResult::(Keep|DiscardOld|DiscardNew)", s)
    if m:
        return f"R.{m.group(1)}"
    m = re.match(r"if (.*?) \{", s)
    if not m:
        raise TErr(f"selection function: {s[:60]!r}")

    def grab(i):
        d, j = 1, i + 1
        while d and j < len(s):
            d += {"{": 1, "}": -1}.get(s[j], 0)
            j += 1
        return s[i + 1:j - 1], j
    then, j = grab(m.end() - 1)
    rest = s[j:].strip()
    if not rest.startswith("else {"):
        raise TErr("selection function: if without else")
    els, k = grab(j + s[j:].index("{"))
    if s[k:].strip():
        raise TErr("selection function: trailing code")
    return f"(if {cond(m.group(1))} then {block(then)} else {block(els)})"


def gen_send(msrc):
    """`Sender::send` of sync/prunable_mpsc/mod.rs: filter guard, `retain` with a mutable `keep` flag, conditional push."""
    i = msrc.index("impl<T> Sender<T>")
    sig, body = _fn_body(msrc[i:msrc.index("impl<T> fmt::Debug for Sender<T>")], "send")
    m = re.fullmatch(r"if !\(self\.filter_predicate\)\(&value\) \{ return; \} self\.shared\.send\.send_modify\(\|buf\| \{ "
                     r"let mut keep = (true|false); buf\.retain\(\|x\| match \(self\.selection_function\)\(x, &value\) \{ (.*) \}\); "
                     r"if keep \{ buf\.push_back\(value\); \} \}\);", body)
    if not m:
        raise TErr(f"Sender::send: body shape not recognised: {body!r}")
    arms_src = m.group(2)
    arms = {}
    for a in re.finditer(r"SelectionFunctionResult::(\w+) => (true|false|\{ keep = (true|false); (true|false) \}),?", arms_src):
        if a.group(3):
            arms[a.group(1)] = (a.group(4), a.group(3))
        else:
            arms[a.group(1)] = (a.group(2), None)
    rest = re.sub(r"SelectionFunctionResult::(\w+) => (true|false|\{ keep = (true|false); (true|false) \}),?", "", arms_src).strip()
    if rest or set(arms) != {"Keep", "DiscardOld", "DiscardNew"}:
        raise TErr(f"Sender::send: match arms not recognised: {arms_src!r}")

    def arm(v):
        retain, ks = arms[v]
        acc = "st.1 ++ [x]" if retain == "true" else "st.1"
        keep = "st.2" if ks is None else ks
        return f"    | R.{v} => ({acc}, {keep})"
    return f"""
/-- one visit of the `retain` closure of `Sender::send`: (retained so far, `keep`) -/
def retainStep {{α : Type}} (selection_function : α → α → R) (value : α) (st : List α × Bool) (x : α) : List α × Bool :=
    match selection_function x value with
{arm("Keep")}
{arm("DiscardOld")}
{arm("DiscardNew")}

/-- `Sender::send` (sync/prunable_mpsc/mod.rs) on the buffer. Source: `{body}`
(`VecDeque::retain` visits the elements front to back and keeps their order) -/
def send {{α : Type}} (filter_predicate : α → Bool) (selection_function : α → α → R) (buf : List α) (value : α) : List α :=
  if !(filter_predicate value) then buf else
  let st := buf.foldl (retainStep selection_function value) ([], {m.group(1)})
  if st.2 then st.1 ++ [value] else st.1
"""


def gen(src, msrc):
    sig, body = _fn_body(src, "inbound_selection_function")
    if "old_req: &FromNetworkMessage, new_req: &FromNetworkMessage" not in sig.replace(",)", ")").replace(", )", ")"):
        raise TErr(f"inbound_selection_function: signature {sig!r}")
    sel = block(body)
    sig2, body2 = _fn_body(src, "inbound_filter_predicate")
    if body2 != "new_req.msg.verify().is_ok()":
        raise TErr(f"inbound_filter_predicate: body {body2!r}")
    _, chan = _fn_body(src, "create_input_channel")
    if chan != "sync::prunable_mpsc::channel(inbound_filter_predicate, inbound_selection_function)":
        raise TErr(f"create_input_channel: body {chan!r}")
    return f'''-- GENERATED by tools/translate.py (tools/translate_queue.py) from node/components/bft/src/lib.rs.
-- Do not edit: regenerated on every check run.

namespace EraVerif.Gen.QueueFns

/-- what the two functions read of a `FromNetworkMessage`: `msg.key`, `msg.msg.label()`, `msg.msg.view_number()`,
`msg.verify().is_ok()` -/
structure Req where
  key : Nat
  label : Nat
  view_number : Nat
  verify_ok : Bool
  deriving DecidableEq, Repr

/-- `SelectionFunctionResult` -/
inductive R where
  | Keep | DiscardOld | DiscardNew
  deriving DecidableEq, Repr

/-- `inbound_selection_function`. Source: `{body}` -/
def inbound_selection_function (old_req new_req : Req) : R := {sel}

/-- `inbound_filter_predicate`. Source: `{body2}` -/
def inbound_filter_predicate (new_req : Req) : Bool := new_req.verify_ok
{gen_send(msrc)}
end EraVerif.Gen.QueueFns
'''
