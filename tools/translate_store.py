"""Translator for node/libs/engine/src/block_store.rs -> lean/EraVerif/Gen/StoreFns.lean  (used by tools/translate.py)

Translates the bodies of `BlockStoreState::{contains, head, next, verify}` and `BlockStore::{try_push,
update_persisted, truncate_cache}` statement by statement into `Except String` programs over

    BlockStoreState = {first : Nat, last : Option Nat}        (`Last` reduced to its `number()`)
    BlockStore β    = {queued, persisted : BlockStoreState, cache : List β}   (`num : β → Nat` = `Block::number`)

`BlockNumber::next` (`checked_add(1).unwrap()`) is the parameter `bn : Nat → Except String Nat`, so that C08 can
instantiate it with `n + 1` (its standing assumption: numbers below u64::MAX) and C10 with the overflowing version.
`Except.error` = panic ("panic: ...") or `bail!`/`ensure!` ("bail: ..."). Anything outside the recognised statement
and operand shapes raises TranslateError (the translation is then *broken*, never guessed).
"""
import re


class TErr(Exception):
    pass


def _body(src, impl, name):
    m = re.search(r"\bimpl\s+" + impl + r"\s*\{", src)
    if not m:
        raise TErr(f"impl {impl} not found")
    d, j = 1, m.end()
    while d and j < len(src):
        d += {"{": 1, "}": -1}.get(src[j], 0)
        j += 1
    isrc = src[m.end():j - 1]
    ms = list(re.finditer(r"\bfn\s+" + name + r"\s*\(([^)]*)\)([^{]*)\{", isrc))
    if len(ms) != 1:
        raise TErr(f"{impl}::{name}: expected one definition, found {len(ms)}")
    d, j = 1, ms[0].end()
    while d and j < len(isrc):
        d += {"{": 1, "}": -1}.get(isrc[j], 0)
        j += 1
    body = re.sub(r"//[^\n]*", "", isrc[ms[0].end():j - 1])
    return " ".join(ms[0].group(1).split()), " ".join(ms[0].group(2).split()), " ".join(body.split())


# ------------------------------------------------------------------ operands

SEG = re.compile(r"\.(\w+)\(\)|\.(\w+)\(([^()]*(?:\([^()]*\))?[^()]*)\)|\.(\w+)|\[0\]")


class Ctx:
    def __init__(self):
        self.lastvars = set()   # variables bound to the payload of `self.last` (a `Last`; `.number()` = identity)
        self.blockvars = set()  # variables of type Block (`.number()` = `num`)
        self.numvars = set()    # BlockNumber variables
        self.statevars = set()  # BlockStoreState variables
        self.selfkind = "self"  # "self" = BlockStore, "state" = BlockStoreState (inside `impl BlockStoreState`)


def operand(s, cx):
    """Rust operand -> Lean term usable inside a `do` block (may contain `(← …)`)."""
    s = s.strip()
    if s.startswith("&"):
        s = s[1:].strip()
    if re.fullmatch(r"[0-9_]+", s):
        return s.replace("_", "")
    m = re.fullmatch(r"validator::BlockNumber\(([0-9]+)\)", s)
    if m:
        return m.group(1)
    if s == "Self::CACHE_CAPACITY":
        return "EraVerif.Gen.StoreConst.CACHE_CAPACITY"
    m = re.match(r"[A-Za-z_]\w*", s)
    if not m:
        raise TErr(f"operand {s!r}")
    base = m.group(0)
    if base not in {"self"} | cx.lastvars | cx.blockvars | cx.numvars | cx.statevars:
        raise TErr(f"operand {s!r}: unknown variable {base}")
    term, kind = base, (cx.selfkind if base == "self" else "last" if base in cx.lastvars else "block" if base in cx.blockvars
                       else "num" if base in cx.numvars else "state")
    pos = m.end()
    while pos < len(s):
        g = SEG.match(s, pos)
        if not g:
            raise TErr(f"operand {s!r}: cannot parse at {s[pos:]!r}")
        pos = g.end()
        if g.group(0) == "[0]":
            if kind != "cache":
                raise TErr(f"operand {s!r}: index on {kind}")
            term, kind = f"(← idx0 {term})", "block"
        elif g.group(1):
            meth = g.group(1)
            if meth == "number" and kind == "last":
                kind = "num"
            elif meth == "number" and kind == "block":
                term, kind = f"(num {term})", "num"
            elif meth == "next" and kind == "state":
                term, kind = f"(← BlockStoreState.next bn {term})", "num"
            elif meth == "head" and kind == "state":
                term, kind = f"(← BlockStoreState.head bn {term})", "num"
            elif meth == "next" and kind == "num":
                term, kind = f"(← bn {term})", "num"
            elif meth == "prev" and kind == "num":
                term, kind = f"(prevNum {term})", "optnum"
            elif meth == "len" and kind == "cache":
                term, kind = f"{term}.length", "num"
            elif meth == "clone":
                pass
            else:
                raise TErr(f"operand {s!r}: method {meth} on {kind}")
        elif g.group(2):
            meth, arg = g.group(2), g.group(3)
            if meth == "unwrap_or" and kind == "optnum":
                term, kind = f"(({term}).getD {operand(arg, cx)})", "num"
            else:
                raise TErr(f"operand {s!r}: method {meth}(..) on {kind}")
        else:
            f = g.group(4)
            if f == "0" and kind == "num":
                continue
            table = {("self", "queued"): "state", ("self", "persisted"): "state", ("self", "cache"): "cache",
                     ("self", "first"): "num", ("self", "last"): "optlast",
                     ("state", "first"): "num", ("state", "last"): "optlast"}
            if (kind, f) not in table:
                raise TErr(f"operand {s!r}: field {f} on {kind}")
            term, kind = f"{term}.{f}", table[(kind, f)]
    return term


CMP = re.compile(r"^(.*?)(<=|>=|==|!=|<|>)(.*)$")


def atom(s, cx):
    s = s.strip()
    m = CMP.match(s)
    if not m:
        raise TErr(f"condition {s!r}")
    op = {"<=": "≤", ">=": "≥", "==": "=", "!=": "≠", "<": "<", ">": ">"}[m.group(2)]
    return f"(do pure (decide ({operand(m.group(1), cx)} {op} {operand(m.group(3), cx)})))"


def cond(s, cx):
    if "||" in s or "!" in s.replace("!=", ""):
        raise TErr(f"condition {s!r}: only conjunctions of comparisons are supported")
    parts = [p for p in s.split("&&")]
    out = atom(parts[-1], cx)
    for p in reversed(parts[:-1]):
        out = f"(do if (← {atom(p, cx)}) then {out} else pure false)"   # `&&` short-circuits
    return out


# ------------------------------------------------------------------ statements

def split_block(s, open_at):
    assert s[open_at] == "{"
    d, j = 1, open_at + 1
    while d and j < len(s):
        d += {"{": 1, "}": -1}.get(s[j], 0)
        j += 1
    if d:
        raise TErr("unbalanced braces")
    return s[open_at + 1:j - 1].strip(), j


def lhs_update(path, rhs):
    segs = path.split(".")
    if segs[0] != "self" or len(segs) not in (2, 3):
        raise TErr(f"assignment to {path}")
    if len(segs) == 2:
        return f"{{ self with {segs[1]} := {rhs} }}"
    return f"{{ self with {segs[1]} := {{ self.{segs[1]} with {segs[2]} := {rhs} }} }}"


def stmts(s, cx, ret, mutable, ind):
    """Translate statement list `s`; returns Lean `do`-free term of type Except String (ret)."""
    pad = "  " * ind
    s = s.strip()
    result = (lambda e: f"pure ({e}, self)") if mutable else (lambda e: f"pure {e}")
    if s == "":
        return pad + result("()")
    # --- `let x = self.cache.front()?;` in a method returning Option: `?` = early `return None`
    m = re.match(r"let (\w+) = self\.cache\.front\(\)\?;", s)
    if m:
        if ret != "(Option β)":
            raise TErr("`?` outside an Option-returning method")
        cx.blockvars.add(m.group(1))
        rest = stmts(s[m.end():], cx, ret, mutable, ind + 1)
        return f"{pad}match self.cache.head? with\n{pad}| none => pure none\n{pad}| some {m.group(1)} =>\n{rest}"
    # --- tail `self.cache.get(A.checked_sub(B)? as usize).cloned()`  (u64 -> usize is lossless on the 64-bit targets)
    m = re.fullmatch(r"self\.cache \.get\((.*)\.checked_sub\((.*)\)\? as usize\) \.cloned\(\)", s) or \
        re.fullmatch(r"self\.cache\.get\((.*)\.checked_sub\((.*)\)\? as usize\)\.cloned\(\)", s)
    if m:
        if ret != "(Option β)" or mutable:
            raise TErr("cache.get(..) tail outside `block`")
        a, b = operand(m.group(1), cx), operand(m.group(2), cx)
        return (f"{pad}(do match (if {b} ≤ {a} then some ({a} - {b}) else none) with\n{pad}    | none => pure none\n"
                f"{pad}    | some i => pure (self.cache[i]?))")
    # --- let-else on self.last
    m = re.match(r"let Some\((\w+)\) = &self\.last else \{ return (\w+) \};", s)
    if m:
        cx.lastvars.add(m.group(1))
        rest = stmts(s[m.end():], cx, ret, mutable, ind + 1)
        return (f"{pad}match self.last with\n{pad}| none => {result(m.group(2))}\n{pad}| some {m.group(1)} =>\n{rest}")
    # --- if let Some(x) = &self.last { ... }   (no mutation inside; only ensure!)
    m = re.match(r"if let Some\((\w+)\) = &self\.last \{", s)
    if m:
        blk, end = split_block(s, m.end() - 1)
        cx.lastvars.add(m.group(1))
        inner = stmts(blk, cx, "Unit", False, ind + 2)
        rest = stmts(s[end:], cx, ret, mutable, ind)
        return (f"{pad}(do\n{pad}  match self.last with\n{pad}  | none => pure ()\n{pad}  | some {m.group(1)} =>\n{inner}\n{pad})"
                f" >>= fun (_ : Unit) =>\n{rest}")
    # --- match &self.last { Some(x) => E, None => E }
    m = re.match(r"match &self\.last \{", s)
    if m:
        blk, end = split_block(s, m.end() - 1)
        if s[end:].strip():
            raise TErr("match must be the tail expression")
        arms = re.fullmatch(r"Some\((\w+)\) => (.*?), None => (.*?),?", blk)
        if not arms:
            raise TErr(f"match arms {blk!r}")
        cx.lastvars.add(arms.group(1))
        return (f"{pad}match self.last with\n{pad}| some {arms.group(1)} => (do pure ({operand(arms.group(2), cx)}))\n"
                f"{pad}| none => (do pure ({operand(arms.group(3), cx)}))")
    # --- while
    m = re.match(r"while (.*?) \{", s)
    if m:
        blk, end = split_block(s, m.end() - 1)
        if "self.cache.pop_front()" not in blk or "push" in blk:
            raise TErr("while: the body must shrink the cache (fuel = cache length)")
        c = cond(m.group(1), cx)
        body = stmts(blk, cx, "Unit", True, ind + 2)
        rest = stmts(s[end:], cx, ret, mutable, ind)
        return (f"{pad}whileFuel self.cache.length (fun self => {c})\n{pad}  (fun self => (do\n{pad}    let r ← (\n{body})\n{pad}    pure r.2)) self >>= fun self =>\n{rest}")
    # --- if
    m = re.match(r"if (.*?) \{", s)
    if m:
        blk, end = split_block(s, m.end() - 1)
        if s[end:].lstrip().startswith("else"):
            raise TErr("if/else not supported")
        c = cond(m.group(1), cx)
        rest = stmts(s[end:], cx, ret, mutable, ind + 1)
        r = re.fullmatch(r"return (\w+);", blk)
        b = re.fullmatch(r"anyhow::bail!\(\"([^\"]*)\"\);", blk)
        if r:
            return f"{pad}{c} >>= fun c => if c then {result(r.group(1))} else\n{rest}"
        if b:
            return f"{pad}{c} >>= fun c => if c then throw \"bail: {b.group(1)}\" else\n{rest}"
        if not mutable:
            raise TErr("if with effects in a &self method")
        inner = stmts(blk, cx, "Unit", True, ind + 2)
        return (f"{pad}{c} >>= fun c => (if c then (do\n{pad}    let r ← (\n{inner})\n{pad}    pure r.2) else pure self) >>= fun self =>\n{rest}")
    # --- ensure!
    m = re.match(r"anyhow::ensure!\( (.*?), \"([^\"]*)\"[^;]*\);", s)
    if m:
        rest = stmts(s[m.end():], cx, ret, mutable, ind + 1)
        return f"{pad}{cond(m.group(1), cx)} >>= fun c => if !c then throw \"bail: {m.group(2)}\" else\n{rest}"
    # --- simple statements ending in ';'
    m = re.match(r"([^;{}]*);", s)
    if m:
        st = m.group(1).strip()
        rest = lambda: stmts(s[m.end():], cx, ret, mutable, ind)
        a = re.fullmatch(r"(self(?:\.\w+)+) = (.*)", st)
        if a:
            rhs = a.group(2).strip()
            f = re.fullmatch(r"Some\(Last::from\(&(\w+)\)\)", rhs)
            if f:
                if f.group(1) not in cx.blockvars:
                    raise TErr(f"Last::from of {f.group(1)}")
                val = f"(some (num {f.group(1)}))"    # Last::from(&block).number() = block.number()
            else:
                val = operand(rhs, cx)
            return f"{pad}(do pure ({lhs_update(a.group(1), val)})) >>= fun self =>\n{rest()}"
        if st == "self.cache.push_back(block)":
            return f"{pad}(do pure {{ self with cache := self.cache ++ [block] }}) >>= fun self =>\n{rest()}"
        if st == "self.cache.clear()":
            return f"{pad}(do pure {{ self with cache := [] }}) >>= fun self =>\n{rest()}"
        if st == "self.cache.pop_front()":
            return f"{pad}(do pure {{ self with cache := self.cache.tail }}) >>= fun self =>\n{rest()}"   # Option ignored
        if st == "self.truncate_cache()":
            return f"{pad}truncate_cache num bn self >>= fun self =>\n{rest()}"
        raise TErr(f"statement {st!r}")
    # --- tail expression
    if s in ("true", "false"):
        return pad + result(s)
    if s == "Ok(())":
        return pad + result("()")
    if "&&" in s or CMP.match(s):
        if mutable:
            raise TErr("boolean tail in &mut method")
        return pad + cond(s, cx)
    raise TErr(f"tail expression {s!r}")


PREAMBLE = '''-- GENERATED by tools/translate.py (tools/translate_store.py) from node/libs/engine/src/block_store.rs.
-- Do not edit: regenerated on every check run.
import EraVerif.Gen.StoreConst

/-! Statement-by-statement translation of `BlockStoreState::{contains, head, next, verify}` and
`BlockStore::{try_push, update_persisted, truncate_cache}`. `Except.error` = a panic (`"panic: …"`), a `bail!`/`ensure!`
(`"bail: …"`) or exhausted loop fuel. `bn` = `BlockNumber::next`, `num` = `Block::number`. -/

set_option linter.unusedVariables false

namespace EraVerif.Gen.StoreFns

structure BlockStoreState where
  first : Nat
  last : Option Nat      -- `Last` reduced to `Last::number()`
  deriving DecidableEq, Repr

structure BlockStore (β : Type) where
  queued : BlockStoreState
  persisted : BlockStoreState
  cache : List β
  deriving Repr

/-- `BlockNumber::prev`: `checked_sub(1)` -/
def prevNum (n : Nat) : Option Nat := if n = 0 then none else some (n - 1)

/-- `cache[0]` (`VecDeque` index: panics when empty) -/
def idx0 {β : Type} (l : List β) : Except String β :=
  match l with
  | [] => throw "panic: index out of bounds"
  | b :: _ => pure b

/-- `while c { b }` with explicit fuel; running out of fuel is an error, never a silent stop -/
def whileFuel {σ : Type} : Nat → (σ → Except String Bool) → (σ → Except String σ) → σ → Except String σ
  | 0, c, _, s => c s >>= fun go => if go then throw "fuel exhausted" else pure s
  | k + 1, c, b, s => c s >>= fun go => if go then b s >>= whileFuel k c b else pure s

'''


def gen(src):
    out = [PREAMBLE]
    calls = {}

    def fn(impl, name, params, retty, mutable, lean_params, cxinit):
        sig, ret, body = _body(src, impl, name)
        want_self = "&mut self" if mutable else "&self"
        if not sig.startswith(want_self):
            raise TErr(f"{impl}::{name}: receiver is not {want_self}: {sig!r}")
        got = [p.split(":")[0].strip() for p in sig.split(",")[1:] if p.strip()]
        if got != params:
            raise TErr(f"{impl}::{name}: parameters {got} (expected {params})")
        cx = Ctx()
        cxinit(cx)
        code = stmts(body, cx, retty, mutable, 1)
        calls[name] = sorted(set(re.findall(r"\.(\w+)\(", body)))
        rt = f"Except String ({retty} × BlockStore β)" if mutable else f"Except String {retty}"
        out.append(f"/-- `{impl}::{name}`. Source: `{body[:400]}` -/")
        out.append(f"def {lean_params} : {rt} :=\n{code}\n")

    out.append("namespace BlockStoreState\n")
    def st(cx):
        cx.selfkind = "state"

    def st_num(cx):
        cx.selfkind = "state"
        cx.numvars.add("number")
    fn("BlockStoreState", "next", [], "Nat", False,
       "next (bn : Nat → Except String Nat) (self : BlockStoreState)", st)
    fn("BlockStoreState", "head", [], "Nat", False,
       "head (bn : Nat → Except String Nat) (self : BlockStoreState)", st)
    fn("BlockStoreState", "contains", ["number"], "Bool", False,
       "contains (bn : Nat → Except String Nat) (self : BlockStoreState) (number : Nat)", st_num)
    fn("BlockStoreState", "verify", [], "Unit", False,
       "verify (bn : Nat → Except String Nat) (self : BlockStoreState)", st)
    out.append("end BlockStoreState\n")
    V = "{β : Type} (num : β → Nat) (bn : Nat → Except String Nat) (self : BlockStore β)"
    fn("BlockStore", "truncate_cache", [], "Unit", True, f"truncate_cache' {V}", lambda cx: None)
    out.append(f"def truncate_cache {V} : Except String (BlockStore β) :=\n  truncate_cache' num bn self >>= fun r => pure r.2\n")
    fn("BlockStore", "block", ["n"], "(Option β)", False, f"block {V} (n : Nat)", lambda cx: cx.numvars.add("n"))
    fn("BlockStore", "try_push", ["block"], "Bool", True, f"try_push {V} (block : β)",
       lambda cx: cx.blockvars.add("block"))
    fn("BlockStore", "update_persisted", ["persisted"], "Unit", True, f"update_persisted {V} (persisted : BlockStoreState)",
       lambda cx: cx.statevars.add("persisted"))
    out.append("/-- methods called in each translated body (C10: `contains` runs on peer-supplied states and must not call a panicking one) -/")
    out.append("def calls : List (String × List String) := [" + ", ".join(
        '("%s", [%s])' % (k, ", ".join('"%s"' % c for c in v)) for k, v in sorted(calls.items())) + "]\n")
    out.append("end EraVerif.Gen.StoreFns")
    return "\n".join(out) + "\n"


if __name__ == "__main__":
    import sys
    print(gen(open(sys.argv[1]).read()))
