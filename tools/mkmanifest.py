#!/usr/bin/env python3
"""Regenerates MANIFEST.json from tools/registry.py (claimed checks) and properties.jsonl (everything else goes to
not_applicable with the reason recorded in registry.NOT_CLAIMED)."""
import json
import os
import sys

ROOT = os.path.join(os.path.dirname(os.path.abspath(__file__)), "..")
sys.path.insert(0, os.path.dirname(os.path.abspath(__file__)))
from registry import REGISTRY, GLOBAL_TRUSTED, NOT_CLAIMED, HOOK_COMMITS  # noqa: E402

props = [json.loads(l) for l in open(os.path.join(ROOT, "properties.jsonl"))]
ids = [p["id"] for p in props]
# only properties the integrator has reviewed and listed in tools/claimed.txt are claimed
_cl = os.path.join(ROOT, "tools", "claimed.txt")
_listed = [l.strip() for l in open(_cl) if l.strip() and not l.startswith("#")] if os.path.exists(_cl) else []
claimed = sorted(c for c in REGISTRY if c in _listed)
m = {
    "version": 1,
    "setup_cmd": "./setup.sh",
    "hooks": {
        "guard": "cargo feature `verif` (off by default) on zksync_consensus_bft / zksync_consensus_network / zksync_concurrency",
        "enable": "the harness crate /verif/harness depends on the repo crates by path with features=[\"verif\"]; "
                  "every check runs `cargo build` there, which rebuilds the repo crates from /repo's current working tree",
        "baseline_off_cmd": "cd /repo/node && (cargo nextest run --workspace --no-fail-fast --test-threads 8 --offline || "
                            "cargo test --workspace --no-fail-fast --offline)",
        "source_commits": HOOK_COMMITS,
        "add_only": True,
    },
    "engines": [
        {"name": "lean-proofs", "path": "lean/EraVerif", "serves_properties": claimed,
         "kind_free_text": "Lean 4 models, kernel-checked property theorems (Props/Cxx.lean), axiom audit of every theorem"},
        {"name": "translator", "path": "tools/translate.py", "serves_properties": [c for c in claimed if REGISTRY[c].get("gen")],
         "kind_free_text": "regenerates lean/EraVerif/Gen/*.lean from /repo sources on every run; theorems are re-checked against them"},
        {"name": "vharness+vmodel", "path": "harness, lean/Driver", "serves_properties": claimed,
         "kind_free_text": "correspondence: the real code (in-process, hooks on) and the Lean model run on the same operation "
                           "lines and are diffed; property monitors run on the implementation alone as the search for a failing input"},
    ],
    "checks": [],
    "notes": "Technique: machine-checked proof in Lean 4 of theorems about executable models, tied to the source by a "
             "translator (T) and/or a correspondence run (K) on every check; see DESIGN.md. A broken proof or correspondence "
             "with no failing input is reported as VIOLATION ... no-failing-input-found.",
    "not_applicable": [],
}
for c in claimed:
    cfg = REGISTRY[c]
    m["checks"].append({
        "property_id": c,
        "quick_cmd": f"./check {c} --tier quick",
        "thorough_cmd": f"./check {c} --tier thorough",
        "evidence_file": f"/verif/evidence/{c}.json",
        "replay_cmd_template": f"./check {c} --replay {{path}}",
        "engine": "lean-proofs + " + ("translator + " if cfg.get("gen") else "") + "vharness+vmodel",
        "level_claimed": {"category": "proof", "text": cfg["level_text"], "design_ref": cfg.get("design_ref", f"DESIGN.md §5 {c}")},
        "level_note": cfg["level_note"] + " Trusted base: " + "; ".join(GLOBAL_TRUSTED + cfg.get("trusted", [])),
        "technique": cfg["technique"],
    })
for i in ids:
    if i not in claimed:
        m["not_applicable"].append({"property_id": i, "reason": NOT_CLAIMED.get(i, "not claimed yet: model, theorems and correspondence for this property are not built (plan in DESIGN.md §5); no other technique is substituted")})
json.dump(m, open(os.path.join(ROOT, "MANIFEST.json"), "w"), indent=1)
print("claimed:", claimed)
