CFG = {
        "gen": ["PoolFns"],
        "props": ["EraVerif.Props.C12", "EraVerif.Props.C12gen"],
        "required_theorems": ["gen_insert_eq", "gen_remove_eq", 
            "gossip_inbound_accept_iff", "gossip_outbound_accept_iff", "consensus_inbound_accept_iff",
            "consensus_outbound_accept_iff", "accept_requires", "signature_over_other_session_refused",
            "signature_by_other_key_refused", "other_genesis_refused", "unexpected_peer_refused",
            "stream_failure_refused", "honest_signs_only_own_session", "inbound_signs_after_verifying",
            "accept_implies_owner_signed_this_session", "accept_implies_peer_on_this_session",
            "inbound_accept_implies_peer_on_this_session", "reflection_on_self_dial_accepted",
            "outbound_accepts_own_key_only_on_self_dial",
            "one_entry_per_key", "extra_count_exact", "validator_pool_members_only", "insert_existing_refused",
            "insert_ok_iff", "remove_never_underflows", "remove_restores_quota", "pool_refines_spec",
            "validator_net_admits_committee_only", "gossip_net_quota", "one_connection_per_key_per_direction",
            "admitted_only_after_authentication", "refused_duplicate_keeps_existing"],
        "technique": "PoolWatch::insert / remove regenerated from pool.rs on every run (tools/translate_pool.py -> Gen/PoolFns) and proved equal to the model's (Props/C12gen); Lean 4 theorems (all inputs / all call sequences / all sets of concurrent runs) over executable models of "
                     "the four handshake functions, PoolWatch and the admission paths + differential run of the real code "
                     "(real Noise sessions over loopback TCP, real keys) against the models",
        "level_text": "PARTIAL (modulo symbolic cryptography and one known exception). Proved on the models: (1) for each of "
                      "gossip/consensus handshake::{inbound,outbound}, accept <=> the received frame carries the own genesis, "
                      "the id of this very session, a signature by the claimed key over that id [and, outbound, the claimed "
                      "key is the dialled peer]; a signature made over another session's id is refused even if the carried id "
                      "is rewritten; honest parties sign only the id of the session they terminate, the inbound side only "
                      "after verifying. (2) Attribution, for every set of concurrent runs and every adversary that can replay, "
                      "relay, reflect, re-wrap honest signatures and sign with the keys it holds: if an honest endpoint "
                      "attributes a session to an honest key K != its own key, K's owner ran the handshake at the other end "
                      "of that session; for inbound runs no side condition is needed. The side condition is necessary: "
                      "`reflection_on_self_dial_accepted` proves that an OUTBOUND run dialling its own key accepts its own "
                      "frame reflected by a key-less adversary (finding F8, reproduced on the real code by this check and "
                      "recorded in known-findings.jsonl; the repair is a wire-format change). (3) PoolWatch over every "
                      "insert/remove sequence: one entry per key, extra_count = |current \\ allowed| <= extra_limit, limit 0 => "
                      "members of `allowed` only, a refused insert changes nothing, remove never underflows and frees the "
                      "quota slot, refinement to a set-with-quota specification. (4) Admission (handshake then insert, remove "
                      "on disconnect) on pools configured as gossip::Network::new / consensus::Network::new configure them, "
                      "over every sequence of attempts and disconnects: consensus pools contain committee members only, "
                      "gossip outbound only configured peers, non-static gossip inbound <= dynamic_inbound_limit, one "
                      "connection per identity and direction, and every pool entry was authenticated on its own connection.",
        "level_note": "Assumed, not proved: signatures are unforgeable and domain-separated (hypothesis `Unforgeable`), the Noise "
                      "handshake hash is unique per session (`SessionsWellFormed`; the harness monitors it on every session it "
                      "creates), a PoolWatch call is atomic (one critical section under the async mutex in watch.rs), so `every "
                      "interleaving` = `every sequence`. That assumption is not proved but is tested on every run: the "
                      "`pool_contended` ops hold the sender lock through the hook, queue 2-4 insert/remove calls on it (same "
                      "identity, competing identities, reconnect racing with removal), release it and require the exact outcome "
                      "of the sequential run in queue order (fair FIFO mutex) — results, contents and a quota probe — so a "
                      "check made outside the critical section is caught deterministically; concurrent batches on a 4-thread "
                      "runtime are additionally checked for linearizability, with only their order-independent facts compared "
                      "with the model. `sendOk = false` (failing "
                      "send_proto) is modelled and covered by the theorems but not produced by the harness. Undecodable / "
                      "oversize / truncated frames are one model input (`recv = none`). Scheduling inside tokio and the "
                      "rest of run_stream (RPC service) are outside the model. The models are hand-written transcriptions; "
                      "their tie to the code is the correspondence run (error class and frames written are compared, not "
                      "only accept/reject).",
        "harness": "c12",
        "n": {"quick": 300, "thorough": 6000},
        "timeout": {"quick": 900, "thorough": 7200},
        "rule": "ops = directed list (each handshake function x {honest peer, adversary under its own key with one deviation at "
                "a time, 11 malformed frames, 16 frames under keys nobody holds (small-order Ed25519 points with universal signatures / the "
                "BLS point at infinity), reflection, replay from a second session, man-in-the-middle relay with field "
                "rewriting}, PoolWatch boundary cases, two node scenarios incl. F8) + N random handshake scenarios + N/2 random "
                "pool cases (4-16 calls, 0-2 forced-contention groups of 2-4 calls queued on the held sender lock each followed "
                "by a quota probe, then often a concurrent batch) + N/25 random node cases (4-10 connection attempts / "
                "disconnects on a real Network); non-trivial = distinct op lines whose observation class differs from the "
                "run's most common one",
        "trusted": ["hand transcription of handshake/mod.rs (x2), pool.rs, and the admission paths of gossip/runner.rs, "
                    "consensus/mod.rs into Model/Handshake.lean, Model/Pool.lean, Model/PeerNet.lean",
                    "the harness' abstraction of real frames (key index, session label, symbolic signature found by trying "
                    "the known (key, session id) pairs) and its realisation of the adversary scripts",
                    "hooks: network/src/verif/{handshake,handshake_gossip,handshake_consensus,pool}.rs (thin wrappers) and the "
                    "feature-guarded PoolWatch::verif_lock accessor appended to pool.rs"],
        "assumptions": ["symbolic cryptography: a signature verifies only for the (key, message) it was made for; node keys "
                        "and validator keys are different schemes; validator::Msg variants are domain-separated",
                        "distinct Noise sessions have distinct handshake hashes (monitored, never observed to fail)",
                        "each PoolWatch::insert/remove is one critical section under the watch.rs async mutex (tested under "
                        "forced contention by the pool_contended ops, not proved)"],
        "explanation": "decision iff + symbolic attribution (with the F8 negation witness) + pool invariants/refinement + "
                       "admission invariants in Lean; K compares verdict, error class, frames written and pool contents of the "
                       "real code with the models; S checks attribution / session binding / committee / quota on the real code "
                       "from what the harness knows about who holds which key",
    }
