CFG = {
        "gen": ["LeaderSel"],
        "props": ["EraVerif.Props.C11"],
        "required_theorems": ["new_never_panics", "new_ok_iff_accept", "leader_weight_bounds", "new_vec_sorted",
                              "leader_total", "leader_refines_spec", "leader_eligible",
                              "schedule_order_independent", "acceptance_order_independent", "leader_order_independent",
                              "leader_depends_on_turn", "freq_zero_never_rotates", "constant_on_block",
                              "rr_rotation", "rr_next_block", "rr_period", "rr_visits_all",
                              "weighted_walk_finds", "weighted_share", "weighted_share_leader"],
        "technique": "Lean 4 theorems (all input lists, both modes, every frequency, every view, every hash function) about an "
                     "executable model of Schedule::new / view_leader whose three scalar expressions (turn, round-robin index, "
                     "leader_weighted_eligibility) are re-translated from schedule.rs on every run + differential run with the "
                     "real Keccak-256 supplied per line",
        "level_text": "Proof (model): for every list `Schedule::new` accepts (characterised exactly: distinct keys, positive weights, "
                      "sum < 2^64, non-empty, one eligible), every view, both modes, every frequency incl. 0 and EVERY function H "
                      "in place of Keccak: view_leader returns a key (no panic: no division by zero, no index out of bounds, no "
                      "unwrap on None, no u64 overflow of leader_weight/offset, unreachable!() unreachable), the key belongs to an "
                      "eligible validator of the input, the schedule value and hence the leader are identical for every permutation "
                      "of the input list, round-robin = eligible-in-key-order[(view/frequency) mod #eligible] (constant on blocks, "
                      "next block -> next eligible, period #eligible*frequency, every eligible validator leads within a period), "
                      "frequency 0 never rotates, weighted = the validator whose weight interval contains H(turn) mod W, and of the "
                      "W residues exactly weight(v) select v. turn / round-robin index / hash reduction + low digit are regenerated "
                      "from the current schedule.rs (reverting the frequency-0 or the zero-digit repair makes leader_total fail to "
                      "check); the constructor loop and the weighted walk are hand-transcribed and compared with the real code "
                      "(real BLS keys, real Keccak) on every run.",
        "level_note": "Partial in one respect that no executable model can carry: 'a share of VIEWS proportional to its weight' "
                      "needs the Keccak residues of consecutive turns to be equidistributed, a cryptographic assumption; what is "
                      "proved is the exact count over residues (weighted_share, weighted_share_leader), and the run checks that over "
                      "consecutive turns the real leader counts equal the counts of the real hash residues per weight interval. "
                      "`turn as usize` is modelled for 64-bit targets (identity). The unchecked `+=` on leader_weight/offset is "
                      "modelled as panicking on overflow (dev profile) and proved never to overflow, so the wrapping release "
                      "profile computes the same values.",
        "harness": ["c11", "c05"],
        "scope": {"c05": {"oracle_only": "newview_for_current_view_from_non_leader|handler panicked", "ignore_k": True}},
        "n": {"quick": [3000, 1200], "thorough": [300000, 12000]},
        "rule": "(second harness: the replica scenarios of C05, scoped to the monitors 'current-view new-view processed only from "
                "view_leader(view)' and 'no panic' — leader election as USED by the state machine.) Each line carries a whole schedule (<= 12 validators out of a pool of 16 real BLS keys, ids = key ranks, random "
                "listing order, weights small / mid / up to 2^64-1, random eligible subset, both modes, frequency 0 / 1 / small / "
                "large / u64::MAX) and is one of: new (constructor; ~1/3 of them invalid: duplicate key, zero weight, sum >= 2^64, "
                "empty, no eligible), leader (one view: small, block boundaries, powers of two, top of u64, random), scan (a run of "
                "consecutive views: >= 2 round-robin periods, or 48..10^4 weighted turns). Directed families: every view in 0..400 "
                "whose real hash is a multiple of W for W=1..8; frequency 0 in both modes across the view range; weights split so "
                "that the real residue sits exactly on / one below a prefix sum; prefix sums up to 2^64-1 and heavy non-eligible "
                "validators; all rotations of one listing; totals 2^64-1 vs 2^64. distinct = distinct op lines; non-trivial = not "
                "in the modal observation class",
        "trusted": ["tools/translate.py target LeaderSel (typed translation of three expressions of schedule.rs into the "
                    "combinators of Model/LeaderOps.lean; anything outside its grammar aborts)",
                    "the combinators' reading of Rust semantics: checked_div / unwrap_or / `/` `%` panics, BigUint::to_u64_digits "
                    "(little-endian base 2^64, no digits for zero), slice index panics",
                    "ids = ranks of the BLS public keys in their own Ord (the harness sorts the key pool with that Ord)"],
        "assumptions": ["Keccak-256 is an arbitrary function in the theorems; in the run it is the real one on the queried turns",
                        "64-bit usize",
                        "equidistribution of Keccak residues over views (needed only to read 'share of residues' as 'share of views')"],
        "explanation": "theorems over the model (+ regenerated expressions) for all schedules / views / hash functions; K compares "
                       "Schedule::new and view_leader with the model line by line; S checks totality, eligibility, permutation "
                       "invariance, an independent leader specification, round-robin period/coverage and exact weighted counts "
                       "on the real code",
    }
