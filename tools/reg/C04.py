CFG = {
    "gen": [],
    "props": ["EraVerif.Props.C04"],
    "required_theorems": ["commitQC_verify_iff", "timeoutQC_verify_iff", "timeoutQC_verify_nested", "finalBlock_verify_iff",
                          "just_verify_iff", "cqc_add_ok_iff", "cqc_assembled_verify_iff", "tqc_add_ok_iff",
                          "tqc_assembled_verify_iff", "tqc_weight_no_double_count", "weight_eq_sum", "signerIdxs_nodup"],
    "technique": "Lean 4 iff-characterisations of the certificate checks + induction over add-sequences on a hand-written model; "
                 "differential run against the real verify()/add() with real BLS keys",
    "level_text": "Proof: on the model of CommitQC/TimeoutQC/FinalBlock/ProposalJustification (symbolic signatures: an aggregate "
                  "is the multiset of (signer, message) pairs) verify() is characterised exactly (chain+epoch, bitmap length, distinct "
                  "member indices, weight >= quorum with no double counting across timeout groups, aggregate = exactly the expected "
                  "multiset, nested certificates valid, payload hash = header hash), and every certificate assembled by any sequence of "
                  "accepted add() calls verifies iff the accepted signers' weight reaches the quorum; add() is accepted iff member, "
                  "not yet a signer, signature valid, same vote/view, message valid. For all committees, weights, subsets, sequences. "
                  "The model is tied to the code by running real verify()/add() (real BLS signatures by keys the harness owns) and the "
                  "model on the same abstract certificates: random + boundary-weight signer subsets x every single-field corruption "
                  "of the property's list, and add-sequences with non-members, repeated signers, other votes, bad signatures.",
    "level_note": "Full modulo the cryptographic assumptions: unforgeable signatures, collision-free hashing, BLS aggregate "
                  "verification accepting exactly the aggregated multiset (rogue-key resistance via proofs of possession assumed). "
                  "The model is hand-written; blst/bit-vec are exercised, not verified.",
    "harness": "c04",
    "n": {"quick": 1500, "thorough": 40000},
    "rule": "abstract certificates built by the harness and realised with real BLS signatures: per committee (n<=7, weights from "
            "{1,2,3,10}) signer subsets biased to weight = quorum, quorum-1, quorum+1, all; each crossed with single-field "
            "corruptions (bitmap bit/length, view, epoch, genesis, vote content, signature dropped/duplicated/other vote/non-member/"
            "other member, overlapping / empty / wrong-length groups, nested certificate invalid, high vote of another chain), plus "
            "incremental add-sequences; thorough: all subsets for n<=6. non-trivial = distinct op whose verdict class differs from "
            "the modal class",
    "trusted": ["symbolic model of BLS aggregate verification (multiset equality)", "hand-written model of the certificate layer"],
    "assumptions": ["signatures unforgeable, hashes collision-free, BLS aggregate verification exact (DESIGN 4.1)"],
    "explanation": "theorems characterise accept/refuse of the model; K compares model and real code verdicts; S compares the real "
                   "verdict with an independent Rust implementation of the property's right-hand side",
}
