CFG = {
    "gen": [],
    "props": ["EraVerif.Props.C05", "EraVerif.Props.C05loop"],
    "required_theorems": ["rejected_unchanged", "wf_init", "wf_restart", "wf_preserved", "view_monotone", "hcqc_view_monotone",
                          "htqc_view_monotone", "view_change_justified", "newView_self_justifying", "timeout_self_justifying",
                          "commit_is_high_vote", "justification_prefers_commit_on_tie", "no_panic",
                          "accepted_proposal_conforms", "reachable_wf", "reachable_step",
                          "tqcBelow_preserved", "persisted_tqcBelow", "tqcBelow_restart", "reachable_tqcBelow",
                          "loop_refines_steps", "loop_states_wf", "view0_bootstrap", "no_bootstrap_otherwise", "timer_fires",
                          "deadline_rule", "message_keeps_deadline", "flood_cannot_postpone", "quiesce_blocks", "accounting",
                          "every_processed_message_is_acked_once", "dropped_never_acked", "processing_order"],
    "technique": "Lean 4 single-step theorems (every Wf state x every input) on a hand-written executable replica model + "
                 "induction over reachable states; differential run of the real replica (verif hook) against the model",
    "level_text": "Proof (model): for every configuration, every replica state satisfying the representation invariant Wf "
                  "(stored certificates verify; vote caches hold only certificates assembled by accepted add()s and are coherent "
                  "with the per-validator latest-view maps; view = 0 or a held certificate has view+1 >= view) and EVERY input "
                  "(any message of any kind, sender, view, validity; timer expiry): rejected inputs change nothing and emit "
                  "nothing; Wf is preserved by accepted steps and re-established by restart from what was persisted; view, highest "
                  "commit certificate and highest timeout certificate never decrease; a view change is justified by a verifying "
                  "certificate for the preceding view that was carried or completed by the input; every new-view / timeout / commit "
                  "message sent carries the replica's highest certificate / latest vote and verifies in isolation; commit preferred on a "
                  "tie; no panic site is reachable; accept/reject and the exact resulting state and ordered effects are characterised per "
                  "handler (the asserts of spec/informal-spec/replica.rs). Lifted to all reachable states (any input sequence incl. "
                  "crash/restart) by induction. The model is tied to the code by running the real StateMachine handlers (bft verif hook) "
                  "and the model on the same adaptively generated message sequences and comparing outcome class, the ordered effect "
                  "list (persist/send/notify/queue) and the state snapshot after every step.",
    "level_note": "Model hand-written (Model/Replica.lean), spec transcription trusted. view_monotone needs the explicit no-wrap "
                  "hypothesis (commit/timeout vote view + 1 < 2^64): at view 2^64-1 ViewNumber::next wraps in the release profile "
                  "(a quorum of votes for that view needs more than f faulty weight). The run loop (StateMachine::run: view-0 bootstrap, recv with the view "
                  "deadline, dispatch, ack after processing, timer re-armed only by start_new_view/start_timeout) is modelled in "
                  "Model/RunLoop.lean, proved to be nothing but a sequence of `step` calls from reachable states "
                  "(loop_refines_steps), and compared with the real loop driven through the real input channel with a manual clock; "
                  "two scheduling-dependent corners are avoided by the generator (a message pending while the deadline has passed: "
                  "the real select is unbiased; shutdown with unresolved requests). Leader = round-robin, frequency 1 in the runs "
                  "(leader selection itself is C11). TimeoutQC group order (BTreeMap order by signature bytes) is not modelled; "
                  "assembled certificates are compared as sets of groups.",
    "harness": ["c05", "c05loop"],
    "n": {"quick": [1200, 3000], "thorough": [40000, 60000]},
    "rule": "adaptive scenarios against one real replica (committees of 2..7, equal and mixed weights, first block 0..3): per step a "
            "random choice among tick / restart / proposal (right or wrong leader, stale..far-future view, each payload shape, "
            "justification commit or timeout of 4 shapes, corruptions) / commit vote (towards a quorum for the replica's own "
            "high vote or arbitrary) / timeout vote / new-view / propose; the generator reads the real replica's view and "
            "certificates to aim at the boundaries. Every other case uses a leader schedule other than round-robin over everybody "
            "(eligible subset, rotation period 0/1/2/3/5, weighted; the real view_leader is tabulated for the model); half of the "
            "cases start with 1-4 happy-path rounds that finalise blocks; 6% of the steps start a directed multi-message family "
            "(quorum of votes for one view >= current from distinct signers; timer, then the leader's new-view and proposal for the "
            "same view; a vote, a second signer's vote, the first signer's vote for a future view, the old vote again); follow-ups: "
            "the commit certificate for the replica's own vote; new-views from the new / previous leader after a view jump by "
            "proposal. non-trivial = distinct op whose outcome class differs from the modal class",
    "trusted": ["hand-written replica model", "symbolic signatures", "harness EngineInterface (in-memory store, immediate persistence)"],
    "assumptions": ["signatures unforgeable / hashes collision-free (DESIGN 4.1)", "spec/informal-spec transcription"],
    "explanation": "step theorems on the model + model/implementation agreement on outcome, ordered effects and snapshots; "
                   "S: monotonicity, view-change justification, stored/emitted certificates verify, persist-before-send, no "
                   "equivocation, cache bounds, durable state well-formed at every write (DurableWf), emitted new-view = highest held "
                   "certificate (commit on a tie), held timeout certificate below the current view (TqcBelow), current-view new-view "
                   "processed only from the view's leader — evaluated on the real replica after every step",
}
