# C19 — Block fetch requests are never lost and go only to peers that have the block.

CFG = {
    "gen": [],
    "props": ["EraVerif.Props.C19"],
    "required_theorems": [
        "request_never_lost", "stays_requested", "failed_hold_is_offered_again", "single_holder",
        "insert_never_overrides", "insert_unwrap_never_panics", "map_entries_are_live_requests",
        "accepted_only_if_announced_and_sampled_minimum", "accept_removes_atomically",
        "sample_current_or_wakeup_pending", "watched_is_current_minimum",
        "accept_may_overtake_concurrent_lower_request",
        "quiescent_iff_idle", "no_lost_wakeup", "cancel_removes", "cancel_enabled", "stale_hold_is_inert",
        "fetcher_one_request_per_block", "fetcher_cancels_only_queued_blocks", "fetcher_covers_every_missing_block",
    ],
    "technique": "Lean 4 theorems (inductive invariants over all runs of a labelled transition system whose events are the "
                 "critical sections of gossip/fetch.rs, watch version and oneshot channels explicit) + trace acceptance of "
                 "the real Queue::request / Queue::accept_block futures and of the real run_block_fetcher, with an "
                 "idle-vs-enabled check at every quiescent point",
    "level_text": "Proof, for every reachable state / every run of the queue LTS (any number of peers, blocks, requests; every "
                  "interleaving of request creation, cancellation, announcements, accept calls, successes, failures, "
                  "disconnects with the internal steps of the futures): every live request is on offer in the map, or held "
                  "by exactly one connection, or is about to (re-)insert itself / to return (request_never_lost); it stays "
                  "live until it returns Ok after a holder's success report or Canceled after its own cancellation "
                  "(stays_requested); a dropped sender re-enables the insertion and the block is on offer again under a "
                  "fresh channel (failed_hold_is_offered_again); senders in the map and in holds are pairwise distinct "
                  "(single_holder) and insert never overrides; a block is handed to connection p only after a state in which "
                  "p's announced range contained it, which came after a state in which it was the lowest requested block at "
                  "p's sampling point (accepted_only_if_announced_and_sampled_minimum), and the hand-over removes it from the "
                  "map atomically; a sample is current or has its wake-up pending (watch version invariant); in every idle "
                  "state no connection waiting in accept_block has announced the lowest requested block and every request is "
                  "suspended on its channel (no_lost_wakeup); cancellation removes the entry and the request atomically and "
                  "stale holds are inert. For the fetcher model: request numbers strictly increase (one request per block), a "
                  "request is given up only after the block is queued, an idle fetcher has every reached block persisted, "
                  "queued or under request. PARTIAL in one respect, stated as a theorem: 'lowest missing block first' holds "
                  "for the acceptor's sample, not for the instant of the hand-over — a lower request inserted concurrently "
                  "can be overtaken (accept_may_overtake_concurrent_lower_request; reproduced on the real code by the "
                  "directed family 8 and counted as overtake_in_concurrent_step). The model is tied to the code by running "
                  "the real futures on a current-thread runtime: every step's visible events must be a trace of the LTS "
                  "ending in an idle model state, and the snapshots (current_blocks, live requests, accept calls, holds) "
                  "must agree.",
    "level_note": "Hand-written model (not translated): its agreement with fetch.rs and with gossip/mod.rs:124-158 is "
                  "established by the correspondence run on the generated steps only. The third anchor, "
                  "gossip/runner.rs:190-236 (the per-connection get_block task: send_resp.send(()) only after queue_block "
                  "succeeded, any failure drops send_resp and tears the connection down), is NOT executed by the harness; its "
                  "behaviour is the environment events succeed / fail / cancelAcc of the model (assumption). Real "
                  "multi-threaded scheduling is covered by the theorems (all interleavings of the critical sections), not by "
                  "the run: the run is single-threaded with a harness-controlled, seeded order of the queue's futures and "
                  "with several environment actions applied between polls. Eventual completion (a peer that has the block "
                  "eventually serves it) is outside the property. Level-triggered behaviour of tokio's watch::changed / "
                  "wait_for and oneshot is assumed (third-party).",
    "harness": "c19",
    "ignore_keys": ["class"],
    "n": {"quick": 500, "thorough": 20000},
    "rule": "a case starts with init (fresh Queue, or fresh EngineManager + gossip Network running the real run_block_fetcher); "
            "a step = 1-4 environment actions (req n / cancel n / start p / stop p / ann p first last / ok h / fail h; fetcher "
            "family also queue) applied without polling, then all futures are polled to quiescence in an order seeded by the "
            "step's `sch`; 11 directed families x 6 parameterisations (retry after failure; lowest-first with partial ranges "
            "and head-of-line blocking; wake-up on insertion of a lower block and on cancellation of the lowest; wake-up of "
            "the other acceptors after a hand-over; two peers racing; cancellation while offered / while held, stale holds, "
            "re-request; disconnect of a peer holding several requests; concurrent insertions / failures; overtaken sample; "
            "create+cancel before first poll, stop/restart; malformed steps), 8 fetcher cases (k 1-4 permits, with and without "
            "the store's persistence task), N random cases of 8-40 steps over 1-4 peers and 3-8 block numbers, up to 60% "
            "concurrent steps; every step yields a compared observation (event list + snapshot); distinct = distinct op "
            "lines (action list + sch + observed trace)",
    "trusted": ["Model/Fetch.lean is a hand transcription of Queue::request / Queue::accept_block (gossip/fetch.rs) and of "
                "Network::run_block_fetcher (gossip/mod.rs); tied to the code by the correspondence run",
                "the model driver explores the quotient of the LTS by channel renaming and version shifting (Driver/C19.lean, "
                "canon) to keep the candidate set small; the quotient is a bisimulation by inspection, not by proof",
                "the harness's gates (a woken future is polled only when its gate is open) are ordinary scheduling"],
    "assumptions": ["each send_if_modified / borrow_and_update closure of tokio's watch channel runs atomically; "
                    "watch::Receiver::changed is enabled iff the receiver's version differs from the sender's; wait_for and "
                    "oneshot are level-triggered",
                    "one request future per block number at a time (documented precondition of Queue::request; "
                    "run_block_fetcher satisfies it: fetcher_one_request_per_block)",
                    "gossip/runner.rs reports success only after the block is queued and otherwise drops the sender"],
    "explanation": "theorems over all runs of the fetch-queue LTS; K = trace acceptance of the real futures' visible events "
                   "by the same step? relation plus idle-vs-enabled and snapshot comparison; S = monitors on the "
                   "implementation's own history (no double hand-over, accept only if announced, lowest first for "
                   "sequential steps, request never lost, no stale map entry, no lost wake-up)",
}
