# C19 — Block fetch requests are never lost and go only to peers that have the block.

CFG = {
    "gen": ["StoreConst", "StoreFns"],
    "props": ["EraVerif.Props.C19", "EraVerif.Props.C19gen"],
    "required_theorems": ["gen_avail_contains_eq", 
        "request_never_lost", "stays_requested", "failed_hold_is_offered_again", "single_holder",
        "insert_never_overrides", "insert_unwrap_never_panics", "map_entries_are_live_requests",
        "accepted_only_if_announced_and_sampled_minimum", "accept_removes_atomically",
        "sample_current_or_wakeup_pending", "watched_is_current_minimum",
        "accept_may_overtake_concurrent_lower_request",
        "quiescent_iff_idle", "no_lost_wakeup", "cancel_removes", "cancel_enabled", "stale_hold_is_inert",
        "fetcher_one_request_per_block", "fetcher_cancels_only_queued_blocks", "fetcher_covers_every_missing_block",
        # the acceptor (gossip/runner.rs get_block task) composed with the queue and the store
        "node_projects_to_queue", "task_owns_hold", "completed_implies_queued", "done_only_if_queued",
        "completion_sent_after_push", "request_never_lost_node", "acceptor_failure_requeues",
        "valid_response_parks", "parked_waits_for_predecessors", "nQuiescent_iff",
    ],
    "technique": "Lean 4 theorems (inductive invariants over all runs of a labelled transition system whose events are the "
                 "critical sections of gossip/fetch.rs, watch version and oneshot channels explicit) + trace acceptance of "
                 "the real Queue::request / Queue::accept_block futures and of the real run_block_fetcher, with an "
                 "idle-vs-enabled check at every quiescent point; second LTS = that queue composed with the per-connection "
                 "get_block task of gossip/runner.rs and the store (invariant over all runs) + a real node (testonly::Instance, "
                 "real EngineManager, real block fetcher) driven by raw gossip peers, settled by polling real state against "
                 "deadlines, trace acceptance of the requests that reached the peers by the composed model",
    "level_text": "Proof, for every reachable state / every run of the queue LTS (any number of peers, blocks, requests; every "
                  "interleaving of request creation, cancellation, announcements, accept calls, successes, failures, "
                  "disconnects with the internal steps of the futures): every live request is on offer in the map, or held "
                  "by exactly one connection, or is about to (re-)insert itself / to return (request_never_lost); it stays "
                  "live until it returns Ok after a holder's success report or Canceled after its own cancellation "
                  "(stays_requested); a dropped sender re-enables the insertion and the block is on offer again under a "
                  "fresh channel (failed_hold_is_offered_again); senders in the map and in holds are pairwise distinct "
                  "(single_holder) and insert never overrides; a block is handed to connection p only after a state in which "
                  "p's announced range contained it, which came after a state in which it was the lowest requested block at "
                  "p's sampling point (accepted_only_if_announced_and_sampled_minimum), and the hand-over removes it from the "
                  "map atomically; a sample is current or has its wake-up pending (watch version invariant); in every idle "
                  "state no connection waiting in accept_block has announced the lowest requested block and every request is "
                  "suspended on its channel (no_lost_wakeup); cancellation removes the entry and the request atomically and "
                  "stale holds are inert. For the fetcher model: request numbers strictly increase (one request per block), a "
                  "request is given up only after the block is queued, an idle fetcher has every reached block persisted, "
                  "queued or under request. PARTIAL in one respect, stated as a theorem: 'lowest missing block first' holds "
                  "for the acceptor's sample, not for the instant of the hand-over — a lower request inserted concurrently "
                  "can be overtaken (accept_may_overtake_concurrent_lower_request; reproduced on the real code by the "
                  "directed family 8 and counted as overtake_in_concurrent_step). The model is tied to the code by running "
                  "the real futures on a current-thread runtime: every step's visible events must be a trace of the LTS "
                  "ending in an idle model state, and the snapshots (current_blocks, live requests, accept calls, holds) "
                  "must agree. ACCEPTOR (gossip/runner.rs, the consumer of accept_block) — Proof, for every reachable state of "
                  "the composition queue + get_block tasks (rpc -> checks in the code's order: empty response, wrong number, "
                  "verification -> parked in queue_block's wait_for -> try_push and send_resp.send(()) in one step; dropped at "
                  "either await point by timeout / disconnect / cancellation) + store (queued().next(), other writers only "
                  "advance it): succeed/fail of a hold are performed only by the one live task that owns it (task_owns_hold); a "
                  "request is completed only if its block is queued in the store (completed_implies_queued, "
                  "done_only_if_queued, completion_sent_after_push: the completion step is enabled only for a parked task with "
                  "queued().next() >= n and leaves n < queued().next()); every block asked for and not given up has a live, "
                  "uncancelled request that is on offer, or held by exactly one hold owned by a live task, or about to "
                  "re-insert itself, or completed with the block queued — or its request has returned and the block is queued "
                  "(request_never_lost_node); every failure path of the acceptor (rpc error, empty response, wrong number, "
                  "right number but invalid, drop at the rpc await, drop while parked in queue_block) is enabled, removes task "
                  "and hold, cancels the connection's accept call, wakes the requester with Disconnected, and the re-insertion "
                  "puts the block on offer under a fresh channel (acceptor_failure_requeues).",
    "level_note": "Hand-written model (not translated): its agreement with fetch.rs and with gossip/mod.rs:124-158 is "
                  "established by the correspondence run on the generated steps only. The third anchor, "
                  "gossip/runner.rs:190-236 (the per-connection get_block task), is modelled in Model/FetchNode.lean and "
                  "executed by the second harness (c19n): a real node with raw peers. What is K there: for every step the "
                  "multiset of get_block requests that reached the raw peers must be the hand-overs to live peers of some "
                  "interleaving of the composed model that ends quiescent, and the settled snapshot (fetch queue map, (peer, "
                  "block) pairs held, those parked in queue_block, queued().next(), live connections) must equal the model's. "
                  "Which peer wins a race and the arrival order of requests on different connections are not deterministic: "
                  "the trace is compared as a sorted multiset and the model accepts any interleaving. What is S only: 'settled "
                  "within the deadline' (request-lost / lost-wakeup / in-map-and-held / stale-request), ask-not-announced, "
                  "double-ask, double-handover, not-all-persisted (eventually all blocks stored once an honest announcing peer "
                  "is connected) — decided by polling the node's real state until a deadline (6 s), never by a fixed sleep. "
                  "Not settling for a reason the property does not forbid (connection kept after a fault, delivered block not "
                  "queued) is reported through K only. The rpc-timeout cases use a 1.2 s get_block_timeout; a call of such a "
                  "case that times out although the script meant to answer it is fed to the model as an environment event "
                  "(`late`). In the first harness the acceptor's behaviour is still the environment events succeed / fail / "
                  "cancelAcc. Real "
                  "multi-threaded scheduling is covered by the theorems (all interleavings of the critical sections), not by "
                  "the run: the run is single-threaded with a harness-controlled, seeded order of the queue's futures and "
                  "with several environment actions applied between polls. Eventual completion (a peer that has the block "
                  "eventually serves it) is outside the property. Level-triggered behaviour of tokio's watch::changed / "
                  "wait_for and oneshot is assumed (third-party).",
    "harness": ["c19", "c19n"],
    "ignore_keys": ["class"],
    "n": {"quick": [500, 60], "thorough": [20000, 1500]},
    "rule": "a case starts with init (fresh Queue, or fresh EngineManager + gossip Network running the real run_block_fetcher); "
            "a step = 1-4 environment actions (req n / cancel n / start p / stop p / ann p first last / ok h / fail h; fetcher "
            "family also queue) applied without polling, then all futures are polled to quiescence in an order seeded by the "
            "step's `sch`; 11 directed families x 6 parameterisations (retry after failure; lowest-first with partial ranges "
            "and head-of-line blocking; wake-up on insertion of a lower block and on cancellation of the lowest; wake-up of "
            "the other acceptors after a hand-over; two peers racing; cancellation while offered / while held, stale holds, "
            "re-request; disconnect of a peer holding several requests; concurrent insertions / failures; overtaken sample; "
            "create+cancel before first poll, stop/restart; malformed steps), 8 fetcher cases (k 1-4 permits, with and without "
            "the store's persistence task), N random cases of 8-40 steps over 1-4 peers and 3-8 block numbers, up to 60% "
            "concurrent steps; every step yields a compared observation (event list + snapshot); distinct = distinct op "
            "lines (action list + sch + observed trace). Second harness (c19n, real node + 2-4 raw peers + a final honest "
            "peer): a case = ninit (k 1-3 fetch permits, 3-6 blocks, optional rpc timeout) then nsteps of one action each "
            "(conn p / ann p lo hi / ans p n kind with kind in ok, none, wrong+, wrong-, badpayload, fewsig, wronggen / drop p / "
            "timeout), each followed by polling until settled; 16 directed families (one per faulty answer kind; invalid "
            "block while the successor is parked in queue_block x3; disconnect before answering; out-of-order delivery then "
            "disconnect while parked; timeout in rpc; timeout while parked; three peers racing after a failure; ranges not "
            "covering the lowest missing block; out-of-order valid deliveries) + N random cases of 7-17 steps generated "
            "adaptively from the seeded PRNG (the generator answers requests that really reached a peer); every case ends "
            "with an honest peer answering everything until all blocks are persisted",
    "trusted": ["Model/Fetch.lean is a hand transcription of Queue::request / Queue::accept_block (gossip/fetch.rs) and of "
                "Network::run_block_fetcher (gossip/mod.rs); tied to the code by the correspondence run",
                "the model driver explores the quotient of the LTS by channel renaming and version shifting (Driver/C19.lean, "
                "canon) to keep the candidate set small; the quotient is a bisimulation by inspection, not by proof",
                "the harness's gates (a woken future is polled only when its gate is open) are ordinary scheduling",
                "Model/FetchNode.lean is a hand transcription of the get_block task of Network::run_stream "
                "(gossip/runner.rs) and of EngineManager::queue_block (libs/engine/src/manager.rs); a task has exactly two "
                "states because it has exactly two await points; tied to the code by the c19n correspondence run",
                "Driver/C19n.lean explores the quotient by channel / hold-id renaming, lets the fetcher model react to the "
                "store eagerly, treats a connection's teardown after a failed call as atomic, and hides hand-overs on "
                "connections that are already going down (they never reach the peer)",
                "the raw peer (verif/fetch_gossip.rs: raw_connect, RawPeer, GetBlockCall) is the crate's own test-only "
                "gossip::testonly::connect made public under the feature `verif`"],
    "assumptions": ["each send_if_modified / borrow_and_update closure of tokio's watch channel runs atomically; "
                    "watch::Receiver::changed is enabled iff the receiver's version differs from the sender's; wait_for and "
                    "oneshot are level-triggered",
                    "one request future per block number at a time (documented precondition of Queue::request; "
                    "run_block_fetcher satisfies it: fetcher_one_request_per_block)",
                    "first harness only: gossip/runner.rs reports success only after the block is queued and otherwise drops "
                    "the sender (in the composed model this is a theorem, and the second harness runs the real task)",
                    "a future is dropped only at an await point (no timeout / cancellation between try_push and "
                    "send_resp.send(()))",
                    "queued().next() never decreases (EngineManager: try_push, update_persisted)"],
    "explanation": "theorems over all runs of the fetch-queue LTS; K = trace acceptance of the real futures' visible events "
                   "by the same step? relation plus idle-vs-enabled and snapshot comparison; S = monitors on the "
                   "implementation's own history (no double hand-over, accept only if announced, lowest first for "
                   "sequential steps, request never lost, no stale map entry, no lost wake-up); for the acceptor: theorems "
                   "over all runs of the composed LTS; K = acceptance of the observed get_block requests of a real node by "
                   "the composed model + settled snapshot comparison; S = settle-by-deadline monitors on the real node "
                   "(request lost, lost wake-up, asked without announcement, two holders, not all blocks persisted)",
}
