CFG = {
        "gen": ["MuxConst"],
        "props": ["EraVerif.Props.C14"],
        "required_theorems": ["header_masks_partition", "header_roundtrip", "header_stream_kind_total",
                              "header_frame_kind_invalid_iff", "stream_ids_partition", "stream_ids_fit",
                              "dispatch_isolation", "dispatch_faithful", "reader_sees_its_session",
                              "reader_stops_at_close", "close_only_counterpart", "eos_only_after_close",
                              "permits_conserved", "buffered_bounded", "permits_return_when_consumed", "open_streams_le_min", "halves_held_once",
                              "sender_wire_wellformed", "sender_session_bytes", "sender_frames_bounded",
                              "scheduler_stays_reachable"],
        "technique": "Lean 4: labelled transition system of one Mux instance (Model/Mux.lean, events = code between two awaits), "
                     "inductive invariants over all event sequences; header layout over constants regenerated from header.rs; "
                     "differential run of the real Mux (hook verif::mux) against the model, harness plays the peer at wire level",
        "level_text": "Proof, for every reachable state of the LTS (any number of streams, any interleaving of peer frames, "
                      "internal steps and application calls, any peer): stream ids are partitioned by capability with "
                      "min(local, peer) ids each and fit the 13-bit field after verify (no panic in setup; the stream-kind "
                      "unreachable! arm is dead); per stream the frames taken ++ queued = the frames dispatched with that "
                      "key, in order (isolation, order, completeness), and what is dispatched is exactly what the peer wrote "
                      "(splitting into read_frame_size pieces invisible); a transient reader returns exactly the DATA payload "
                      "taken since its OPEN, stops at CLOSE, and sees EOS only after a CLOSE addressed to its own stream (or "
                      "transport death); count/size permits are conserved, hence buffered frames <= read_frame_count and "
                      "buffered bytes <= read_buffer_size for any sender; at most min(local, peer) transient streams per "
                      "capability are held, each half by one slot (lock hand-over); per stream the wire output is "
                      "CLOSE*(OPEN DATA* CLOSE)*, DATA frames are non-empty and <= write_frame_size, and the bytes sent before "
                      "CLOSE are the bytes written. PARTIAL: (1) the tokio primitives (Semaphore, Notify, bounded/unbounded "
                      "channel, Mutex fairness, oneshot) are assumed to behave as written at the top of Model/Mux.lean; "
                      "(2) the end-to-end composition 'bytes read on A = bytes written on B, session by session' is not a "
                      "theorem: it is the conjunction of the sender theorems on B, dispatch_faithful/dispatch_isolation/"
                      "reader_* on A and a transport that delivers frames unchanged (C13); it is compared on the pair "
                      "sessions of the correspondence run (tagged bytes) and by the harness monitors.",
        "level_note": "Full for the protocol model; partial w.r.t. tokio primitives (assumed semantics written down in the model) "
                      "and w.r.t. the two-sided composition (tested, not proved). The limiter of StreamQueue is taken as "
                      "Rate::INF (rate limiting is C15). Liveness (a blocked inbound loop resumes when permits return) is "
                      "only exercised by the correspondence run.",
        "harness": "c14",
        "n": {"quick": 250, "thorough": 6000},
        "rule": "sessions (first op init/reset): directed families always run - config/handshake boundaries (8), more streams "
                "than agreed / unknown ids / both kind bits (12), reuse of one reusable stream with early drops and lock "
                "hand-over (6), transport EOF (1), never-reading application with a sender ignoring flow control (10) - "
                "then N random sessions: 40% cooperative raw peer, 20% raw peer with unsolicited frames, 10% flood, 10% reuse, "
                "20% two real Mux instances back to back with tagged byte streams. Each op is followed by run-to-quiescence "
                "(runtime on_thread_park); corpus/C14 holds two sessions in which several streams of one capability race for "
                "StreamQueue::push. Non-trivial = distinct op lines whose observation class differs from the modal one",
        "trusted": ["scheduling advice: the generator runs every session once on the real Mux and records, per op, the order in "
                    "which the runtime let reusable streams through StreamQueue::push ('adv' in the op line); the model's "
                    "deterministic scheduler follows it. The advice only selects one interleaving among those the LTS "
                    "allows (scheduler_stays_reachable); every observable of the op is still compared",
                    "harness quiescence detection (tokio current-thread runtime, on_thread_park fires only when no task is "
                    "runnable) and its in-memory transport",
                    "the Debug output of mux::WriteStream, from which the hook reads (stream kind, stream id)"],
        "assumptions": ["tokio Semaphore: acquire_many(n) completes iff n <= available (single acquirer), permits return on drop",
                        "tokio channels are FIFO and lossless; a dropped sender still lets the receiver drain the queue",
                        "StreamQueue rendez-vous is first-come first-served on both sides (fair semaphore / mutex)",
                        "Notify::notify_one is followed by a Flush command ordered after every frame sent before it",
                        "the transport delivers the frames of the peer unchanged and in order (C13)",
                        "StreamQueue limiter is Rate::INF"],
        "explanation": "P: invariants of the mux LTS for all reachable states; T: header constants regenerated from header.rs; "
                       "K: every op of every session compared with the model (bytes per stream, EOS, frames emitted per "
                       "stream, bytes pulled from the transport, run status, stream ids handed out); S: harness monitors "
                       "(tagged bytes, EOS only after CLOSE, ids within capability ranges, open streams <= min, sender grammar, "
                       "unread data pulled <= buffer limits)",
    }
