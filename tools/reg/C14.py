CFG = {
        "gen": ["MuxConst"],
        "props": ["EraVerif.Props.C14"],
        "required_theorems": ["header_masks_partition", "header_roundtrip", "header_stream_kind_total",
                              "header_frame_kind_invalid_iff", "stream_ids_partition", "stream_ids_fit",
                              "dispatch_isolation", "dispatch_faithful", "reader_sees_its_session",
                              "reader_stops_at_close", "close_only_counterpart", "eos_only_after_close",
                              "permits_conserved", "buffered_bounded", "permits_return_when_consumed", "open_streams_le_min", "halves_held_once",
                              "sender_wire_wellformed", "sender_session_bytes", "sender_frames_bounded",
                              "writer_channel_fifo", "acked_data_delivered_or_error", "cancel_is_safe",
                              "scheduler_stays_reachable"],
        "technique": "Lean 4: labelled transition system of one Mux instance (Model/Mux.lean, events = code between two awaits), "
                     "inductive invariants over all event sequences; header layout over constants regenerated from header.rs; "
                     "the write path is modelled down to the bounded(1) channel write_send, the writer task and a transport with "
                     "back-pressure, with a cancellation event at the await of write_all / flush (ghost call history); "
                     "differential run of the real Mux (hook verif::mux) against the model, harness plays the peer at wire level "
                     "(incl. a peer that stops taking bytes) or connects two real Mux instances by a bounded pipe",
        "level_text": "Proof, for every reachable state of the LTS (any number of streams, any interleaving of peer frames, "
                      "internal steps and application calls, any peer): stream ids are partitioned by capability with "
                      "min(local, peer) ids each and fit the 13-bit field after verify (no panic in setup; the stream-kind "
                      "unreachable! arm is dead); per stream the frames taken ++ queued = the frames dispatched with that "
                      "key, in order (isolation, order, completeness), and what is dispatched is exactly what the peer wrote "
                      "(splitting into read_frame_size pieces invisible); a transient reader returns exactly the DATA payload "
                      "taken since its OPEN, stops at CLOSE, and sees EOS only after a CLOSE addressed to its own stream (or "
                      "transport death); count/size permits are conserved, hence buffered frames <= read_frame_count and "
                      "buffered bytes <= read_buffer_size for any sender; at most min(local, peer) transient streams per "
                      "capability are held, each half by one slot (lock hand-over); per stream the wire output is "
                      "CLOSE*(OPEN DATA* CLOSE)*, DATA frames are non-empty and <= write_frame_size, and the bytes sent before "
                      "CLOSE are the bytes written. Write path under back-pressure and per-call cancellation (the only await of "
                      "write_all / flush is the reservation of the one slot of the channel write_send inside send_data, before "
                      "the buffer is moved into the frame): writer_channel_fifo - transport ++ frame held by the writer task ++ "
                      "frame in the slot = the frames whose send/reserve completed, in order; acked_data_delivered_or_error - in "
                      "every reachable state with the mux alive, per stream, the session payload on the transport or in flight "
                      "followed by the write buffer = concat over the finished write_all calls of (all data if Ok | the copied "
                      "prefix if cancelled) followed by what the call in flight has copied; a cancelled call has taken a proper "
                      "prefix with fill0 + took = (j+1)*write_frame_size (it stopped at a send_data with a full buffer, which is "
                      "kept); in phase closing everything accepted is ahead of the CLOSE; cancel_is_safe - cancelling the "
                      "write_all / flush in flight in any reachable state changes nothing sent, in flight or buffered on any "
                      "stream, leaves the stream held with no call in flight (any further write_all / flush is accepted), and in "
                      "every later state of the same transient stream the payload on the wire plus the buffer still starts with "
                      "everything accepted before the cancellation. PARTIAL: (1) the tokio primitives (Semaphore, Notify, bounded/unbounded "
                      "channel, Mutex fairness, oneshot) are assumed to behave as written at the top of Model/Mux.lean; "
                      "(2) the end-to-end composition 'bytes read on A = bytes written on B, session by session' is not a "
                      "theorem: it is the conjunction of the sender theorems on B, dispatch_faithful/dispatch_isolation/"
                      "reader_* on A and a transport that delivers frames unchanged (C13); it is compared on the pair "
                      "sessions of the correspondence run (tagged bytes) and by the harness monitors.",
        "level_note": "Full for the protocol model; partial w.r.t. tokio primitives (assumed semantics written down in the model) "
                      "and w.r.t. the two-sided composition (tested, not proved). The limiter of StreamQueue is taken as "
                      "Rate::INF (rate limiting is C15). Liveness (a blocked inbound loop resumes when permits return) is "
                      "only exercised by the correspondence run.",
        "harness": "c14",
        "n": {"quick": 250, "thorough": 6000},
        "rule": "sessions (first op init/reset): directed families always run - config/handshake boundaries (8), more streams "
                "than agreed / unknown ids / both kind bits (12), reuse of one reusable stream with early drops and lock "
                "hand-over (6), transport EOF (1), never-reading application with a sender ignoring flow control (10) - "
                "write-path back-pressure against the raw peer (16: the peer stops taking bytes (op win), cwrite / cflush = "
                "write_all / flush under a context of their own which the harness cancels when the call is still suspended at "
                "quiescence, i.e. blocked in the reservation of the channel slot; then more writes on the same stream, the peer "
                "reads again, drop), the same end to end over a bounded pipe between two real Mux instances whose receiving "
                "application does not read (12: small read_buffer_size / read_frame_count, op cap, receiver finally reads to "
                "EOS) - then N random sessions in rounds of 12: 4 cooperative raw peer, 2 raw peer with unsolicited frames, "
                "1 flood, 1 reuse, 2 two real Mux instances back to back with tagged byte streams, 1 raw back-pressure, 1 pair "
                "back-pressure. Each op is followed by run-to-quiescence "
                "(runtime on_thread_park); corpus/C14 holds two sessions in which several streams of one capability race for "
                "StreamQueue::push. Non-trivial = distinct op lines whose observation class differs from the modal one",
        "trusted": ["scheduling advice: the generator runs every session once on the real Mux and records, per op, the order in "
                    "which the runtime let reusable streams through StreamQueue::push ('adv' in the op line); the model's "
                    "deterministic scheduler follows it. The advice only selects one interleaving among those the LTS "
                    "allows (scheduler_stays_reachable); every observable of the op is still compared",
                    "harness quiescence detection (tokio current-thread runtime, on_thread_park fires only when no task is "
                    "runnable) and its in-memory transport (with a limit configured: a bounded pipe that turns the writer away "
                    "between two mux frames, found with a frame parser of its own)",
                    "cancellation of one call: its context is ctx.with_timeout(1s) on the session's ManualClock, cancelled by "
                    "advancing the clock 2s once the runtime is quiescent with the call still pending",
                    "among several senders suspended on the channel slot the model's scheduler serves the one that arrived "
                    "first (tokio's fair semaphore); the theorems hold for any order",
                    "the Debug output of mux::WriteStream, from which the hook reads (stream kind, stream id)"],
        "assumptions": ["tokio Semaphore: acquire_many(n) completes iff n <= available (single acquirer), permits return on drop",
                        "tokio channels are FIFO and lossless; a dropped sender still lets the receiver drain the queue",
                        "StreamQueue rendez-vous is first-come first-served on both sides (fair semaphore / mutex)",
                        "Notify::notify_one is followed by a Flush command ordered after every frame sent before it",
                        "bounded(1) channel write_send: send/reserve complete iff the slot is free, recv frees it, a cancelled "
                        "reserve leaves no trace; ctx.wait returns Canceled only at an await",
                        "the transport delivers the frames of the peer unchanged and in order (C13)",
                        "StreamQueue limiter is Rate::INF"],
        "explanation": "P: invariants of the mux LTS for all reachable states; T: header constants regenerated from header.rs; "
                       "K: every op of every session compared with the model (bytes per stream, EOS, frames emitted per "
                       "stream, bytes pulled from the transport, run status, stream ids handed out, result class ok / canceled / "
                       "err of every write_all and flush); S: harness monitors "
                       "(tagged bytes, EOS only after CLOSE, ids within capability ranges, open streams <= min, sender grammar, "
                       "unread data pulled <= buffer limits; per sub-stream, at CLOSE on the wire and at end-of-stream on the "
                       "peer's reader: the bytes = concat over the write_all calls in order of all data for Ok | some prefix for a "
                       "cancelled call - the first write that cannot be placed is reported as the hole)",
    }
