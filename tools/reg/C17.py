# C17 — Task scopes join every task, report a first failure and cancel the rest.
CFG = {
    "gen": [],
    "props": ["EraVerif.Props.C17", "EraVerif.Props.C17sig"],
    "required_theorems": ["no_lost_wakeup", "after_send_ready", "race_ok", "split_poll_loses_wakeup", 
        "terminated_iff_no_task", "run_returns_after_all_tasks", "returned_scope_is_joined",
        "scope_returns_after_task_ends", "no_later_event_of_released", "no_spawn_into_returned_scope",
        "result_root_iff_all_ok", "error_is_first", "panic_reraised_iff", "unwrap_never_panics",
        "errLog_is_trace_order",
        "cancel_on_first_failure", "set_err_cancels_at_once", "first_set_err_is_stored", "cancel_when_main_done",
        "cancelled_at_return", "cancel_from_parent_or_deadline", "cancel_from_caller", "cancel_reaches_descendants",
        "observed_cancellation_has_cause",
        "spawn_after_main_done_is_background", "main_spawned_by_main_is_main", "spawn_never_after_terminated",
    ],
    "technique": "Lean 4 theorems (inductive invariants over arbitrary accepted event lists) about a labelled transition "
                 "system of the scope guard protocol (CancelGuard / TerminateGuard counts, error slot, contexts) + trace "
                 "acceptance: event logs of random task trees run on the real scope implementation (multi-thread tokio "
                 "runtime, feature-guarded emission points) are replayed through the model's step? by the Lean driver",
    "level_text": "Proof, for every event list the model accepts (= every task tree: any number of main/background, async/blocking "
                  "tasks, tasks spawning tasks, nested scopes to any depth, failures / panics / Scope::cancel / deadlines at any "
                  "point, under every interleaving of the atomic sections): run! returns only after the terminated signal, which "
                  "needs the CancelGuard dropped and every task of the scope released, so every task spawned in the scope "
                  "directly or transitively (nested scopes) has ended before the return and does nothing afterwards (also as a "
                  "statement on the log: its `end` event precedes the `ret` event); the result is Ok(root's value) iff every task "
                  "returned Ok, Err(v) only if nobody panicked and v is the error of the task whose set_err is first in mutex "
                  "order (errLog = the set_err events of the log in order), a panic iff some task panicked; the final unwrap "
                  "never panics; a stored set_err cancels the scope context inside its critical section and the first failure is "
                  "always stored; CancelGuard::drop is enabled iff the run guard is dropped and all started main tasks released, "
                  "it cancels, and the scope cannot terminate before it; a context is cancelled iff cancel() was called on it "
                  "or an ancestor or a deadline of it or an ancestor passed; cancellation of a context implies cancellation of "
                  "every descendant; a cancellation is observed only after one of these causes; after CancelGuard::drop "
                  "`spawn` yields background tasks; bg_task's unwrap is safe. PARTIAL with respect to the runtime (see note). "
                  "Tie to the code: every run of the harness replays the recorded, totally ordered log of the real "
                  "implementation through the same step? (first rejected event reported) and compares the result run! really "
                  "returned with the one the model computes from the log; monitors check the clauses directly on each log.",
    "level_note": "Full strength for the guard-protocol model; PARTIAL w.r.t. the runtime: (1) propagation of a cancellation to "
                  "child contexts is a spawned tokio task (ctx::child_with_clock) — modelled as the closure over the ancestor "
                  "chain (an always-eventually-enabled internal step); that it is actually delivered is checked on the "
                  "implementation only (monitor: every task that waits for cancellation observes it within a timeout), not "
                  "proved; (2) unsafe lifetime transmutes in spawn / spawn_blocking and the must_complete abort are outside the "
                  "model; (3) the model is over log markers: a marker is written just before (guard release, cancel causes) or "
                  "just after (task start = after upgrade, observation, return) the atomic action it stands for, the two "
                  "counters are lower bounds of the Arc strong counts, every guard of step? is a necessary condition of the "
                  "code's behaviour — so acceptance of real logs is sound evidence of refinement, but a behaviour that only "
                  "differs between a marker and its action is invisible; (4) Arc, Mutex, tokio Semaphore (signal::Once) "
                  "semantics are assumed; (5) agreement is shown on the sampled programs and the schedules that occurred.",
    "harness": "c17",
    "n": {"quick": 400, "thorough": 12000},
    "rule": "n programs x 3 jitter patterns (sched 0 = no added yields; 1, 2 = pseudo-random yields / spins / short sleeps before "
            "each step), each run once on a 4-worker multi-thread tokio runtime = one op (the op line carries the program and the "
            "canonicalised event log of that run). Half of the programs are directed families, one per mechanism: race_fail "
            "(2-5 tasks fail at once, errors and panics mixed, others wait), late_spawn (background task spawns `main` tasks "
            "after / racing with the completion of the main tasks), main_done_cancels (all Ok, background tasks wait for the "
            "cancellation that only the CancelGuard drop delivers), nested_cancel (outer failure must reach waiters 1-3 scopes "
            "deep), already_canceled (scope opened under a cancelled context), deadline (caller's with_timeout context, manual "
            "clock advanced by a task; deadline 0), panic (root / leaf / background / nested re-raised), bg_error_after_done, "
            "explicit_cancel_ok; the other half are random trees (<= 12 tasks, nesting <= 4, async and blocking tasks, run! and "
            "run_blocking!, failure rate 0/10/25/50 %). Programs are generated so that every wait is guaranteed a cause. "
            "An op is non-trivial if its observation class (ok / err / panic) is not the run's most common one; distinct = "
            "distinct (program, log).",
    "trusted": ["the emission points added to scope/{mod,state,task}.rs, ctx/mod.rs and verif.rs (feature verif): that each "
                "marker is written where the model assumes (inside the err mutex; before the release / the signal; after the "
                "upgrade)",
                "the harness' log canonicalisation (addresses -> scope ids; the markers of one critical section merged into "
                "one event by thread) and its interpreter of task programs"],
    "assumptions": ["std::sync::Arc / Weak::upgrade, std::sync::Mutex and tokio::sync::Semaphore (signal::Once) behave as "
                    "documented; tokio runs every spawned task and every blocking closure to completion",
                    "the context-propagation task of ctx::child_with_clock is eventually scheduled (checked by a monitor with a "
                    "timeout, not proved)",
                    "tasks are sequential programs: a task does nothing while it is inside a nested scope::run!"],
    "timeout": {"quick": 900, "thorough": 7200},
    "explanation": "theorems over all accepted event lists of the guard-protocol LTS; K replays the event log of every real run "
                   "through the LTS (accepted, complete) and compares the result run! returned with the result the model "
                   "derives from the log; S checks join / result / cancellation clauses on each log directly",
}
