CFG = {
        "gen": ["StoreConst", "StoreFns"],
        "props": ["EraVerif.Props.C08", "EraVerif.Props.C08gen"],
        "required_theorems": ["verified_iff", "only_verified_enter", "submit_parks_iff", "peer_guard",
                              "cache_contiguous_and_tail", "ranges_ordered", "push_only_at_next",
                              "refines_append_only_chain", "no_substitution", "truncate_only_persisted",
                              "cached_block_stable", "next_monotone", "handoff_gap_free", "handoff_single_task",
                              "handed_increasing", "storage_never_sees_gap", "available_is_readable", "get_spec",
                              "cache_bound", "regress_rejected", "restart_from_durable", "reachable_closed", "gen_next_eq", "gen_contains_eq", "gen_verify_ok_iff",
                              "gen_truncate_eq", "gen_try_push_eq", "gen_update_persisted_eq", "gen_block_eq"],
        "technique": "Lean 4: inductive invariant of a labelled transition system transcribed from block_store.rs / "
                     "manager.rs (one event per critical section), proved for all event lists; CACHE_CAPACITY "
                     "and the bodies of BlockStoreState::{next,contains,head,verify} / BlockStore::{try_push,update_persisted,truncate_cache} "
                     "regenerated from block_store.rs (statement translator tools/translate_store.py) and proved equal to the model's definitions (Props/C08gen); differential run of the real EngineManager "
                     "against the model through the public API + property monitors on the implementation",
        "level_text": "Proof (model): for every state reachable by any interleaving of queue_block calls from consensus / "
                      "peers / API (valid, invalid, duplicated, conflicting, out of order), try_push critical sections in "
                      "any order, cancellations, the persisted-watch task, the single hand-off task at any speed, storage "
                      "completions, side-channel jumps, pruning, arbitrary (even dishonest) storage reports, hand-off "
                      "errors and restarts: only blocks that pass the queue_block verification (epoch schedule lookup, "
                      "payload hash, genesis, signer-set size, quorum weight, signature; pre-genesis bound + external "
                      "justification) are parked, cached, accepted or handed to storage; the cache holds exactly the "
                      "numbers [queued.next-len, queued.next); persisted <= queued; a block is appended only at "
                      "queued.next, numbers are accepted at most once between restarts (no substitution), a cached "
                      "block stays until it is below persisted.next; hand-offs are made only by the one task, strictly "
                      "increasing, each = previous+1 or the store's persisted.next, and a storage that keeps the "
                      "interface contract never receives a block above its head; every available number is readable "
                      "from cache or storage unless the storage pruned it; cache length <= max(CACHE_CAPACITY, "
                      "queued.next-persisted.next); a report with a lower head is rejected without touching the store; "
                      "a restart rebuilds the store from the durable state only. Correspondence: the real EngineManager "
                      "(public API, real signatures, harness-controlled EngineInterface) agrees with the model on every "
                      "generated operation, and the property monitors find no violation on the implementation.",
        "level_note": "Proved for the model, tied to the code by the differential run and, for block_store.rs (the cache / "
                      "range bookkeeping: try_push, update_persisted, truncate_cache, next, contains, head, verify and "
                      "CACHE_CAPACITY), by translation: the regenerated programs are proved equal to the model's definitions on "
                      "every run (numbers below u64::MAX). manager.rs is tied by the differential run only. Partial / assumed: (1) tokio scheduling is not modelled — the sequential families "
                      "run the real tasks to quiescence on a single-threaded runtime after every op, the `mt` family "
                      "runs 8 submitter tasks + a side channel in parallel on a multi-threaded runtime and compares the "
                      "(order-independent) final state; the theorems cover every order of the critical sections; cases "
                      "with racing conflicting requests compare only order-independent observables (identity is "
                      "checked by the append-only monitor); (2) availability is per incarnation: blocks queued but not "
                      "durable are lost by a restart, as the code intends (save_block waits for persistence); (3) the "
                      "`number == requested` guard of gossip/runner.rs is exercised through the real gossip network "
                      "(two real nodes over loopback TCP, the remote one with a lying storage) in the `net` family and "
                      "transcribed in the harness for the sequential families; the queue_block + "
                      "wait_until_persisted sequence of bft/.../block.rs (save_block) is transcribed in the harness — "
                      "no replica is run, so a change inside save_block is not seen by K; (4) static genesis schedule "
                      "only — the epoch-update task (manager.rs:504-612) is not modelled; (5) block numbers below "
                      "u64::MAX (BlockNumber::next panics on overflow); (6) durable storage itself is the harness's "
                      "stub (in_memory::Engine rules).",
        "harness": "c08",
        "n": {"quick": 7000, "thorough": 120000},
        "timeout": {"quick": 900, "thorough": 7200},
        "rule": "operation sequences (cases of 10-300 ops, each starting with init on a random durable range): directed "
                "families — in order, out of order + duplicates, substitution attempts with a second valid chain and "
                "5-of-6 certificates, every verification defect offered exactly at queued.next, pre-genesis/forced kinds "
                "around genesis.first_block, storage lag beyond CACHE_CAPACITY, the capacity boundary "
                "(cap-1/cap/cap+1 with the durable head before/at/after the cache front), side-channel overtaking with "
                "requests parked on both sides, pruning, regressing / ill-formed / dishonest reports, restarts, hand-off "
                "failure, cancellation, peer responses with a wrong number (transcribed guard, and `net`: real gossip "
                "network with a lying peer), racing conflicting requests, `mt`: concurrent submitters on a multi-threaded "
                "runtime — plus random mixes; an op is non-trivial if its observation class differs from the modal one; distinct = distinct "
                "op lines",
        "trusted": ["the hand transcription of block_store.rs / manager.rs into Model/Store.lean (checked by the "
                    "differential run on every check)", "tokio watch / task semantics (run, not modelled)",
                    "symbolic view of signatures: a block descriptor's flags are realised by the harness with real keys"],
        "assumptions": ["block numbers stay below u64::MAX (BlockNumber::next is checked_add(1).unwrap())",
                        "static validator schedule in genesis (one epoch); dynamic epoch updates are not modelled",
                        "readability and storage-gap theorems assume the storage keeps the EngineInterface contract "
                        "(head never goes back, every block of the reported range is readable); all other theorems hold "
                        "for arbitrary storage behaviour",
                        "cryptography is symbolic in the model (sigOk etc.); the harness realises it with real BLS keys"],
        "explanation": "theorems: inductive invariant over all event lists of the store LTS; K: real EngineManager vs "
                       "model on generated operation sequences, run to quiescence after each op; S: monitors "
                       "(verified, contiguous, append-only, hand-off order, storage gap, cache bound, regress) on the "
                       "implementation after every op",
    }
