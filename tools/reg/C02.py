CFG = {
    "gen": [],
    "props": ["EraVerif.Props.C02"],
    "required_theorems": ["certified_block_canonical", "choosable_block_protected", "one_payload_per_number",
                          "cert_unique_per_view", "timeout_reports_latest_vote", "commit_timeout_overlap",
                          "conflicting_reporters_below_subquorum"],
    "technique": "Lean 4 inductive invariant (choosable values) over a protocol-level transition system + exhaustive-style "
                 "differential run of get_implied_block / high_vote / high_qc against the model and the specification rule",
    "level_text": "Proof (protocol level): for every finite committee with weights, every Byzantine set of weight <= f=(n-1)/5 and "
                  "every history reachable by any interleaving of correct replicas' votes, timeout votes, view changes and "
                  "certificate adoption (Byzantine validators and the network unconstrained): once a quorum has voted (k,h) in view u "
                  "— even if nobody assembled the certificate, and even while it is only still completable — every later correct commit "
                  "vote is for a number >= k and, if for k, for h; so at most one payload per number can ever be certified. The "
                  "proof is the inductive invariant of DESIGN App. A (I1-I8), kernel-checked, whose timeout-certificate case consumes "
                  "the relational specification `Implied` of the re-proposal rule. Decision level: the real get_implied_block / "
                  "high_vote / high_qc are compared with the Lean functions on thousands of generated timeout certificates (all "
                  "combinations of high vote in {none,A,B,A',higher} and high certificate in {none,q1,q2,far-higher,lower} over 1-4 "
                  "groups and random weight splits incl. exactly at the sub-quorum), and with an independent implementation of the "
                  "specification's sub-quorum rule; the replica's use of the rule (payload present/absent, forced re-proposal) is "
                  "covered by the replica correspondence.",
    "level_note": "The bridge from the executable decision function to the relational `Implied` (Props/C02d: implied_refines) and the "
                  "refinement of the replica model's votes to protocol-level vote steps are proved/validated separately; where that "
                  "bridge is not yet kernel-checked it is validated by the differential run against the specification rule. One "
                  "epoch, fixed committee. Cryptography symbolic.",
    "harness": ["c02", "c03"],
    "scope": {"c03": {"oracle_only": "^equivocation:", "ignore_k": True}},
    "n": {"quick": [2400, 1000], "thorough": [60000, 30000]},
    "rule": "per committee (n<=11, weights from {1,2,3}) random signer subsets biased to the quorum boundary, partitioned into "
            "1-4 groups with distinct (high vote, high certificate) contents drawn from 5x5 shapes -> op `implied`; plus replica "
            "handler scenarios. non-trivial = distinct op whose outcome class differs from the modal class (all `implied` ops "
            "are value-compared)",
    "trusted": ["protocol-level transition system (hand transcription of spec/informal-spec/replica.rs guards)", "symbolic signatures"],
    "assumptions": ["weight of Byzantine validators <= f", "signatures unforgeable (a certificate's correct signers really voted)"],
    "explanation": "history-level theorems on Layer P; decision-function correspondence + specification oracle on the real code",
}
