CFG = {
    "gen": [],
    "props": ["EraVerif.Props.C06"],
    "required_theorems": ["timeout_always_rebroadcasts", "view0_times_out", "newview_pulls_forward",
                          "timeout_quorum_advances", "commit_quorum_advances", "honest_proposal_accepted"],
    "technique": "Lean 4 enabling (no-deadlock) lemmas on the replica model for every Wf state + multi-replica simulation of real "
                 "replicas: adversarial prefix then a fair synchronous suffix must commit new blocks (a stall is reported with the "
                 "seed as replay)",
    "level_text": "PARTIAL (by design, see DESIGN C06). Proved on the replica model for every well-formed state: a timer expiry "
                  "always re-emits the timeout vote (and the new-view above view 0) whatever the phase; view 0 times out with a "
                  "timeout vote only; any verified justification for a higher view is accepted from any member in any phase and "
                  "moves the replica to that view; a timeout vote / commit vote that completes a quorum advances the view; the "
                  "leader's own proposal built by create_proposal from the justification it was notified with passes every check of "
                  "on_proposal at a replica in Prepare of that view. These are the steps of the synchronous recovery schedule; the "
                  "composite statement (every correct replica commits within a bounded number of views with correct leaders) is NOT "
                  "a kernel-checked theorem: it is exercised on real replicas — after an adversarial prefix (loss, duplication, "
                  "partitions, restarts, Byzantine traffic) the network heals (Byzantine validators silent, every message delivered, "
                  "timers fire when idle, missing blocks fetchable) and every correct store's head must grow within 6n+12 rounds.",
    "level_note": "Not expressible in the model: wall-clock timers, tokio scheduling, real block-fetch latency — 'timeouts keep "
                  "firing' and 'blocks can be fetched' are hypotheses realised by the scheduler of the simulation. Progress with "
                  "Byzantine validators still active in the suffix is not covered.",
    "harness": "c06",
    "replay_by_seed": True,
    "n": {"quick": 900, "thorough": 30000},
    "rule": "as C01, each case followed by the synchronous suffix; non-trivial = distinct op whose outcome class differs from the "
            "modal class",
    "trusted": ["hand-written replica model", "simulation scheduler as the fair network"],
    "assumptions": ["correct weight >= quorum; leaders rotate round-robin over all validators (at least one correct leader within "
                    "n views)"],
    "explanation": "enabling lemmas + simulated recovery; see level_text",
}
