CFG = {
    "gen": [],
    "props": ["EraVerif.Props.C06", "EraVerif.Props.C06s", "EraVerif.Props.C05loop"],
    "required_theorems": ["timeout_always_rebroadcasts", "view0_times_out", "newview_pulls_forward",
                          "timeout_quorum_advances", "commit_quorum_advances", "honest_proposal_accepted",
                          "no_reachable_state_blocks", "views_synchronise", "timeout_round_advances",
                          "leader_proposal_accepted_everywhere", "sync_progress", "leader_rotation_bound",
                          "progress_within_n_rounds", "timer_fires", "deadline_rule", "message_keeps_deadline", "flood_cannot_postpone", "view0_bootstrap"],
    "technique": "Lean 4: enabling lemmas on the replica model + composite progress theorem over an explicit synchronous schedule on the "
                 "global code-level system; multi-replica simulation of real replicas (adversarial prefix, slow-storage/crash episode, "
                 "fair suffix must commit)",
    "level_text": "Proof (model): (1) enabling lemmas for every well-formed replica state: a timer expiry always re-emits the timeout "
                  "vote (and the new-view above view 0) whatever the phase; view 0 times out; any verified justification for a higher "
                  "view is accepted from any member in any phase and moves the replica there; votes completing a quorum advance the "
                  "view, in any delivery order; the leader's own proposal passes every check of on_proposal; no reachable state with a "
                  "sane block store blocks. (2) The composite, on the global code-level system of C01r: from EVERY globally reachable "
                  "state (any adversarial prefix: loss, duplication, crashes after any effect prefix, Byzantine messages), with at most "
                  "f weight Byzantine and silent during the period, the explicit synchronous schedule (timers fire; the highest "
                  "new-view reaches everybody; timers fire; all timeout votes delivered; the correct leader's proposal delivered; all "
                  "commit votes delivered) is a legal run after which every correct replica holds a verifying commit certificate for "
                  "one NEW block, is two views further, and every replica with the payload cached has handed the block to its store "
                  "(`sync_progress`); a round with a faulty leader still advances every correct replica by exactly one view, so with "
                  "round-robin leaders at most n-1 rounds pass before a correct leader's round commits (`progress_within_n_rounds`). "
                  "Tie to the code: multi-replica simulation of real replicas — adversarial prefix, optionally a slow-storage episode "
                  "followed by a crash of every node, then a fair synchronous suffix in which every correct store's head must grow "
                  "within n+8 rounds (a stall is reported with the seed as replay); every modelled step is compared with the replica "
                  "model.",
    "level_note": "PARTIAL w.r.t. the runtime: wall-clock timers, tokio scheduling, real block-fetch latency are not in the model — "
                  "'timeouts keep firing' and 'blocks can be fetched' are hypotheses (environment answers in the theorem, the "
                  "scheduler in the simulation); Byzantine validators are silent in the synchronous period; replicas without the "
                  "payload obtain the block by block sync (outside the model). Slow-storage episodes are run and monitored on the real "
                  "replicas only (the model has no notion of a handler waiting for its disk).",
    "harness": ["c06", "c05loop"],
    "replay_by_seed": True,
    "n": {"quick": [1200, 1500], "thorough": [18000, 30000]},
    "rule": "(1) N/150 cases: adversarial prefix as in C01 but 300 steps, then in rotation nothing / slow-storage episode and crash of "
            "every node / isolated-laggard episode, then the fair synchronous suffix (timers at every correct replica, every "
            "message delivered in order, blocks fetchable, Byzantine validators silent) must commit a new block at every correct "
            "replica within n+8 rounds; non-trivial = distinct op whose outcome class differs from the modal class. (2) the run-loop "
            "harness of C05 (c05loop: the real StateMachine::run through its real input channel with a manual clock): the "
            "premise 'timeouts keep firing' is the code's own job — the view timer is a deadline fixed when the view is "
            "entered, not an idle timer, so traffic cannot postpone it (theorems timer_fires, deadline_rule, "
            "message_keeps_deadline, flood_cannot_postpone)",
    "trusted": ["hand-written replica model", "simulation scheduler as the fair network"],
    "assumptions": ["correct weight >= quorum; leaders rotate round-robin over all validators (at least one correct leader within "
                    "n views)"],
    "explanation": "enabling lemmas + simulated recovery; see level_text",
}
