CFG = {
        "gen": ["Thresholds"],
        "props": ["EraVerif.Props.C07"],
        "required_theorems": ["five_f_plus_one_le", "two_quorums_share_gt_f", "commit_timeout_share_subquorum_correct",
                              "conflicting_reports_below_subquorum", "max_faulty_no_overflow", "quorum_no_overflow",
                              "subquorum_no_overflow", "max_faulty_toNat", "quorum_toNat", "subquorum_toNat",
                              "total_weight_checked", "schedule_new_ok_iff", "schedule_new_total",
                              "schedule_new_rejects_overflow", "schedule_new_thresholds"],
        "technique": "Lean 4 theorems over all UInt64 on definitions regenerated from schedule.rs (translator) + differential run",
        "level_text": "Proof: for every total weight n in [1, 2^64-1] the regenerated max_faulty_weight / quorum_threshold / "
                      "subquorum_threshold satisfy 5f+1<=n, 2(n-f)-n>f, 2(n-f)-n-f=n-3f, 2f<n-3f, and no intermediate "
                      "operation overflows or underflows (checked evaluation never fails; wrapping UInt64 = Nat value). "
                      "The definitions are re-translated from schedule.rs on every run, so the theorems are re-proved "
                      "against the current source; the real functions are also compared with the definitions on ~10^4 weights.",
        "level_note": "Full strength for the property as stated. Schedule::new (the construction-time overflow check) is transcribed by hand "
                      "(Model/ScheduleNew.lean: duplicate key, zero weight, checked_add of the total, unchecked += of the leader weight, "
                      "empty / no-leader checks) and compared with the real constructor on every run; theorems schedule_new_ok_iff / "
                      "schedule_new_total / schedule_new_rejects_overflow: a committee is accepted iff it is well-formed and its TRUE weight "
                      "fits in 64 bits, and the recorded totals are the true sums (nothing wraps), for every committee, leader split and order.",
        "harness": "c07",
        "n": {"quick": 10000, "thorough": 2000000},
        "rule": "total weights: 1..200, ±6 around powers of two / u64::MAX/{2,3,5}, the top 16 values of u64, and N random "
                "values with uniformly random bit length; each is one op; all ops are non-trivial (pure function, every "
                "input yields numbers that are compared); distinct = distinct n. Plus max(200, N/10) `sched` ops: committees of 1..8 "
                "validators whose weights sum to 2^64-1, 2^64, 2^64+{0..4}, 2^64-1-{0..4}, 2^64+2^k, 3*2^62 (alternating leader / "
                "non-leader so that each class fits and the whole does not) or are random; random leader flags; 5% each: a zero "
                "weight, a repeated key, no leader, all leaders, empty, shuffled; Schedule::new is called with real keys",
        "trusted": ["the Rust→Lean expression translation of the three one-line functions (literals, + - * /, calls)"],
        "assumptions": ["u64 arithmetic of the release profile wraps; the checked (`_chk`) definitions additionally show that "
                        "no operation would overflow/underflow, so the dev profile computes the same values"],
        "explanation": "theorems over the regenerated threshold functions for all n in [1, 2^64-1] and over the transcription of "
                       "Schedule::new for every committee; K compares the real functions and the real constructor with the Lean "
                       "definitions; S evaluates the inequalities on the real results and checks that an accepted committee records "
                       "its true (128-bit) weight",
    }
