CFG = {
        "gen": ["Thresholds"],
        "props": ["EraVerif.Props.C07"],
        "required_theorems": ["five_f_plus_one_le", "two_quorums_share_gt_f", "commit_timeout_share_subquorum_correct",
                              "conflicting_reports_below_subquorum", "max_faulty_no_overflow", "quorum_no_overflow",
                              "subquorum_no_overflow", "max_faulty_toNat", "quorum_toNat", "subquorum_toNat",
                              "total_weight_checked"],
        "technique": "Lean 4 theorems over all UInt64 on definitions regenerated from schedule.rs (translator) + differential run",
        "level_text": "Proof: for every total weight n in [1, 2^64-1] the regenerated max_faulty_weight / quorum_threshold / "
                      "subquorum_threshold satisfy 5f+1<=n, 2(n-f)-n>f, 2(n-f)-n-f=n-3f, 2f<n-3f, and no intermediate "
                      "operation overflows or underflows (checked evaluation never fails; wrapping UInt64 = Nat value). "
                      "The definitions are re-translated from schedule.rs on every run, so the theorems are re-proved "
                      "against the current source; the real functions are also compared with the definitions on ~10^4 weights.",
        "level_note": "Full strength for the property as stated. Schedule::new's checked_add fold is modelled by hand (total_weight_checked).",
        "harness": "c07",
        "n": {"quick": 10000, "thorough": 2000000},
        "rule": "total weights: 1..200, ±6 around powers of two / u64::MAX/{2,3,5}, the top 16 values of u64, and N random "
                "values with uniformly random bit length; each is one op; all ops are non-trivial (pure function, every "
                "input yields numbers that are compared); distinct = distinct n",
        "trusted": ["the Rust→Lean expression translation of the three one-line functions (literals, + - * /, calls)"],
        "assumptions": ["u64 arithmetic of the release profile wraps; the checked (`_chk`) definitions additionally show that "
                        "no operation would overflow/underflow, so the dev profile computes the same values"],
        "explanation": "theorems over the regenerated threshold functions for all n in [1, 2^64-1]; K compares the real "
                       "functions with the regenerated Lean definitions; S evaluates the inequalities on the real results",
    }
