CFG = {
        "gen": ["AddrFns"],
        "props": ["EraVerif.Props.C18", "EraVerif.Props.C18gen"],
        "required_theorems": ["batch_accepted_iff", "accepted_batch_result", "rejected_batch_no_change",
                              "duplicate_key_rejected", "forged_fresh_member_rejected",
                              "stale_or_nonmember_forgery_tolerated", "stale_skipped_without_verify", "update_changes_only_to_authentic_newer",
                              "replacement_strictly_newer", "nonmember_ignored", "nonmember_entries_droppable",
                              "stored_are_authentic", "forged_never_stored", "stored_are_members",
                              "run_never_decreases", "announce_strictly_newer", "announce_wraps_at_u64_max",
                              "final_is_newest_seen", "convergence", "convergence_snapshot",
                              "convergence_needs_unique_signing", "isNewer_strict_total", "isNewer_lexicographic",
                              "notified_iff", "gen_is_newer_eq", "gen_announce_version_eq", "gen_announce_newer"],
        "technique": "Lean 4 theorems (induction over arbitrary batches / batch lists / operation lists) about an executable "
                     "transcription of ValidatorAddrs::update, ValidatorAddrsWatch::{update,announce} and NetAddress::is_newer "
                     "; NetAddress::is_newer and the version rule of announce are regenerated from the source on every run "
                     "(tools/translate_addr.py -> Gen/AddrFns) and proved equal to the model's (Props/C18gen) "
                     "+ differential run of the real ValidatorAddrsWatch (hook network::verif::addrs) against the model",
        "level_text": "Proof (model) + correspondence (code). Proved for every book, committee, batch and every sequence of "
                      "batches / own announcements, unbounded: a batch is accepted iff its keys are pairwise distinct and every "
                      "member entry that is fresh (no stored entry or strictly newer in lexicographic (version, seconds, "
                      "nanoseconds)) verifies; an accepted batch yields exactly 'the batch's fresh member entry, else the old "
                      "entry' per key; a rejected batch leaves the published book unchanged and notifies nobody; every stored "
                      "entry verifies, is filed under its own key and comes from a received batch in whose committee its key "
                      "was a member (or from the node's own announce); entries are never removed and only replaced by strictly "
                      "newer ones; non-member keys are untouched; convergence: two nodes (same committee, empty start) that "
                      "accepted batches with the same set of entries - any order, any partition, any rejected batches in "
                      "between - hold the same entry for every key if no validator validly signed two addresses with one "
                      "(version, timestamp), and the stored entry is the newest seen; the uniqueness hypothesis is shown "
                      "necessary by a witness. The real ValidatorAddrsWatch is compared with the model after every operation "
                      "(result class, notification, full book) on generated batch sequences with BLS-signed and mis-signed "
                      "announcements, and the property monitors run on the real book independently of the model.",
        "level_note": "Signatures are symbolic in the model (a signature = (signer, signed message)); the harness realises every "
                      "abstract announcement as a genuine BLS signature by `sb` over `sm` attached to key `k` / message `m`. "
                      "Partial / by inspection only: (1) the RPC handler in gossip/runner.rs (passes the epoch's schedule and "
                      "the request to ValidatorAddrsWatch::update; skips the request when there is no schedule) and the reader "
                      "in consensus/mod.rs (dials ValidatorAddrs::get(peer).msg.addr) are not driven by the harness - it drives "
                      "ValidatorAddrsWatch directly and checks get() == current() entry; (2) ValidatorAddrs::get_newer (what is "
                      "pushed to peers) is pub(super) and outside the property; (3) concurrency: the model applies "
                      "update/announce atomically; that the real calls serialise on the watch's sender lock is exercised by "
                      "the `contended` ops (2-3 overlapping calls queued on the held lock in a chosen order, both queue orders "
                      "compared), not proved - schedules beyond 'every call is atomic, in lock-queue order' are outside the "
                      "model. Boundary recorded, not a peer-reachable failure: announce() "
                      "computes version+1 in u64; with a stored own entry of version 2^64-1 (needs the node's own signature) it "
                      "wraps to 0 in release (theorem announce_wraps_at_u64_max, histogram key announce:wrap_at_u64_max) and "
                      "panics with overflow checks; run_never_decreases carries the NoOverflow hypothesis for announce only.",
        "harness": "c18",
        "n": {"quick": 400, "thorough": 20000},
        "rule": "N cases (N = 400 quick), each a fresh book and 4-18 operations: half of the cases are mixed sequences of batches "
                "(1-6 entries drawn from a pool of ~200 honest announcements over 6 keys, committee usually {0..4}, sometimes "
                "changing) from 8 families - honest random, honest fresh, forged fresh member entry placed after valid ones, "
                "forged stale entry, duplicated key (valid/stale/forged second, optionally plus a forged fresh entry to fix "
                "the order of the two errors), (version,timestamp) ties and exact re-delivery, non-member entries (valid, "
                "forged, duplicated), extreme versions (0..2^64-1) and timestamps (i64 range, negative, sub-second) - "
                "optionally interleaved with own announce() calls; every 4th case is a contended pair (setup, then 2-3 "
                "update()/announce() calls that overlap: the harness holds the book's sender lock, polls each call once so "
                "that they queue on the fair FIFO lock in the listed order, releases it and polls them to completion in a "
                "seeded order; variants: same validator with 2 or 3 versions, different validators, a forged batch next to a "
                "valid one, duplicated-key + valid + stale re-delivery, announce racing with a higher received version, "
                "random batches; then the same calls in another queue order on a second book and stash/converge); every 4th "
                "case is a twin pair (same announcements "
                "shuffled and re-partitioned for two books, optional rejected batches in between, then stash/converge); two "
                "directed cases put the node's own announcement at version 2^64-2 / 2^64-1 and announce twice. An op counts "
                "as non-trivial if its observation class is not the modal one; distinct = distinct op lines.",
        "trusted": ["the hand transcription of validator_addrs.rs / discovery.rs into Model/AddrBook.lean (checked by the "
                    "differential run, not by a translator)",
                    "symbolic signature model: verify(a) iff signer = a.key and signed message = a.msg (BLS unforgeability, "
                    "deterministic signing)"],
        "assumptions": ["im::HashMap get/insert behave as a finite map; tokio watch: send_replace publishes the value and marks "
                        "receivers changed; tokio's Mutex is fair (FIFO): calls acquire the sender lock in the order of their "
                        "first poll (the contended ops rely on this to predict the exact result)",
                        "time::Utc / time::Duration compare as (whole seconds, sub-second nanoseconds) lexicographically "
                        "(derived Ord, sign-consistent representation)",
                        "release profile: u64 `version + 1` in announce wraps (harness profile has overflow-checks off)"],
        "explanation": "theorems over the hand-written model of the address book for all inputs; K compares the real "
                       "ValidatorAddrsWatch (update / announce / current through the verif hook) with the model op by op; S "
                       "checks authenticity, membership, monotonicity, rejected-batch-no-change, accept/reject ground truth "
                       "and convergence of twin books on the real implementation; for overlapping calls: stored = maximum of the "
                       "accepted entries, a rejected batch leaves no trace, both queue orders converge",
    }
