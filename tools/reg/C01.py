CFG = {
    "gen": [],
    "props": ["EraVerif.Props.C01", "EraVerif.Props.C02d", "EraVerif.Props.C01r", "EraVerif.Props.Epoch"],
    "required_theorems": ["agreement", "agreement_over_time", "cert_stable", "certified_numbers_monotone",
                          "implied_refines", "highVote_spec", "highQC_spec", "implied_block_safe",
                          "simulation", "global_reach_refines", "code_level_agreement", "code_level_agreement_over_time",
                          "committed_blocks_agree", "emitted_block_certified",
                          "verify_payload_within_epoch", "epochs_disjoint_votes", "epochs_disjoint_votes_two_nodes",
                          "runner_maps_disjoint", "queue_block_checks_claimed_epoch_only"],
    "technique": "Lean 4 inductive invariant (Lamport-style choosable values, weights, FaB thresholds) over a protocol-level "
                 "transition system, kernel-checked; refinement of the code-level implied-block function to the relational rule "
                 "the proof consumes; multi-replica simulation of real replicas with a Byzantine actor, every step compared with "
                 "the replica model",
    "level_text": "Proof (protocol level, Layer P): for every finite committee with weights, every Byzantine set of weight <= "
                  "f=(n-1)/5, every state reachable by ANY interleaving of correct replicas' steps (vote on a commit-certificate or "
                  "timeout-certificate justification, timeout vote, view change, adopting a certificate) with the network and the "
                  "Byzantine validators unconstrained (a certificate only needs its correct members' votes in the history; crash = "
                  "stutter on the durable state): two commit certificates for the same block number carry the same payload hash, at "
                  "the same or any later time; certified numbers are monotone in the view; votes are never retracted. The invariant "
                  "I1-I8 of DESIGN App. A is proved inductive (inv_reachable). The vote guard, the one-vote-per-view and "
                  "persist-before-send contract the protocol layer assumes of a correct replica are proved on the replica model in "
                  "C03/C05, and the code-level get_implied_block is proved to meet the relational rule `Implied` (Props/C02d). "
                  "Tie to the code: 6-11 real replicas (bft verif hook) over crash-injecting stores with up to f weight of Byzantine "
                  "validators played by the harness (equivocating proposals, conflicting or withheld votes, lying timeout votes "
                  "carrying any certificate seen, stale new-views, garbage), an adversarial scheduler (loss, duplication, "
                  "reordering, partitions, restarts, block sync); after every step the stores of all correct nodes are compared "
                  "(same payload per number, never replaced) and every replica step is compared with the Layer-I model. "
                  "Epoch boundary (component `epoch`, Props/Epoch + harness cepoch): the one-epoch proof is carried across a "
                  "validator-schedule rotation by the epoch guard of EngineManager::verify_payload — modelled: the schedule map "
                  "(insert / expiration / pruning by the runner's schedule task, provider answers as events), epoch_for_block, the "
                  "guard, and which epoch's committee queue_block verifies a block against; proved for every map / number / event "
                  "list: guard ok => activation(e) <= n <= expiration(e) (when known); on disjoint ranges at most one epoch passes "
                  "the guard for a number and each epoch exactly for its own range; every map the schedule task builds from "
                  "forward-looking answers has disjoint ranges and the task does not panic; two nodes with different views of one "
                  "activation table never let two epochs vote on one number provided a node that does not know its expiration yet "
                  "is not past it (counterexample without: a node that has not polled). Tied to the code on every run: the real "
                  "EngineManager + runner over a storage stub with a dynamic schedule (manual clock), verify_payload on the grid "
                  "activation-2..activation+1 x known/unknown/pending/pruned epochs, queue_block with the right / neighbouring / "
                  "wrong committee, and a real replica of the ending epoch that must answer InvalidPayload to the old leader's "
                  "proposal for expiration+1 (if it votes, the old committee's block and the new committee's block for that number "
                  "are stored by two real nodes and compared).",
    "level_note": "The refinement Layer I -> Layer P is one kernel-checked theorem (Props/C01r `simulation`, `global_reach_refines`): "
                  "in the global code-level system (every correct validator runs the replica model with crash after any effect prefix "
                  "and restart; any AUTHENTIC message may be delivered: a correct validator's signature exists only on what it sent, "
                  "certificates contain correct signers' signatures only if they sent those votes — symbolic unforgeability) every "
                  "step is matched by protocol-level steps, hence `code_level_agreement` (two verifying authentic commit certificates "
                  "for one number carry one payload) and `committed_blocks_agree` (two queueBlock effects of correct replicas for the "
                  "same number carry the same payload, at any two points of a run). The abstraction needs a ghost history of durable "
                  "states (a vote made durable but overwritten before being sent must stay recorded; witness "
                  "`literal_abstraction_fails`). Side conditions: 1 <= total weight, Byzantine weight <= f, no u64 wrap of view/block "
                  "numbers in delivered proposals/votes. One epoch, fixed committee; hash collisions and signature forgery excluded; "
                  "the execution layer's verify_payload is an environment answer; the tie model <-> Rust is the differential run. "
                  "Across epochs: NOT modelled are the executor's spawning of per-epoch components and the schedule provider (its "
                  "answers are inputs; assumed to agree with one strictly increasing activation table and to announce a schedule "
                  "before it activates); assumed: every correct member of the old committee learns its expiration "
                  "(fetch_schedule_interval) before it is asked to vote beyond it; queue_block does not check that a block's number "
                  "lies in the epoch it names (relies on the vote guard and <= f faulty members of the old committee).",
    "harness": ["c01", "cepoch", "c05"],
    "scope": {"cepoch": {"oracle_only": "^(verify:|vote:|qblock:|disagreement:)", "ignore_k": False},
              "c05": {"oracle_only": "^(accepted_unverifiable_justification|equivocation:)", "ignore_k": True}},
    "replay_by_seed": True,
    "n": {"quick": [6000, 3000, 1200], "thorough": [84000, 60000, 12000]},
    "rule": "N/2000 simulations (at least 2) of 2000 scheduler steps each over committees of 4 (f=0), 6, 6 with a double weight, 7, 9 "
            "(mixed weights) or 11 validators with a random Byzantine subset of weight <= f; every third case uses a leader schedule "
            "other than round-robin over everybody (eligible subset, rotation period 1-3, weighted mode; the real view_leader is "
            "tabulated for the model). The prefix alternates calm phases (timer 1%, loss 2%, no restarts/partitions) and storms "
            "(timer 7% incl. double expiry, loss 14%, restarts 3%, partition toggles 3%, Byzantine actions 9% of 7 kinds), 250 steps "
            "each; a step delivers a pending packet (75% among the 3n most recent, 10% duplicated), or fires a timer / proposer / "
            "Byzantine action / restart / partition toggle / block sync. Evidence histograms prefix_max_committed_blocks / "
            "prefix_max_view say how far cases got (a case that never leaves view 0 tests nothing). Each real replica step is one "
            "op. non-trivial = distinct op whose outcome class differs from the modal class. "
            "(second harness cepoch, scoped to the monitors verify:* / vote:* / qblock:* / disagreement:* — K counts in full: cases "
            "of 2-4 epochs of 2-4 blocks, committees of 6 out of 8 keys differing per epoch, schedules announced 1..len blocks "
            "ahead; families mgr (manager + schedule task: polls, side-channel jumps, restart), rep (stepped replica at the end of "
            "its epoch, informed or not, then a second node of the next epoch), run (Config::run of two epochs around the boundary))",
    "trusted": ["Layer-P transition system (hand transcription of the protocol's guards)", "symbolic cryptography",
                "hand-written replica model; harness stores and scheduler"],
    "assumptions": ["weight of Byzantine validators <= f (per epoch committee)", "signatures unforgeable, hashes collision-free",
                    "fixed committee within an epoch; across epochs: the schedule provider answers from one strictly increasing "
                    "activation table, announces a schedule before it activates, and every correct validator polls it before its "
                    "epoch's expiration block is finalized"],
    "explanation": "agreement theorem on Layer P + correspondence of every real replica step in adversarial multi-replica runs + "
                   "agreement / append-only monitors on the real stores",
}
