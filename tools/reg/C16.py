# C16 — Pending consensus input stays bounded and always keeps the freshest vote.
# Part (a), the pending-input queue, is built here. Part (b), the replica's vote caches, is built by the
# integrator on the replica model and is added by appending its module to PROPS / its theorem names to
# REQUIRED_B below (both lists are concatenated into CFG).

PROPS_A = ["EraVerif.Props.C16", "EraVerif.Props.C16gen"]
PROPS_B = ["EraVerif.Props.C16b"]   # part (b): the replica's vote caches

REQUIRED_A = [
    "one_per_sender_kind", "len_le_4_senders", "all_pending_signed", "subsequence_of_arrivals",
    "pending_after_send_iff", "dropped_only_if", "evicted_only_by_higher",
    "pending_is_max_since_last_recv", "firstMax_is_first_of_max_view", "since_without_pop",
    "freshest_vote_survives_queue", "recv_never_panics", "send_never_empties",
    "recvs_deliver_pending_in_order",
    "gen_selection_eq", "gen_filter_eq", "gen_selection_by_number_only", "gen_send_eq", "gen_bft_send_eq",
]
REQUIRED_B = ["cacheInv_reachable", "commit_views_bounded", "timeout_views_bounded", "commit_qcs_views_bounded",
              "timeout_qcs_views_bounded", "commit_qcs_entries_bounded", "flood_bounded"]

CFG = {
    "gen": ["QueueFns"],
    "props": PROPS_A + PROPS_B,
    "required_theorems": REQUIRED_A + REQUIRED_B,
    "technique": "Lean 4 theorems (induction over arbitrary event lists) about an executable model of "
                 "prunable_mpsc::Sender::send / Receiver::recv with the bft filter predicate and selection function "
                 "(both regenerated from bft/src/lib.rs on every run, tools/translate_queue.py -> Gen/QueueFns, and proved equal to "
                 "the model's in Props/C16gen) "
                 "+ differential run of the real channel from create_input_channel() with really signed messages",
    "level_text": "PART (b), the replica's vote caches: on the replica model (Model/Replica.lean, validated against the real "
                  "StateMachine by the replica correspondence in Flood mode: validly signed commit/timeout votes for arbitrary future "
                  "views) for every input list of any length and every outcome: commit_views_cache / timeout_views_cache have at most "
                  "n entries (distinct member indices), commit_qcs_cache / timeout_qcs_cache have at most n live views (each the "
                  "latest view of some validator), the partial commit certificates number at most n*n with n-bit bitmaps (per view: "
                  "pairwise different votes, pairwise disjoint non-empty signer sets). "
                  "PART (a), the pending-input queue: proof, for every event list (every interleaving of any number of complete Sender::send calls with the "
                  "single consumer's wait / pop_front, any messages): at most one pending message per (sender, kind); "
                  "length <= 4 x number of signing keys seen; pending and delivered messages all have valid signatures; "
                  "delivered ++ pending is a subsequence of the arrivals (delivery in arrival order, nothing invented or "
                  "duplicated); exact membership after a send (a new message is dropped only for a bad signature or a "
                  "pending same-sender-same-kind message of view >= its own; a pending message is evicted only by a strictly "
                  "higher view of its sender and kind, which is then pending); per slot the pending message is the first "
                  "arrival of maximal view since the slot was last emptied by recv; once a validly signed message was sent, a "
                  "message of its slot with view >= its own is pending or was delivered afterwards, at every later moment; "
                  "recv's unwrap never panics; n recv calls deliver the first n pending messages in order. "
                  "The model is tied to the code by running the real channel and the model on the same operations.",
    "level_note": "Both parts are full strength for their models. Within part (a) the theorems are full strength "
                  "for the model. The model is hand-written (not translated): its agreement with the ~25 lines of send/recv and "
                  "the two bft functions is established by the differential run only, on the generated operations. Atomicity of "
                  "the two critical sections (tokio watch::Sender::send_modify) and the wake-up of a blocked recv are "
                  "third-party runtime behaviour: assumed, exercised (not proved) by the concurrent op families. The bound is "
                  "4 x signing keys seen, not 4 x committee size: the queue's filter checks the signature only, not committee "
                  "membership (non-member senders are limited upstream by the consensus RPC's in-flight limit, C15).",
    "harness": ["c16", "c16b"],
    "n": {"quick": [400, 600], "thorough": [5000, 20000]},   # ~25 cases/s (BLS signing + verification dominate); the run holds the global lock
    "rule": "n cases (each starts from a fresh create_input_channel()); a case is 5-45 ops send/recv/drain/conc/conc_recv over 6 "
            "signing keys (5 committee + 1 outside) x 4 kinds; families: random mostly-valid traffic with colliding views (40%), "
            "equal views (tie keeps the pending one), ascending flood of future views, descending views, four kinds of one "
            "sender, invalid signatures (signed by another key / signature of another message) with higher views, eviction "
            "moves to the back, views around 2^32 / 2^63 / 2^64-1, recv on the empty queue, concurrent sender threads "
            "(pending set compared), concurrent senders + consumer (per-slot maximal delivered view compared, order and "
            "freshest-survives monitored); every op yields a compared observation (pending id set / delivered id + sender + "
            "kind + view / drained id list); distinct = distinct op lines",
    "trusted": ["Model/Mpsc.lean is a hand transcription of Sender::send, Receiver::recv (prunable_mpsc/mod.rs) and "
                "inbound_filter_predicate / inbound_selection_function (bft/src/lib.rs); tied to the code by the differential run",
                "the harness identifies a queued request by its ack channel (dropped request = closed ack)"],
    "assumptions": ["each send_modify closure of tokio's watch channel runs atomically (the model's atomic events are exactly "
                    "these critical sections); a single consumer (Receiver is not Clone and recv takes &mut self)",
                    "signature verification is modelled as a boolean attribute of the message (symbolic cryptography, DESIGN 4.1)",
                    "part (b) of the property (vote caches of the replica) is not yet part of this check"],
    "explanation": "theorems over all event lists of the queue model; K compares the real channel with the model after every "
                   "operation (pending set via ack channels, deliveries, drains, concurrent runs); S runs an independent "
                   "reference of the property's queue semantics plus bound / signature / order / freshest-survives monitors "
                   "beside the real channel. Part (b) pending.",
}
