CFG = {
        "gen": ["LimiterFns"],
        "props": ["EraVerif.Props.C15", "EraVerif.Props.C15gen"],
        "required_theorems": ["gen_advance_eq", "gen_usize_or_max_eq", "gen_advance_no_rewind", "gen_advance_ticks_monotone", 
            # Part A: the limiter
            "state_inv", "drop_never_underflows", "window_bound", "consumption_window_bound", "window_bound_tight",
            "fifo", "served_is_queue_head", "cancel_consumes_nothing", "unserved_waits_consume_nothing",
            "inf_rate_no_limit", "over_burst_never_served",
            # Part B: per connection and RPC kind (composition)
            "opens_rate_limited", "established_rate_limited", "requests_started_window_bound",
            "inflight_le_INFLIGHT", "handler_only_after_open", "one_permit_per_open"],
        "technique": "State::advance / usize_or_max regenerated from limiter/mod.rs on every run (tools/translate_limiter.py -> Gen/LimiterFns) and proved equal to the model's refill rule (Props/C15gen); Lean 4 theorems (induction over arbitrary operation / event sequences, potential argument for the "
                     "window bound) on an executable transcription of limiter/mod.rs and on a small model of "
                     "reusable_stream.rs:262-307 + rpc/mod.rs:191-243; differential run against the real Limiter "
                     "(ManualClock, hand-polled futures) and against the real rpc::Service server over an in-memory transport",
        "level_text": "Proof, for every configuration with burst <= usize::MAX and every finite sequence of acquire / poll / "
                      "cancel / drop / clock-advance operations (arbitrary ids, permit counts, hold times): reserved <= permits "
                      "<= burst and Permit::drop never underflows; the permits granted in any closed window [a, a+T] number at "
                      "most burst + floor(T/refresh) + 1 (refresh > 0; shown tight), and so do the permits consumed; grants "
                      "follow arrival order (grant order + queue order is a subsequence of arrival order, only the queue "
                      "head is served); a wait that is cancelled or never served leaves refresh_ticks / permits / reserved "
                      "untouched at every one of its polls; refresh <= 0 grants at once; more than burst is never granted. "
                      "Composition, for every event sequence (arbitrary remote side and scheduler) of n = min(INFLIGHT, "
                      "peer's max_streams) reusable streams sharing the limiter with one permit per OPEN: OPEN frames sent and "
                      "streams established in any window <= burst + floor(T/refresh) + 1; handler invocations in any window "
                      "<= n + burst + floor(T/refresh) + 1; handlers running <= INFLIGHT; every invocation used its own "
                      "established stream. Correspondence on every run: each poll result and each grant timestamp of the "
                      "real Limiter equals the model's (about 7*10^4 operations, 1500 cases in 8 directed families); the real "
                      "rpc::Service server (INFLIGHT 1/3/5) against an unlimited greedy client: handler-invocation counts and "
                      "running handlers at every quiescent point equal the model's under the same schedule.",
        "level_note": "Limiter half: full strength (theorems on the model, model = code on everything generated). Arrival order "
                      "and the atomicity of one poll rest on tokio's fair FIFO Mutex, watch::wait_for and ManualClock sleeps "
                      "(assumed, exercised by the correspondence run). Per-connection half: PARTIAL - the theorems are about "
                      "the composition model; that ReusableStream::run / Server::serve refine it is compared only on scenario "
                      "observables (server side, test RPC on the ping capability, client that delays OPENs / requests, slow "
                      "handlers), not proved, and a client that breaks the mux framing is C14's subject. The bound on requests "
                      "started in a window carries the extra summand n <= INFLIGHT: the permit is consumed when the stream is "
                      "established, so a peer may sit on n established streams and fire their requests together.",
        "harness": "c15",
        "n": {"quick": 1500, "thorough": 60000},
        "rule": "N cases, each a fresh Limiter (init op) followed by 10-90 ops; families (i mod 10): 0,1 random interleaving "
                "of acquire (n in 0..burst+2) / poll one or all / cancel / drop / advance (0, <=r, <=3r, k*r, to a refresh "
                "boundary -1/0/+1 ns); 2 refill arithmetic at tick boundaries; 3,9 two holders released in either order "
                "around a sleeper that already computed `need`, late wake-ups; 4 arrival order (big request first, small ones "
                "polled first); 5 cancellation at each of the three await points followed by a fresh caller; 6 infinite / "
                "negative refresh, over-burst and zero-permit requests; 7 executor-style round-robin polling; 8 short random "
                "cases and (1 in 5) burst = usize::MAX or refresh = 10^18 s (saturating arithmetic); every case ends with "
                "cancel-all, drop-all, refill and an acquire(burst) that must be granted at once. The generator runs the "
                "real limiter while generating, so ops refer to futures / permits that exist. Then 48 RPC scenarios "
                "(INFLIGHT 1/3/5, burst 1-4, refresh 7 ns-1 s, 5-9 steps of advance / release handlers / release requests / "
                "release OPENs). An op is non-trivial if its observation class (granted / pending / dropped / cancelled / "
                "advanced / noop / rpc) differs from the run's most frequent class; distinct = distinct op lines",
        "trusted": ["the hand transcription of limiter/mod.rs into Model/Limiter.lean and of the stream / server loops into "
                    "Model/RpcLimit.lean (compared with the code by the correspondence run only)",
                    "hook node/components/network/src/verif/rpc.rs (test RPC VRpc<N>, recording handler, greedy client built "
                    "from crate-private mux::StreamQueue / mux::Mux / frame::mux_send_proto)"],
        "assumptions": ["tokio::sync::Mutex hands the lock to waiters in first-poll order without barging; "
                        "watch::Receiver::wait_for re-evaluates its predicate whenever the value was changed through send_modify (Permit::drop); ManualClock sleep is ready iff "
                        "now >= deadline; the clock is monotone (time is a natural number of ns since Limiter::start)",
                        "burst <= usize::MAX = 2^64-1 (64-bit target); start + refresh*need overflowing Instant is treated "
                        "like an infinite deadline (never reached in generated runs)",
                        "per-connection half: every reusable stream of the capability runs the loop of "
                        "reusable_stream.rs:262-307 and the server task invokes the handler at most once per established "
                        "stream (rpc/mod.rs:197-238), as modelled"],
        "explanation": "theorems over Model/Limiter.lean and Model/RpcLimit.lean for all operation / event sequences; K compares "
                       "the real Limiter op by op (poll results, grant times) and the real RPC server scenario by scenario "
                       "(handler-invocation counts, running handlers) with the models; S checks the window bound over all "
                       "pairs of grant / consumption times, arrival order, no-leak after cancel, INFLIGHT cap and the "
                       "request window bound on the real code",
    }
