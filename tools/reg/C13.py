CFG = {
        "gen": ["NoiseConst"],
        "props": ["EraVerif.Props.C13"],
        "required_theorems": ["frame_size_limits", "frame_shape", "writer_frames", "transport_writes_bounded",
                              "write_progress", "flush_pushes_everything", "reader_any_stream", "reader_step_exact",
                              "read_failure_final", "parse_frames", "tamper_prefix_only", "end_to_end", "reader_drains",
                              "full_delivery"],
        "technique": "Lean 4 theorems (unbounded: all call sequences, sizes, transport behaviours, byte streams) about an "
                     "executable transcription of noise/bytes.rs and the poll_* functions of noise/stream.rs, constants "
                     "regenerated from stream.rs (translator); differential run of the real noise::Stream over a "
                     "scripted transport against the model, with stream monitors on the implementation",
        "level_text": "Proof (model level, ideal AEAD): for every sequence of poll_write/poll_flush/poll_shutdown calls with any "
                      "buffers and any accept/Pending/error behaviour of the transport, the bytes given to the transport are "
                      "exactly the frames len||enc_k(chunk_k), k=0,1,.., whose chunks partition the accepted plaintext, each "
                      "chunk in (0, MAX_PAYLOAD_LEN], each frame <= MAX_FRAME_LEN=65537 and each Noise message <= 65535 bytes "
                      "(writer_frames, frame_shape, frame_size_limits, transport_writes_bounded); poll_write never returns 0 on "
                      "a non-empty buffer (write_progress); a successful flush leaves everything accepted on the wire as whole "
                      "frames (flush_pushes_everything). For EVERY byte stream, every sequence of poll_read calls, every buffer "
                      "size and every fragmentation/Pending/error/EOF pattern of the transport, the plaintext handed out plus "
                      "what is still owed equals the payloads of the longest prefix of frames that authenticate in sequence - "
                      "independent of fragmentation, never twice, never out of order (reader_any_stream); each read with a "
                      "delivering transport returns exactly the next owed bytes / InvalidData / EOF (reader_step_exact), a "
                      "failure is final (read_failure_final). For any stream assembled from attacker-chosen bytes and bytes of "
                      "the authentic wire in any arrangement (modification, truncation, reordering, replay, insertion) the "
                      "delivered plaintext is a prefix of the authentic plaintext (tamper_prefix_only); writer and reader "
                      "composed deliver a prefix always and exactly the accepted plaintext once flushed (end_to_end); with a delivering "
                      "transport N >= |accepted| reads of any buffer size return exactly the accepted plaintext and then "
                      "stand at a clean end of stream (reader_drains, full_delivery). No panic "
                      "(debug_assert / slice index) is reachable in any of these. The constants are re-translated from "
                      "stream.rs on every run. Correspondence: the real noise::Stream (real snow ChaChaPoly session after a "
                      "real NN handshake) is driven poll by poll over a scripted transport and compared with the model on "
                      "every call: result, every transport call (size offered / outcome), frame headers on the wire, plaintext "
                      "returned, for benign, boundary (full payload buffer, maximal frame, partially flushed frame, fragments "
                      "cut around length field and frame boundaries), error and single-point tampering scripts.",
        "level_note": "Full for the buffering/framing logic under the ideal-cipher assumption. Not carried by the model: the "
                      "cipher itself (snow/ChaChaPoly: modelled as ideal AEAD with per-direction nonce advancing on success "
                      "only; exercised, not proved), the handshake (only run, and session ids compared), waker registration / "
                      "runtime scheduling (a Pending is just returned; the transport is responsible for waking). In the "
                      "correspondence run the value of a ciphertext byte is never read as a length field (the generator avoids "
                      "those tamperings because ciphertext differs from run to run; the theorems cover them: cv is universally "
                      "quantified).",
        "harness": "c13",
        "n": {"quick": 300, "thorough": 8000},
        "timeout": {"quick": 900, "thorough": 14400},
        "rule": "(a third of the reads use a ReadBuf that already holds 1..70000 bytes; 6+N/40 receive-buffer alignment cases; 10+N/40 "
                "half-close cases: shutdown of one direction with peer data buffered / in flight / still to come.) One case = one real noise session (init = handshake) followed by 6-40 poll-level ops; N generated cases: 30% "
                "random two-way traffic (write sizes 0..70000 incl. 65518/65519/65520, flushes, reads with caps 0..100000, "
                "transport scripts of accepts 1..3/17..20/65535..65537/large with Pending), 15% fragments cut at "
                "1,2,3,F-3..F+3,2F bytes around a frame of F bytes, 5% full-payload-buffer / maximal-frame scenarios, 10% "
                "partially flushed frames, 5% transport errors/WriteZero/EOF mid-frame, 35% single-point tampering (bit flip, "
                "truncation, splice of explicit bytes incl. header-like values, drop/replay/swap of whole frames, drop/duplicate "
                "of a range inside a frame body) optionally after the reader pulled part of a frame; plus flip and truncate at "
                "EVERY byte position of a one-frame stream (two-frame in the thorough tier) and one 200 kB transfer; benign and "
                "error cases end with flush + drain + check delivered == accepted. non-trivial = op whose observation class is "
                "not the modal one.",
        "trusted": ["the scripted transport / tampering bookkeeping of harness/src/bin/c13.rs and its mirror Model/NoiseNet.lean "
                    "(environment, not part of any theorem)",
                    "hook node/components/network/src/verif/noise.rs (newtype delegating to noise::Stream, no behaviour)"],
        "assumptions": ["ideal AEAD: decryption under nonce k succeeds on exactly the ciphertexts sealed under nonce k "
                        "(dec_eq_some_iff), and an attacker can only put on the wire bytes of its choosing and ciphertext/tag "
                        "bytes the writer produced (FromWriter); snow advances a nonce only on success",
                        "the underlying transport never reports more bytes than it was offered / than fit (tokio ReadBuf "
                        "enforces the latter)",
                        "to keep runs deterministic although ciphertext is fresh per run, the harness forces the first changed "
                        "frame-body byte of a tampering to really differ from the original (1/256 coincidences are thereby "
                        "excluded, never introduced)"],
        "explanation": "theorems over the model for all call sequences / transport behaviours / byte streams; K compares the real "
                       "noise::Stream with the model call by call over scripted transports; S checks on the real stream that "
                       "returned plaintext is always the next written bytes, that flush leaves whole frames for all accepted "
                       "plaintext, frame/transport-write size limits, write progress, and full delivery in untampered sessions",
    }
