CFG = {
    "gen": [],
    "props": ["EraVerif.Props.C03"],
    "required_theorems": ["effects_persist_before_send", "one_commit_per_view", "no_commit_at_or_below_timeout",
                          "signed_views_monotone", "sent_covered_by_durable", "sent_covered_at_every_crash_point"],
    "technique": "Lean 4 inductive invariant over a crash/restart transition system built on the executable replica model "
                 "(effects applied one at a time, crash after any prefix) + differential run of the real replica with crash "
                 "injection at every durable write",
    "level_text": "Proof (model): over the system (replica, durable state, everything ever sent across incarnations) where the "
                  "ordered effects of a step are applied one at a time and the process may die after ANY prefix of them and "
                  "restart from the last durable state, for every configuration and every reachable state: two commit votes sent "
                  "for the same view are equal; no commit vote is sent at or below a view for which a timeout vote was sent "
                  "before; the views of sent votes never decrease; because in every step's effect list each send of a vote is "
                  "preceded by the persist of a state recording it (view, phase, high vote) — proved unconditionally per handler "
                  "— and the durable state always covers everything sent. The model is tied to the code by driving the real "
                  "StateMachine over a harness store whose set_state can fail before or after applying the write (crash at the "
                  "k-th durable write, both outcomes, then restart from the store) under equivocating-leader scenarios, comparing "
                  "the ORDERED effect log (set_state calls and outbound messages in one sequence) and the state after restart "
                  "with the model; the equivocation clauses are also monitored directly on everything the real replica signed "
                  "across all incarnations.",
    "level_note": "Full for commit and timeout votes. Needs the explicit no-wrap side condition for commit/timeout vote views "
                  "(view + 1 < 2^64; at 2^64-1 ViewNumber::next wraps in the release profile). Outside the property, recorded for "
                  "maintainers: a leader PROPOSAL can be created before the view change is durable (proposer_sender.send precedes "
                  "backup_state in start_new_view), so a crashed leader may propose twice in a view; safety does not depend on it. "
                  "Durability itself (the execution layer's set_state) is the harness' store.",
    "harness": "c03",
    "n": {"quick": 1000, "thorough": 30000},
    "rule": "adaptive replica scenarios as for C05, with a crash plan on 35% of the steps: crash at the 0th or 1st set_state call "
            "of the step, write applied or not, followed by restart from the store; proposals for the same view with different "
            "payloads arrive around the crash. non-trivial = distinct op whose outcome class differs from the modal class",
    "trusted": ["hand-written replica model and crash system (Model/ReplicaSys.lean)", "harness store as the durable medium"],
    "assumptions": ["the execution layer's set_state is atomic and durable when it returns"],
    "explanation": "invariant proof on the model; ordered-effect correspondence with crash injection; equivocation monitors on "
                   "the real replica's signed messages over all incarnations",
}
