CFG = {
    "gen": [],
    "props": ["EraVerif.Props.C03", "EraVerif.Props.Epoch"],
    "required_theorems": ["effects_persist_before_send", "one_commit_per_view", "no_commit_at_or_below_timeout",
                          "signed_views_monotone", "sent_covered_by_durable", "sent_covered_at_every_crash_point",
                          "slot_not_overwritten_before_persist", "restart_keeps_votes_of_current_epoch_partial",
                          "restart_view_covers_signed_partial", "no_equivocation_across_epochs_partial",
                          "restart_at_boundary_counterexample", "late_write_counterexample"],
    "technique": "Lean 4 inductive invariant over a crash/restart transition system built on the executable replica model "
                 "(effects applied one at a time, crash after any prefix) + differential run of the real replica with crash "
                 "injection at every durable write",
    "level_text": "Proof (model): over the system (replica, durable state, everything ever sent across incarnations) where the "
                  "ordered effects of a step are applied one at a time and the process may die after ANY prefix of them and "
                  "restart from the last durable state, for every configuration and every reachable state: two commit votes sent "
                  "for the same view are equal; no commit vote is sent at or below a view for which a timeout vote was sent "
                  "before; the views of sent votes never decrease; because in every step's effect list each send of a vote is "
                  "preceded by the persist of a state recording it (view, phase, high vote) — proved unconditionally per handler "
                  "— and the durable state always covers everything sent. The model is tied to the code by driving the real "
                  "StateMachine over a harness store whose set_state can fail before or after applying the write (crash at the "
                  "k-th durable write, both outcomes, then restart from the store) under equivocating-leader scenarios, comparing "
                  "the ORDERED effect log (set_state calls and outbound messages in one sequence) and the state after restart "
                  "with the model; the equivocation clauses are also monitored directly on everything the real replica signed "
                  "across all incarnations. Epoch boundary (component `epoch`, Props/Epoch + harness cepoch): there is ONE durable "
                  "replica-state slot per node, tagged with the epoch; StateMachine::start replaces a backup of an EARLIER epoch by the default state and stops on one of a LATER epoch; "
                  "modelled: Config::run's start condition (the block before the epoch's first block PERSISTED), the teardown task, "
                  "start's restore rule, backup_state, crash (slot + persisted blocks survive, queued blocks are lost), any number "
                  "of epochs and instances. Proved for every reachable state of every event list: the slot holds a state of epoch "
                  "e+1 only if the last block of e is persisted (no scheduling assumption, with or without fix a8b4c3e — this is what "
                  "justifies the fix: start() of an instance that finds a LATER epoch's state stops). On the code with the fix, with "
                  "the teardown scheduled in ANY way (the former prompt-teardown hypothesis is gone), under the one remaining "
                  "assumption `Benign` (an instance that has been overtaken — a later epoch's instance wrote during its life — lands "
                  "an in-flight write only while the later epochs' backups are still their view-0 bootstrap states): while e is the "
                  "current epoch a (re)start of e resumes from e's latest backup (or from the default state if that backup is only "
                  "the bootstrap one), everything signed in e is recorded by the state it resumes from, and over all lives and "
                  "epochs the votes signed within an epoch are ordered (one commit per (epoch, view), none at or below a timed-out "
                  "view, views never go back). `restart_at_boundary_counterexample`: before the fix the statements fail under the "
                  "same assumption (the fix is load-bearing); `late_write_counterexample`: without `Benign` they fail on the fixed "
                  "code too. Tied to the code: the real bft::Config::run for epochs e and e+1 on one node over a storage "
                  "whose block writes can be stalled, crash = all tasks cancelled + a new EngineManager on the same storage, an "
                  "equivocating leader after the restart.",
    "level_note": "Full for commit and timeout votes. Needs the explicit no-wrap side condition for commit/timeout vote views "
                  "(view + 1 < 2^64; at 2^64-1 ViewNumber::next wraps in the release profile). Outside the property, recorded for "
                  "maintainers: a leader PROPOSAL can be created before the view change is durable (proposer_sender.send precedes "
                  "backup_state in start_new_view), so a crashed leader may propose twice in a view; safety does not depend on it. "
                  "Durability itself (the execution layer's set_state) is the harness' store. "
                  "Across epochs PARTIAL in one respect: `Benign` is not enforced by the code — Config::run's teardown is a concurrent "
                  "task, and when the last block of e gets persisted the replica of e (inside save_block) and the waiting instance of "
                  "e+1 are woken by the same event, so the old replica's next backup_state can land after the new instance's first "
                  "writes. Every run shows such late writes (`_stale_wrote`, tens per quick run), always over a bootstrap state, i.e. "
                  "inside `Benign`; the monitor slot:late_write_over_votes watches the assumption on the real code. Outside it (the "
                  "new instance has already voted when the old write lands: old task starved for several network round trips, or a "
                  "storage that applies a write issued before the cancellation) two commit votes for one view are possible "
                  "(`late_write_counterexample`, kernel-checked run of the model of the fixed code). Finding F13 (restart exactly at "
                  "the boundary with a slow schedule provider; fixed by a8b4c3e) is a directed regression case of every run. "
                  "Not modelled: the executor's choice of epochs to spawn, the schedule provider. In the "
                  "run family durable writes of an instance whose epoch is already over are scheduling-dependent (tokio wake order, "
                  "select! in ctx.wait) and therefore watched by the monitors only, not compared.",
    "harness": ["c03", "cepoch"],
    "scope": {"cepoch": {"oracle_only": "^(slot:|equivocation:)", "ignore_k": False}},
    "n": {"quick": [1000, 3000], "thorough": [30000, 60000]},
    "rule": "adaptive replica scenarios as for C05, with a crash plan on 35% of the steps: crash at the 0th or 1st set_state call "
            "of the step, write applied or not, followed by restart from the store; proposals for the same view with different "
            "payloads arrive around the crash. non-trivial = distinct op whose outcome class differs from the modal class. "
            "(second harness cepoch, scoped to the monitors slot:* / equivocation:* — K counts in full: the directed F13 case first; family run = real "
            "Config::run of epochs 0 and 1 spawned as the executor does, the last block of epoch 0 finalized while storage is "
            "stalled, then in rotation: crash before the write lands + restart + second proposal for the voted view; write lands, "
            "epoch 1 goes on, crash mid-epoch + equivocating leader; late write, crash at the boundary, regular restart)",
    "trusted": ["hand-written replica model and crash system (Model/ReplicaSys.lean)", "harness store as the durable medium"],
    "assumptions": ["the execution layer's set_state is atomic and durable when it returns",
                    "across epochs: `Benign` — a late write of an already overtaken instance lands only over bootstrap states (see level_note)",
                    "the schedule provider answers from one strictly increasing activation table"],
    "explanation": "invariant proof on the model; ordered-effect correspondence with crash injection; equivocation monitors on "
                   "the real replica's signed messages over all incarnations",
}
