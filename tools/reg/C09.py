CFG = {
        "gen": ["Schemas"],
        "props": ["EraVerif.Props.C09"],
        "required_theorems": ["varint_roundtrip"],
        "technique": "Lean 4 theorems about an executable model of proto_fmt.rs over schemas regenerated from the .proto files (translator) + differential run",
        "level_text": "work in progress",
        "level_note": "work in progress",
        "harness": "c09",
        "n": {"quick": 300, "thorough": 6000},
        "rule": "work in progress",
        "trusted": [],
        "assumptions": [],
        "explanation": "work in progress",
    }
