CFG = {
        "gen": ["Schemas"],
        "props": ["EraVerif.Props.C09"],
        "required_theorems": ["duration_accepted_is_representable", 
            "varint_roundtrip", "varint_any_encoding_accepted", "varint_minimal",
            "canonicalRaw_eq_encode_decode", "parse_of_any_serialisation", "canonical_of_any_reserialisation",
            "serialisations_of_one_value_agree", "record_order_irrelevant", "record_split_irrelevant",
            "encode_is_a_serialisation", "decode_encode_id", "canonical_fixed_point", "canonical_idempotent", "encode_injective",
            "canonical_eq_iff", "reject_bad_record", "reject_not_proto3", "reject_singular_with_several_values",
            "all_schemas_support_canonical", "schema_restriction_sufficient",
            "bitvec_roundtrip", "duration_roundtrip", "duration_min_excluded", "sockaddr_roundtrip",
            "replicaTimeout_order_lawful", "timeoutQC_build_order_independent", "schedule_build_order_independent",
            "muxHandshake_build_order_independent"],
        "technique": "Lean 4 theorems about an executable transcription of proto_fmt.rs (+ the quick-protobuf calls it makes) that is "
                     "generic in the schema, instantiated on the schema table regenerated from every .proto file (translator); "
                     "differential run of canonical_raw / encode / the non-structural conversions against the model; "
                     "round-trip / canonicity monitors on every wire type of the implementation",
        "level_text": "Proof, for the wire layer, of the full statement for ALL descriptor tables, messages, values and byte strings "
                      "(no size or depth bound): canonical_raw is exactly `canonical writer o parser` (refinement); the parser "
                      "accepts EVERY valid protobuf serialisation of a message value (records in any order, repeated scalars split "
                      "into packed/unpacked records at will incl. empty packed records, tags/lengths/varints minimal or padded to "
                      "10 bytes, recursively in sub-messages) and returns that value, hence canonical_raw maps every such "
                      "serialisation to the one canonical byte string; the canonical encoding of a well-formed value parses back to "
                      "the value (lossless), is a fixed point of canonical_raw, and is injective (equal bytes iff equal values); canonical_raw is idempotent on every buffer it accepts (output below 4 GiB); "
                      "unknown fields, bad wire types, maps, implicit presence, non-proto3 and multi-valued singular fields are "
                      "rejected. The schema table re-read from the 19 .proto files of the current tree satisfies the build-time "
                      "restriction (kernel-evaluated). Proof, for the conversions that are not field copies: BitVec (any length), "
                      "Duration/Timestamp (all values except seconds = i64::MIN with negative nanos, shown to fail), SocketAddr "
                      "(ip+port), and order-independence of TimeoutQC (BTreeMap keyed by the derived lexicographic Ord, proved to be "
                      "a lawful total order), Schedule::new and the repaired mux handshake. PARTIAL for the remaining ~45 structural "
                      "read/build pairs (plain field copies, oneof wrappers) and for prost's encoder/decoder: these are not "
                      "modelled; they are covered by the monitors decode(encode x)==x, canonical==encode, canonical_raw(any "
                      "re-serialisation)==encode x, hash==keccak(encode) run on the implementation for every wire type.",
        "level_note": "Model = proto_fmt.rs after the F9 repair (446e7fe: a scalar field whose only records are empty packed chunks "
                      "writes nothing; the unrepaired code panicked at `values[0]`, the model never had that panic) and "
                      "mux/handshake.rs after the F7 repair (027f5b6: capabilities sorted by id). The generic value model has no notion of `oneof`: a buffer carrying two members of one oneof "
                      "is a value of the model, and canonical_raw accepts it and re-orders the members by field number (a "
                      "last-member-wins parser then sees the other member); no ProtoFmt::build produces such bytes and canonical() "
                      "only feeds prost's own output, so this is outside the property (the meaning-preservation monitor skips "
                      "such inputs). canonical_raw also accepts some buffers prost rejects (length prefixes with bits above 2^32 are "
                      "truncated by quick-protobuf); modelled and compared, not a violation. The typed models of TimeoutQC / Schedule / handshake are tied to the code by "
                      "byte-comparing their encodings with the implementation's, not by a proof that they inhabit the generated "
                      "schema.",
        "harness": "c09",
        "n": {"quick": 300, "thorough": 6000},
        "rule": "ops: (1) canon = canonical_raw on bytes under a schema of the regenerated table or an inline synthetic table "
                "(repeated scalars of every wire type, recursion, implicit presence, map, proto2): for each of 59 wire/storage "
                "types max(2,n/40) seeded values (repo generators + edge generator) -> prost bytes, 3 valid re-serialisations "
                "(shuffle / pad / mix; unpack / repack for schemas with repeated scalars) and 1-2 invalid mutations each; random "
                "generic trees over 21 schemas incl. synthetic ones; the directed empty-packed-chunk family (F9); (2) schema / "
                "names = prost-reflect's view of every message descriptor vs the translator's table; (3) typed conversions "
                "bitvec, bitvec_read, duration, timestamp, duration_read, sockaddr, sockaddr_read, tqc (insertion orders, "
                "duplicate keys), schedule (permutations, duplicate key, zero weight, overflow, no leader), muxhs. "
                "(4) buildcheck = zksync_protobuf_build::Config::generate (the only public route to canonical::check) on 13 small "
                ".proto texts (maps, implicit presence at several nesting levels, proto2, good ones) vs supportsCanonical on their "
                "descriptors. Monitors on the implementation: decode(encode x)==x, canonical==encode, decode(prost bytes)==x, "
                "decode(any re-serialisation)==x, canonical_raw(re-serialisation)==encode x, idempotence, meaning preserved "
                "as judged by prost-reflect's DynamicMessage, hash==keccak256(encode), TimeoutQC wire order ascending + "
                "insertion-order independence (bytes and Msg hash), Schedule permutation independence, mux handshake "
                "determinism, BitVec construction routes, nanos field in 0..10^9, build-time check == restriction. "
                "distinct = distinct op lines; non-trivial = outcome class differs from the modal class (ok) of the run",
        "trusted": ["the .proto reader in tools/translate.py (cross-checked on every run against prost-reflect / protox descriptors "
                    "by the `schema` ops, message by message)",
                    "quick-protobuf 0.8.1 reader/writer semantics as transcribed in Model/Wire.lean (varint32/64 truncation, "
                    "read_bytes, fixed32/64), exercised by the differential run",
                    "bit-vec's BitVec as a list of booleans with big-endian to_bytes/from_bytes; time 0.3 Duration arithmetic; "
                    "std HashMap/BTreeMap; prost's encoder produces *a* valid serialisation (all the canonicity theorem needs)",
                    "/repo/node/components/network/src/verif/wire.rs (hook: constructors for crate-private wire types; re-mounts "
                    "the three handshake source files)"],
        "assumptions": ["sizes below 4 GiB (quick-protobuf reads length prefixes into u32)",
                        "keccak256 / BLS are not modelled: hash agreement is reduced to byte agreement of the canonical encoding",
                        "IPv6 scope id / flow info are not part of the wire format; durations with seconds = i64::MIN and negative "
                        "nanoseconds are outside the property"],
        "explanation": "theorems: schema-generic wire layer (refinement, canonicity of every re-serialisation, lossless, injective, "
                       "rejections) + non-structural conversions + schema restriction on the regenerated table; K: canonical_raw and "
                       "the conversions vs the model on the same bytes; S: round-trip / canonicity / hash / insertion-order "
                       "monitors on the real types",
    }
