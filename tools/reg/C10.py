CFG = {
        "gen": ["MuxConst", "NoiseConst", "StoreConst", "StoreFns"],
        "props": ["EraVerif.Props.C10", "EraVerif.Props.C08gen"],
        "required_theorems": ["gen_contains_total", "handshake_read_in_bounds", 
            "mux_dispatch_total", "mux_dispatch_refines_spec", "mux_dispatch_err_iff", "mux_dispatch_legacy_panics",
            "read_exact_arm_total", "mux_data_split_bounded", "mux_inbound_never_panics_and_bounded", "parked_frames_hold_permits", "control_frames_hold_permits",
            "mux_inbound_terminates", "spawn_ids_in_range", "mux_handshake_read_total",
            "frame_len_checked_before_alloc", "frame_recv_ok_iff", "mux_recv_ok_iff", "truncated_frame_rejected", "frame_unchecked_allocates", "preface_alloc_bounded",
            "noise_buffers_in_bounds", "noise_frame_always_fits",
            "timestamp_read_total", "duration_read_total", "duration_read_ok_iff", "duration_read_value",
            "timestamp_read_legacy_panics", "duration_legacy_panics_iff", "duration_build_total", "duration_build_legacy_overflows_iff",
            "duration_build_legacy_witness", "timestamp_debug_legacy_unreachable_after_f12", "timestamp_display_total", "timestamp_display_legacy_panics", "timestamp_display_legacy_panics_iff", "timestamp_debug_total", "timestamp_debug_legacy_panics", "timestamp_debug_legacy_panics_iff",
            "bitvec_read_total", "bitvec_read_ok_iff", "socketaddr_read_total",
            "ratelimit_read_total", "read_total", "all_readers_safe", "every_reader_total", "genesis_read_total",
            "genesis_read_legacy_panics", "read_language_can_panic", "canonical_total", "canonical_legacy_panics_iff",
            "no_values_iff", "commit_qc_verify_total", "timeout_qc_verify_total", "replica_timeout_verify_total",
            "justification_verify_total", "commit_qc_len_check_is_load_bearing", "implied_block_total_of_verified",
            "implied_block_panics_at_max", "replica_vote_caches_total", "commit_qc_add_twice_fails", "contains_total", "contains_spec", "next_panics_iff",
            "verify_ok_iff", "head_spec", "contains_via_next_panics", "contains_via_next_agrees", "view_next_wraps_release_panics_checked", "selection_with_max_view"],
        "technique": "Lean 4 totality theorems over executable models with explicit panic outcomes (masks and buffer "
                     "constants regenerated from header.rs / noise/stream.rs by the translator) + differential run of every "
                     "network entry point against the models",
        "level_text": "PARTIAL by construction. Proved, for ALL inputs with no size bound, on hand-transcribed models in which "
                      "every unwrap/expect/unreachable!/assert!/index is an explicit panic outcome: mux header dispatch never "
                      "panics and equals its arithmetic spec on all 65536 headers (over the generated masks); DATA splitting "
                      "terminates, pieces <= read_frame_size and sum = length; the inbound mux loop never panics on any byte "
                      "string and never parks more than read_frame_count frames / read_buffer_size bytes while the application "
                      "does not read; spawn_streams only builds valid stream ids for any peer handshake; recv_proto / "
                      "mux_recv_proto / preface::accept allocate at most max_size per message, return a value iff the whole announced "
                      "body arrived and decodes, and reject every frame cut short by end of stream whatever the decoder would say "
                      "about the prefix (truncated_frame_rejected); the noise read path never "
                      "slices out of range, keeps both buffers within the generated capacities, always fits a complete frame and "
                      "terminates, for every byte stream, fragmentation and decryption oracle; Timestamp/Duration/BitVector/"
                      "SocketAddr/RateLimit reads are total with exact acceptance conditions; every ProtoFmt/ProtoRepr::read of "
                      "protobuf, roles and network (56 message types, any field present/absent, any scalar) is total; "
                      "Genesis::read is total for every protocol_version; canonical_raw is total on every field map; "
                      "CommitQC/ReplicaTimeout/TimeoutQC/ProposalJustification::verify are total for any signer bitmap lengths and "
                      "any view/block numbers, get_implied_block is total after verification unless a quorum certified block "
                      "2^64-1; on_commit / on_timeout never reach their two .expect(\"could not add ...\"), the "
                      "remove(..).unwrap()s or get_justification's assert on any sequence of signed votes (inductive invariant "
                      "over the vote caches); BlockStoreState::contains (evaluated by the block fetcher on the PEER-supplied "
                      "announcement, gossip/fetch.rs:97) is total with the exact closed-range value for every state, verified or not, "
                      "while next() panics iff last = 2^64-1 - so contains must not be written through next() (the half-open rewrite "
                      "is proved to panic on the verified announcement {first 0, last 2^64-1}). Peer-supplied block numbers reach "
                      "only comparisons: fetch.rs:97 contains; runner.rs get_block handler -> manager.rs:158 queued.contains + "
                      "block_store.rs:23 checked_sub; runner.rs fetched block -> number equality, manager.rs:187/217 and "
                      "block_store.rs:31 compare against the LOCAL next(); runner.rs:90 verify. Every other next()/prev()/+1 in "
                      "network, engine, executor is applied to the node's own store / own announcement / local ids and overflows "
                      "only if the node itself holds block or version 2^64-1 (list in Model/C10Store.lean). The repairs of F3, F4, F5, F9, F10 (Display of time::Utc), F11 (Debug of "
                      "time::Utc) and F12 (Duration::build overflow below i64::MIN seconds) are load-bearing: the pre-repair transcriptions are proved to panic "
                      "on the concrete witnesses. NOT modelled (third party, only exercised by the correspondence run): "
                      "prost/quick_protobuf byte decoding, snow (Noise handshake and AEAD), blst / ed25519-dalek key and signature "
                      "validation, semver, tokio; they enter the models as arbitrary oracles. NOT modelled, only exercised end to end by the `node` family (a real "
                      "network+engine instance with the block fetcher running, fed well-formed absurd messages of every gossip RPC and "
                      "of the consensus RPC by a raw peer, then probed for liveness under a panic / hang / allocation monitor): the "
                      "gossip RPC handlers, fetch queue, engine manager queueing and persistence. NOT modelled: on_proposal / on_new_view "
                      "beyond what runs before and during verification (view(), view_leader is C11, verify, get_implied_block), "
                      "block storage and persistence - extreme well-signed proposals / new-views are only fed to a real replica "
                      "under a panic monitor; memory safety and allocation failure.",
        "level_note": "F6 (ViewNumber::next = self.0 + 1 on the view of an unverified certificate, in the queue selection "
                      "function and on_new_view/on_proposal) is modelled with the shipping semantics (wraps to 0; theorem "
                      "view_next_wraps_release_panics_checked also states the checked-build panic); it does not manifest in "
                      "the harness because the harness, like the release profile, is built with overflow-checks off. "
                      "get_implied_block panics (BlockNumber::next = checked_add(1).unwrap()) on a certificate for block 2^64-1; "
                      "such a certificate needs a quorum of signatures, i.e. correct validators voting for it, which is outside "
                      "the fault model (theorem implied_block_panics_at_max records the witness). With read_frame_size = 0 "
                      "(accepted by Config::verify, never used: MUX_CONFIG has 16 kB) the DATA split loop does not terminate. "
                      "tools/src/config.rs readers (local config files) are neither modelled nor fuzzed. mux::Handshake::read is "
                      "modelled and exercised through Mux::run only (the type is private to mux).",
        "harness": ["c10", "c05", "cepoch"],
        "scope": {"c05": {"oracle_only": "panicked", "ignore_k": True}, "cepoch": {"oracle_only": "^panic", "ignore_k": True}},
        "n": {"quick": [2500, 1200, 3000], "thorough": [60000, 12000, 60000]},
        "timeout": {"quick": 900, "thorough": 7200},
        "rule": "op families: std leaves on the full boundary grid of (seconds, nanos), (size, bytes), (ip length, port) plus "
                "random; 4N structure-aware message trees over the 56 decoders (descriptor-driven: fields absent with "
                "p in {0,2,5,15}%, boundary scalars, valid/invalid key, signature and hash bytes, duplicated list elements) of "
                "which 25% are byte-level mutations of the valid encoding (bit flip, truncation, duplicated / dropped / "
                "retyped field, unknown field, random bytes) re-decoded reflectively; mux: every 3-bit kind pattern x ids "
                "around the table sizes, N/2 random 16-bit headers (thorough: all 65536), truncated inputs, N/2 random frame "
                "sequences against small (read_frame_size, read_buffer_size, read_frame_count) with and without OPEN, maximal "
                "DATA frames, 11 floods of 64 kB..256 kB (thorough: 1 MiB) of OPEN / CLOSE / alternating OPEN-CLOSE-zero-length-DATA / "
                "small-DATA frames for one opened stream whose consumer is parked, under the production and a small config (monitor: "
                "bytes taken from the transport <= 2 + 4*read_frame_count + read_buffer_size + 4 + read_frame_size + permit-free bytes), mux handshakes with missing/duplicate/maximal capabilities incl. 8192+8192 streams; frames: "
                "length prefix = true / max / max+1 / 2^26 / 2^32-1 / body+-1, truncations; RPC calls by a raw mux peer per "
                "capability; ~85 `trunc` cases: valid push_validator_addrs (1/2/5 entries), get_block response/request, ping, "
                "push_tx, push_block_store_state and consensus requests announced with their full length on a real mux stream "
                "but cut at offset 0, at every top-level field boundary (+1), mid-field and not at all, then CLOSEd, through the "
                "real frame::mux_recv_proto (monitor: no value may be delivered when fewer than the announced bytes arrived); preface over TCP loopback (each stage valid / oversized / truncated / garbage / tampered); "
                "noise: authentic, empty, tampered, junk and truncated frames up to 65535 bytes under several fragmentations; "
                "canonical_raw on a schema with repeated scalars incl. empty packed chunks; selection function on the view "
                "wrap-around grid; CommitQC/TimeoutQC verification and get_implied_block on bitmaps of every length class and "
                "extreme view/block numbers; N/8 sequences of signed commit/timeout votes into a fresh real replica (full rounds "
                "that form certificates and advance / wrap the view, duplicates, non-members, bad signatures, foreign "
                "genesis/epoch, malformed high certificates) compared verdict by verdict with the cache model; extreme "
                "well-signed messages into a real replica; ~530 BlockStoreState::{contains,head,verify,next} evaluations on the "
                "boundary grid {0,1,2,5,2^63,2^64-3..2^64-1}^3 with PreGenesis and FinalV2 last; ~45 `node` cases: a fresh real node "
                "(first_block 0/1/3, with and without pre-genesis range, 2 validators) and a raw gossip peer sending "
                "push_block_store_state for every (first, last kind, last) boundary combination incl. first > last and last = "
                "2^64-1 while fetch requests are pending, answering the node's get_block calls with the right / no / wrong / "
                "2^64-1-numbered / oversized / garbage / empty / no answer, get_block requests for extreme numbers, "
                "push_validator_addrs with extreme versions, timestamps, duplicate, unknown and mis-signed entries, push_tx of "
                "0..100 kB, ping, and signed consensus messages with extreme views over the consensus endpoint; afterwards an "
                "honest peer must get a pong and have its announced block fetched and persisted. distinct = distinct op lines; "
                "non-trivial = not the modal observation class",
        "trusted": ["the hand transcription of the Rust functions into Lean/Model/C10*.lean (checked only by the differential run)",
                    "the constant / mask extraction of tools/translate.py for header.rs and noise/stream.rs",
                    "prost-reflect's DynamicMessage decoding agrees with the generated prost structs on which fields are "
                    "present (used to describe byte-mutated inputs to the model)"],
        "assumptions": ["third-party decoders and crypto (prost, quick_protobuf, snow, blst, ed25519-dalek, semver, time, bit-vec) "
                        "terminate without panicking on every input; they are oracles in the models and are only exercised",
                        "release arithmetic: `+` wraps (overflow-checks off), as in the shipping profile",
                        "fewer than a quorum of validators sign certificates with absurd block numbers"],
        "explanation": "T regenerates the mux masks and noise buffer constants; P proves totality / boundedness over all inputs "
                       "on the models; K feeds the same operation to the real entry point (under catch_unwind, with an "
                       "allocation monitor) and to the model and compares class, values, bytes consumed, streams spawned; "
                       "S reports every panic, every allocation above the stage limit and every decoded value that cannot be "
                       "rendered",
    }
